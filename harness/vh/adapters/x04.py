"""X04 (extension) - esutil.sqlite_util (numpy-aware sqlite connection, dict2table, type maps) and esutil.xmltools.

spec -> code : TableStoreMC.tla explores every history of public calls (array2table / dict2table / execute in three
               modes / table_exists / describe + table_info + tabledef2dtype / info / drop / add_index / a new
               connection) up to a depth on two tables with a small catalogue of arrays, and scripted histories
               (write - read - describe - append - read - create - read - drop) for EVERY column-type sequence over
               i2 i4 i8 f4 f8 S U; it checks StoreInv / StoreProps and that the implementation-shaped mechanism
               (row factory switched off and on, index names, module add_index) refines the contract once the three
               deviations of the code as found are removed (and does not with each of them: self-test).  Histories
               are exported (all of a length, transition tour, -simulate) and executed on a real database file in a
               scratch directory (/dev/shm/X04-* when there is one, else /tmp/X04-*).  The cases of the pure helpers
               and the bounded dict values / element trees of xmltools are enumerated by the same module.
code -> spec : after every call an independent plain sqlite3 connection projects the database file onto the model's
               state (tables, declared columns, rows, indexes, stray files); the recorded (call, result, projection)
               traces - replays and seeded random sequences - are judged by TableStoreTrace.tla.
Python never judges: it builds concrete arrays / dicts / XML from abstract cases, records, and builds signatures
from what TLC reports.
"""
import io
import json
import math
import multiprocessing as mp
import os
import random
import shutil
import sys
import tempfile
from fractions import Fraction

from ..core import MachineryError, jsonable
from ..tlc import cfg

NEEDS_EXT = True      # "import esutil" needs the compiled extensions (the build is cached)

TABLES = {"t1": "cat", "t2": "Gal2"}
TBACK = {v: k for k, v in TABLES.items()}
CHARS = {0: " ", 1: "a", 2: "b", 3: "1"}
CBACK = {v: k for k, v in CHARS.items()}
CBACK["\x00"] = 0
WIDTH = 3
NPCODE = {"i1": "i1", "i2": "i2", "i4": "i4", "i8": "i8", "u1": "u1", "u2": "u2", "u4": "u4", "u8": "u8", "f4": "f4",
          "f8": "f8", "S": "S%d" % WIDTH, "U": "U%d" % WIDTH, "f2": "f2", "c8": "c8", "b1": "b1", "O": "O"}
LATTICE = ["0.5", "0.1", "-1e+30", "-1.25", "1e+300"]
BIG = 1000000
TRACE_CONSTS = {"Tables": set(TABLES)}
STORE_OPS = ["a2t", "d2t", "read", "exists", "describe", "info", "drop", "add_index", "reopen"]
PURE_OPS = ["n2s", "s2n", "tdef", "py2s", "ddef", "ensure", "d2x", "x2d", "xrt", "xwrap"]
EV_FIELDS = ("op", "t", "cols", "rows", "create", "clobber", "cleanup", "mode", "icols", "via")
PURE_FIELDS = {"n2s": ("op", "ty", "sp"), "s2n": ("op", "decl", "size", "sp"), "tdef": ("op", "cols", "arrcol"),
               "py2s": ("op", "p"), "ddef": ("op", "cols", "rev", "astext"), "ensure": ("op", "x"),
               "d2x": ("op", "tag", "v", "useroot"), "x2d": ("op", "e", "noroot", "seproot"), "xrt": ("op", "tag", "v"),
               "xwrap": ("op", "v")}
ENTRY = {"a2t": "SqliteConnection.array2table", "d2t": "sqlite_util.dict2table", "read": "SqliteConnection.execute",
         "exists": "SqliteConnection.table_exists", "describe": "SqliteConnection.describe/table_info",
         "info": "SqliteConnection.info", "drop": "SqliteConnection.drop", "add_index": "add_index",
         "reopen": "SqliteConnection", "n2s": "sqlite_util.numpy2sqlite", "s2n": "sqlite_util.sqlite2numpy",
         "tdef": "sqlite_util.descr2tabledef", "py2s": "sqlite_util.py2sqlite", "ddef": "sqlite_util.dict2tabledef",
         "ensure": "sqlite_util.dict_ensurelist", "d2x": "xmltools.dict2xml", "x2d": "xmltools.xml2dict",
         "xrt": "xmltools.dict2xml+xml2dict", "xwrap": "xmltools.XmlDictObject.Wrap"}
XSTR = {"x": "x", "y": "y", "": "", "sp": "  x ", "ws": "  \n ", "v": "v"}
XBACK = {v: k for k, v in XSTR.items()}
XBACK.update({"7": "7", "None": "None"})


def scratch_base():
    for d in ("/dev/shm", "/tmp"):
        if os.path.isdir(d) and os.access(d, os.W_OK):
            return d
    return tempfile.gettempdir()


def ev(op, **kw):
    e = {"op": op, "t": "none", "cols": [], "rows": [], "create": False, "clobber": False, "cleanup": True, "mode": "none",
         "icols": [], "via": "none"}
    e.update(kw)
    return e


# ---------------------------------------------------------------------------------------------------
# abstract <-> concrete values
# ---------------------------------------------------------------------------------------------------
def text_of(codes):
    return "".join(CHARS[c] for c in codes)


def codes_of(s):
    if isinstance(s, bytes):
        s = s.decode("latin-1")
    return [CBACK.get(ch, 9) for ch in s]


def float_cell(r):
    """project a float onto the lattice: (decimal text, class) - e64: equal to the correctly rounded double, u64: within
    4 ulp of it, e32 / u32: the same in single precision, off: none of the lattice values"""
    r = float(r)
    if r != r or r in (float("inf"), float("-inf")):
        return repr(r), "off"
    import numpy as np
    best = None
    for s in LATTICE:
        x = float(s)
        if r == x:
            return s, "e64"
        dev = abs(Fraction(r) - Fraction(s))
        with np.errstate(all="ignore"):
            x32, r32 = np.float32(x), np.float32(r)
            single = bool(np.isfinite(x32)) and x32 != 0
            sp32 = float(np.spacing(np.abs(x32))) if single else 0.0
        if dev <= 4 * Fraction(math.ulp(x)):
            cls = "u64"
        elif single and r32 == x32:
            cls = "e32"
        elif single and dev <= 4 * Fraction(sp32):
            cls = "u32"
        else:
            continue
        if best is None:
            best = (s, cls)
    return best or (repr(r), "off")


def cell_of(v):
    import numpy as np
    if isinstance(v, (bool, np.bool_)):
        return {"k": "bool", "s": str(v), "c": [], "fc": ""}
    if isinstance(v, (int, np.integer)):
        return {"k": "int", "s": str(int(v)), "c": [], "fc": ""}
    if isinstance(v, (float, np.floating)):
        s, fc = float_cell(v)
        return {"k": "real", "s": s, "c": [], "fc": fc}
    if isinstance(v, (str, bytes)):
        return {"k": "text", "s": "", "c": codes_of(v), "fc": ""}
    if v is None:
        return {"k": "null", "s": "", "c": [], "fc": ""}
    return {"k": "other", "s": repr(v)[:40], "c": [], "fc": ""}


def make_array(cols, rows, rng):
    import numpy as np
    style = rng.choice(["plain", "plain", "swapped", "strided"])
    descr = []
    for c in cols:
        code = NPCODE[c["ty"]]
        if style == "swapped" and code[0] in "iuf" and code[1:] not in ("1",):
            code = (">" if sys.byteorder == "little" else "<") + code
        descr.append((c["name"], code))
    n = len(rows)
    base = np.zeros(2 * n if style == "strided" else n, dtype=descr)
    arr = base[::2] if style == "strided" else base
    for r, row in enumerate(rows):
        for c, cell in zip(cols, row):
            k = c["ty"]
            if k in ("S", "U"):
                arr[c["name"]][r] = text_of(cell["c"]).encode() if k == "S" else text_of(cell["c"])
            elif k[0] == "f":
                arr[c["name"]][r] = float(cell["s"])
            else:
                arr[c["name"]][r] = int(cell["s"])
    return arr, style


def make_dicts(cols, rows):
    out = []
    for row in rows:
        d = {}
        for c, cell in zip(cols, row):
            d[c["name"]] = (int(cell["s"]) if c["ty"] == "pyint" else float(cell["s"]) if c["ty"] == "pyfloat"
                            else text_of(cell["c"]))
        out.append(d)
    return out


# ---------------------------------------------------------------------------------------------------
# one scratch directory + one connection
# ---------------------------------------------------------------------------------------------------
class World:
    def __init__(self):
        self.dir = tempfile.mkdtemp(prefix="X04-%d-" % os.getpid(), dir=scratch_base())
        self.db = os.path.join(self.dir, "store.db")
        self.sc = None
        self.rng = None

    def reset(self, seed, tid):
        from esutil import sqlite_util as su
        self.close()
        for x in os.listdir(self.dir):
            p = os.path.join(self.dir, x)
            if os.path.isdir(p):
                shutil.rmtree(p)
            else:
                os.unlink(p)
        self.rng = random.Random("%d/%d" % (seed, tid))
        self.sc = su.SqliteConnection(self.db, tmpdir=self.dir)
        p = self.project()
        if p["other"] or p["idx"] or p["stray"] or any(t["ex"] for t in p["tabs"].values()):
            raise MachineryError("scratch database is not pristine after reset: %s" % p)

    def reopen(self):
        from esutil import sqlite_util as su
        self.close()
        self.sc = su.SqliteConnection(self.db, tmpdir=self.dir)

    def close(self):
        if self.sc is not None:
            try:
                self.sc.close()
            except Exception:
                pass
            self.sc = None

    def cleanup(self):
        self.close()
        shutil.rmtree(self.dir, ignore_errors=True)

    def raw(self):
        import sqlite3
        return sqlite3.connect(self.db)

    def project(self):
        """the database file as an independent connection sees it"""
        tabs = {t: {"ex": False, "cols": [], "rows": []} for t in TABLES}
        other, idx = 0, []
        if os.path.exists(self.db):
            con = self.raw()
            try:
                for typ, name, tbl in con.execute("select type, name, tbl_name from sqlite_master").fetchall():
                    if typ == "table":
                        t = TBACK.get(name)
                        if t is None:
                            other += 1
                            continue
                        info = con.execute('pragma table_info("%s")' % name).fetchall()
                        cols = [{"name": r[1], "k": {"integer": "int", "real": "real", "text": "text"}.get(r[2].strip().lower(), "other")}
                                for r in info]
                        rows = [[cell_of(v) for v in row] for row in con.execute('select * from "%s" order by rowid' % name).fetchall()]
                        tabs[t] = {"ex": True, "cols": cols, "rows": rows}
                    elif typ == "index":
                        cols = [r[2] for r in con.execute('pragma index_info("%s")' % name).fetchall()]
                        idx.append([TBACK.get(tbl, "other:" + tbl), cols])
            finally:
                con.close()
        stray = len([x for x in os.listdir(self.dir) if not x.startswith("store.db")])
        return {"tabs": tabs, "other": other, "idx": sorted(idx), "stray": stray}

    def columns(self, t):
        """declared columns of the table (what a user reads off describe()) -> [(name, kind word)]"""
        if not os.path.exists(self.db):
            return []
        con = self.raw()
        try:
            return [(r[1], r[2].strip().lower()) for r in con.execute('pragma table_info("%s")' % TABLES[t]).fetchall()]
        finally:
            con.close()


def _call(fn, *a, **k):
    try:
        return "none", fn(*a, **k), ""
    except Exception as e:
        return "rejected", None, "%s: %s" % (type(e).__name__, " ".join(str(e).split())[:100])


def read_obs(names, kinds, sizes, rows):
    return {"n": len(rows), "names": list(names), "lnames": [n.lower() for n in names], "kinds": kinds, "sizes": sizes,
            "rows": [[cell_of(v) for v in row] for row in rows]}


NOREAD = {"n": -1, "names": [], "lnames": [], "kinds": [], "sizes": [], "rows": []}
NODESC = {"names": [], "tkinds": []}
NOINFO = {"tabs": [], "idx": []}


def exec_store(W, e):
    from esutil import sqlite_util as su
    op, t = e["op"], e["t"]
    name = TABLES.get(t, "none")
    rng = W.rng
    res, info = {"err": "none", "val": 0}, {}
    if op == "a2t":
        arr, style = make_array(e["cols"], e["rows"], rng)
        kw = {}
        if e["create"] or rng.random() < 0.3:
            kw["create"] = e["create"]
        if not e["cleanup"] or rng.random() < 0.3:
            kw["cleanup"] = e["cleanup"]
        fn = W.sc.fromarray if rng.random() < 0.15 else W.sc.array2table
        info["call"] = "%s(<%s %s x%d>, %r, %s)" % (fn.__name__, style, arr.dtype.descr, len(arr), name,
                                                   ", ".join("%s=%r" % kv for kv in sorted(kw.items())))
        res["err"], _, info["exc"] = _call(fn, arr, name, **kw)
    elif op == "d2t":
        dicts = make_dicts(e["cols"], e["rows"])
        data = dicts[0] if len(dicts) == 1 and rng.random() < 0.5 else tuple(dicts) if dicts and rng.random() < 0.2 else dicts
        kw = {"tmpdir": W.dir}
        if not e["clobber"] or rng.random() < 0.5:
            kw["clobber"] = e["clobber"]
        if e["icols"]:
            kw["indices"] = [e["icols"][0] if len(e["icols"]) == 1 else list(e["icols"])]
        if not e["cleanup"]:
            kw["cleanup"] = False
        if dicts and rng.random() < 0.25:
            kw["keys"] = [c["name"] for c in e["cols"]]
        info["call"] = "dict2table(%r, db, %r, %s)" % (data, name, ", ".join("%s=%r" % kv for kv in sorted(kw.items()) if kv[0] != "tmpdir"))
        if e["clobber"]:
            W.close()      # the database file is about to be removed: no connection is left open on it
        res["err"], _, info["exc"] = _call(su.dict2table, data, W.db, name, **kw)
        if e["clobber"]:
            W.reopen()
    elif op == "read":
        q = "select * from %s" % name
        mode = e["mode"]
        res["val"] = dict(NOREAD)
        if mode == "cursor":
            def go():
                curs = W.sc.execute(q)
                rows = [tuple(r) for r in curs.fetchall()]
                return read_obs([d[0] for d in curs.description], [""] * len(curs.description), [BIG] * len(curs.description), rows)
            info["call"] = "execute(%r).fetchall()" % q
        else:
            kw = {"asarray": True}
            if mode == "dtype":
                cols = W.columns(t)
                kw["dtype"] = [(n, {"integer": "i8", "real": "f8"}.get(k, "S8")) for n, k in cols] or [("a", "i8")]

            def go():
                arr = W.sc.execute(q, **kw)
                names = arr.dtype.names or ()
                return read_obs(names, [arr.dtype[n].kind for n in names],
                                [arr.dtype[n].itemsize // (4 if arr.dtype[n].kind == "U" else 1) if arr.dtype[n].kind in "SU" else 0
                                 for n in names], [tuple(r) for r in arr.tolist()] if names else [() for _ in range(len(arr))])
            info["call"] = "execute(%r, %s)" % (q, ", ".join("%s=%r" % kv for kv in sorted(kw.items())))
        res["err"], val, info["exc"] = _call(go)
        if val is not None:
            res["val"] = val
    elif op == "exists":
        info["call"] = "table_exists(%r)" % name
        res["err"], val, info["exc"] = _call(W.sc.table_exists, name)
        res["val"] = val if isinstance(val, bool) else False
        if res["err"] == "none" and not isinstance(val, bool):
            info["notbool"] = repr(val)
    elif op == "describe":
        mode = e["mode"]
        res["val"] = dict(NODESC)
        kword = lambda s: s.strip().lower() if s.strip().lower() in ("integer", "real", "text") else "other:" + s
        if mode == "describe":
            def go():
                buf, old = io.StringIO(), su.stdout
                su.stdout = buf
                try:
                    if rng.random() < 0.5:
                        W.sc.describe("table", name)
                    else:
                        W.sc.describe_table(name)
                finally:
                    su.stdout = old
                lines = buf.getvalue().splitlines()[2:]
                return {"names": [l.split()[0] for l in lines], "tkinds": [kword(l.split()[1]) for l in lines]}
            info["call"] = "describe('table', %r)" % name
        elif mode == "t2d":
            def go():
                d = su.tabledef2dtype(W.sc.table_info(name))
                return {"names": [x[0] for x in d], "tkinds": [x[1] for x in d]}
            info["call"] = "tabledef2dtype(table_info(%r))" % name
        else:
            kw = {}
            if mode == "tinfo_cols":
                cols = W.columns(t)
                kw["columns"] = [cols[0][0] if cols else "a"]

            def go():
                rows = W.sc.table_info(name, **kw)
                return {"names": [r["name"] for r in rows], "tkinds": [kword(r["type"]) for r in rows]}
            info["call"] = "table_info(%r%s) rows by field name" % (name, ", columns=%r" % kw["columns"] if kw else "")
        res["err"], val, info["exc"] = _call(go)
        if val is not None:
            res["val"] = val
    elif op == "info":
        mode = e["mode"]
        res["val"] = dict(NOINFO)

        def go():
            rows = (W.sc.info("table") if mode == "tables" else W.sc.table_info() if mode == "tables2" else
                    W.sc.info("index") if mode == "indexes" else W.sc.info())
            tabs, idx = [], []
            con = W.raw()
            try:
                for r in rows:
                    if r["type"] == "table":
                        tabs.append(TBACK.get(r["name"], "other:" + r["name"]))
                    elif r["type"] == "index":
                        cols = [x[2] for x in con.execute('pragma index_info("%s")' % r["name"]).fetchall()]
                        idx.append([TBACK.get(r["tbl_name"], "other:" + r["tbl_name"]), cols])
            finally:
                con.close()
            return {"tabs": sorted(tabs), "idx": sorted(idx)}
        info["call"] = {"tables": "info('table')", "tables2": "table_info()", "indexes": "info('index')", "all": "info()"}[mode]
        res["err"], val, info["exc"] = _call(go)
        if val is not None:
            res["val"] = val
    elif op == "drop":
        info["call"] = "drop('table', %r)" % name
        res["err"], _, info["exc"] = _call(W.sc.drop, "table", name)
    elif op == "add_index":
        cols = e["icols"][0] if len(e["icols"]) == 1 and rng.random() < 0.6 else list(e["icols"])
        if e["via"] == "module":
            info["call"] = "sqlite_util.add_index(db, %r, %r)" % (name, cols)
            res["err"], _, info["exc"] = _call(su.add_index, W.db, name, cols)
        else:
            info["call"] = "sc.add_index(%r, %r)" % (name, cols)
            res["err"], _, info["exc"] = _call(W.sc.add_index, name, cols)
    elif op == "reopen":
        info["call"] = "close(); SqliteConnection(db)"
        res["err"], _, info["exc"] = _call(W.reopen)
    else:
        raise MachineryError("unknown event %r" % (e,))
    return res, info


# ---------------------------------------------------------------------------------------------------
# pure helpers and xmltools
# ---------------------------------------------------------------------------------------------------
def xval(n):
    """DN node -> python value"""
    t = n["t"]
    if t == "s":
        return XSTR[n["s"]]
    if t == "i":
        return int(n["s"])
    if t == "none":
        return None
    if t == "l":
        return [xval(k) for k in n["k"]]
    return {key: xval(k) for key, k in zip(n["keys"], n["k"])}


def xtok(s):
    return XBACK.get(s, "?" + s) if isinstance(s, str) else "?" + repr(s)


def xenc(v):
    """python value -> canonical DN node (dict keys sorted)"""
    if isinstance(v, dict):
        keys = sorted(v, key=str)
        return {"t": "d", "s": "", "keys": [str(k) for k in keys], "k": [xenc(v[k]) for k in keys]}
    if isinstance(v, (list, tuple)):
        return {"t": "l", "s": "", "keys": [], "k": [xenc(x) for x in v]}
    if isinstance(v, str):
        return {"t": "s", "s": xtok(v), "keys": [], "k": []}
    if v is None:
        return {"t": "none", "s": "", "keys": [], "k": []}
    if isinstance(v, int) and not isinstance(v, bool):
        return {"t": "i", "s": str(v), "keys": [], "k": []}
    return {"t": "?", "s": repr(v)[:40], "keys": [], "k": []}


def xtree(el):
    """Element -> canonical tree (text stripped, children grouped by tag in a stable way, attributes by name)"""
    kids = sorted((xtree(c) for c in el), key=lambda c: c["tag"])
    return {"tag": el.tag if isinstance(el.tag, str) else "?" + repr(el.tag), "text": xtok((el.text or "").strip()),
            "attrs": [{"n": n, "v": xtok(v)} for n, v in sorted(el.items())], "k": kids}


def xbuild(e, rng):
    from xml.etree import ElementTree as ET
    el = ET.Element(e["tag"], {a["n"]: XSTR.get(a["v"], a["v"]) for a in e["attrs"]})
    if e["text"] != "" or rng.random() < 0.3:
        el.text = XSTR[e["text"]] if e["text"] != "" else rng.choice(["", "\n  "])
    for k in e["k"]:
        c = xbuild(k, rng)
        c.tail = rng.choice([None, "\n", "  \n  "])
        el.append(c)
    return el


def dict_nodes(v):
    if isinstance(v, dict):
        yield v
        for x in v.values():
            yield from dict_nodes(x)
    elif isinstance(v, list):
        for x in v:
            yield from dict_nodes(x)


def classes_ok(v, cls):
    from esutil import xmltools as xt
    for d in dict_nodes(v):
        if type(d) is not cls:
            return False
        if cls is xt.XmlDictObject:
            for k in d:
                if isinstance(k, str) and k.isidentifier() and getattr(d, k) is not d[k]:
                    return False
    return True


def exec_pure(W, e):
    from esutil import sqlite_util as su
    from esutil import xmltools as xt
    from xml.etree import ElementTree as ET
    import numpy as np
    op, rng = e["op"], W.rng
    res, info = {"err": "none", "val": 0}, {}
    if op == "n2s":
        code = {"S": "S5", "U": "U4"}.get(e["ty"], NPCODE[e["ty"]])
        sp = e["sp"]
        s = code
        if sp == "lt":
            s = ("|" if code[0] == "S" else "<") + code
        elif sp == "gt":
            s = ("|" if code[0] == "S" else ">") + code
        elif sp == "name" and code[0] in "iuf" and code != "f2":
            s = np.dtype(code).name
        info["call"] = "numpy2sqlite(%r)" % s
        res["err"], val, info["exc"] = _call(su.numpy2sqlite, s)
        res["val"] = val if isinstance(val, str) else "?"
    elif op == "s2n":
        s = e["decl"].upper() if e["sp"] == "upper" else e["decl"]
        kw = {"size": e["size"]} if e["size"] else {}
        info["call"] = "sqlite2numpy(%r%s)" % (s, ", size=%d" % e["size"] if kw else "")
        res["err"], val, info["exc"] = _call(su.sqlite2numpy, s, **kw)
        val = val if isinstance(val, str) else "?"
        res.update(val=val, sclass="S*" if val.startswith("S") else val, sized=bool(kw) and val == "S%d" % e["size"])
    elif op in ("tdef", "ddef"):
        res["val"] = {"names": [], "tkinds": [], "t2d": {"err": "none", "names": [], "codes": []}}

        def go():
            if op == "tdef":
                descr = [(c["name"], ("<" if NPCODE[c["ty"]][0] in "iufU" and rng.random() < 0.5 else "") + NPCODE[c["ty"]])
                         for c in e["cols"]]
                if e["arrcol"]:
                    descr[-1] = descr[-1] + ((2,),)
                info["call"] = "descr2tabledef(%r, 'tt')" % (descr,)
                tdef = su.descr2tabledef(descr, "tt")
            else:
                d = {c["name"]: {"pyint": 1, "pyfloat": 0.5, "pystr": "ab"}[c["ty"]] for c in e["cols"]}
                kw = {}
                if e["rev"]:
                    kw["keys"] = list(reversed(list(d)))
                if e["astext"]:
                    kw["types"] = ["text"] * len(d)
                info["call"] = "dict2tabledef(%r, 'tt', %s)" % (d, ", ".join("%s=%r" % kv for kv in sorted(kw.items())))
                tdef = su.dict2tabledef(d, "tt", **kw)
            sc = su.SqliteConnection(":memory:")
            try:
                sc.execute(tdef)
                ti = sc.table_info("tt")
                kword = lambda s: s.strip().lower() if s.strip().lower() in ("integer", "real", "text") else "other:" + s
                out = {"names": [r["name"] for r in ti], "tkinds": [kword(r["type"]) for r in ti],
                       "t2d": {"err": "none", "names": [], "codes": []}}
                err, d2, _ = _call(su.tabledef2dtype, ti)
                out["t2d"] = {"err": err, "names": [x[0] for x in d2 or []], "codes": [x[1] for x in d2 or []]}
                return out
            finally:
                sc.close()
        res["err"], val, info["exc"] = _call(go)
        if val is not None:
            res["val"] = val
    elif op == "py2s":
        v = {"int": 5, "float": 2.5, "str": "s", "bytes": b"b", "none": None, "list": [1], "bool": True,
             "npint": np.int64(3), "npfloat": np.float64(2.5)}[e["p"]]
        info["call"] = "py2sqlite(%r)" % (v,)
        res["err"], val, info["exc"] = _call(su.py2sqlite, v)
        res["val"] = val if isinstance(val, str) else "?"
    elif op == "ensure":
        x = {"dict": {"a": 1}, "list": [{"a": 1}, {"a": 2}], "tuple": ({"a": 1},), "int": 5, "str": "abc", "listofint": [1, 2],
             "emptylist": []}[e["x"]]
        info["call"] = "dict_ensurelist(%r)" % (x,)
        res["err"], val, info["exc"] = _call(su.dict_ensurelist, x)
        res["val"] = ("same" if val is x else "wrapped" if isinstance(val, list) and len(val) == 1 and val[0] is x else "other")
    elif op == "d2x":
        v = xval(e["v"])
        out = rng.choice(["none", "none", "filename", "fileobj", "bytesio"])
        path = os.path.join(W.dir, "out.xml")
        res["val"] = {"tree": {"tag": "?", "text": "", "attrs": [], "k": []}, "file": {"tag": "?", "text": "", "attrs": [], "k": []}}

        def go():
            args = ({e["tag"]: v},) if not e["useroot"] else (v,)
            kw = {"roottag": e["tag"]} if e["useroot"] else {}
            data = None
            if out == "filename":
                el = xt.dict2xml(*args, path, **kw) if rng.random() < 0.5 else xt.dict2xml(*args, filename_or_obj=path, **kw)
            elif out == "fileobj":
                with open(path, "wb") as f:
                    el = xt.dict2xml(*args, f, **kw)
            elif out == "bytesio":
                b = io.BytesIO()
                el = xt.dict2xml(*args, b, **kw)
                data = b.getvalue()
            else:
                el = xt.dict2xml(*args, **kw)
            tree = xtree(el)
            if out in ("filename", "fileobj"):
                filetree = xtree(ET.parse(path).getroot())
            elif out == "bytesio":
                filetree = xtree(ET.fromstring(data))
            else:
                filetree = tree
            return {"tree": tree, "file": filetree}
        info["call"] = "dict2xml(%s%s) out=%s" % ("{%r: %r}" % (e["tag"], v) if not e["useroot"] else repr(v),
                                                  ", roottag=%r" % e["tag"] if e["useroot"] else "", out)
        res["err"], val, info["exc"] = _call(go)
        if val is not None:
            res["val"] = val
        if os.path.exists(path):
            os.unlink(path)
    elif op in ("x2d", "xrt"):
        path = os.path.join(W.dir, "in.xml")
        cls = rng.choice([xt.XmlDictObject, xt.XmlDictObject, dict])
        src = rng.choice(["element", "file"])
        res["val"] = {"tuple": False, "rtag": "", "ret": xenc("?"), "classes_ok": True}

        def go():
            if op == "x2d":
                el = xbuild(e["e"], rng)
                kw = {k: True for k in ("noroot", "seproot") if e[k]}
            else:
                el = xt.dict2xml({e["tag"]: xval(e["v"])})
                kw = {}
            if cls is dict:
                kw["dictclass"] = dict
            if src == "file":
                ET.ElementTree(el).write(path)
                ret = xt.xml2dict(path, **kw)
            else:
                ret = xt.xml2dict(el, **kw)
            tup = isinstance(ret, tuple)
            body = ret[0] if tup else ret
            return {"tuple": tup, "rtag": ret[1] if tup else "", "ret": xenc(body), "classes_ok": classes_ok(body, cls)}
        info["call"] = "xml2dict(<%s>%s%s)" % (src, "".join(", %s=True" % k for k in ("noroot", "seproot") if e.get(k)),
                                               ", dictclass=dict" if cls is dict else "")
        if op == "xrt":
            info["call"] = "xml2dict(dict2xml({%r: %r}))" % (e["tag"], xval(e["v"]))
        res["err"], val, info["exc"] = _call(go)
        if val is not None:
            res["val"] = val
        if os.path.exists(path):
            os.unlink(path)
    elif op == "xwrap":
        v = xval(e["v"])
        res["val"] = {"wrapped": xenc("?"), "unwrapped": xenc("?"), "classes_ok": True}

        def go():
            w = xt.XmlDictObject.Wrap(v)
            u = w.UnWrap()
            return {"wrapped": xenc(w), "unwrapped": xenc(u), "classes_ok": classes_ok(w, xt.XmlDictObject) and classes_ok(u, dict)}
        info["call"] = "XmlDictObject.Wrap(%r).UnWrap()" % (v,)
        res["err"], val, info["exc"] = _call(go)
        if val is not None:
            res["val"] = val
    else:
        raise MachineryError("unknown pure event %r" % (e,))
    return res, info


# ---------------------------------------------------------------------------------------------------
# running traces (forked workers)
# ---------------------------------------------------------------------------------------------------
_QUIET = False


def _quiet():
    global _QUIET
    if not _QUIET:
        sys.stdout.flush()
        sys.stderr.flush()
        null = os.open(os.devnull, os.O_WRONLY)
        os.dup2(null, 1)
        os.dup2(null, 2)
        os.close(null)
        _QUIET = True


def run_trace(job, W=None):
    tid, events, seed = job
    own = W is None
    if own:
        W = World()
    done = []
    cwd0 = os.getcwd()
    try:
        os.chdir(W.dir)          # dict2table's default tmpdir is '.'
        W.reset(seed, tid)
        for e in events:
            if e["op"] in PURE_OPS:
                res, info = exec_pure(W, e)
                obs = None
            else:
                res, info = exec_store(W, e)
                obs = W.project()
            d = dict(e)
            d["res"] = res
            if obs is not None:
                d["obs"] = obs
            d["info"] = {k: (v.replace(W.dir, "<D>") if isinstance(v, str) else v) for k, v in info.items() if v not in ("", None)}
            done.append(d)
    finally:
        os.chdir(cwd0)
        W.close()
        if own:
            W.cleanup()
    return {"id": tid, "events": events, "seed": seed, "done": done}


def _worker(chunk):
    _quiet()
    W = World()
    try:
        return [run_trace(j, W) for j in chunk]
    finally:
        W.cleanup()


def make_pool():
    nproc = max(1, min(16, os.cpu_count() or 1, int(os.environ.get("VH_MAX_WORKERS", "16"))))
    sys.stdout.flush()
    return mp.get_context("fork").Pool(nproc), nproc


def close_pool(pool):
    import glob
    pids = [p.pid for p in getattr(pool, "_pool", [])]
    pool.terminate()
    pool.join()
    for pid in pids:
        for d in glob.glob(os.path.join(scratch_base(), "X04-%d-*" % pid)):
            shutil.rmtree(d, ignore_errors=True)


def pool_map(pool, nproc, jobs):
    jobs = list(jobs)
    if not jobs:
        return []
    size = max(1, min(200, len(jobs) // (nproc * 6) or 1))
    chunks = [jobs[i:i + size] for i in range(0, len(jobs), size)]
    out = []
    for part in pool.imap(_worker, chunks):
        out.extend(part)
    return out


def fork_map(jobs):
    pool, nproc = make_pool()
    try:
        return pool_map(pool, nproc, jobs)
    finally:
        close_pool(pool)


# ---------------------------------------------------------------------------------------------------
# judging: TableStoreTrace.tla under TLC
# ---------------------------------------------------------------------------------------------------
def tla_event(e):
    out = {k: e[k] for k in PURE_FIELDS.get(e["op"], EV_FIELDS)}
    out["res"] = e["res"]
    if "obs" in e:
        out["obs"] = e["obs"]
    return out


def _validate_once(ctx, records, what, workers):
    fd, path = tempfile.mkstemp(prefix="X04-trace-", suffix=".ndjson", dir="/tmp")
    try:
        with os.fdopen(fd, "w") as f:
            for r in records:
                f.write(json.dumps(r, separators=(",", ":"), default=jsonable))
                f.write("\n")
        r = ctx.tlc("TableStoreTrace.tla", what=what, cfg_text=cfg(constants=TRACE_CONSTS, constraints=["Check"]), workers=workers,
                    env={"TRACE_FILE": path}, timeout=1800, coverage=False, jvm=["-Xmx3g", "-XX:ParallelGCThreads=2"])
        if r.distinct < len(records) + 1:
            raise MachineryError("trace validation visited %d states for %d records" % (r.distinct, len(records)))
        if r.garbled:
            if workers == 1:
                raise MachineryError("unparsed lines in TLC output:\n" + r.tail(20))
            return _validate_once(ctx, records, what, 1)
        accepted = {x["id"] for x in r.records.get("ACCEPT", [])}
        rejects = {}
        for x in r.records.get("REJECT", []):
            if x["id"] not in accepted:
                rejects.setdefault(x["id"], []).append(sorted(x["failing"]))
        missing = {rec["id"] for rec in records} - accepted - set(rejects)
        if missing:
            raise MachineryError("trace validation neither accepted nor rejected traces %s" % sorted(missing)[:5])
        return {i: max(fs, key=lambda f: max([int(v) for k, v in f if k == "step"] or [0])) for i, fs in rejects.items()}
    finally:
        try:
            os.unlink(path)
        except OSError:
            pass


def validate(ctx, records, what, count=True):
    from concurrent.futures import ThreadPoolExecutor
    if not records:
        return {}
    nsh = max(1, min(4, (len(records) + 2499) // 2500))
    if nsh == 1:
        rejects = _validate_once(ctx, records, what, 4)
    else:
        parts = [records[i::nsh] for i in range(nsh)]
        with ThreadPoolExecutor(nsh) as ex:
            futs = [ex.submit(_validate_once, ctx, p, "%s [shard %d/%d]" % (what, i + 1, nsh), 3) for i, p in enumerate(parts)]
            rejects = {}
            for f in futs:
                rejects.update(f.result())
    if count:
        ctx.traces += len(records) - len(rejects)
    return rejects


CLAUSE_ORDER = ["unexpected_error", "not_rejected", "table_exists", "table_columns", "table_rows", "index", "other_tables",
                "stray_files", "value", "file_written", "classes", "combination", "spec_invariant", "out_of_scope"]
CLAUSE_TEXT = {
    "unexpected_error": "the call raised although the documentation requires it to succeed",
    "not_rejected": "the call succeeded although the documentation requires an error",
    "table_exists": "'It is created if it doesn't exist' / 'drop any existing table' / 'Drop an object': which tables exist",
    "table_columns": "'The column names will match those in the array' + the documented type map (integer / real / text)",
    "table_rows": "'Otherwise, attempt to append' / 'If the table exists, the data are appended': the rows stored after the call",
    "index": "'The name of the table where the index will be built': the indexes that exist after the call",
    "other_tables": "a table outside the documented names was created",
    "stray_files": "'cleanup: If not True, leave the temporary file': temporary files left behind",
    "value": "the returned value is not one the documentation allows",
    "file_written": "'Optionally prints to file if input': the file does not hold the returned tree",
    "classes": "dictclass / XmlDictObject.Wrap: a dict node of another class, or attribute access differs from item access",
}


def parse_failing(failing):
    d = {}
    for k, v in failing:
        d.setdefault(k, []).append(v)
    clauses = sorted(d.get("clause", []), key=lambda c: CLAUSE_ORDER.index(c) if c in CLAUSE_ORDER else 99)
    step = int(d["step"][0]) if "step" in d else 0
    cls = {k: v[0] for k, v in d.items() if k not in ("clause", "step")}
    return step, clauses, cls


def xkinds(n, acc):
    acc.add({"s": "str", "i": "int", "none": "None", "d": "dict", "l": "list"}.get(n["t"], n["t"]))
    if n["t"] == "d" and "_text" in n["keys"]:
        acc.add("_text")
    if n["t"] == "l" and len(n["k"]) < 2:
        acc.add("shortlist")
    if n["t"] == "s" and n["s"] in ("sp", "ws"):
        acc.add("whitespace")
    for k in n["k"]:
        xkinds(k, acc)
    return acc


def tkinds(e, acc):
    if e["attrs"]:
        acc.add("attrs")
    if e["text"] and e["k"]:
        acc.add("mixed")
    tags = [k["tag"] for k in e["k"]]
    if len(set(tags)) < len(tags):
        acc.add("repeated")
    for k in e["k"]:
        tkinds(k, acc)
    return acc


def structural_class(rec, step, cls):
    """the structural feature of the failing step (never raw values)"""
    e = rec["done"][step - 1]
    op = e["op"]
    parts = dict(cls)
    if op in ("a2t", "d2t"):
        if any(c["ty"] == "U" for c in e["cols"]):
            parts["unicode"] = "yes"
        if not e["rows"]:
            parts["nrows"] = "0"
        if op == "a2t":
            parts["create"] = "yes" if e["create"] else "no"
            if not e["cleanup"]:
                parts["cleanup"] = "no"
        else:
            parts["clobber"] = "yes" if e["clobber"] else "no"
            if e["icols"]:
                parts["indices"] = "yes"
    if op in ("read", "describe", "info"):
        parts["mode"] = e["mode"]
    if op in ("describe", "info"):
        # the connection's history: an earlier asarray query that returned no rows or raised (since the last new connection)
        prior = "no"
        for x in rec["done"][:step - 1]:
            if x["op"] == "reopen" or (x["op"] == "d2t" and x["clobber"]):
                prior = "no"
            if x["op"] == "read" and x["mode"] in ("asarray", "dtype") and (x["res"]["err"] != "none" or
                                                                              (x["mode"] == "asarray" and x["res"]["val"]["n"] == 0)):
                prior = "yes"
        parts["after_empty_or_failed_asarray_query"] = prior
    if op == "add_index" or (op == "d2t" and e["icols"]):
        before = rec["done"][step - 2]["obs"]["idx"] if step > 1 and "obs" in rec["done"][step - 2] else []
        parts["via"] = e["via"] if op == "add_index" else "dict2table(indices=)"
        parts["same_columns_indexed_on_another_table"] = "yes" if any(i[1] == list(e["icols"]) and i[0] != e["t"] for i in before) else "no"
    if op == "n2s":
        parts = {"type": e["ty"] if e["ty"] in ("U", "S") else "numeric"}
        if e["ty"] != "U":
            parts["spelling"] = e["sp"]
    if op == "s2n":
        parts = {"decl": e["decl"].split("(")[0], "size": "yes" if e["size"] else "no", "spelling": e["sp"]}
    if op in ("tdef", "ddef"):
        parts = {"types": "+".join(sorted({c["ty"] for c in e["cols"]}))}
        parts.update({k: "yes" for k in ("arrcol", "rev", "astext") if e.get(k)})
    if op in ("py2s", "ensure"):
        parts = {"input": e.get("p") or e.get("x")}
    if op in ("d2x", "xrt", "xwrap"):
        parts = {"value": "+".join(sorted(xkinds(e["v"], set()) - {"dict", "str"})) or "plain"}
        if e.get("useroot"):
            parts["roottag"] = "yes"
    if op == "x2d":
        parts = {"tree": "+".join(sorted(tkinds(e["e"], set()))) or "plain"}
        parts.update({k: "yes" for k in ("noroot", "seproot") if e[k]})
    return ",".join("%s=%s" % kv for kv in sorted(parts.items()))


def compact(e):
    call = {k: e[k] for k in PURE_FIELDS.get(e["op"], EV_FIELDS) if e[k] not in ("none", [], False) and not (k == "cleanup" and e[k])}
    out = {"call": call, "concrete": e["info"].get("call"), "res": e["res"]}
    if "obs" in e:
        out["db"] = e["obs"]
    return out


def judge(ctx, recs, what, report=True):
    recs = [r for r in recs if r["done"]]
    rejects = validate(ctx, [{"id": r["id"], "ev": [tla_event(e) for e in r["done"]]} for r in recs], what)
    byid = {r["id"]: r for r in recs}
    for r in recs:
        r["rejected"] = r["id"] in rejects
    for rid, failing in sorted(rejects.items()):
        rec = byid[rid]
        step, clauses, cls = parse_failing(failing)
        if "spec_invariant" in clauses:
            raise MachineryError("TableStore invariant violated while validating a trace: %s" % failing)
        if "out_of_scope" in clauses:
            raise MachineryError("harness produced an event outside the specification's scope: trace %s step %s" % (rid, step))
        if not report:
            continue
        e = rec["done"][step - 1]
        entry = ENTRY[e["op"]]
        if e["op"] == "add_index":
            entry = "sqlite_util.add_index" if e["via"] == "module" else "SqliteConnection.add_index"
        sclass = structural_class(rec, step, cls)
        clause = clauses[0]
        # one defect, one signature: the structural feature that triggers it is enough
        if e["op"] in ("describe", "info") and clause == "unexpected_error" and "after_empty_or_failed_asarray_query=yes" in sclass:
            entry, sclass = "SqliteConnection.table_info/describe/info", "after_empty_or_failed_asarray_query=yes"
        elif e["op"] == "add_index" and e["via"] == "module" and clause == "unexpected_error":
            sclass = "via=module"
        elif e["op"] == "d2t" and e["icols"] and e["res"]["err"] == "rejected":
            clause, sclass = "unexpected_error", "indices=yes"
        elif e["op"] == "add_index" and clause == "index":
            sclass = ",".join(x for x in sclass.split(",") if not x.startswith("table="))
        sig = "%s|%s|%s" % (entry, clause, sclass)
        c = compact(e)
        whatv = ("step %d %s: not allowed by TableStore.tla, clause(s) %s - %s; call %s -> %s%s; database after the call: %s" %
                 (step, c["concrete"] or entry, "+".join(clauses), CLAUSE_TEXT.get(clauses[0], clauses[0]),
                  json.dumps(c["call"], sort_keys=True)[:300], json.dumps(e["res"], sort_keys=True)[:400],
                  " (%s)" % e["info"]["exc"] if e["info"].get("exc") else "", json.dumps(e.get("obs"), sort_keys=True)[:600]))
        ctx.violation(sig, whatv, {"kind": "trace", "seed": rec["seed"], "id": rec["id"], "events": rec["events"],
                                   "failing_step": step, "clauses": clauses})
    return rejects


# ---------------------------------------------------------------------------------------------------
# tiers
# ---------------------------------------------------------------------------------------------------
ALL_ACTS = {"a2t", "d2t", "read", "exists", "describe", "info", "drop", "add_index", "reopen"}
REQUIRE = ["MA2T", "MD2T", "MRd", "MExists", "MDescribe", "MInfo", "MDrop", "MAddIdx", "MReopen"]
ACT_OF = {"MA2T": "a2t", "MD2T": "d2t", "MRd": "read", "MExists": "exists", "MDescribe": "describe", "MInfo": "info",
          "MDrop": "drop", "MAddIdx": "add_index", "MReopen": "reopen"}
PURE_NONE = dict(N2STypes=set(), N2SSpell=set(), S2NDecls=set(), S2NSizes=set(), S2NSpell=set(), TDTypes=set(), TDMaxCols=0,
                 PyKinds=set(), EnsKinds=set(), XScal=set(), XScalIn=set(), XKeyForms=set(), XKeyFormsIn=set(), XListMax=0,
                 XListMaxIn=0, XDepth=0, XTTexts=set(), XTAttrs=set(), XTKidsMax=0, XTRootKidsMax=0)
BASE = dict(Tables=set(TABLES), MCTables=set(TABLES), ArrIds={"A1", "A2", "A0", "B1", "U1"}, DictIds={"D1", "D2"}, Acts=ALL_ACTS,
            ReadModes={"asarray", "dtype", "cursor"}, DescModes={"describe", "tinfo", "tinfo_cols", "t2d"},
            InfoModes={"tables", "indexes"}, IdxVias={"method", "module"}, MaxDepth=3, KeepHist=False, ExportAt=0, Script="free",
            SweepTypes=set(), SweepMaxCols=0, SweepMaxRows=0, SweepPats=set(), KnownDeviations=set())
SMALL = dict(ArrIds={"A1", "A0", "B1"}, DictIds={"D2"}, ReadModes={"asarray", "cursor"}, DescModes={"tinfo", "t2d"},
             InfoModes={"indexes"})
WIDE = dict(ArrIds={"A1", "A2", "A0", "B1", "F1", "E1", "U1"}, DictIds={"D1", "D2", "D3", "D0"},
            Acts=ALL_ACTS | {"keepfile", "d2tindex"}, InfoModes={"tables", "tables2", "indexes", "all"})
IDX_TOUR = dict(BASE, Acts={"a2t", "add_index", "drop", "info"}, ArrIds={"A1"}, DictIds=set(), IdxVias={"method"}, InfoModes={"indexes"})
SWEEP_TYPES = {"i2", "i4", "i8", "f4", "f8", "S", "U"}
N2S_TYPES = {"i1", "i2", "i4", "i8", "u1", "u2", "u4", "u8", "f4", "f8", "S", "U", "f2", "c8", "b1", "O"}
S2N_DECLS = {"integer", "real", "text", "int", "i1", "int8", "tinyint", "i2", "int16", "smallint", "i4", "int32", "i8", "int64",
             "bigint", "f4", "float32", "float", "f8", "float64", "double", "char(5)", "character(12)", "varchar(5)",
             "character varying(3)", "character", "char", "string", "blob", "numeric"}
PURE_HELPERS = dict(N2STypes=N2S_TYPES, N2SSpell={"plain", "lt", "gt", "name"}, S2NDecls=S2N_DECLS, S2NSizes={0, 7},
                    S2NSpell={"plain", "upper"}, TDTypes=SWEEP_TYPES, TDMaxCols=2,
                    PyKinds={"int", "float", "str", "bytes", "none", "list", "bool", "npint", "npfloat"},
                    EnsKinds={"dict", "list", "tuple", "int", "str", "listofint", "emptylist"})
HELPER_ACTS = {"n2s", "s2n", "tdef", "py2s", "ddef", "ensure"}
XML_ACTS = {"d2x", "xrt", "xwrap", "x2d"}

TIERS = {
    "quick": dict(
        models=[("2 tables, full catalogue, depth 3", dict(BASE, MaxDepth=3)),
                ("2 tables, small catalogue, depth 4", dict(BASE, MaxDepth=4, **SMALL))],
        deviations=dict(BASE, MaxDepth=4, ArrIds={"A1"}, DictIds={"D1"}, ReadModes={"asarray"}, DescModes={"tinfo"}),
        sweeps=[("array2table: every type sequence of 1-2 columns, 0-2 rows", "sweep", SWEEP_TYPES, 2, 2, {0}, 12),
                ("dict2table: every type sequence of 1-2 keys, 1-2 dicts", "dsweep", set(["pyint", "pyfloat", "pystr"]), 2, 2, {0}, 8)],
        sweep_keep=260,
        families=[("all calls on one table", dict(BASE, MCTables={"t1"}, ArrIds={"A1", "A0", "U1"}, DictIds={"D2"},
                                                   ReadModes={"asarray", "cursor"}, DescModes={"tinfo"}, InfoModes={"indexes"},
                                                   IdxVias={"method"}), 2)],
        family_keep=400,
        tours=[("all calls", dict(BASE, MaxDepth=3, **SMALL)), ("indexes on two tables", dict(IDX_TOUR, MaxDepth=4))], tour_keep=500,
        simulate=dict(num=60, depth=10, keep=60, consts=dict(BASE, **WIDE)),
        random=150,
        pure=[dict(PURE_HELPERS, Acts=HELPER_ACTS),
              dict(XScal={"x", "e", "sp", "i7", "none"}, XScalIn=set(), XKeyForms={"0", "a", "ab", "t", "ta"}, XListMax=2, XDepth=1,
                   Acts={"d2x", "xrt", "xwrap"}),
              dict(XScalIn={"x", "e"}, XKeyForms={"a", "ta"}, XKeyFormsIn={"0", "a", "at"}, XListMax=2, XListMaxIn=1, XDepth=2,
                   Acts={"xrt"}),
              dict(XScal={"x", "e"}, XKeyForms={"a", "ab"}, XListMax=3, XDepth=1, Acts={"xrt"}),
              dict(XTTexts={"", "x"}, XTAttrs={"0", "k"}, XTKidsMax=2, XTRootKidsMax=1, Acts={"x2d"}),
              dict(XTTexts={"", "x"}, XTAttrs={"0"}, XTKidsMax=0, XTRootKidsMax=3, Acts={"x2d"})],
        pure_keep=2600,
    ),
    "thorough": dict(
        models=[("2 tables, full catalogue, depth 4", dict(BASE, MaxDepth=4)),
                ("2 tables, small catalogue, depth 5", dict(BASE, MaxDepth=5, **SMALL)),
                ("2 tables, wide catalogue, depth 3", dict(BASE, MaxDepth=3, **WIDE))],
        deviations=dict(BASE, MaxDepth=4, ArrIds={"A1"}, DictIds={"D1"}, ReadModes={"asarray"}, DescModes={"tinfo"}),
        sweeps=[("array2table: every type sequence of 1-3 columns, 0-2 rows", "sweep", SWEEP_TYPES, 3, 2, {0, 1}, 12),
                ("dict2table: every type sequence of 1-3 keys, 1-2 dicts", "dsweep", set(["pyint", "pyfloat", "pystr"]), 3, 2, {0, 1}, 8)],
        sweep_keep=3000,
        families=[("all calls on one table", dict(BASE, MCTables={"t1"}, ArrIds={"A1", "A0", "U1"}, DictIds={"D2"},
                                                   ReadModes={"asarray", "cursor"}, DescModes={"tinfo"}, InfoModes={"indexes"},
                                                   IdxVias={"method"}), 3),
                  ("writes and reads on two tables", dict(BASE, Acts={"a2t", "d2t", "read", "drop", "add_index"},
                                                          ArrIds={"A1", "B1"}, DictIds={"D2"}, ReadModes={"asarray"},
                                                          IdxVias={"method"}), 3)],
        family_keep=3000,
        tours=[("all calls", dict(BASE, MaxDepth=4, **SMALL)), ("indexes on two tables", dict(IDX_TOUR, MaxDepth=5))], tour_keep=3000,
        simulate=dict(num=1200, depth=14, keep=1200, consts=dict(BASE, **WIDE)),
        random=2500,
        pure=[dict(PURE_HELPERS, TDMaxCols=3, Acts=HELPER_ACTS),
              dict(XScal={"x", "y", "e", "sp", "ws", "i7", "none"}, XScalIn=set(), XKeyForms={"0", "a", "ab", "ba", "t", "ta", "at"},
                   XListMax=2, XDepth=1, Acts={"d2x", "xrt", "xwrap"}),
              dict(XScalIn={"x", "e"}, XKeyForms={"a", "ta", "at"}, XKeyFormsIn={"0", "a", "at", "ab"}, XListMax=2,
                   XListMaxIn=1, XDepth=2, Acts={"xrt", "d2x"}),
              dict(XScal={"x", "e", "i7"}, XKeyForms={"a", "ab", "ta"}, XListMax=3, XDepth=1, Acts={"xrt", "d2x"}),
              dict(XTTexts={"", "x", "sp"}, XTAttrs={"0", "k", "a", "kb"}, XTKidsMax=2, XTRootKidsMax=2, Acts={"x2d"}),
              dict(XTTexts={"", "x"}, XTAttrs={"0", "k"}, XTKidsMax=0, XTRootKidsMax=3, Acts={"x2d"})],
        pure_keep=20000,
    ),
}


def mc_constants(c, keep=False, export_at=0, **over):
    out = dict(PURE_NONE)
    out.update(BASE)
    out.update(c)
    out.update(over)
    out.update(KeepHist=keep, ExportAt=export_at)
    return out


def clean_events(beh):
    return [{k: e[k] for k in PURE_FIELDS.get(e["op"], EV_FIELDS)} for e in beh]


def dedupe(behs):
    seen, out = set(), []
    for b in behs:
        evs = clean_events(b)
        k = json.dumps(evs, sort_keys=True)
        if k not in seen:
            seen.add(k)
            out.append(evs)
    out.sort(key=lambda evs: json.dumps(evs, sort_keys=True))
    return out


def maximal(behs):
    keys = [[json.dumps(e, sort_keys=True) for e in b] for b in behs]
    prefixes = set()
    for k in keys:
        for n in range(1, len(k)):
            prefixes.add("\x00".join(k[:n]))
    return [b for b, k in zip(behs, keys) if "\x00".join(k) not in prefixes]


def sample(items, keep, seed):
    if len(items) <= keep:
        return items
    rng = random.Random(seed)
    return [items[i] for i in sorted(rng.sample(range(len(items)), keep))]


def sample_by_call(cases, keep, seed):
    by = {}
    for b in cases:
        by.setdefault(b[0]["op"], []).append(b)
    left, out = keep, []
    for n, op in enumerate(sorted(by, key=lambda o: (len(by[o]), o))):
        share = left // (len(by) - n)
        got = sample(by[op], share, seed + n)
        left -= len(got)
        out += got
    return out


# ---- seeded random call sequences (code -> spec) -------------------------------------------------------
def random_events(rng):
    types = ["i2", "i4", "i8", "f4", "f8", "S"]
    ivals = {"i2": ["1", "-32768", "32767", "0"], "i4": ["-1", "2147483647", "-2147483648"],
             "i8": ["0", "9223372036854775807", "-9223372036854775808", "2147483648"], "pyint": ["1", "-1", "2147483648", "0"]}
    fvals = {"f4": ["0.5", "0.1", "-1e+30", "-1.25"], "f8": ["-1.25", "0.1", "1e+300", "0.5"], "pyfloat": ["0.5", "0.1", "-1e+30"]}
    svals = [[1, 2], [3], [0, 1, 2], [2, 0, 1], [1]]
    names = ["a", "B", "c"]

    def cell(ty):
        if ty in ivals:
            return {"s": rng.choice(ivals[ty]), "c": []}
        if ty in fvals:
            return {"s": rng.choice(fvals[ty]), "c": []}
        return {"s": "", "c": list(rng.choice(svals))}

    def array(py):
        n = rng.choice([1, 2, 2, 3])
        tys = [rng.choice(["pyint", "pyfloat", "pystr"] if py else types + (["U"] if rng.random() < 0.05 else [])) for _ in range(n)]
        cols = [{"name": names[i], "ty": tys[i]} for i in range(n)]
        rows = [[cell(ty) for ty in tys] for _ in range(rng.choice([0, 1, 2, 3]) if not py else rng.choice([1, 1, 2, 3]))]
        return cols, rows
    shapes = {}
    out = []
    for _ in range(rng.choice([5, 8, 12, 16])):
        t = rng.choice(["t1", "t1", "t2"])
        r = rng.random()
        if r < 0.30:
            py = rng.random() < 0.3
            if t in shapes and rng.random() < 0.7 and shapes[t][0] == py:
                cols = shapes[t][1]
                pool = {"int": ["pyint"] if py else ["i2", "i4", "i8"], "real": ["pyfloat"] if py else ["f4", "f8"]}
                cols = [{"name": c["name"], "ty": rng.choice(pool.get(_kind(c["ty"]), [c["ty"]]))} for c in cols]
                rows = [[cell(c["ty"]) for c in cols] for _ in range(rng.choice([0, 1, 2]) if not py else rng.choice([1, 2]))]
            else:
                cols, rows = array(py)
            if py:
                out.append(ev("d2t", t=t, cols=cols, rows=rows, clobber=rng.random() < 0.15,
                              icols=[cols[0]["name"]] if rng.random() < 0.1 else []))
            else:
                out.append(ev("a2t", t=t, cols=cols, rows=rows, create=rng.random() < 0.3, cleanup=rng.random() > 0.1))
            shapes[t] = (py, cols)
        elif r < 0.55:
            out.append(ev("read", t=t, mode=rng.choice(["asarray", "asarray", "dtype", "cursor"])))
        elif r < 0.68:
            out.append(ev("describe", t=t, mode=rng.choice(["describe", "tinfo", "tinfo_cols", "t2d"])))
        elif r < 0.75:
            out.append(ev("info", mode=rng.choice(["tables", "tables2", "indexes", "all"])))
        elif r < 0.82:
            out.append(ev("exists", t=t))
        elif r < 0.88:
            out.append(ev("drop", t=t))
            shapes.pop(t, None)
        elif r < 0.96:
            if t in shapes:
                cols = shapes[t][1]
                ic = [cols[0]["name"]] if len(cols) == 1 or rng.random() < 0.6 else [cols[1]["name"], cols[0]["name"]]
                out.append(ev("add_index", t=t, icols=ic, via=rng.choice(["method", "method", "module"])))
        else:
            out.append(ev("reopen"))
    return out


def _kind(ty):
    return "int" if ty in ("i2", "i4", "i8", "pyint") else "real" if ty in ("f4", "f8", "pyfloat") else "text"


# ---- binding self-test -----------------------------------------------------------------------------------
def _corrupt(rec, rng, only_kind=None):
    evs = json.loads(json.dumps([tla_event(e) for e in rec["done"]], default=jsonable))
    cands = []
    writes = [i for i, e in enumerate(evs) if e["op"] in ("a2t", "d2t", "drop")]
    w0 = evs[writes[0]] if writes else None
    # the first write of a trace, with documented types and no empty first string, leaves a fully constrained table
    clean = (w0 is not None and w0["op"] in ("a2t", "d2t") and w0["res"]["err"] == "none" and w0["rows"]
             and all(c["ty"] in ("i2", "i4", "i8", "f4", "f8", "S", "pyint", "pyfloat", "pystr") for c in w0["cols"])
             and all(cell["c"] for cell, c in zip(w0["rows"][0], w0["cols"]) if c["ty"] in ("S", "pystr")))
    for i, e in enumerate(evs):
        op = e["op"]
        only_first = clean and len([j for j in writes if j < i]) == 1 and e.get("t") == w0["t"]
        if clean and i == writes[0]:
            cands.append((i, "row"))
            cands.append((i, "exists"))
            if op == "a2t" and e["cleanup"]:
                cands.append((i, "stray"))
        if op == "read" and only_first and e["res"]["err"] == "none" and e["res"]["val"]["n"] > 0 and e["res"]["val"]["rows"][0]:
            cands.append((i, "readvalue"))
        if op == "add_index" and only_first and e["res"]["err"] == "none" and e["obs"]["idx"]:
            cands.append((i, "index"))
        if op == "exists":
            cands.append((i, "existsvalue"))
        if op == "d2x" and e["res"]["err"] == "none" and e["v"]["t"] == "d" and "None" not in xkinds(e["v"], set()) and _clean_lists(e["v"]):
            cands.append((i, "tree"))
        if op == "xrt" and e["res"]["err"] == "none" and e["v"]["t"] == "d" and not (xkinds(e["v"], set()) & {"None"}) and _clean_lists(e["v"]):
            cands.append((i, "dictvalue"))
        if op == "n2s" and e["res"]["err"] == "none" and e["ty"] in ("i4", "f8", "S"):
            cands.append((i, "word"))
    if only_kind == "?":
        return {c[1] for c in cands}
    cands = [c for c in cands if only_kind in (None, c[1])]
    if not cands:
        return None
    i, kind = rng.choice(cands)
    e = evs[i]
    if kind == "row":
        rows = e["obs"]["tabs"][e["t"]]["rows"]
        cell = rows[-1][0]
        if cell["k"] == "text":
            cell["c"] = [2, 2, 1]
        else:
            cell["s"] = "77"
        want = {"table_rows"}
    elif kind == "exists":
        e["obs"]["tabs"][e["t"]] = {"ex": False, "cols": [], "rows": []}
        want = {"table_exists"}
    elif kind == "readvalue":
        cell = e["res"]["val"]["rows"][-1][0]
        if cell["k"] == "text":
            cell["c"] = [2, 2, 1]
        else:
            cell["s"] = "77"
        want = {"value"}
    elif kind == "stray":
        e["obs"]["stray"] += 1
        want = {"stray_files"}
    elif kind == "index":
        e["obs"]["idx"] = [x for x in e["obs"]["idx"] if not (x[0] == e["t"] and x[1] == list(e["icols"]))]
        want = {"index"}
    elif kind == "existsvalue":
        e["res"]["val"] = not e["res"]["val"]
        want = {"value"}
    elif kind == "tree":
        e["res"]["val"]["tree"]["text"] = "y" if e["res"]["val"]["tree"]["text"] != "y" else "x"
        want = {"value"}
    elif kind == "dictvalue":
        e["res"]["val"]["ret"] = xenc({"r": "y"})
        want = {"value"}
    else:
        e["res"]["val"] = "text" if e["res"]["val"] != "text" else "real"
        want = {"value"}
    return evs[:i + 1], i + 1, want, kind


def _clean_lists(n):
    return not (n["t"] == "l" and any(k["t"] == "l" for k in n["k"])) and all(_clean_lists(k) for k in n["k"])


def selftest(ctx, all_recs):
    rng = random.Random(ctx.seed * 31 + 7)
    recs, expect = [], {}
    pool = [r for r in all_recs if not r.get("rejected") and r["done"]]
    rng.shuffle(pool)
    KINDS = ["row", "exists", "readvalue", "stray", "index", "existsvalue", "tree", "dictvalue", "word"]
    per_kind, k = {}, 0
    for kind in KINDS:
        for r in pool:
            if per_kind.get(kind, 0) >= 5:
                break
            if kind not in _corrupt(r, rng, "?"):
                continue
            evs, step, want, _ = _corrupt(r, rng, kind)
            per_kind[kind] = per_kind.get(kind, 0) + 1
            k += 1
            recs.append({"id": 2 * k, "ev": evs})
            expect[2 * k] = (step, want, kind)
            recs.append({"id": 2 * k + 1, "ev": json.loads(json.dumps([tla_event(e) for e in r["done"]][:step], default=jsonable))})
    missing = set(KINDS) - set(per_kind)
    if missing:
        raise MachineryError("self-test: no accepted trace to corrupt for %s" % sorted(missing))
    rej = validate(ctx, recs, "self-test: corrupted observations rejected", count=False)
    for i, (step, want, kind) in sorted(expect.items()):
        if i + 1 in rej:
            raise MachineryError("binding self-test: an accepted trace was rejected when validated again: %s" % rej[i + 1])
        if i not in rej:
            raise MachineryError("binding self-test failed: corrupted observation (%s) accepted" % kind)
        st, clauses, _ = parse_failing(rej[i])
        if st != step or not (want & set(clauses)):
            raise MachineryError("binding self-test: corruption %s at step %d reported as %s at step %d" % (kind, step, clauses, st))
    ctx.note(selftest_corruptions={k: v for k, v in sorted(per_kind.items())})


ASSUMPTIONS = [
    "contract = docstrings and source comments of esutil/sqlite_util.py and esutil/xmltools.py (clauses A1-A4, E1-E5, X1, T1-T4, "
    "D1, I1, C1, M1-M6 at the top of spec/TableStore.tla); where they are silent every outcome is accepted",
    "numpy unicode columns and types the examples never mention: accepted as text, refused, the table left created or not; an "
    "append whose columns differ from the table's leaves the table unconstrained until it is dropped or re-created",
    "stored strings may be blank-padded to the field width; floats are compared to 4 ulp of the written type on a lattice of "
    "short decimals; integer / float / string kinds are required of a returned array, item sizes are not",
    "execute(asarray=True) on zero rows: only len 0 is required; on a missing table: anything; the string size taken from an "
    "empty first string: anything",
    "dict2table(clobber=True): the database emptied first, only the table replaced, or appended are all accepted; the harness "
    "closes its connection around that call; an empty list and keys= naming a subset are unconstrained",
    "xmltools: None values, lists directly inside lists or as the root value, a non-scalar '_text', an attribute named like a "
    "child tag, key order and white space around text are unconstrained; text-mode file objects are not used",
    "the sqlite3 command line tool found on PATH does the imports (array2table and dict2table require it); crash points inside "
    "a call and concurrent writers are not modelled",
]


def execute_and_judge(ctx, T, R, part, pool, nproc):
    groups = []
    for label, script, *_ in T["sweeps"]:
        if "sweep:" + script in R:
            behs = R["sweep:" + script]
            keep = sample(behs, T["sweep_keep"], ctx.seed * 2750159 + 13)
            groups.append((label, "sweep:" + script, keep))
            ctx.note(**{"scripted_%s_histories" % script: len(behs), "scripted_%s_replayed" % script: len(keep)})
    for name, consts, depth in T["families"]:
        if "fam:" + name in R:
            behs = sample(R["fam:" + name], T["family_keep"], ctx.seed * 7907 + 29)
            groups.append(("behaviours of length %d: %s" % (depth, name), "fam:" + name, behs))
            ctx.note(**{"behaviours_" + name.replace(" ", "_"): len(R["fam:" + name]),
                        "behaviours_" + name.replace(" ", "_") + "_replayed": len(behs)})
    te = tm = tr = 0
    for i, (label, consts) in enumerate(T["tours"]):
        if "tour:%d" % i in R:
            nedges, nmax, keep = R["tour:%d" % i]
            groups.append(("transition tour: " + label, "tour:%d" % i, keep))
            te, tm, tr = te + nedges, tm + nmax, tr + len(keep)
    if tr:
        ctx.note(tour_edges=te, tour_maximal_histories=tm, tour_histories_replayed=tr)
    if "sim" in R:
        groups.append(("simulated behaviours", "sim", R["sim"][1]))
        ctx.note(simulated_behaviours_exported=R["sim"][0], simulated_behaviours_replayed=len(R["sim"][1]))
    if part("random"):
        rng = random.Random(ctx.seed * 1000003 + 17)
        groups.append(("seeded random call sequences", "random", [random_events(rng) for _ in range(T["random"])]))
        ctx.note(random_sequences=T["random"])
    if "pure:0" in R:
        cases = [b for i in range(len(T["pure"])) for b in R["pure:%d" % i]]
        ncases = len(cases)
        cases = sample_by_call(dedupe_cases(cases), T["pure_keep"], ctx.seed * 15485863 + 3)
        groups.append(("pure helpers and xmltools cases", "pure", cases))
        ctx.note(pure_cases_enumerated=ncases, pure_cases_executed=len(cases),
                 pure_cases_by_call={op: sum(1 for b in cases if b[0]["op"] == op) for op in PURE_OPS})
    jobs, owner = [], []
    for label, kind, behs in groups:
        for evs in behs:
            jobs.append((len(jobs) + 1, evs, ctx.seed))
            owner.append(kind)
    all_recs = pool_map(pool, nproc, jobs)
    ctx.log("executed %d call sequences (%d calls) on the real code" % (len(all_recs), sum(len(r["done"]) for r in all_recs)))
    for r, kind in zip(all_recs, owner):
        r["group"] = kind
        ctx.count({"e": r["events"], "i": [e["info"].get("call") for e in r["done"]]},
                  nontrivial=bool({e["op"] for e in r["done"]} - {"exists", "reopen", "info"}))
    judge(ctx, all_recs, "judge the recorded traces (TableStoreTrace)")
    for label, kind, behs in groups:
        ctx.log("%-62s %6d traces, %d rejected" % (label[:62], len(behs), sum(1 for r in all_recs if r["group"] == kind and r.get("rejected"))))
    return all_recs, groups


def dedupe_cases(cases):
    seen, out = set(), []
    for b in cases:
        k = json.dumps(b, sort_keys=True)
        if k not in seen:
            seen.add(k)
            out.append(b)
    return out


def run(ctx):
    from concurrent.futures import ThreadPoolExecutor
    if shutil.which("sqlite3") is None:
        # the command line tool ships with the python installations of this image; a bare environment
        # (fresh restore, cron-like PATH) may not list their bin directories
        for d in (os.path.join(sys.prefix, "bin"), os.path.dirname(sys.executable), "/root/miniconda/bin",
                  "/usr/bin", "/usr/local/bin", "/opt/conda/bin"):
            if os.path.exists(os.path.join(d, "sqlite3")):
                os.environ["PATH"] = os.environ.get("PATH", "") + os.pathsep + d
                break
    if shutil.which("sqlite3") is None:
        raise MachineryError("the sqlite3 command line tool (required by array2table / dict2table) is not on PATH")
    T = TIERS[ctx.tier]
    only = getattr(ctx, "only", None) or set()

    def part(name):
        return not only or name in only

    def model(what, consts):
        acts = consts.get("Acts", ALL_ACTS)
        ctx.tlc("TableStoreMC.tla", what="store histories: " + what,
                cfg_text=cfg(constants=mc_constants(consts), constraints=["Bounded", "SmallRows"],
                             invariants=["StoreInv", "MechRefines"], properties=["StoreProps"]),
                workers=16, require=[a for a in REQUIRE if ACT_OF[a] in acts], timeout=3000)

    def deviation(d, consts):
        r = ctx.tlc("TableStoreMC.tla", what="mechanism as found (%s): MechRefines is violated" % d,
                    cfg_text=cfg(constants=mc_constants(consts, KnownDeviations={d}), constraints=["Bounded"],
                                 invariants=["MechRefines"]),
                    workers=1, allow_violation=True, coverage=False, timeout=3000)
        if not any("MechRefines" in v for v in r.violated):
            raise MachineryError("self-test: the mechanism with deviation %s does not violate MechRefines" % d)

    def export_sweep(label, script, types, maxcols, maxrows, pats, length):
        r = ctx.tlc("TableStoreMC.tla", what="scripted histories: " + label,
                    cfg_text=cfg(constants=mc_constants(BASE, keep=True, export_at=length, Script=script, MCTables={"t1"},
                                                        MaxDepth=length, SweepTypes=types, SweepMaxCols=maxcols,
                                                        SweepMaxRows=maxrows, SweepPats=pats),
                                 constraints=["Bounded", "Export"], invariants=["StoreInv", "MechRefines"], properties=["StoreProps"]),
                    workers=1, coverage=False, timeout=3000)
        behs = dedupe(r.records.get("BEH", []))
        if not behs:
            raise MachineryError("no scripted histories exported for %s" % label)
        return behs

    def export_family(name, consts, depth):
        r = ctx.tlc("TableStoreMC.tla", what="export every behaviour of length %d: %s" % (depth, name),
                    cfg_text=cfg(constants=mc_constants(consts, keep=True, export_at=depth, MaxDepth=depth),
                                 constraints=["Bounded", "Export"]),
                    workers=1, coverage=False, timeout=3000)
        behs = dedupe(r.records.get("BEH", []))
        if not behs:
            raise MachineryError("no behaviours exported for %s" % name)
        return behs

    def export_tour(label, U):
        r = ctx.tlc("TableStoreMC.tla", what="export transition tour (%s, depth %d)" % (label, U["MaxDepth"]),
                    cfg_text=cfg(constants=mc_constants(U, keep=True, export_at=0), constraints=["Bounded", "SmallRows", "Export"],
                                 view="View"),
                    workers=1, coverage=False, timeout=3000)
        edges = dedupe(r.records.get("BEH", []))
        keep = maximal(edges)
        if not keep:
            raise MachineryError("empty transition tour")
        return len(edges), len(keep), sample(keep, T["tour_keep"], ctx.seed * 7919 + 11)

    def export_sim(S):
        r = ctx.tlc("TableStoreMC.tla", what="simulate %d behaviours of depth %d" % (S["num"], S["depth"]),
                    cfg_text=cfg(constants=mc_constants(S["consts"], keep=True, export_at=S["depth"], MaxDepth=S["depth"]),
                                 constraints=["Export"]),
                    workers=1, coverage=False, timeout=3000, simulate="num=%d" % S["num"],
                    extra=["-depth", str(S["depth"] + 1), "-seed", str(ctx.seed + 1)])
        got = dedupe(r.records.get("BEH", []))
        if len(got) < S["num"] // 2:
            raise MachineryError("simulation exported only %d behaviours" % len(got))
        return len(got), sample(got, S["keep"], ctx.seed * 104729 + 5)

    def export_pure(i, P):
        acts = P["Acts"]
        consts = {k: v for k, v in P.items() if k != "Acts"}
        r = ctx.tlc("TableStoreMC.tla", what="enumerate pure cases (%d: %s)" % (i + 1, ", ".join(sorted(acts))),
                    cfg_text=cfg(constants=mc_constants(consts, keep=True, export_at=1, MaxDepth=1, Acts=acts), next_="PureNext",
                                 invariants=["PureInv"], constraints=["Bounded", "Export"]),
                    workers=1, coverage=False, timeout=3000)
        got = r.records.get("BEH", [])
        missing = acts - {b[0]["op"] for b in got}
        if missing:
            raise MachineryError("no cases exported for %s" % sorted(missing))
        return got

    first_run = len(ctx.tlc_runs)
    pool, nproc = make_pool()
    ex = ThreadPoolExecutor(5)
    try:
        F, M = {}, {}
        if part("sweep"):
            for sw in T["sweeps"]:
                F["sweep:" + sw[1]] = ex.submit(export_sweep, *sw)
        if part("behaviours"):
            for name, consts, depth in T["families"]:
                F["fam:" + name] = ex.submit(export_family, name, consts, depth)
        if part("tour"):
            for i, (label, consts) in enumerate(T["tours"]):
                F["tour:%d" % i] = ex.submit(export_tour, label, consts)
        if part("simulate"):
            F["sim"] = ex.submit(export_sim, T["simulate"])
        if part("pure"):
            for i, P in enumerate(T["pure"]):
                F["pure:%d" % i] = ex.submit(export_pure, i, P)
        if part("mc"):
            for what, consts in T["models"]:
                M["mc:" + what] = ex.submit(model, what, consts)
            for d in ("rowfactory", "indexname", "moduleindex"):
                M["dev:" + d] = ex.submit(deviation, d, T["deviations"])
        R = {k: f.result() for k, f in F.items()}
        all_recs, groups = execute_and_judge(ctx, T, R, part, pool, nproc)
        for f in M.values():
            f.result()
    finally:
        ex.shutdown(wait=True, cancel_futures=True)
        close_pool(pool)
    ctx.tlc_runs[first_run:] = sorted(ctx.tlc_runs[first_run:], key=lambda r: r["what"])
    if only:
        return
    for kind in ("sweep:sweep", "sweep:dsweep", "sim", "random", "pure"):
        r = next((r for r in all_recs if r["group"] == kind and r["done"] and not r.get("rejected")), None)
        if r:
            ctx.sample({"group": kind, "events": [compact(e) for e in r["done"][:3]]})
    selftest(ctx, all_recs)
    ctx.exhaustive = True
    x = ctx.extra
    ctx.rule = ("TableStore.tla actions A2T / D2T / Read(asarray | dtype | cursor) / Exists / Describe(describe | table_info | "
                "columns= | tabledef2dtype) / Info / Drop / AddIndex(method | module) / Reopen and the pure N2S S2N TDef Py2S DDef "
                "Ensure D2X X2D XRT XWrap; TLC explores every history up to the depths in `models` (StoreInv, StoreProps, "
                "MechRefines with no deviation; MechRefines shown violated with each of rowfactory / indexname / moduleindex) and "
                "the scripted histories of every column-type sequence (%s); replayed on a real database file in a scratch "
                "directory: %d + %d scripted histories, every behaviour of a length per family (at most %d each), a transition "
                "tour (%d edges = %d maximal histories, %d replayed), %d -simulate behaviours of depth %d, %d seeded random "
                "sequences of 5-16 calls, and %d of %d enumerated pure cases (%s); arrays are built native / byte-swapped / "
                "strided; after every call an independent sqlite3 connection projects the file (tables, declared columns, rows, "
                "indexes, stray files) and the trace is judged by TableStoreTrace.tla" %
                ("; ".join(s[0] for s in T["sweeps"]), x.get("scripted_sweep_replayed", 0), x.get("scripted_dsweep_replayed", 0),
                 T["family_keep"], x.get("tour_edges", 0), x.get("tour_maximal_histories", 0), x.get("tour_histories_replayed", 0),
                 x.get("simulated_behaviours_replayed", 0), T["simulate"]["depth"], T["random"], x.get("pure_cases_executed", 0),
                 x.get("pure_cases_enumerated", 0), x.get("pure_cases_by_call", {})))
    ctx.note(models=[{"what": w, "constants": _fmt(c)} for w, c in T["models"]], scratch=scratch_base())
    ctx.assumptions = ASSUMPTIONS
    ctx.trusted_base.append("x04 adapter: abstract arrays / dict lists / XML trees <-> concrete values, the projection of the "
                            "database file through a plain sqlite3 connection, the float lattice projection (4 ulp), the sqlite3 "
                            "command line tool and python's sqlite3 / xml.etree modules")


def _fmt(c):
    return {k: (sorted(v) if isinstance(v, (set, frozenset)) else v) for k, v in c.items()}


def replay(ctx, case):
    if case.get("kind") != "trace":
        raise MachineryError("unknown replay case kind %r" % case.get("kind"))
    recs = fork_map([(case.get("id", 1), case["events"], case["seed"])])
    for e in recs[0]["done"]:
        print("replay %-38s %s -> %s%s" % (ENTRY[e["op"]], e["info"].get("call"), json.dumps(e["res"], sort_keys=True)[:300],
                                          " (%s)" % e["info"]["exc"] if e["info"].get("exc") else ""))
        if "obs" in e:
            o = e["obs"]
            print("       tables=%s idx=%s stray=%d" % ({t: (len(v["rows"]) if v["ex"] else None) for t, v in o["tabs"].items()}, o["idx"], o["stray"]))
    for r in recs:
        r["group"] = "replay"
    judge(ctx, recs, "judge the replayed trace (TableStoreTrace)")
