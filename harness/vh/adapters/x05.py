"""X05 (extension) - the pure-python cosmology (esutil/cosmology_purepy.py) and the small documented helpers
of esutil/coords.py (dec_parse, ra_parse, rect_area, atbound, atbound2, radec2aitoff).

spec -> code : CosmoPureMC.tla enumerates API (class Cosmo / module functions) x constructor or keyword
               arguments x (npts, vnpts) x redshift pairs, argument-representation pairs of the vectorised
               entry points, call histories (objects with their own quadrature rules, the functions' global
               rule cache), sexagesimal strings over a bounded alphabet of fields, rectangles on latitudes
               with rational sines, atbound / atbound2 arrays on integer degrees and the (ra, dec) lattice
               of radec2aitoff - and exports them with everything exact about them (allowed reported
               parameters, E^2(z), which identities of CosmoPure.tla's catalogue apply, allowed dispatch
               outcomes, allowed parse values, exact areas).  Every exported case is executed.
code -> spec : what the real code returned is written as ndjson - reported parameters projected on the
               rational lattice, identity residuals as integer numbers of ulp / ppb (among them the
               agreement with the C-backed esutil.cosmology.Cosmo built from the same reported parameters),
               element-vs-scalar agreement, which fresh-state results a call in a history equals, parse
               residuals per allowed value, wrapped arrays as integers - and judged by CosmoPureTrace.tla.
               A seeded sample on a finer lattice goes the same way (TLC derives the exact side: NextFile).
Python never judges: it evaluates the expression trees exported from the specification with exact rational
arithmetic (vh/cosmolat.py, reused from C11) and records.
"""
import importlib
import json
import math
import os
import random
import tempfile
import traceback
import warnings
from concurrent.futures import ThreadPoolExecutor
from fractions import Fraction as F

import numpy as np

from .. import cosmolat as lat
from .. import tracecheck
from ..core import MachineryError
from ..par import pmap
from ..tlc import cfg

NEEDS_EXT = True          # `import esutil` needs the compiled extensions; the C-backed Cosmo is the refinement partner

ALL_Q = {"Dc", "Dm", "Da", "Dl", "sigmacritinv", "Ez_inverse", "dV", "distmod"}
BOUNDS = {
    "quick": dict(
        ctor=dict(OmIdx={1, 2, 3, 5, 6}, CurvIdx=set(range(1, 14)), HIdx={1, 2, 4, 5}, NVIdx={1, 3}, HMix=False),
        scalar=dict(OmIdx={2, 3, 6}, CurvIdx={1, 4, 5, 6, 8, 9, 11, 12}, HIdx={1, 2, 3, 4, 5}, NVIdx={1, 2, 3, 4, 5}, HMix=True,
                    ZIdx={1, 3, 5, 7, 9}),
        dispatch=dict(Quants=ALL_Q, Dts={"f8", "f4", "i8", ">f8"}, Lays={"contig", "strided", "zerod"}, MaxLen=3, Pairing="cover"),
        hist=dict(HLen=3, HNs={0, 3}, HVns={0, 4}),
        coords=dict(WrapLen=2, DIdx={2, 3, 5, 7, 9, 10, 12, 14, 15, 16, 17, 18, 20}, MIdx={1, 2, 3, 5, 7, 8}, SIdx={1, 3, 4, 5, 7},
                    LonIdx={1, 2, 4, 5, 7}),
        nrandom=150, nparse=400),
    "thorough": dict(
        ctor=dict(OmIdx={1, 2, 3, 4, 5, 6}, CurvIdx=set(range(1, 14)), HIdx=set(range(1, 7)), NVIdx=set(range(1, 7)), HMix=False),
        scalar=dict(OmIdx={1, 2, 3, 4, 6}, CurvIdx=set(range(1, 14)), HIdx=set(range(1, 7)), NVIdx=set(range(1, 7)), HMix=True,
                    ZIdx={1, 2, 3, 4, 5, 7, 8, 10, 11, 12, 13}),
        dispatch=dict(Quants=ALL_Q, Dts={"f8", "f4", "i8", "i4", ">f8", ">f4", ">i8"}, Lays={"contig", "strided", "reversed", "zerod"},
                      MaxLen=3, Pairing="cover"),
        hist=dict(HLen=4, HNs={0, 3}, HVns={0, 4}),
        coords=dict(WrapLen=3, DIdx=set(range(1, 21)), MIdx=set(range(1, 10)), SIdx=set(range(1, 9)), LonIdx=set(range(1, 8))),
        nrandom=2500, nparse=6000),
}
DEFAULTS = dict(Apis={"class", "func"}, OmIdx={2}, CurvIdx={1}, HIdx={1, 2}, ZIdx={1}, NVIdx={1}, HMix=False, Quants={"Dc"}, Dts={"f8"},
                Lays={"contig"}, MaxLen=1, Pairing="full", HLen=2, HNs={0, 3}, HVns={0, 4}, WrapLen=1, DIdx={5}, MIdx={2}, SIdx={1}, LonIdx={1, 4},
                DoExport=False,
                FixedLoop=True, FixedDv=True, FixedDm=True, FixedCache=True)

# the cosmologies the dispatch machine and the histories run on (flat, open, closed)
DISPATCH_COSMO = [dict(omega_m=0.3, h=0.7), dict(flat=False, omega_m=0.3, omega_l=0.6, omega_k=0.1, h=0.7),
                  dict(flat=False, omega_m=0.3, omega_l=0.8, omega_k=-0.1, h=0.72)]
HIST_Z = (0.25, 1.5)
RANK = ["DH", "Ez_inverse", "Ezinv_integral", "Dc", "Dm", "Da", "Dl", "dV", "V", "distmod", "sigmacritinv", "four_pi_G_over_c_squared"]

IDENTS = {}          # name -> identity (expression trees with symbolic numbers of points), exported from CosmoPure.tla


def pp():
    import esutil.cosmology_purepy as m
    return m


# ---- facades: the object under test as the generic evaluator sees it -----------------------------------
class Rejected(lat.Undefined):
    """a call of the real code raised"""


def _where(e):
    """innermost function of cosmology_purepy / coords in the traceback (signature material, not a verdict)"""
    names = [fr.name for fr in traceback.extract_tb(e.__traceback__) if fr.filename.endswith(("cosmology_purepy.py", "coords.py"))]
    return names[-1] if names else "?"


def _tofloat(v):
    a = np.asarray(v)
    if a.size != 1:
        raise TypeError("result of size %d where one value is expected" % a.size)
    return float(a.reshape(-1)[0])


class Facade:
    """common part: calls are made once, exceptions are remembered (Rejected), results are plain floats"""

    def __init__(self):
        self.rejections = {}          # name -> [exception class, where]
        self.nonfinite = set()
        self._memo = {}

    def _do(self, name, fn, *xs):
        key = (name,) + xs
        if key not in self._memo:
            try:
                with np.errstate(all="ignore"):
                    self._memo[key] = _tofloat(fn(*xs))
            except Exception as e:  # noqa
                self.rejections.setdefault(name, [type(e).__name__, _where(e)])
                self._memo[key] = Rejected("%s%s raised %s" % (name, xs, type(e).__name__))
        v = self._memo[key]
        if isinstance(v, Exception):
            raise v
        if not math.isfinite(v):
            self.nonfinite.add(name)
        return v

    def __getattr__(self, name):
        if name.startswith("_"):
            raise AttributeError(name)
        if name.startswith("c_"):
            return lambda *xs: self._do(name, getattr(self.cobj(), name[2:]), *xs)
        return lambda *xs: self._do(name, self._target(name), *xs)

    def cobj(self):
        if self._cobj is None:
            from esutil.cosmology import Cosmo
            p = self._p
            self._cobj = Cosmo(H0=float(lat.frac(p["H0"])), flat=bool(p["flat"]), omega_m=float(lat.frac(p["om"])),
                               omega_l=float(lat.frac(p["ol"])), omega_k=float(lat.frac(p["ok"])))
        return self._cobj

    def value(self, name):
        """the named observed floats of the identities"""
        if name == "DH":
            return self._do("DH", self._dh)
        if name == "cDH":
            return self._do("c_DH", self.cobj().DH)
        if name == "ok":
            return self._do("omega_k", self._ok)
        if name in ("K", "K_kpc", "K_Gpc"):
            unit = "Mpc" if name == "K" else name[2:]
            return self._do("four_pi_G_over_c_squared", pp().four_pi_G_over_c_squared, unit)
        raise KeyError(name)


class ClassFacade(Facade):
    def __init__(self, obj, p):
        Facade.__init__(self)
        self._obj, self._p, self._cobj = obj, p, None
        self._dh = obj.DH
        self._ok = lambda: obj.omega_k

    def _target(self, name):
        return getattr(self._obj, name)


class FuncFacade(Facade):
    """the module-level functions bound to the keywords of the case"""

    def __init__(self, kw, n, vn, p):
        Facade.__init__(self)
        self._kw, self._n, self._vn, self._p, self._cobj = kw, n, vn, p, None
        m = pp()
        self._dh = (lambda: m.DH(h=kw["h"])) if "h" in kw else m.DH
        self._ok = lambda: self._omegas()[2]

    def _omegas(self):
        k = self._kw
        return pp()._extract_omegas(k.get("omega_m", 0.3), k.get("omega_l", 0.7), k.get("omega_k", 0.0), k.get("flat", True))

    def _target(self, name):
        m, kw = pp(), dict(self._kw)
        if self._n:
            kw["npts"] = self._n
        if name == "Ez_inverse":                       # the module's own composition: Ez_inverse(z, *_extract_omegas(...))
            return lambda z: m.Ez_inverse(z, *self._omegas())
        if name == "Ezinv_integral":
            extra = {"npts": self._n} if self._n else {}
            return lambda a, b: m.Ezinv_integral(a, b, *self._omegas(), **extra)
        if name == "V" and self._vn:
            kw["vnpts"] = self._vn
        f = getattr(m, "Distmod" if name == "distmod" else name)
        return lambda *xs: f(*xs, **kw)


class LazyVals(dict):
    def __init__(self, fac, a, b):
        dict.__init__(self, a=float(a), b=float(b))
        self.fac = fac

    def __missing__(self, k):
        self[k] = self.fac.value(k)
        return self[k]


class Ev(lat.Evaluator):
    """cosmolat's evaluator on a facade: symbolic numbers of points, rejected calls, shared quadrature sums"""

    def __init__(self, fac, a, b, der, pars, npts, vnpts):
        self.obj, self.vals, self.der, self.pars = fac, LazyVals(fac, a, b), der, pars
        self.env, self.memo, self.ncalls = {}, {}, 0
        self.nv = {"npts": npts, "vnpts": vnpts}
        self.sums = {}

    def ev(self, t):
        if t[0] == "gl":
            if isinstance(t[1], str):
                t = [t[0], self.nv[t[1]]] + list(t[2:])
            if not self.env:                       # a top-level sum: the 4 pi variants and alternatives share it
                key = json.dumps(t)
                if key not in self.sums:
                    try:
                        self.sums[key] = lat.Evaluator.ev(self, t)
                    except lat.Undefined as e:
                        self.sums[key] = e
                if isinstance(self.sums[key], Exception):
                    raise self.sums[key]
                return self.sums[key]
        return lat.Evaluator.ev(self, t)

    def residual(self, ident):
        try:
            lhs, rhs = self.ev(ident["lhs"]), self.ev(ident["rhs"])
            scale = max(abs(lhs), abs(rhs)) if ident["scale"][0] == "maxabs" else abs(self.ev(ident["scale"]))
        except Rejected as e:
            return [-2, 0], {"rejected": str(e)}
        except lat.Undefined as e:
            return [-1, 0], {"undefined": str(e)}
        return lat.residual(lhs, rhs, scale, ident["unit"])


# ---- abstract -> concrete -----------------------------------------------------------------------------
def _mix(i, n):
    """representation variant of case i: decorrelated from the enumeration order of the cases"""
    return ((i * 2654435761) >> 11) % n


def _isnone(nd):
    return nd[1] == 0


def keywords(args, variant=0):
    """constructor / function keywords for abstract args; absent values are not passed"""
    kw = {}
    names = (("H0", "H0"), ("h", "h"), ("om", "omega_m"), ("ol", "omega_l"), ("ok", "omega_k"))
    for key, name in names:
        if not _isnone(args[key]):
            kw[name] = float(lat.frac(args[key]))
    if not args["flat"] or _mix(variant, 2) == 0:      # flat=True is the default: pass it explicitly half of the time
        kw["flat"] = bool(args["flat"])
    return kw


def construct(args, variant=0):
    kw = keywords(args, variant)
    if args["n"]:
        kw["npts"] = args["n"]
    if args["vn"]:
        kw["vnpts"] = args["vn"]
    return pp().Cosmo(**kw)


NOREP = {"H0": lat.OFF, "DH": lat.OFF, "flat": True, "om": lat.OFF, "ol": lat.OFF, "ok": lat.OFF}
NOATTR = {"npts": -1, "vnpts": -1, "xn": -1, "vxn": -1, "alias": False}
REPKEYS = {"class": ("H0", "flat", "om", "ol", "ok"), "func": ("om", "ol", "ok")}


def reported_class(obj):
    return {"H0": lat.project(F(obj.h) * 100), "DH": lat.project(obj.DH()), "flat": bool(obj.flat),
            "om": lat.project(obj.omega_m), "ol": lat.project(obj.omega_l), "ok": lat.project(obj.omega_k)}


def reported_func(kw):
    m = pp()
    om, ol, ok = m._extract_omegas(kw.get("omega_m", 0.3), kw.get("omega_l", 0.7), kw.get("omega_k", 0.0), kw.get("flat", True))
    h = kw.get("h", 1.0)
    return {"H0": lat.project(F(h) * 100), "DH": lat.project(m.DH(h=h)), "flat": bool(ok == 0),
            "om": lat.project(om), "ol": lat.project(ol), "ok": lat.project(ok)}


def attrs_class(obj):
    def _int(name):
        if not hasattr(obj, name):
            return -2
        v = getattr(obj, name)
        return int(v) if isinstance(v, (int, np.integer)) else -1

    def _len(name):
        return int(np.size(getattr(obj, name))) if hasattr(obj, name) else -2
    alias = getattr(obj, "Distmod", None)
    return {"npts": _int("npts"), "vnpts": _int("vnpts"), "xn": _len("xxi"), "vxn": _len("vxxi"),
            "alias": bool(alias is not None and getattr(alias, "__func__", None) is type(obj).distmod)}


def _open(args, i):
    """-> (rep, attrs, facade factory) or raises"""
    if args["api"] == "class":
        obj = construct(args, i)
        return reported_class(obj), attrs_class(obj), lambda p: ClassFacade(obj, p)
    kw = keywords(args, i)
    kw.pop("H0", None)
    return reported_func(kw), dict(NOATTR), lambda p: FuncFacade(kw, args["n"], args["vn"], p)


# ---- executing one exported case -> one record ---------------------------------------------------------
def run_ctor(item):
    i, c = item
    rec = {"id": i, "t": "pctor", "api": c["api"], "args": c["args"], "n": c["n"], "vn": c["vn"], "err": "none",
           "rep": dict(NOREP), "attrs": dict(NOATTR), "case": dict(c, variant=i)}
    try:
        with warnings.catch_warnings():
            warnings.simplefilter("ignore")
            rec["rep"], rec["attrs"], _ = _open(c["args"], i)
    except Exception as e:  # noqa
        rec["err"], rec["where"] = type(e).__name__, _where(e)
    return rec


NODER = {"E2a": lat.OFF, "E2b": lat.OFF, "Sa": lat.OFF, "Sb": lat.OFF, "eds": lat.OFF}


def run_scalar(item):
    i, c = item
    api = c["api"]
    rec = {"id": i, "t": "pscalar", "api": api, "args": c["args"], "n": c["n"], "vn": c["vn"], "a": c["a"], "b": c["b"],
           "err": "none", "rep": dict(NOREP), "der": dict(NODER), "res": {"_": [0, 0]}, "rejected": [], "info": {},
           "case": dict(c, variant=i)}
    with warnings.catch_warnings():
        warnings.simplefilter("ignore")
        try:
            rec["rep"], _, mk = _open(c["args"], i)
        except Exception as e:  # noqa
            rec["err"], rec["where"] = type(e).__name__, _where(e)
            return rec
        rep = rec["rep"]
        out = next((o for o in c["outs"] if all(o["p"][k] == rep[k] for k in REPKEYS[api])), None)   # the reading the code took
        if out is None:
            return rec
        rec["der"] = out["der"]
        fac = mk(out["p"])
        ev = Ev(fac, lat.frac(c["a"]), lat.frac(c["b"]), out["der"], out["p"], c["n"] or 5, c["vn"] or 10)
        for name in out["need"]:
            rec["res"][name], rec["info"][name] = ev.residual(IDENTS[name])
        rec["rejected"] = sorted(fac.rejections)
        rec["rejinfo"] = fac.rejections
        rec["nonfinite"] = sorted(fac.nonfinite, key=lambda q: RANK.index(q) if q in RANK else 99)
    return rec


def _close(x, y, eps=4 * 2.0 ** -52):
    """two implementation outputs agree (bit-identical, or to rounding: 4 ulp of binary64 unless told otherwise)"""
    if np.float64(x).tobytes() == np.float64(y).tobytes():
        return True
    if not (math.isfinite(x) and math.isfinite(y)):
        return False
    return abs(x - y) <= eps * max(abs(x), abs(y))


def _eps(*reps):
    """rounding unit of a call: numpy computes in the precision of a float32 argument (32 ulp of binary32 for the chains here)"""
    return 32 * 2.0 ** -24 if any(r["dt"] in ("f4", ">f4") for r in reps) else 4 * 2.0 ** -52


def _callable(api, q, ck):
    m, kw = pp(), DISPATCH_COSMO[ck]
    if api == "class":
        return getattr(m.Cosmo(**kw), q)
    if q == "Ez_inverse":
        om = m._extract_omegas(kw.get("omega_m", 0.3), kw.get("omega_l", 0.7), kw.get("omega_k", 0.0), kw.get("flat", True))
        return lambda z: m.Ez_inverse(z, *om)
    f = getattr(m, "Distmod" if q == "distmod" else q)
    return lambda *xs: f(*xs, **kw)


def run_dispatch(item):
    i, c = item
    ck = c.get("ck", _mix(i, len(DISPATCH_COSMO)))
    api, q, sa, sb = c["api"], c["q"], c["sa"], c["sb"]
    A, B = lat.concretise(sa, 0), lat.concretise(sb, 1)
    snap = [x.tobytes() if isinstance(x, np.ndarray) else repr(x) for x in (A, B)]
    live = sorted((e for e in c["allowed"] if e["kind"] != "rejected"), key=lambda e: (e["kind"], len(e["pairs"])))
    pairs = live[0]["pairs"] if live else []
    obs = {"kind": "rejected", "len": 0, "eq": [], "err": "none", "where": ""}
    with warnings.catch_warnings():
        warnings.simplefilter("ignore")
        with np.errstate(all="ignore"):
            try:
                f = _callable(api, q, ck)
                res = f(A) if B is None else f(A, B)
                if isinstance(res, np.ndarray) and res.ndim >= 1:
                    obs["kind"], vals = "array", [float(v) for v in res.ravel()]
                else:
                    obs["kind"], vals = "scalar", [float(res)]
                obs["len"] = len(vals)
                fit = [e for e in live if e["kind"] == obs["kind"] and len(e["pairs"]) == len(vals)]
                pairs = fit[0]["pairs"] if fit else pairs
                for k, pr in enumerate(pairs[:len(vals)]):
                    xs = (lat.element(sa, 0, pr[0]),) if B is None else (lat.element(sa, 0, pr[0]), lat.element(sb, 1, pr[1]))
                    try:
                        obs["eq"].append(_close(vals[k], _tofloat(f(*xs)), _eps(sa, sb)))      # two implementation outputs, same VALUES
                    except Exception:  # noqa
                        obs["eq"].append(False)
            except Exception as e:  # noqa
                obs = {"kind": "rejected", "len": 0, "eq": [], "err": type(e).__name__, "where": _where(e)}
    frame_ok = snap == [x.tobytes() if isinstance(x, np.ndarray) else repr(x) for x in (A, B)]
    return {"id": i, "t": "pdispatch", "api": api, "q": q, "sa": sa, "sb": sb, "pairs": pairs, "obs": obs, "frame_ok": frame_ok,
            "case": dict(c, ck=ck)}


# ---- histories -------------------------------------------------------------------------------------------
_REFS = {}


def _fresh():
    """a fresh interpreter state of the module (empty rule caches, new class)"""
    import esutil.cosmology_purepy as m
    return importlib.reload(m)


def _kwn(n, vn, q):
    kw = {}
    if n:
        kw["npts"] = n
    if vn and q == "V":
        kw["vnpts"] = vn
    return kw


def _ref(kind, q, n, vn, ck):
    """the result of the call made first thing in a fresh state with effective (n, vn) points"""
    key = (kind, q, n, vn if q == "V" else 0, ck)
    if key not in _REFS:
        m, kw = _fresh(), DISPATCH_COSMO[ck]
        try:
            with np.errstate(all="ignore"):
                if kind == "call":
                    v = getattr(m.Cosmo(npts=n, vnpts=vn, **kw), q)(*HIST_Z)
                elif q == "Ezinv_integral":
                    om = m._extract_omegas(kw.get("omega_m", 0.3), kw.get("omega_l", 0.7), kw.get("omega_k", 0.0), kw.get("flat", True))
                    v = m.Ezinv_integral(*HIST_Z, *om, npts=n)
                else:
                    v = getattr(m, q)(*HIST_Z, **dict(kw, **_kwn(n, vn, q)))
            _REFS[key] = _tofloat(v)
        except Exception:  # noqa
            _REFS[key] = None
    return _REFS[key]


def run_hist(item):
    i, c = item
    ck = c.get("ck", _mix(i, len(DISPATCH_COSMO)))
    evs = c["events"]
    ns = sorted({(e["n"] or 5) for e in evs if e["op"] in ("new", "set", "fcall")} | {5})
    vns = sorted({(e["vn"] or 10) for e in evs if e["op"] in ("new", "fcall")} | {10})
    with warnings.catch_warnings():
        warnings.simplefilter("ignore")
        for e in evs:                                        # references first: they reset the module state
            if e["op"] in ("call", "fcall"):
                for n in ns:
                    for vn in vns:
                        _ref(e["op"], e["q"], n, vn, ck)
        m, kw = _fresh(), DISPATCH_COSMO[ck]
        objs, obs = {}, []
        for e in evs:
            o = {"err": "none", "val": 0, "match": [], "where": ""}
            try:
                with np.errstate(all="ignore"):
                    if e["op"] == "new":
                        k = dict(kw)
                        if e["n"]:
                            k["npts"] = e["n"]
                        if e["vn"]:
                            k["vnpts"] = e["vn"]
                        objs[e["id"]] = m.Cosmo(**k)
                    elif e["op"] == "set":
                        objs[e["id"]].npts = e["n"]
                    elif e["op"] == "get":
                        v = objs[e["id"]].npts
                        o["val"] = int(v) if isinstance(v, (int, np.integer)) else -1
                    else:
                        if e["op"] == "call":
                            v = getattr(objs[e["id"]], e["q"])(*HIST_Z)
                        elif e["q"] == "Ezinv_integral":
                            om = m._extract_omegas(kw.get("omega_m", 0.3), kw.get("omega_l", 0.7), kw.get("omega_k", 0.0), kw.get("flat", True))
                            v = m.Ezinv_integral(*HIST_Z, *om, **_kwn(e["n"], 0, "Ezinv_integral"))
                        else:
                            v = getattr(m, e["q"])(*HIST_Z, **dict(kw, **_kwn(e["n"], e["vn"], e["q"])))
                        v = _tofloat(v)
                        o["raw"] = repr(v)
                        for n in ns:
                            for vn in vns:
                                r = _ref(e["op"], e["q"], n, vn, ck)
                                if r is not None and _close(v, r):
                                    o["match"].append([n, vn])
            except Exception as ex:  # noqa
                o["err"], o["where"] = type(ex).__name__, _where(ex)
            obs.append(o)
    return {"id": i, "t": "phist", "events": evs, "obs": obs, "case": dict(c, ck=ck, variant=i)}


# ---- coords helpers ----------------------------------------------------------------------------------------
def _coords():
    import esutil.coords as m
    return m


def _res(val, exact, scale=None):
    """residual of a returned float against an exact rational, ulp of `scale` (default |exact|)"""
    try:
        v = float(val)
        if not math.isfinite(v):
            return [-1, 0]
    except (TypeError, ValueError):
        return [-1, 0]
    return lat.residual(F(v), exact, abs(exact) if scale is None else scale, "ulp")[0]


def run_parse(item):
    i, c = item
    s = "".join(c["c"]["chars"])
    cands = c["spec"]["cands"]
    obs = {"err": "none", "res": []}
    try:
        m = _coords()
        if c["c"]["fn"] == "dec":
            v = m.dec_parse(s)
        elif c["c"]["hours"] and _mix(i, 2):
            v = m.ra_parse(s)                               # hours=True is the default
        else:
            v = m.ra_parse(s, hours=c["c"]["hours"])
        obs["raw"] = repr(v)
        obs["res"] = [_res(v, lat.frac(cd), lat.frac(c["spec"]["scale"])) for cd in cands]
    except Exception as e:  # noqa
        obs["err"] = type(e).__name__
    return {"id": i, "t": "parse", "c": c["c"], "cands": cands, "scale": c["spec"]["scale"], "obs": obs, "string": s, "case": dict(c, variant=i)}


_NUM = [float, int, np.float64, np.float32, np.int64]


def run_area(item):
    i, c = item
    cc = c["c"]
    conv = _NUM[_mix(i, len(_NUM))]
    K = F(180) / lat.PI
    # residuals in ulp of the precision the call computes in: numpy stays in single precision for float32 arguments
    exp, scale = lat.frac(c["exp"]) * K, lat.frac(c["scale"]) * K * (2 ** 29 if conv is np.float32 else 1)
    obs = {"err": "none", "val": [-1, 0], "lon_add": [-1, 0], "lat_add": [-1, 0], "mirror": [-1, 0]}
    try:
        f = _coords().rect_area

        def area(l1, l2, b1, b2):
            return float(f(conv(l1), conv(l2), conv(b1), conv(b2)))
        a = area(cc["lon1"], cc["lon2"], cc["lat1"], cc["lat2"])
        obs["raw"] = repr(a)
        obs["val"] = _res(a, exp, scale)
        if math.isfinite(a):
            m, lm = c["mid"], c["latmid"]
            if (cc["lon1"] + cc["lon2"]) % 2:
                m = cc["lon1"]
            obs["lon_add"] = _res(a, F(area(cc["lon1"], m, cc["lat1"], cc["lat2"])) + F(area(m, cc["lon2"], cc["lat1"], cc["lat2"])), scale)
            obs["lat_add"] = _res(a, F(area(cc["lon1"], cc["lon2"], cc["lat1"], lm)) + F(area(cc["lon1"], cc["lon2"], lm, cc["lat2"])), scale)
            obs["mirror"] = _res(a, F(area(cc["lon1"], cc["lon2"], -cc["lat2"], -cc["lat1"])), scale)
    except Exception as e:  # noqa
        obs["err"] = type(e).__name__
    return {"id": i, "t": "area", "c": cc, "exp": c["exp"], "scale": c["scale"], "obs": obs, "conv": conv.__name__, "case": dict(c, variant=i)}


_WRAPREP = [("f8", "contig"), ("f4", "contig"), ("f8", "strided"), ("f8", "reversed"), ("f4", "strided")]


def _wraparr(vals, k):
    dt, lay = _WRAPREP[_mix(k, len(_WRAPREP))]
    if lay == "contig":
        return np.array(vals, dtype=dt), None
    if lay == "strided":
        buf = np.full(2 * len(vals), 77.0, dtype=dt)
        buf[::2] = vals
        return buf[::2], buf
    buf = np.array(vals[::-1], dtype=dt)
    return buf[::-1], buf


def _ints(a):
    out, onlat = [], True
    for v in np.asarray(a, dtype="f8").ravel():
        if math.isfinite(v) and v == int(v) and abs(v) < 2 ** 30:
            out.append(int(v))
        else:
            out.append(0)
            onlat = False
    return out, onlat


def run_wrap(item):
    i, c = item
    cc = c["c"]
    obs = {"err": "none", "out": [], "onlat": False, "inplace": False}
    try:
        arr, buf = _wraparr(cc["vals"], i)
        ret = _coords().atbound(arr, float(cc["lo"]), float(cc["hi"]))
        obs["out"], obs["onlat"] = _ints(arr)
        obs["inplace"] = not (isinstance(ret, np.ndarray) and ret is not arr)
        if buf is not None and _WRAPREP[_mix(i, len(_WRAPREP))][1] == "strided":
            obs["frame_ok"] = bool((buf[1::2] == 77.0).all())
    except Exception as e:  # noqa
        obs["err"] = type(e).__name__
    return {"id": i, "t": "wrap", "c": cc, "obs": obs, "rep": list(_WRAPREP[_mix(i, len(_WRAPREP))]), "case": dict(c, variant=i)}


def run_wrap2(item):
    i, c = item
    cc = c["c"]
    obs = {"err": "none", "theta": [], "phi": [], "onlat": False, "inplace": False}
    try:
        th, _ = _wraparr(cc["theta"], i)
        ph, _ = _wraparr(cc["phi"], i + 1)
        ret = _coords().atbound2(th, ph)
        obs["theta"], a = _ints(th)
        obs["phi"], b = _ints(ph)
        obs["onlat"], obs["inplace"] = a and b, ret is None or ret is th
    except Exception as e:  # noqa
        obs["err"] = type(e).__name__
    return {"id": i, "t": "wrap2", "c": cc, "obs": obs, "case": dict(c, variant=i)}


def _over(v, bound):
    ex = F(abs(v)) - bound
    if ex <= 0:
        return 0
    q = ex / (bound * lat.ULP)
    return int(min(lat.CAP, -((-q.numerator) // q.denominator)))


def run_aitoff(item):
    i, c = item
    cc = c["c"]
    conv = _NUM[_mix(i, 3)]
    obs = {"err": "none", "finite": False, "xover": 0, "yover": 0, "dec_x": [-1, 0], "dec_y": [-1, 0], "ra_x": [-1, 0], "ra_y": [-1, 0]}
    try:
        f = _coords().radec2aitoff

        def xy(ra, dec):
            x, y = f(conv(ra), conv(dec))
            return _tofloat(x), _tofloat(y)
        with np.errstate(all="ignore"):
            x, y = xy(cc["ra"], cc["dec"])
            obs["raw"] = [repr(x), repr(y)]
            obs["finite"] = math.isfinite(x) and math.isfinite(y)
            if obs["finite"]:
                obs["xover"], obs["yover"] = _over(x, 180), _over(y, 90)
                x2, y2 = xy(cc["ra"], -cc["dec"])
                obs["dec_x"], obs["dec_y"] = _res(x2, F(x), F(180)), _res(y2, -F(y), F(90))
                x3, y3 = xy(360 - cc["ra"], cc["dec"])
                obs["ra_x"], obs["ra_y"] = _res(x3, -F(x), F(180)), _res(y3, F(y), F(90))
    except Exception as e:  # noqa
        obs["err"] = type(e).__name__
    return {"id": i, "t": "aitoff", "c": cc, "obs": obs, "case": dict(c, variant=i)}


RUNNERS = {"pctor": run_ctor, "pscalar": run_scalar, "pdispatch": run_dispatch, "phist": run_hist, "parse": run_parse,
           "area": run_area, "wrap": run_wrap, "wrap2": run_wrap2, "aitoff": run_aitoff}
TRACE_FIELDS = {"pctor": ("id", "t", "api", "args", "n", "vn", "err", "rep", "attrs"),
                "pscalar": ("id", "t", "api", "args", "n", "vn", "a", "b", "err", "rep", "der", "res", "rejected"),
                "pdispatch": ("id", "t", "api", "q", "sa", "sb", "pairs", "obs"),
                "phist": ("id", "t", "events", "obs"),
                "parse": ("id", "t", "c", "cands", "scale", "obs"),
                "area": ("id", "t", "c", "exp", "scale", "obs"),
                "wrap": ("id", "t", "c", "obs"), "wrap2": ("id", "t", "c", "obs"), "aitoff": ("id", "t", "c", "obs")}
OBS_FIELDS = {"pdispatch": ("kind", "len", "eq"), "parse": ("err", "res"), "area": ("err", "val", "lon_add", "lat_add", "mirror"),
              "wrap": ("err", "out", "onlat", "inplace"), "wrap2": ("err", "theta", "phi", "onlat", "inplace"),
              "aitoff": ("err", "finite", "xover", "yover", "dec_x", "dec_y", "ra_x", "ra_y")}


def run_any(item):
    return RUNNERS[item[1]["t"]](item)


def trace_view(r):
    v = {k: r[k] for k in TRACE_FIELDS[r["t"]]}
    if r["t"] in OBS_FIELDS:
        v["obs"] = {k: r["obs"][k] for k in OBS_FIELDS[r["t"]]}
    if r["t"] == "phist":
        v["obs"] = [{k: o[k] for k in ("err", "val", "match")} for o in r["obs"]]
    return v


# ---- signatures ---------------------------------------------------------------------------------------------
def _argclass(args, clause=""):
    if clause == "norm_H0":
        return "H0=%s,h=%s" % ("default" if _isnone(args["H0"]) else "given", "absent" if _isnone(args["h"]) else "given")
    if clause in ("attr_npts", "attr_vnpts"):
        return "npts=%s,vnpts=%s" % ("default" if not args["n"] else "given", "default" if not args["vn"] else "given")
    if clause == "documented_alias_missing":
        return "attribute"
    ok = "none" if _isnone(args["ok"]) else ("zero" if args["ok"][0] == 0 else "nonzero")
    return "flat=%s,omega_k=%s,omega_l=%s" % (args["flat"], ok, "default" if _isnone(args["ol"]) else "given")


def _curv(rep):
    if rep["ok"][1] == 0 or rep["ok"][0] == 0:
        return "flat"
    return "open" if rep["ok"][0] > 0 else "closed"


_CLASS_ORDER = ("byteswapped", "zerod", "reversed", "strided", "converted", "f8", "npscalar", "pyint", "scalar")


def _shapeclass(s):
    cls = s["cls"]
    if cls in ("pyfloat", "absent"):
        return "scalar"
    if cls in ("pyint", "npscalar"):
        return cls
    if cls in ("list", "tuple"):
        return "converted"
    if s["dt"].startswith(">"):
        return "byteswapped"
    if s["lay"] != "contig":
        return s["lay"]
    return "f8" if s["dt"] == "f8" else "converted"


def signature(r, clause):
    t = r["t"]
    if t == "pctor":
        entry = "Cosmo()" if r["api"] == "class" else "_extract_omegas"
        if clause == "constructor_rejected":
            return "%s.%s|%s|%s" % (r["api"], r.get("where", entry), clause, r["err"])
        return "%s.%s|%s|%s" % (r["api"], "Cosmo.Distmod" if clause == "documented_alias_missing" else entry, clause, _argclass(r["args"], clause))
    if t == "pscalar":
        api = r["api"]
        if clause == "constructor_rejected":
            return "%s.%s|%s|%s" % (api, r.get("where", "Cosmo()"), clause, r["err"])
        if clause.startswith("norm_"):
            return "%s.%s|%s|%s" % (api, "Cosmo()" if api == "class" else "_extract_omegas", clause, _argclass(r["args"], clause))
        if clause == "unexpected_rejection":
            own = [v for k, v in sorted(r.get("rejinfo", {}).items()) if not k.startswith("c_")] or [["?", "?"]]
            return "%s.%s|%s|%s" % (api, own[0][1], clause, own[0][0])
        if clause == "nonfinite_result":
            own = [q for q in r.get("nonfinite", []) if not q.startswith("c_")] or ["?"]
            return "%s.%s|%s|%s" % (api, own[0], clause, "flat" if _curv(r["rep"]) == "flat" else "curved")
        entry = IDENTS[clause]["entry"] if clause in IDENTS else "Cosmo"
        clause = clause.replace("dm0_", "dm_")            # the same clause of Hogg eq. 16, at (0, zmax)
        return "%s.%s|%s|%s" % (api, entry, clause, "any" if entry in ("DH", "four_pi_G_over_c_squared") else _curv(r["rep"]))
    if t == "pdispatch":
        if clause == "unexpected_rejection":
            return "%s.%s|%s|%s" % (r["api"], r["obs"].get("where") or r["q"], clause, r["obs"]["err"])
        if clause == "mismatched_lengths_not_rejected":
            return "%s.%s|%s|array,array" % (r["api"], r["q"], clause)
        cls = {_shapeclass(r["sa"]), _shapeclass(r["sb"])}
        return "%s.%s|%s|%s" % (r["api"], r["q"], clause, next((k for k in _CLASS_ORDER if k in cls), "scalar"))
    if t == "phist":
        if clause in ("unexpected_rejection", "constructor_rejected"):
            e, o = next(((e, o) for e, o in zip(r["events"], r["obs"]) if o["err"] != "none"), (r["events"][0], r["obs"][0]))
            return "%s.%s|%s|%s" % ("class" if e["op"] in ("new", "call") else "func", o.get("where") or e["q"], clause, o["err"])
        kinds = sorted({e["op"] for e in r["events"]})
        return "history|%s|%s" % (clause, "+".join(kinds))
    if t == "parse":
        ch = r["c"]["chars"]
        sg = "neg-zero" if ch[:2] == ["-", "0"] else ("neg" if ch[:1] == ["-"] else ("plus" if ch[:1] == ["+"] else "unsigned"))
        return "%s_parse|%s|%s,%d fields%s" % (r["c"]["fn"], clause, sg, ch.count(":") + 1, "" if r["c"]["hours"] or r["c"]["fn"] == "dec" else ",degrees")
    if t == "area":
        return "rect_area|%s|%s" % (clause, "pole" if 90 in (abs(r["c"]["lat1"]), abs(r["c"]["lat2"])) else "no-pole")
    if t == "wrap":
        w = r["c"]["hi"] - r["c"]["lo"]
        return "atbound|%s|%s" % (clause, "one turn" if w == 360 else ("wider" if w > 360 else "narrower"))
    if t == "wrap2":
        return "atbound2|%s|%s" % (clause, "fold" if any(abs(((x + 180) % 360) - 180) > 90 for x in r["c"]["theta"]) else "no-fold")
    if t == "aitoff":
        return "radec2aitoff|%s|%s" % (clause, "pole" if abs(r["c"]["dec"]) == 90 else ("seam" if r["c"]["ra"] == 180 else "interior"))
    return "X05|%s|%s" % (clause, t)


def _strip(case):
    return {k: v for k, v in case.items() if k not in ("outs", "allowed", "variant", "ck")}


def judge(ctx, recs, what, only_clause=None, shard_size=2500):
    n0 = len(ctx.tlc_runs)
    rejects = tracecheck.validate(ctx, "CosmoPureTrace.tla", [trace_view(r) for r in recs], what=what, shard_size=shard_size)
    ctx.tlc_runs[n0:] = sorted(ctx.tlc_runs[n0:], key=lambda t: t["what"])       # shards finish in any order
    byid = {r["id"]: r for r in recs}
    for rid in sorted(rejects):
        r = byid[rid]
        for cl in rejects[rid]:
            if only_clause and cl != only_clause:
                continue
            if cl.startswith("harness_"):
                raise MachineryError("trace module reports a harness inconsistency %s on record %s" % (cl, json.dumps(trace_view(r))[:600]))
            if r["t"] == "pscalar":
                detail = {"identity": r.get("info", {}).get(cl), "rejected": r.get("rejinfo"), "nonfinite": r.get("nonfinite")}
            elif r["t"] == "pctor":
                detail = {"rep": r["rep"], "attrs": r["attrs"], "err": r["err"]}
            else:
                detail = r.get("obs")
            ctx.violation(signature(r, cl), "CosmoPure.tla clause %s not satisfied by the real code (%s record)" % (cl, r["t"]),
                          dict(r["case"], clause=cl, observed=detail))
    return rejects


# ---- TLC runs ---------------------------------------------------------------------------------------------------
def _consts(**kw):
    return dict(DEFAULTS, **kw)


def export(ctx, what, next_, constraint, consts, shard_key=None):
    def one(cs, tag):
        return ctx.tlc("CosmoPureMC.tla", what="%s%s" % (what, tag), workers=1, coverage=False, timeout=3000,
                       cfg_text=cfg(constants=dict(cs, DoExport=True), next_=next_, constraints=[constraint]))
    if shard_key and len(consts[shard_key]) > 1:
        vals = sorted(consts[shard_key])
        parts = [dict(consts, **{shard_key: {v}}) for v in vals]
        n0 = len(ctx.tlc_runs)
        with ThreadPoolExecutor(min(len(parts), int(os.environ.get("VH_MAX_WORKERS", "16")))) as ex:
            rs = list(ex.map(lambda kv: one(kv[1], " [shard %d/%d]" % (kv[0] + 1, len(parts))), enumerate(parts)))
        ctx.tlc_runs[n0:] = sorted(ctx.tlc_runs[n0:], key=lambda t: t["what"])
    else:
        rs = [one(consts, "")]
    cases, nstates = [], 0
    for r in rs:
        if r.garbled:
            raise MachineryError("unparsed export lines in %s" % what)
        cases += r.records.get("CASE", [])
        nstates += r.distinct
    if not cases:
        raise MachineryError("no cases exported by %s" % what)
    return cases, nstates


def load_catalogue(ctx):
    r = ctx.tlc("CosmoPureMC.tla", what="export identity catalogue", workers=1, coverage=False,
                cfg_text=cfg(constants=_consts(DoExport=True, Apis={"class"}), next_="ChooseApi", constraints=["ExportIdent"]))
    if not r.records.get("IDENT"):
        raise MachineryError("identity catalogue not exported")
    IDENTS.clear()
    IDENTS.update({d["name"]: d for d in r.records["IDENT"][0]})


def _rat(n_, d_):
    f = F(n_, d_)
    return [f.numerator, f.denominator]


def random_cases(seed, n):
    """seeded sample on a finer parameter lattice (twentieths) x quarter redshifts x both APIs x numbers of points"""
    rng = random.Random(seed * 7919 + 105)
    out = []
    for _ in range(n):
        api = rng.choice(["class", "func"])
        om = _rat(rng.randint(2, 30), 20)
        mode = rng.choice(["flat", "flat", "curved", "curved", "curved", "silent"])
        ok = lat.OFF if mode == "flat" and rng.random() < 0.7 else _rat(0 if mode == "flat" else rng.choice([k for k in range(-8, 9) if k]), 20)
        olm = rng.choice(["closure", "closure", "default", "free"])
        if olm == "default":
            ol = lat.OFF
        elif olm == "free":
            ol = _rat(rng.randint(4, 24), 20)
        else:
            f = 1 - F(*om) - (F(*ok) if ok[1] else 0)
            ol = [f.numerator, f.denominator]
        H0, h = lat.OFF, lat.OFF
        u = rng.random()
        if u < 0.4:
            h = _rat(rng.randint(30, 120), 100)
        elif u < 0.7 and api == "class":
            H0 = [rng.randint(30, 120), 1]
        elif u < 0.8 and api == "class":
            H0, h = [rng.randint(30, 120), 1], _rat(rng.randint(30, 120), 100)
        n_, vn = rng.choice([(0, 0), (0, 0), (5, 10), (3, 0), (4, 6), (7, 10), (0, 4), (10, 0)])
        a, b = _rat(rng.randint(0, 16), 4), _rat(rng.randint(0, 16), 4)
        if rng.random() < 0.85 and lat.frac(a) > lat.frac(b):
            a, b = b, a
        out.append({"t": "pscalar", "args": {"api": api, "H0": H0, "h": h, "flat": mode in ("flat", "silent"), "om": om, "ol": ol, "ok": ok,
                                             "n": n_, "vn": vn}, "a": a, "b": b})
    return out


def random_strings(seed, n):
    """seeded documented-syntax strings with random digits (and a few silent ones)"""
    rng = random.Random(seed * 104729 + 5)
    out = []
    for _ in range(n):
        fn = rng.choice(["dec", "ra", "ra"])
        hours = True if fn == "dec" else rng.random() < 0.6
        top = 90 if fn == "dec" else (23 if hours else 359)
        d = "%0*d" % (rng.choice([1, 2, 3]), rng.randint(0, top))
        if rng.random() < 0.3:
            d += "." + ("%02d" % rng.randint(0, 99))[:rng.choice([1, 2])]
        sg = rng.choice(["", "", "", "-", "-", "+"])
        s = sg + d
        nf = rng.choice([1, 2, 3, 3])
        if nf >= 2:
            s += ":" + "%0*d" % (rng.choice([1, 2, 2]), rng.randint(0, 59 if rng.random() < 0.95 else 75))
        if nf >= 3:
            s += ":" + "%02d" % rng.randint(0, 59)
            if rng.random() < 0.6:
                s += "." + "".join(rng.choice("0123456789") for _ in range(rng.choice([1, 2, 3])))
        out.append({"t": "parse", "c": {"fn": fn, "hours": hours, "chars": list(s)}})
    return out


def derive(ctx, plain, what):
    """TLC computes, for cases chosen outside the model, everything exact about them (NextFile)"""
    fd, path = tempfile.mkstemp(prefix="vh-x05-", suffix=".ndjson")
    try:
        with os.fdopen(fd, "w") as f:
            for c in plain:
                f.write(json.dumps(c, separators=(",", ":")) + "\n")
        r = ctx.tlc("CosmoPureMC.tla", what=what, workers=1, coverage=False, timeout=3000, env={"CASE_FILE": path},
                    cfg_text=cfg(constants=_consts(DoExport=True), next_="NextFile", constraints=["ExportFile"]))
    finally:
        os.unlink(path)
    cases = r.records.get("CASE", [])
    if len(cases) != len(plain) or r.garbled:
        raise MachineryError("%s: %d cases in, %d out" % (what, len(plain), len(cases)))
    return cases


# ---- the check ------------------------------------------------------------------------------------------------------
def _jobs(ctx, jobs):
    """run independent TLC jobs side by side (they are JVM-start and single-thread dominated); results by key"""
    cap = int(os.environ.get("VH_MAX_WORKERS", "16"))
    n0 = len(ctx.tlc_runs)
    out = {}
    with ThreadPoolExecutor(max(2, min(len(jobs), cap // 2))) as ex:
        futs = [(k, ex.submit(fn)) for k, fn in jobs]
        for k, f in futs:
            out[k] = f.result()
    ctx.tlc_runs[n0:] = sorted(ctx.tlc_runs[n0:], key=lambda t: t["what"])       # completion order -> fixed order
    return out


def run(ctx):
    B = BOUNDS[ctx.tier]
    only = getattr(ctx, "only", None) or {"mc", "selftest", "cosmo", "coords", "seeded"}      # --only: development aid
    try:
        for n in (3, 4, 5, 6, 7, 10):
            lat.gl_rule(n)
    except ValueError as e:
        raise MachineryError(str(e))
    # TLC's coverage accounting doubles the cost of these runs (recursive rational arithmetic): the vacuity guard compares state
    # counts with the export runs over the same actions instead (below)
    T = dict(workers=4, timeout=3000, coverage=False)
    mc = "CosmoPureMC.tla"
    jobs = [("catalogue", lambda: load_catalogue(ctx))]
    if "mc" in only:
        # 1. design level: the transcribed mechanisms (as repaired) refine the property-level definitions; spec theorems
        jobs += [
            ("mc1", lambda: ctx.tlc(mc, what="extract_parms / _extract_omegas refine PNormalise; dV, Dm use the cosmology (every argument combination)",
                                    cfg_text=cfg(constants=_consts(**dict(B["ctor"], ZIdx={1, 9} if ctx.quick else {1, 5, 9})), next_="NextScalar",
                                                 invariants=["MechNormRefines", "MechChainRefines", "NormaliseSound", "E2Positive"]),
                                    **T)),
            ("mc2", lambda: ctx.tlc(mc, what="argument handling (atleast_1d, size ladder, loops): MechDispatchRefines",
                                    cfg_text=cfg(constants=_consts(**B["dispatch"]), next_="NextDispatch", invariants=["MechDispatchRefines", "RepsSound"]),
                                    **T)),
            ("mc3", lambda: ctx.tlc(mc, what="histories: objects' own rules and the functions' rule cache: HistIndependent, HistSpecSound",
                                    cfg_text=cfg(constants=_consts(**B["hist"]), next_="NextHist", invariants=["HistIndependent", "HistSpecSound"]),
                                    **T)),
            ("mc4", lambda: ctx.tlc(mc, what="coords: parse laws + transcribed parsers, area laws, atbound loops terminate and refine",
                                    cfg_text=cfg(constants=_consts(**B["coords"]), next_="NextCoords",
                                                 invariants=["MechParseRefines", "ParseLaws", "AreaLaws", "MechWrapRefines", "WrapTerminates"]),
                                    **T))]
    if "selftest" in only:
        # 1b. the invariants bite: the mechanisms as found (FALSE switches) and a deviating cache violate them
        small = dict(CurvIdx={1, 5, 12}, OmIdx={2, 6})
        jobs.append(("dev", lambda: ctx.tlc(
            mc, what="self-test: mechanisms as found / deviating cache violate the refinement invariants",
            cfg_text=cfg(constants=_consts(FixedLoop=False, FixedDv=False, FixedDm=False, FixedCache=False, Quants={"Dc", "dV"}, MaxLen=2,
                                           HLen=3, **small), next_="Next",
                         invariants=["MechChainRefines", "MechDispatchRefines", "HistIndependent"]),
            workers=1, allow_violation=True, coverage=False, continue_=True, timeout=3000)))
        for sw in ("FixedDv", "FixedDm"):
            jobs.append(("dev" + sw, lambda sw=sw: ctx.tlc(
                mc, what="self-test: %s=FALSE alone violates MechChainRefines" % sw,
                cfg_text=cfg(constants=_consts(**dict(small, **{sw: False})), next_="NextScalar", invariants=["MechChainRefines"]),
                workers=1, allow_violation=True, coverage=False, timeout=3000)))
    if "cosmo" in only:
        # 2. spec -> code: export every case of the cosmology sub-machines
        jobs += [("ctor", lambda: export(ctx, "export constructor / keyword cases", "NextCtor", "ExportCtor", _consts(**B["ctor"]))),
                 ("disp", lambda: export(ctx, "export argument-handling cases", "NextDispatchExport", "ExportDispatch", _consts(**B["dispatch"]),
                                         None if ctx.quick else "Quants")),
                 ("hist", lambda: export(ctx, "export call histories", "NextHist", "ExportHist", _consts(**B["hist"])))]
        for k, om in enumerate(sorted(B["scalar"]["OmIdx"])):
            jobs.append(("scal%d" % k, lambda om=om, k=k: export(ctx, "export scalar cases [omega_m %d/%d]" % (k + 1, len(B["scalar"]["OmIdx"])),
                                                                  "NextScalar", "ExportScalar", _consts(**dict(B["scalar"], OmIdx={om})))))
        if "seeded" in only:
            jobs.append(("rnd", lambda: derive(ctx, random_cases(ctx.seed, B["nrandom"]),
                                               "derive exact values for %d seeded cosmology cases" % B["nrandom"])))
    if "coords" in only:
        jobs.append(("coords", lambda: export(ctx, "export coords cases (strings, rectangles, wraps, aitoff lattice)", "NextCoordsExport",
                                              "ExportCoords", _consts(**B["coords"]))))
        if "seeded" in only:
            jobs.append(("rndstr", lambda: derive(ctx, random_strings(ctx.seed, B["nparse"]),
                                                  "derive allowed values for %d seeded strings" % B["nparse"])))
    R = _jobs(ctx, jobs)
    if "selftest" in only:
        if not {"MechChainRefines", "MechDispatchRefines", "HistIndependent"} <= set(R["dev"].violated):
            raise MachineryError("self-test failed: deviating mechanisms not caught (%s)" % R["dev"].violated)
        for sw in ("FixedDv", "FixedDm"):
            if "MechChainRefines" not in R["dev" + sw].violated:
                raise MachineryError("self-test failed: %s=FALSE not caught" % sw)
    allc, counts = [], {}
    if "mc" in only and "cosmo" in only and "coords" in only:
        # vacuity guard of the invariant runs: they visited at least the states of the export runs over the same choice actions, plus
        # mechanism states (dispatch ladder / atbound loops) for every exported case
        nwrap = sum(1 for c in R["coords"][0] if c["t"] == "wrap")
        need = {"mc1": len(R["ctor"][0]) + 1, "mc2": R["disp"][1] // (1 if ctx.quick else 2) + len(R["disp"][0]),
                "mc3": len(R["hist"][0]) + 1, "mc4": R["coords"][1] + nwrap}
        for k, n in need.items():
            if R[k].distinct < n:
                raise MachineryError("vacuous: invariant run %s visited %d states, expected at least %d" % (k, R[k].distinct, n))
    if "cosmo" in only:
        scal_cases = [c for k in sorted(R) if k.startswith("scal") for c in R[k][0]]
        disp_cases = [dict(c, ck=_mix(k, len(DISPATCH_COSMO))) for k, c in enumerate(R["disp"][0])]
        hist_cases = [dict(c, ck=_mix(k, len(DISPATCH_COSMO))) for k, c in enumerate(R["hist"][0])]
        allc = scal_cases + R["ctor"][0] + disp_cases + hist_cases
        counts.update(ctor=len(R["ctor"][0]), scalar=len(scal_cases), dispatch=len(disp_cases), hist=len(hist_cases))
        if "seeded" in only:
            allc += R["rnd"]
            counts.update(seeded=len(R["rnd"]))
        demanded = set()
        for c in allc:
            if c["t"] == "pscalar":
                for o in c["outs"]:
                    demanded.update(o["need"])
        if set(IDENTS) - demanded:
            raise MachineryError("vacuous: identities never demanded by an exported case: %s" % sorted(set(IDENTS) - demanded))
    if "coords" in only:
        cases = R["coords"][0] + (R["rndstr"] if "seeded" in only else [])
        for t in ("parse", "area", "wrap", "wrap2", "aitoff"):
            counts[t] = sum(1 for c in cases if c["t"] == t)
            if not counts[t]:
                raise MachineryError("no %s cases exported" % t)
        allc += cases
    ctx.log("executing %s" % counts)
    recs = pmap(run_any, list(enumerate(allc, 1)))
    # 3. code -> spec
    rejects = judge(ctx, recs, "judge %d recorded observations (CosmoPureTrace)" % len(recs))
    for r in recs:
        ctx.count(_strip(r["case"]))
    seen_t = set()
    for r in recs:
        if r["t"] not in seen_t and r["id"] not in rejects and len(seen_t) < 6:
            seen_t.add(r["t"])
            ctx.sample({k: v for k, v in trace_view(r).items() if k != "der"})
    # non-vacuity (code side): on a run without violations every identity was also evaluated on the real code
    seen = set()
    for r in recs:
        if r["t"] == "pscalar":
            seen.update(k for k, v in r["res"].items() if v[0] >= 0)
    if "cosmo" in only and not ctx.violations and set(IDENTS) - seen:
        raise MachineryError("vacuous: identities never evaluated: %s" % sorted(set(IDENTS) - seen))
    nsilent = sum(1 for r in recs if r["t"] == "parse" and r["case"]["spec"]["any"])
    # 4. binding self-test: corrupted observations must be rejected, with the right clause
    if "selftest" in only:
        selftest(ctx, recs, rejects)
    worst, worst_units = {}, {}
    for r in recs:
        if r["t"] != "pscalar":
            continue
        for k, v in r.get("info", {}).items():
            if "rel_dev" in v and r["res"][k][0] >= 0 and not k.endswith(("_4pi", "_full")):
                worst[k] = max(worst.get(k, 0.0), v["rel_dev"])
                worst_units[k] = max(worst_units.get(k, 0), r["res"][k][0])
    leads = sorted({"%s %s" % (r["api"], r["q"]) for r in recs if r["t"] == "pdispatch" and r["obs"]["kind"] == "scalar"
                    and r["q"] != "Ez_inverse"})
    after_set, stale = [], []
    for r in recs:
        if r["t"] != "phist":
            continue
        ns = {}
        for e, o in zip(r["events"], r["obs"]):
            if e["op"] == "new":
                ns[e["id"]] = [e["n"] or 5]
            elif e["op"] == "set":
                ns[e["id"]].append(e["n"])
            elif e["op"] == "call" and len(ns.get(e["id"], [])) > 1 and o["err"] == "none":
                after_set.append(r["id"])
                if o["match"] and all(m[0] == ns[e["id"]][0] for m in o["match"]):
                    stale.append(r["id"])
    ctx.rule = ("cosmology_purepy: %s constructor / keyword combinations, %s (API, cosmology, npts, vnpts, zmin, zmax) cases with every "
                "applicable identity of CosmoPure.tla's catalogue (incl. agreement with the C-backed class), %s argument-representation "
                "cases, %s call histories of length %d, %s seeded cases on a finer lattice; coords: %s sexagesimal strings "
                "(%d outside the documented syntax: recorded, nothing demanded), %s rectangles, %s atbound and %s atbound2 arrays, "
                "%s aitoff lattice points - all exported by TLC; a case is distinct by its abstract record" %
                (counts.get("ctor", 0), counts.get("scalar", 0), counts.get("dispatch", 0), counts.get("hist", 0), B["hist"]["HLen"],
                 counts.get("seeded", 0), counts.get("parse", 0), nsilent, counts.get("area", 0), counts.get("wrap", 0),
                 counts.get("wrap2", 0), counts.get("aitoff", 0)))
    ctx.exhaustive = True
    ctx.note(bounds={k: ({kk: sorted(vv) if isinstance(vv, set) else vv for kk, vv in v.items()} if isinstance(v, dict) else v)
                     for k, v in B.items()},
             identities=sorted(IDENTS), cases=counts,
             worst_relative_residual={k: float("%.3g" % v) for k, v in sorted(worst.items())},
             worst_residual_units={k: "%d %s" % (v, IDENTS[k]["unit"]) for k, v in sorted(worst_units.items())},
             leads=["documentation silent, every reading accepted: (1) Cosmo.V / V return the volume per steradian, the C class the full-sky "
                    "volume; (2) zmin > zmax: absolute values here, antisymmetric in the C class; (3) Cosmo(flat=True, omega_k=x) is treated as "
                    "curved by the class and as flat by the module functions; (4) assigning obj.npts later does not rebuild the rule "
                    "(%d of %d recorded calls after such an assignment still used the rule of the constructor); (5) dV(comoving=False) "
                    "multiplies the comoving element by 1/(1+z) (a proper volume element would be 1/(1+z)^3); (6) ra_parse applies a "
                    "leading '-' to the first field only ('-00:30:00' -> +7.5), dec_parse takes a '-' anywhere in the string as the sign; "
                    "(7) atbound with maxval - minval < 360 can leave values below minval" % (len(stale), len(after_set))],
             scalar_results_where_arrays_are_documented=leads,
             argument_modified=sorted({"%s %s" % (r["api"], r["q"]) for r in recs if r["t"] == "pdispatch" and not r["frame_ok"]}))
    ctx.trusted_base = ctx.trusted_base + [
        "vh/cosmolat.py (shared with C11): exact Fraction evaluator of the spec's expression trees; sqrt/sinh/sin/log10/pi to >= 45 digits",
        "numpy.polynomial.legendre.leggauss as the reference Gauss-Legendre rule, validated on every run by exact monomial moments",
        "importlib.reload(esutil.cosmology_purepy) as 'a fresh interpreter state' for the history references"]
    ctx.assumptions = [
        "the documented n-point rule is read as the one esutil exposes (esutil.integrate.gauleg, property C17) or the mathematically exact rule: "
        "sums are compared to rounding (4n+4 ulp) with either and to 1e-9 with the exact one",
        "agreement with the C-backed class is demanded for zmin <= zmax, npts = 5 (vnpts = 10) and cosmologies the C class can hold "
        "(flat => omega_l = 1 - omega_m), in units of the own Hubble distance, to 2..10 ppb (what clause A2 for both implies); "
        "observed worst deviations are in worst_residual_units",
        "V: per steradian and full sky both accepted (the pure-python docstring does not say which); dV(comoving=False), sigmacritinv "
        "for vectors beyond the dispatch machine, zmin > zmax are not judged",
        "argument handling: element i is compared with the two-scalar call to 4 ulp on dyadic values (32 ulp of binary32 when an argument "
        "is float32: numpy then computes in single precision); two scalars may give a scalar or a "
        "one-element array; a one-element array may count as a scalar; python sequences may be rejected",
        "histories: a result 'equals' a fresh-state result when within 4 ulp; distinct numbers of points differ by > 1e-9 on the chosen pair",
        "coords: strings are built from a bounded alphabet of fields (plus seeded digit strings); a signed right ascension, '+', fields >= 60, "
        "malformed numbers and more than three fields are outside the documentation (any outcome accepted); atbound / atbound2 have no "
        "docstring: only in-place wrapping by whole turns into a range of at least one turn / the same point of the sphere is demanded",
        "radec2aitoff: finite, range and the two mirror laws only (no anchor values)"]


def selftest(ctx, recs, rejects):
    """corrupt one observation per clause family; the trace module must add exactly that clause"""
    class _Skip(Exception):
        pass

    def pick(t, pred):
        for r in recs:
            if r["t"] == t and pred(r):
                return r["id"], json.loads(json.dumps(trace_view(r)))
        if ctx.violations or not any(r["t"] == t for r in recs):
            raise _Skip()
        raise MachineryError("self-test: no %s record to corrupt" % t)

    def ok(r, name):
        return r["res"].get(name, [-1])[0] >= 0 and r["id"] not in rejects

    def c_ctor():
        i, a = pick("pctor", lambda r: r["id"] not in rejects and r["api"] == "class")
        a["rep"]["om"] = [a["rep"]["om"][0] + 1, a["rep"]["om"][1] * 7]
        return i, a, "norm_omega_m"

    def c_alias():
        i, a = pick("pctor", lambda r: r["id"] not in rejects and r["api"] == "class")
        a["attrs"]["alias"] = False
        return i, a, "documented_alias_missing"

    def c_npts():
        i, a = pick("pctor", lambda r: r["id"] not in rejects and r["api"] == "class" and r["n"] == 3)
        a["attrs"]["xn"] = 5
        return i, a, "attr_npts"

    def c_da():
        i, b = pick("pscalar", lambda r: ok(r, "da"))
        b["res"]["da"] = [5, 1]
        return i, b, "da"

    def c_xdc():                    # a derived cross identity is reported only when its prerequisites hold ...
        i, b = pick("pscalar", lambda r: ok(r, "x_dc") and ok(r, "x_da"))
        b["res"]["x_da"] = [5, 1]
        return i, b, "x_da"

    def c_root():                   # ... a failing prerequisite is reported alone
        i, b = pick("pscalar", lambda r: ok(r, "x_dc") and ok(r, "x_dm") and ok(r, "x_da"))
        b["res"]["x_dm"], b["res"]["x_da"] = [50, 1], [50, 1]
        return i, b, "x_dm"

    def c_gl():
        i, b = pick("pscalar", lambda r: ok(r, "gl") and r["n"] == 0)
        b["res"]["gl"], b["res"]["gl_alt"] = [25, 1], [25, -1]
        return i, b, "gl"

    def c_glalt():
        i, b = pick("pscalar", lambda r: ok(r, "gl") and r["n"] == 0)
        b["res"]["gl"], b["res"]["gl_alt"] = [25, 1], [3, 1]
        return i, b, None

    def c_v4pi():                   # full-sky reading accepted in place of the per-steradian one
        i, b = pick("pscalar", lambda r: ok(r, "glv"))
        b["res"]["glv"], b["res"]["glv_4pi"] = [2000000000, -1], [3, 1]
        return i, b, None

    def c_rej():
        i, b = pick("pscalar", lambda r: ok(r, "glv"))
        for k in ("glv", "glv_4pi", "glv_alt", "glv_alt_4pi"):
            b["res"][k] = [-2, 0]
        b["rejected"] = ["V"]
        return i, b, "unexpected_rejection"

    def c_nonf():
        i, b = pick("pscalar", lambda r: ok(r, "dc"))
        b["res"]["dc"] = [-1, 0]
        return i, b, "nonfinite_result"

    def c_elem():
        i, c = pick("pdispatch", lambda r: r["obs"]["kind"] == "array" and r["obs"]["len"] >= 2 and r["id"] not in rejects)
        c["obs"]["eq"][1] = False
        return i, c, "element_ne_scalar"

    def c_len():
        i, c = pick("pdispatch", lambda r: r["obs"]["kind"] == "rejected" and r["id"] not in rejects
                    and all(e["kind"] == "rejected" for e in r["case"]["allowed"]))
        c["obs"] = {"kind": "array", "len": 1, "eq": [True]}
        return i, c, "mismatched_lengths_not_rejected"

    def c_disp_rej():
        i, c = pick("pdispatch", lambda r: r["obs"]["kind"] == "array" and r["id"] not in rejects
                    and all(e["kind"] != "rejected" for e in r["case"]["allowed"]))
        c["obs"] = {"kind": "rejected", "len": 0, "eq": []}
        return i, c, "unexpected_rejection"

    def c_hist():
        i, d = pick("phist", lambda r: r["id"] not in rejects and any(e["op"] == "fcall" and o["match"] for e, o in zip(r["events"], r["obs"])))
        k = next(k for k, (e, o) in enumerate(zip(d["events"], d["obs"])) if e["op"] == "fcall" and o["match"])
        d["obs"][k]["match"] = [[99, 99]]
        return i, d, "result_depends_on_history"

    def c_parse():
        i, d = pick("parse", lambda r: r["id"] not in rejects and r["obs"]["err"] == "none" and len(r["cands"]) == 1)
        d["obs"]["res"] = [[9, 1]]
        return i, d, "parsed_value"

    def c_parse_err():
        i, d = pick("parse", lambda r: r["id"] not in rejects and r["obs"]["err"] == "none" and len(r["cands"]) == 1
                    and not r["case"]["spec"]["err_ok"])
        d["obs"] = {"err": "ValueError", "res": []}
        return i, d, "documented_string_rejected"

    def c_area():
        i, d = pick("area", lambda r: r["id"] not in rejects and r["obs"]["err"] == "none" and r["c"]["lon1"] < r["c"]["lon2"]
                    and r["c"]["lat1"] < r["c"]["lat2"])
        d["obs"]["lat_add"] = [17, 1]
        return i, d, "area_additive_in_latitude"

    def c_wrap():
        i, d = pick("wrap", lambda r: r["id"] not in rejects and r["c"]["hi"] - r["c"]["lo"] == 360 and r["obs"]["err"] == "none")
        d["obs"]["out"][0] += 360
        return i, d, "wrap_out_of_bounds"

    def c_wrap_t():
        i, d = pick("wrap", lambda r: r["id"] not in rejects and r["obs"]["err"] == "none")
        d["obs"]["out"][0] += 1
        return i, d, "wrap_not_whole_turns"

    def c_wrap2():
        i, d = pick("wrap2", lambda r: r["id"] not in rejects and r["obs"]["err"] == "none" and abs(r["obs"]["theta"][0]) < 90)
        d["obs"]["phi"][0] = (d["obs"]["phi"][0] + 90) % 360
        return i, d, "wrap2_moved_the_point"

    def c_ait():
        i, d = pick("aitoff", lambda r: r["id"] not in rejects and r["c"]["ra"] not in (0, 180, 360))
        d["obs"]["ra_x"] = [17, 1]
        return i, d, "aitoff_mirror_ra"

    def c_good():
        i, g = pick("pscalar", lambda r: ok(r, "da"))
        return i, g, None

    plan = []
    for mk in (c_ctor, c_alias, c_npts, c_da, c_xdc, c_root, c_gl, c_glalt, c_v4pi, c_rej, c_nonf, c_elem, c_len, c_disp_rej, c_hist,
               c_parse, c_parse_err, c_area, c_wrap, c_wrap_t, c_wrap2, c_ait, c_good):
        try:
            plan.append(mk())
        except _Skip:
            ctx.log("self-test item %s skipped: no clean record" % mk.__name__)
    if not plan:
        return
    batch = []
    for k, (i, r, cl) in enumerate(plan, 1):
        r["id"] = k
        batch.append(r)
    saved = ctx.traces
    rej = tracecheck.validate(ctx, "CosmoPureTrace.tla", batch, what="self-test: corrupted records rejected", workers=1)
    ctx.traces = saved
    for k, (i, r, cl) in enumerate(plan, 1):
        want = sorted(set(rejects.get(i, [])) | ({cl} if cl else set()))
        if sorted(rej.get(k, [])) != want:
            raise MachineryError("binding self-test failed: corrupted record %d (%s) gave %s, expected %s" % (k, cl, rej.get(k), want))
    ctx.note(selftest_corruptions=len(plan))


def replay(ctx, case):
    case = dict(case)
    clause, variant = case.pop("clause", None), case.pop("variant", 1)
    case.pop("observed", None)
    if case["t"] == "pscalar":
        load_catalogue(ctx)
    rec = run_any((variant, case))
    rec["id"] = 1
    print("replay observed:", json.dumps({k: v for k, v in rec.items() if k not in ("case", "der")}, default=str)[:3000])
    judge(ctx, [rec], "replay", only_clause=clause)
