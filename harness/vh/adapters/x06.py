"""X06 (extension) - text rendering of structured arrays (numpy_util.ArrayWriter / aprint / arr2str /
ArrayStringifier / compare_arrays / ahelp) and the esutil.random helpers no listed property covers
(random_indices, randind, srandu, Normal, NormalND, LogNormal, get_dist, CutGenerator).

spec -> code : ArrayTextMC.tla enumerates bounded tables x keyword records (Hamming balls around "no keyword")
               x call histories (aprint; ArrayWriter(...) + several write() + close()) and the cases of the
               other entry points on exact lattices; every exported history / case is concretised (value
               palettes, dtypes, output target: file object, file name, stdout, pager) and run against the
               real code.
code -> spec : the output of every call is lexed (words / everything else), each word is bound to the table
               cell it parses back to, and the record is judged by ArrayTextTrace.tla (property-level
               ATFailingHist / AT<family>Failing of ArrayText.tla).  Larger seeded histories are judged the
               same way.
Python never judges: it maps abstract <-> concrete, lexes, projects real-valued outputs onto the lattice of
exact values (Fraction arithmetic) and records.
"""
import gc
import io
import math
import os
import random
import re
import shutil
import sys
import tempfile
import warnings
from fractions import Fraction as Fr

import numpy as np

from .. import tracecheck
from ..core import MachineryError
from ..par import pmap
from ..tlc import cfg

NEEDS_EXT = True

BOUNDS = {
    "quick": dict(MaxF=2, Rows={0, 1, 2}, Rich=False, WDev=2, WDevSmall=1, CDev=1, HDev=1, MaxWrites=2, HTables=4, DeepAll=False),
    "thorough": dict(MaxF=3, Rows={0, 1, 3}, Rich=True, WDev=2, WDevSmall=1, CDev=1, HDev=1, MaxWrites=3, HTables=2, DeepAll=False),
}
SELFTEST = dict(MaxF=1, Rows={2}, Rich=False, WDev=1, WDevSmall=1, CDev=1, HDev=1, MaxWrites=1, HTables=4, DeepAll=True)
TARGETS = ("obj", "name", "stdout", "page")
INT_DTYPES = ("<i8", "<i4", ">i2", "u1", ">i8", "<i2")
FLT_DTYPES = ("<f8", "<f4", ">f8", "<f8")
WORD = re.compile(r"[A-Za-z0-9_.+\-']+")
INT_RE = re.compile(r"[+-]?\d+$")
RULE_RE = re.compile(r"[-+]+$")
EPS = 2.0 ** -52


# ------------------------------------------------------------------------------------------ concretisation
def cellno(r, f, k):
    return ((r - 1) * 8 + (f - 1)) * 16 + (k - 1)


def int_value(q, dt, conc):
    size = np.dtype(dt).itemsize
    if size == 1:
        return q
    if size == 2:
        return (-1) ** q * (q * 29 + 300 + conc % 5)
    if size == 4:
        return (-1) ** (q + conc) * (q * 100003 + 40011 + conc % 5)
    return (-1) ** (q + 1) * (q * 1000000007 + 1234567890123 * (conc % 2) + 50005)


def flt_value(n, conc, coarse=False):
    m = (n + conc) % 7
    q = n + 1
    if coarse:       # a '%.3f' format must still tell the cells apart
        return (q + 0.5, -(q + 0.25), q * 0.125 + 1000, 1234.875 + q, q * 0.1 + 0.05, -q * 1.5 - 5000, q * 0.004 + 20000)[m]
    return (q + 0.5, -(q + 0.25), q * 1e-05, 1234567.875 + q, q * 0.1 + 0.05, -q * 1.5e+20, q * 2.0 ** -20)[m]


def str_value(n, conc):
    pre = ("k", "mn", "pqr", "stuv")[(n + conc) % 4]
    return pre + chr(ord("A") + n % 26) + chr(ord("a") + (n // 26) % 26) + ("_%d" % (n % 3) if n % 2 else "")


def field_dtype(fd, j, conc, small=True):
    if fd["cls"] == "i":
        dt = INT_DTYPES[(conc + j) % len(INT_DTYPES)]
        return dt if (small or dt != "u1") else "<i4"
    if fd["cls"] == "f":
        return FLT_DTYPES[(conc + j) % len(FLT_DTYPES)]
    return ("S10" if fd["sk"] == "S" else "U10")


def make_table(tab, conc, coarse=False):
    """abstract table -> (numpy structured array, binder)"""
    descr = []
    nint = sum(int(np.prod(fd["shape"])) if fd["shape"] else 1 for fd in tab["fields"] if fd["cls"] == "i") * tab["nrows"]
    small = nint <= 200
    for j, fd in enumerate(tab["fields"], 1):
        dt = field_dtype(fd, j, conc, small)
        descr.append((fd["nm"], dt, tuple(fd["shape"])) if fd["shape"] else (fd["nm"], dt))
    arr = np.zeros(tab["nrows"], dtype=descr)
    strs, ints, flts = {}, {}, []
    q = 0
    for j, fd in enumerate(tab["fields"], 1):
        dt = np.dtype(field_dtype(fd, j, conc, small))
        nel = int(np.prod(fd["shape"])) if fd["shape"] else 1
        for r in range(1, tab["nrows"] + 1):
            vals = []
            for k in range(1, nel + 1):
                n = cellno(r, j, k)
                if fd["cls"] == "i":
                    v = int_value(q, dt, conc)
                    while v in ints:
                        q += 1
                        v = int_value(q, dt, conc)
                    q += 1
                    ints[v] = (r, j, k)
                elif fd["cls"] == "f":
                    v = dt.type(flt_value(n, conc, coarse))
                    flts.append((v, dt, (r, j, k)))
                else:
                    v = str_value(n, conc)
                    strs[v] = ((r, j, k), "str")
                    strs["b'%s'" % v] = ((r, j, k), "bstr")
                vals.append(v)
            a = np.array(vals, dtype=dt)
            arr[fd["nm"]][r - 1] = a.reshape(fd["shape"]) if fd["shape"] else a[0]
    if len({float(v) for v, _, _ in flts}) != len(flts):
        raise MachineryError("value palette not injective (floats)")
    return arr, (strs, ints, flts)


def bind(tok, binder):
    """the table cell a printed word stands for: ((r, f, k), how) or ((0, 0, 0), 'none')"""
    strs, ints, flts = binder
    if tok in strs:
        return strs[tok]
    if INT_RE.match(tok):
        v = int(tok)
        if v in ints:
            return ints[v], "int"
        return (0, 0, 0), "none"
    try:
        x = float(tok)
    except ValueError:
        return (0, 0, 0), "none"
    best = None
    for v, dt, cell in flts:
        with np.errstate(all="ignore"):
            if dt.type(x) == v:
                return cell, "flt"
        if abs(x - float(v)) <= 0.0005 * (1 + 1e-9) and (best is None or abs(x - float(v)) < best[0]):
            best = (abs(x - float(v)), cell)
    if best is not None:
        return best[1], "flt3"
    return (0, 0, 0), "none"


def lex_line(raw, binder):
    words = []
    for m in WORD.finditer(raw):
        t = m.group(0)
        if RULE_RE.match(t):
            continue
        (r, f, k), how = bind(t, binder) if binder is not None else ((0, 0, 0), "none")
        words.append({"s": t, "r": r, "f": f, "k": k, "how": how})
    rule = bool(RULE_RE.match(raw))
    bars = [i + 1 for i, ch in enumerate(raw) if ch == ("+" if rule else "|")]
    return {"raw": raw, "core": raw.replace(" ", ""), "strip": raw.strip(), "bars": bars, "rule": rule, "words": words}


def split_lines(text):
    if text == "":
        return []
    lines = text.split("\n")
    if lines[-1] == "":
        lines.pop()
    return lines


FMT = {("s", False): "%%%ds", ("s", True): "%%-%ds", ("f3", False): "%%%d.3f", ("f3", True): "%%-%d.3f"}


def fmt_string(f):
    return FMT[(f["kind"], bool(f["left"]))] % f["width"]


def kwargs_of(o, tab, conc, entry="writer"):
    kw = {}
    if o["typ"] != "-":
        kw["type"] = o["typ"]
    if o["fancy"] != "-":
        kw["fancy"] = o["fancy"] == "T"
    if o["delim"] != "-":
        kw["sep" if (entry == "aprint" and conc % 3 == 0) else "delim"] = o["delim"]       # aprint: "delim or sep"
    if o["adelim"] != "-":
        kw["array_delim"] = o["adelim"]
    if o["bracket"] != "-":
        kw["bracket_arrays"] = o["bracket"] == "T"
    if o["hdr"] == "T":
        kw["header"] = True
    elif o["hdr"] == "F":
        kw["header"] = False
    elif o["hdr"] == "S":
        kw["header"] = o["hdrtext"]
    if o["sel"]["key"] != "-":
        names = [fd["nm"] for fd in tab["fields"]]
        if o["sel"]["form"] == "index":
            v = [int(i) - 1 for i in o["sel"]["idx"]]
        else:
            v = [names[i - 1] if 1 <= i <= len(names) else "nope" for i in o["sel"]["idx"]]
            if o["sel"]["key"] == "columns":
                v = tuple(v)
        kw[o["sel"]["key"]] = v
    if o["alt"]["given"]:
        kw["altnames"] = list(o["alt"]["names"])
    if o["trailer"]["given"]:
        kw["trailer"] = o["trailer"]["text"]
    if o["title"]["given"]:
        kw["title"] = o["title"]["text"]
    if o["nlines"]["given"]:
        kw["nlines"] = int(o["nlines"]["n"])
    if o["fmt"]["kind"] != "-":
        kw["format"] = fmt_string(o["fmt"])
    if o["nfmt"]["kind"] != "-":
        kw["nformat"] = fmt_string(o["nfmt"])
    return kw


# ------------------------------------------------------------------------------------------ capture of fd 1
class Capture(object):
    """everything written to file descriptor 1 while active (the module binds sys.stdout at import time)"""
    _tmp = None

    def __enter__(self):
        if Capture._tmp is None or Capture._tmp[0] != os.getpid():
            fd, path = tempfile.mkstemp(prefix="X06-cap-")
            os.unlink(path)
            Capture._tmp = (os.getpid(), fd)
        self.fd = Capture._tmp[1]
        for s in {sys.stdout, sys.__stdout__}:
            try:
                s.flush()
            except Exception:  # noqa
                pass
        os.ftruncate(self.fd, 0)
        os.lseek(self.fd, 0, os.SEEK_SET)
        self.saved = os.dup(1)
        os.dup2(self.fd, 1)
        return self

    def __exit__(self, *a):
        import esutil.numpy_util as nu
        for s in {sys.stdout, sys.__stdout__, getattr(nu, "stdout", sys.stdout)}:
            try:
                s.flush()
            except Exception:  # noqa
                pass
        os.dup2(self.saved, 1)
        os.close(self.saved)
        n = os.lseek(self.fd, 0, os.SEEK_END)
        os.lseek(self.fd, 0, os.SEEK_SET)
        self.text = os.read(self.fd, n).decode("utf-8", "replace") if n else ""
        return False


class Pager(object):
    def __init__(self):
        self.texts = []

    def __enter__(self):
        import pydoc
        self.saved = pydoc.pager
        pydoc.pager = lambda text, *a, **k: self.texts.append(text)
        return self

    def __exit__(self, *a):
        import pydoc
        pydoc.pager = self.saved
        return False


def quiet(fn, *a, **kw):
    with warnings.catch_warnings():
        warnings.simplefilter("ignore")
        with np.errstate(all="ignore"):
            return fn(*a, **kw)


SCRATCH = {}


def scratch_dir():
    """a directory of this process under the run's scratch root (the root is made and removed by run / replay)"""
    pid = os.getpid()
    if SCRATCH.get("pid") != pid:
        SCRATCH["pid"] = pid
        SCRATCH["dir"] = tempfile.mkdtemp(prefix="w%d-" % pid, dir=SCRATCH["root"])
    return SCRATCH["dir"]


class ScratchRoot(object):
    def __enter__(self):
        SCRATCH["root"] = tempfile.mkdtemp(prefix="X06-out-")
        SCRATCH.pop("pid", None)
        return self

    def __exit__(self, *a):
        shutil.rmtree(SCRATCH.pop("root"), ignore_errors=True)
        SCRATCH.pop("pid", None)
        return False


# ------------------------------------------------------------------------------------------ histories
def run_calls(entry, target, ctor_kw, calls, upto, path=None):
    """one execution of the first `upto` calls of a history.  Returns (per-call [err, text, stray], close err, file text)"""
    import esutil.numpy_util as nu
    out = []
    fobj = io.StringIO() if target == "obj" else None
    tkw = {}
    if target == "obj":
        tkw["file"] = fobj
    elif target == "name":
        tkw["file"] = path
        if os.path.exists(path):
            os.unlink(path)
    elif target == "page":
        tkw["page"] = True
    aw = None
    cerr = "none"
    pos = 0
    with Pager() as pg:
        if entry == "writer":
            try:
                with Capture():
                    aw = quiet(nu.ArrayWriter, **dict(ctor_kw, **tkw))
            except Exception as e:  # noqa
                return [("ctor:" + type(e).__name__, "", False)] * upto, "none", ""
        for arr, kw in calls[:upto]:
            err = "none"
            npg = len(pg.texts)
            try:
                with Capture() as cap:
                    if entry == "writer":
                        quiet(aw.write, arr, **kw)
                    else:
                        quiet(nu.aprint, arr, **dict(kw, **tkw))
            except Exception as e:  # noqa
                err = type(e).__name__
            if target == "obj":
                text = fobj.getvalue()[pos:]
                pos += len(text)
                stray = cap.text != ""
            elif target == "name":
                text, stray = "", cap.text != ""
            elif target == "stdout":
                text, stray = cap.text, False
            else:
                paged = pg.texts[npg:]
                if paged:
                    text = "\n".join(paged)
                    stray = cap.text != ""
                else:
                    text, stray = cap.text, cap.text != ""
            out.append((err, text, stray))
        if entry == "writer":
            try:
                with Capture():
                    aw.close()
            except Exception as e:  # noqa
                cerr = type(e).__name__
            del aw
        pass
    ftext = ""
    if target == "name":
        try:
            with open(path) as f:
                ftext = f.read()
        except OSError:
            ftext = ""
    return out, cerr, ftext


def run_hist(item):
    """item = (id, case, conc): case = {entry, ctor, calls: [{tab, o}]}"""
    rid, case, conc = item
    target = TARGETS[conc % len(TARGETS)]
    entry = case["entry"]
    coarse = any(c["o"]["fmt"]["kind"] == "f3" for c in case["calls"])
    built = [make_table(c["tab"], conc + i, coarse) for i, c in enumerate(case["calls"])]
    calls = [(built[i][0], kwargs_of(c["o"], c["tab"], conc, entry)) for i, c in enumerate(case["calls"])]
    ctor_kw = {k: v for k, v in kwargs_of(case["ctor"], case["calls"][0]["tab"], conc).items()
               if k in ("type", "fancy", "delim", "array_delim", "bracket_arrays")} if entry == "writer" else {}
    n = len(calls)
    chain = True
    cerr = "none"
    if target == "name":
        path = os.path.join(scratch_dir(), "out.txt")
        res, prev = [], ""
        for k in range(1, n + 1):
            out, cerr, ftext = run_calls(entry, target, ctor_kw, calls, k, path)
            if ftext.startswith(prev):
                text = ftext[len(prev):]
            else:
                chain, text = False, ftext
            res.append((out[k - 1][0], text, out[k - 1][2]))
            prev = ftext
    else:
        res, cerr, _ = run_calls(entry, target, ctor_kw, calls, n)
    H = {"entry": entry, "target": target, "ctor": case["ctor"] if entry == "writer" else case["calls"][0]["o"], "calls": [],
         "close": {"err": cerr, "chain": chain}}
    for i, c in enumerate(case["calls"]):
        err, text, stray = res[i]
        lines = [lex_line(l, built[i][1]) for l in split_lines(text)]
        H["calls"].append({"tab": {"nrows": c["tab"]["nrows"], "fields": [{k: fd[k] for k in ("nm", "cls", "sk", "shape")} for fd in c["tab"]["fields"]]},
                           "o": c["o"], "err": err, "lines": lines, "stray": bool(stray)})
    return {"id": rid, "kind": "hist", "H": H, "conc": conc}


# ------------------------------------------------------------------------------------------ lattice projection
def frac(q):
    return Fr(int(q[0]), int(q[1]))


def flo(q):
    return float(frac(q))


def lcm(*xs):
    out = 1
    for x in xs:
        out = out * x // math.gcd(out, x)
    return out


OFF = [0, [0, 1]]


def proj(v, den, tol_rel=8 * EPS, scale=1.0):
    """observed real -> [1, [n, d]] (the lattice point k/den within rounding of v) or [0, [0, 1]]"""
    try:
        fv = float(v)
    except (TypeError, ValueError):
        return OFF
    if fv != fv or fv in (float("inf"), float("-inf")):
        return OFF
    t = Fr(fv) * den
    n = round(t)
    if abs(t - n) <= Fr(tol_rel) * max(abs(Fr(fv)), Fr(scale)) * den and abs(n) < 2 ** 24 and den < 2 ** 24:
        q = Fr(n, den)
        return [1, [q.numerator, q.denominator]]
    return OFF


def close_rel(a, b, tol):
    try:
        a, b = float(a), float(b)
    except (TypeError, ValueError):
        return False
    if a != a or b != b:
        return False
    return abs(a - b) <= tol * max(abs(a), abs(b), 1e-300)


class StubUnsupported(Exception):
    pass


class Stub(object):
    """scripted numpy.random.random / random_sample (uniform script) and randn / standard_normal (normal script);
    every other legacy entry point raises StubUnsupported (not a verdict)"""
    NAMES = ("random", "random_sample", "rand", "randn", "standard_normal", "uniform", "normal", "randint", "choice", "ranf", "sample")

    def __init__(self, uniform=None, normal=None, cyclic=False, maxcalls=60):
        self.u, self.z, self.cyclic, self.maxcalls = uniform, normal, cyclic, maxcalls
        self.pos = {"u": 0, "z": 0}
        self.calls = 0

    def _take(self, which, script, size):
        if script is None:
            raise StubUnsupported(which)
        self.calls += 1
        if self.calls > self.maxcalls:
            raise StubUnsupported("script exhausted")
        n = 1 if size is None else int(np.prod(size))
        p = self.pos[which]
        if not self.cyclic and p + n > len(script):
            raise StubUnsupported("script exhausted")
        vals = [script[(p + i) % len(script)] for i in range(n)]
        self.pos[which] = p + n
        if size is None:
            return float(vals[0])
        return np.array(vals, dtype="f8").reshape(size)

    def __enter__(self):
        self.saved = {n: getattr(np.random, n) for n in self.NAMES if hasattr(np.random, n)}

        def unsupported(name):
            def f(*a, **k):
                raise StubUnsupported(name)
            return f
        for n in self.saved:
            setattr(np.random, n, unsupported(n))
        np.random.random = lambda size=None: self._take("u", self.u, size)
        np.random.random_sample = np.random.random
        np.random.randn = lambda *dims: self._take("z", self.z, dims if dims else None)
        np.random.standard_normal = lambda size=None: self._take("z", self.z, size)
        return self

    def __exit__(self, *a):
        for n, f in self.saved.items():
            setattr(np.random, n, f)
        return False


def errname(e):
    return type(e).__name__


def shape_of(v):
    return [int(s) for s in np.shape(v)]


# ------------------------------------------------------------------------------------------ the other entry points
def ob_a2s(c, conc):
    import esutil.numpy_util as nu
    shape = tuple(c["shape"])
    tab = {"nrows": 1, "fields": [{"nm": "v", "cls": c["cls"], "sk": "U", "shape": list(shape)}]}
    arr, binder = make_table(tab, conc)
    a = arr["v"][0]
    kw = {}
    if c["dkey"] != "-":
        kw["delim"] = c["dkey"]
    if c["bkey"] != "-":
        kw["brackets"] = c["bkey"] == "T"
    try:
        a = np.asarray(a)
        s = quiet(nu.arr2str, a, **kw) if conc % 2 else quiet(nu.ArrayStringifier(**kw).stringify, a)
        return {"err": "none" if isinstance(s, str) else "not_a_string", "line": lex_line(s if isinstance(s, str) else "", binder)}
    except Exception as e:  # noqa
        return {"err": errname(e), "line": lex_line("", None)}


def cmp_array(t, conc, second):
    descr = []
    for j, fd in enumerate(t["fields"]):
        dt = ("<i8", "<i4", ">i8", "<f8")[(conc + j + (1 if second else 0)) % 4]
        descr.append((fd["nm"], dt, tuple(fd["shape"])) if fd["shape"] else (fd["nm"], dt))
    arr = np.zeros(t["nrows"], dtype=descr)
    for fd in t["fields"]:
        arr[fd["nm"]] = np.array(fd["vals"]).reshape((t["nrows"],) + tuple(fd["shape"]))
    return arr


def ob_cmp(c, conc):
    import esutil.numpy_util as nu
    a, b = cmp_array(c["a"], conc, False), cmp_array(c["b"], conc, True)
    ba, bb = a.tobytes(), b.tobytes()
    try:
        with Capture() as cap:
            res = quiet(nu.compare_arrays, a, b, verbose=c["verbose"], ignore_missing=c["ignore_missing"])
        names = sorted({fd["nm"] for t in (c["a"], c["b"]) for fd in t["fields"]})
        o = {"err": "none" if isinstance(res, (bool, np.bool_)) else "not_a_bool", "res": bool(res), "nout": len(cap.text),
             "mentioned": [n for n in names if re.search(r"(?<![A-Za-z0-9_])" + re.escape(n) + r"(?![A-Za-z0-9_])", cap.text)]}
    except Exception as e:  # noqa
        o = {"err": errname(e), "res": False, "nout": 0, "mentioned": []}
    o["frame_ok"] = a.tobytes() == ba and b.tobytes() == bb
    return o


def ahelp_table(c, conc):
    arr, _ = make_table(c["tab"], conc)
    tab = dict(c["tab"], fields=[dict(fd, ts=arr.dtype.descr[j][1]) for j, fd in enumerate(c["tab"]["fields"])])
    return arr, tab


def ob_ahelp(c, conc):
    import esutil.numpy_util as nu
    arr, _ = ahelp_table(c, conc)
    try:
        with Capture() as cap:
            quiet(nu.ahelp, arr, pretty=c["pretty"])
    except Exception as e:  # noqa
        return {"err": errname(e), "size": -1, "nfields": -1, "typ": "", "fields": []}
    lines = cap.text.split("\n")
    m = re.match(r"\s*size:\s*(\d+)\s+nfields:\s*(\d+)\s+type:\s*(\S+)\s*$", lines[0]) if lines else None
    bad = [{"found": False, "ts": "", "dims": []} for _ in c["tab"]["fields"]]
    if not m:
        return {"err": "none", "size": -1, "nfields": -1, "typ": "", "fields": bad}
    toks = " ".join(lines[1:]).split()
    names = [fd["nm"] for fd in c["tab"]["fields"]]
    pos, at = [], 0
    for nm in names:                      # the field names, in order, cut the listing into one chunk per field
        while at < len(toks) and toks[at] != nm:
            at += 1
        pos.append(at if at < len(toks) else None)
        at += 1
    fields = []
    for j, p0 in enumerate(pos):
        if p0 is None:
            fields.append({"found": False, "ts": "", "dims": []})
            continue
        nxt = next((q for q in pos[j + 1:] if q is not None), len(toks))
        chunk = toks[p0 + 1:nxt]
        fields.append({"found": True, "ts": chunk[0] if chunk else "", "dims": [int(t) for t in re.findall(r"\d+", " ".join(chunk[1:]))][:6]
                       if c["tab"]["fields"][j]["shape"] else []})
    return {"err": "none", "size": int(m.group(1)), "nfields": int(m.group(2)), "typ": m.group(3), "fields": fields}


def ob_ridx(c, seed):
    import esutil.random as er

    def one():
        if c["src"] == "seed":
            return quiet(er.random_indices, c["imax"], c["n"], unique=c["unique"], seed=seed)
        return quiet(er.random_indices, c["imax"], c["n"], unique=c["unique"], rng=np.random.default_rng(seed))

    def ints(a):
        return [int(t) if float(t) == int(t) else -1 for t in np.atleast_1d(np.asarray(a)).ravel().tolist()]
    try:
        a = one()
        np.random.seed(987654321)
        np.random.random(3)
        b = one()
        return {"err": "none", "vals": ints(a), "again": ints(b)}
    except Exception as e:  # noqa
        return {"err": errname(e), "vals": [], "again": []}


def ob_randind(c, seed):
    import esutil.random as er
    nmax = 2 ** 33 if c["big"] else c["nmax"]
    try:
        np.random.seed(seed)
        v = quiet(er.randind, nmax, c["n"])
        dtype = {"uint32": "u4", "uint64": "u8"}.get(str(getattr(v, "dtype", "")), "scalar" if np.ndim(v) == 0 else str(getattr(v, "dtype", "")))
        vals = [int(t) for t in np.atleast_1d(np.asarray(v)).ravel().tolist()]
        if c["big"]:
            if not all(0 <= t < nmax for t in vals):
                return {"err": "big_out_of_range", "vals": [], "dtype": dtype, "seen": []}
            vals = [0] * len(vals)
        seen = []
        if c["long"]:
            np.random.seed(seed + 1)
            seen = sorted({int(t) for t in np.asarray(quiet(er.randind, nmax, 4000)).ravel().tolist()})[:64]
        return {"err": "none", "vals": vals, "dtype": dtype, "seen": seen}
    except Exception as e:  # noqa
        return {"err": errname(e), "vals": [], "dtype": "", "seen": []}


def ob_srandu(c, seed):
    import esutil.random as er
    arg = None if c["n"] == 0 else c["n"]
    try:
        np.random.seed(seed)
        v = quiet(er.srandu, arg) if arg is not None else quiet(er.srandu)
        np.random.seed(seed)
        w = quiet(er.srandu, arg) if arg is not None else quiet(er.srandu)
        big = np.asarray(quiet(er.srandu, 2000))
        o = {"err": "none", "shape": shape_of(v), "lo": bool(np.all(big >= -1) and np.all(np.asarray(v) >= -1)),
             "hi": bool(np.all(big <= 1) and np.all(np.asarray(v) <= 1)), "again": np.asarray(v).tobytes() == np.asarray(w).tobytes(),
             "stubbed": False, "stub": [OFF for _ in c["us"]]}
    except Exception as e:  # noqa
        return {"err": errname(e), "shape": [], "lo": False, "hi": False, "again": False, "stubbed": False, "stub": []}
    try:
        with Stub(uniform=[flo(u) for u in c["us"]]) as st:
            s = np.atleast_1d(np.asarray(quiet(er.srandu, arg) if arg is not None else quiet(er.srandu))).ravel()
        if st.calls and len(s) == len(c["us"]):
            o["stubbed"] = True
            o["stub"] = [proj(s[j], int(c["us"][j][1])) for j in range(len(s))]
    except Exception:  # noqa
        pass
    return o


def ob_normal(c, seed):
    import esutil.random as er
    m, s = frac(c["mean"]), frac(c["sigma"])
    xs = [frac(x) for x in c["xs"]]
    zs = [frac(z) for z in c["zs"]]
    L = lcm(m.denominator, *[x.denominator for x in xs])
    den = 2 * L * L * s.numerator * s.numerator
    bad = {"err": "", "lnp": [], "scal": [], "probexp": False, "pmean": OFF, "getters": {k: OFF for k in ("mean", "sigma", "mode", "max", "maxln")},
           "smp": [], "shapes": [], "again": False, "stubbed": False}
    try:
        d = er.Normal(int(m), int(s)) if c["intpar"] else er.Normal(float(m), float(s))
        xa = np.array([float(x) for x in xs])
        before = xa.tobytes()
        lnp = quiet(d.lnprob, xa)
        pr = quiet(d.prob, xa)
        call = quiet(d, xa)
        o = dict(bad, err="none")
        o["lnp"] = [proj(v, den) for v in np.asarray(lnp).ravel()] if np.shape(lnp) == xa.shape else [OFF for _ in xs]
        o["scal"] = [proj(quiet(d.lnprob, float(x)), den) for x in xs]
        o["probexp"] = bool(np.shape(pr) == xa.shape and all(close_rel(pr[j], math.exp(float(lnp[j])), 8 * EPS) for j in range(len(xs)))
                            and np.asarray(call).tobytes() == np.asarray(pr).tobytes() and xa.tobytes() == before)
        o["pmean"] = proj(quiet(d.prob, float(m)), 1)
        o["getters"] = {"mean": proj(d.get_mean(), m.denominator), "sigma": proj(d.get_sigma(), s.denominator),
                        "mode": proj(d.get_mode(), m.denominator), "max": proj(d.get_max(), 1), "maxln": proj(d.get_max_lnprob(), 1)}
        np.random.seed(seed)
        a1, a2 = quiet(d.sample), quiet(d.sample, len(zs))
        np.random.seed(seed)
        b1, b2 = quiet(d.sample), quiet(d.sample, len(zs))
        o["shapes"] = [shape_of(a1), shape_of(a2)]
        o["again"] = np.asarray(a1).tobytes() == np.asarray(b1).tobytes() and np.asarray(a2).tobytes() == np.asarray(b2).tobytes()
        o["smp"] = [OFF for _ in zs]
    except Exception as e:  # noqa
        return dict(bad, err=errname(e))
    try:
        with Stub(normal=[float(z) for z in zs]) as st:
            smp = np.asarray(quiet(d.sample, len(zs))).ravel()
        if st.calls and len(smp) == len(zs):
            o["stubbed"] = True
            sd = lcm(m.denominator, s.denominator * lcm(*[z.denominator for z in zs]))
            o["smp"] = [proj(v, sd) for v in smp]
    except Exception:  # noqa
        pass
    return o


def ob_normalnd(c, seed):
    import esutil.random as er
    ms, ss = [frac(q) for q in c["mean"]], [frac(q) for q in c["sigma"]]
    pos = [[frac(q) for q in p] for p in c["pos"]]
    zs = [frac(z) for z in c["zs"]]
    nd, ns = len(ms), c["nsamp"]
    L = lcm(*[q.denominator for q in ms + [x for p in pos for x in p]])
    den = 2 * L * L
    for s in ss:
        den *= s.numerator * s.numerator
    bad = {"err": "", "one": [], "many": [], "shapes": [], "smp": [], "stubbed": False}
    try:
        d = er.NormalND([float(q) for q in ms], [float(q) for q in ss])
        P = np.array([[float(x) for x in p] for p in pos])
        o = dict(bad, err="none")
        o["one"] = [proj(quiet(d.lnprob, P[j].copy()), den) for j in range(len(pos))]
        many = np.asarray(quiet(d.lnprob, P))
        o["many"] = [proj(v, den) for v in many.ravel()] if many.shape == (len(pos),) else [OFF for _ in pos]
        np.random.seed(seed)
        o["shapes"] = [shape_of(quiet(d.sample)), shape_of(quiet(d.sample, ns))]
        o["smp"] = [[OFF for _ in range(nd)] for _ in range(ns)]
    except Exception as e:  # noqa
        return dict(bad, err=errname(e))
    try:
        with Stub(normal=[float(z) for z in zs]) as st:
            smp = np.asarray(quiet(d.sample, ns))
        if st.calls and smp.shape == (ns, nd):
            o["stubbed"] = True
            sd = lcm(*[q.denominator for q in ms]) * lcm(*[q.denominator for q in ss]) * lcm(*[z.denominator for z in zs])
            o["smp"] = [[proj(smp[r, j], sd) for j in range(nd)] for r in range(ns)]
    except Exception:  # noqa
        pass
    return o


LN_TOL = 1e-12       # LogNormal goes through log / exp / sqrt chains: "to rounding" is taken as 1e-12 relative


def ob_lognormal(c, seed):
    import esutil.random as er
    m, s = frac(c["mean"]), frac(c["sigma"])
    a, b = int(c["a"]), int(c["b"])
    med = m * b / a
    ts = [frac(t) for t in c["ts"]]
    bad = {"err": "", "mode": OFF, "getmean": OFF, "getsigma": OFF, "smp0": OFF, "refl": [], "maxatmode": False, "probexp": False,
           "scalararray": False, "negprob": "", "prob2d": "", "shapes": [], "again": False, "stubbed": False}
    try:
        d = er.LogNormal(float(m), float(s))
        o = dict(bad, err="none")
        o["mode"] = proj(d.get_mode(), m.denominator * a ** 3, LN_TOL)
        o["getmean"] = proj(d.get_mean(), m.denominator)
        o["getsigma"] = proj(d.get_sigma(), s.denominator, LN_TOL)
        o["refl"] = [proj(quiet(d.prob, float(med / t)) / quiet(d.prob, float(med * t)), t.denominator ** 2, LN_TOL) for t in ts]
        mode = d.get_mode()
        o["maxatmode"] = close_rel(d.get_max(), quiet(d.prob, mode), LN_TOL) and close_rel(d.get_max_lnprob(), quiet(d.lnprob, mode), LN_TOL)
        xs = np.array([float(med / 4), float(med), float(med * 3), float(m)])
        before = xs.tobytes()
        pa, la = np.asarray(quiet(d.prob, xs)), np.asarray(quiet(d.lnprob, xs))
        o["probexp"] = pa.shape == xs.shape and la.shape == xs.shape and all(close_rel(pa[j], math.exp(float(la[j])), LN_TOL) for j in range(4))
        o["scalararray"] = bool(pa.shape == xs.shape and all(close_rel(pa[j], quiet(d.prob, float(xs[j])), LN_TOL) and
                                                             close_rel(la[j], quiet(d.lnprob, float(xs[j])), LN_TOL) and
                                                             close_rel(quiet(d, float(xs[j])), pa[j], LN_TOL) for j in range(4))
                                and xs.tobytes() == before)
        try:
            v1 = quiet(d.prob, -1.0)
            v2 = np.asarray(quiet(d.prob, np.array([-1.0, 0.0, float(med)])))
            o["negprob"] = "zero" if (float(v1) == 0.0 and v2.shape == (3,) and v2[0] == 0.0 and v2[1] == 0.0 and close_rel(v2[2], pa[1], LN_TOL)) else "nonzero"
        except Exception as e:  # noqa
            o["negprob"] = "raised_" + errname(e)
        try:
            x2 = np.array([[float(med / 4), float(med)], [float(med * 3), float(m)]])
            p2 = np.asarray(quiet(d.prob, x2))
            o["prob2d"] = "shape_kept" if (p2.shape == x2.shape and all(close_rel(p2.ravel()[j], pa[j], LN_TOL) for j in range(4))) else "shape_lost"
        except Exception as e:  # noqa
            o["prob2d"] = "raised_" + errname(e)
        np.random.seed(seed)
        a1, a2 = quiet(d.sample), quiet(d.sample, 3)
        np.random.seed(seed)
        b1, b2 = quiet(d.sample), quiet(d.sample, 3)
        o["shapes"] = [shape_of(a1), shape_of(a2)]
        o["again"] = np.asarray(a1).tobytes() == np.asarray(b1).tobytes() and np.asarray(a2).tobytes() == np.asarray(b2).tobytes()
    except Exception as e:  # noqa
        return dict(bad, err=errname(e))
    try:
        with Stub(normal=[0.0]) as st:
            v = quiet(d.sample)
        if st.calls:
            o["stubbed"] = True
            o["smp0"] = proj(v, m.denominator * a, LN_TOL)
    except Exception:  # noqa
        pass
    return o


def ob_getdist(c, seed):
    import esutil.random as er
    m, s = frac(c["mean"]), frac(c["sigma"])
    try:
        d = quiet(er.get_dist, c["name"], [float(m), float(s)])
        return {"err": "none", "cls": type(d).__name__, "mean": proj(d.get_mean(), m.denominator), "sigma": proj(d.get_sigma(), s.denominator)}
    except Exception as e:  # noqa
        return {"err": errname(e), "cls": "", "mean": OFF, "sigma": OFF}


def ob_cutgen(c, seed):
    import esutil.random as er
    P = np.array([float(v) for v in c["p"]])
    ncell, xmin = len(P), float(c["xmin"])

    def pofx(x):
        j = np.clip(np.floor(np.asarray(x) - xmin).astype(int), 0, ncell - 1)
        return P[j]

    def cells(v):
        out = []
        for x in np.asarray(v).ravel().tolist():
            out.append(int(min(math.floor(x - xmin), ncell - 1)) + 1 if xmin <= x <= xmin + ncell else 0)
        return out
    bad = {"err": "", "count": -1, "cells": [], "again": False, "stubbed": False, "stubus": []}
    try:
        g = er.CutGenerator(pofx, [xmin, xmin + ncell], float(c["pmax"]), seed=seed)
        r1 = np.asarray(quiet(g.genrand, c["n"]))
        g2 = er.CutGenerator(pofx, [xmin, xmin + ncell], float(c["pmax"]), seed=seed)
        r2 = np.asarray(quiet(g2.genrand, c["n"]))
        r3 = np.asarray(quiet(g.genrand, c["n"], seed=seed + 5))
        np.random.random(11)
        r4 = np.asarray(quiet(g2.genrand, c["n"], seed=seed + 5))
        big = np.asarray(quiet(g.genrand, 300))
        o = dict(bad, err="none", count=int(r1.size) if r1.ndim == 1 else -1, cells=cells(r1) + cells(big),
                 again=r1.tobytes() == r2.tobytes() and r3.tobytes() == r4.tobytes())
        if big.size != 300:
            o["count"] = -1
    except Exception as e:  # noqa
        return dict(bad, err=errname(e))
    try:
        with Stub(uniform=[u / 64.0 for u in c["us"]], cyclic=True, maxcalls=24) as st:
            g = er.CutGenerator(pofx, [xmin, xmin + ncell], float(c["pmax"]))
            r = np.asarray(quiet(g.genrand, c["n"])).ravel()
        if st.calls:
            o["stubbed"] = True
            us = []
            for x in r.tolist():
                t = Fr(x - xmin) * 64 / ncell
                us.append(int(t) if t.denominator == 1 and 0 <= t < 64 else -1)
            o["stubus"] = us
    except Exception:  # noqa
        pass
    return o


OBSERVERS = {"a2s": ob_a2s, "cmp": ob_cmp, "ahelp": ob_ahelp, "ridx": ob_ridx, "randind": ob_randind, "srandu": ob_srandu,
             "normal": ob_normal, "normalnd": ob_normalnd, "lognormal": ob_lognormal, "getdist": ob_getdist, "cutgen": ob_cutgen}


def run_bcase(item):
    rid, c, k = item
    fn = c["fn"]
    cc = dict(c)
    if fn == "ahelp":
        cc["tab"] = ahelp_table(c, k)[1]
    o = OBSERVERS[fn](c, k)
    return {"id": rid, "kind": fn, "c": cc, "o": o, "conc": k}


def run_item(item):
    return run_hist(item) if item[1].get("entry") else run_bcase(item)


# ------------------------------------------------------------------------------------------ seeded larger histories
KINDS = [("i", "-", []), ("f", "-", []), ("s", "S", []), ("s", "U", []), ("i", "-", [2]), ("f", "-", [2, 2]), ("i", "-", [3]), ("f", "-", [1]),
         ("s", "U", [2]), ("i", "-", [2, 1, 2]), ("f", "-", [2, 3])]
NAMEPOOL = ["a", "bb", "c3", "ra", "dec", "flux_r", "id", "z", "a_rather_long_name", "Q"]
NOFMT = {"kind": "-", "width": 0, "left": False}


def rand_table(rng):
    nf = rng.choice([1, 2, 2, 3, 4, 6])
    names = rng.sample(NAMEPOOL, nf)
    fields = []
    for j in range(nf):
        cls, sk, shape = rng.choice(KINDS)
        fields.append({"nm": names[j], "cls": cls, "sk": sk, "shape": list(shape)})
    return {"nrows": rng.choice([0, 1, 2, 3, 5, 7]), "fields": fields}


def rand_opts(rng, tab, sticky_only=False, p=0.25):
    nf = len(tab["fields"])
    o = {"typ": "-", "fancy": "-", "delim": "-", "adelim": "-", "bracket": "-", "hdr": "-", "hdrtext": "# x y z",
         "sel": {"key": "-", "form": "names", "idx": []}, "alt": {"given": False, "names": []},
         "trailer": {"given": False, "text": "the end."}, "title": {"given": False, "text": "A Title"},
         "nlines": {"given": False, "n": 0}, "fmt": dict(NOFMT), "nfmt": dict(NOFMT)}

    def on():
        return rng.random() < p
    if on():
        o["typ"] = rng.choice(["table", "fancy", "fancy", "latex"])
    if rng.random() < p / 4:
        o["fancy"] = "T"
    if on():
        o["delim"] = rng.choice([",", "; ", " ", ";", " , ", "  "])
    if on():
        o["adelim"] = rng.choice([":", " ", ",", ";", " : "])
    if on():
        o["bracket"] = rng.choice(["T", "T", "F"])
    if sticky_only:
        return o
    if on():
        o["hdr"] = rng.choice(["T", "T", "S", "F"])
    if on():
        k = rng.randint(1, nf)
        idx = [rng.randint(1, nf) for _ in range(k)] if rng.random() < 0.3 else rng.sample(range(1, nf + 1), k)
        if rng.random() < 0.08:
            idx[rng.randrange(len(idx))] = 0
        o["sel"] = {"key": rng.choice(["fields", "columns"]), "form": "index" if rng.random() < 0.15 and 0 not in idx else "names", "idx": idx}
    nsel = len(o["sel"]["idx"]) if o["sel"]["key"] != "-" else nf
    if on():
        k = nsel if rng.random() < 0.8 else max(0, nsel + rng.choice([-1, 1]))
        pool = ["N%d" % i for i in range(9)] if rng.random() < 0.5 else ["AVeryLongAlternativeName_%d" % i for i in range(9)]
        o["alt"] = {"given": True, "names": pool[:k]}
    if on():
        o["trailer"]["given"] = True
    if on():
        o["title"]["given"] = True
    if on():
        o["nlines"] = {"given": True, "n": rng.choice([0, 1, 2, tab["nrows"], tab["nrows"] + 1, tab["nrows"] + 3])}
    if on():
        o["fmt"] = rng.choice([{"kind": "s", "width": w, "left": l} for w in (1, 4, 9, 15) for l in (False, True)] + [{"kind": "f3", "width": 10, "left": False}])
    if rng.random() < p / 4:
        o["nfmt"] = {"kind": "s", "width": 7, "left": True}
    return o


def rand_history(rng):
    tab = rand_table(rng)
    if rng.random() < 0.35:
        o = rand_opts(rng, tab, p=0.3)
        return {"entry": "aprint", "ctor": o, "calls": [{"tab": tab, "o": o}]}
    ctor = rand_opts(rng, tab, sticky_only=True, p=0.35)
    calls = []
    for _ in range(rng.choice([1, 2, 2, 3, 4])):
        t = tab if rng.random() < 0.7 else rand_table(rng)
        calls.append({"tab": t, "o": rand_opts(rng, t, p=0.2)})
    return {"entry": "writer", "ctor": ctor, "calls": calls}


# ------------------------------------------------------------------------------------------ judging
SIGCOUNT = {}
LEADS = {}


def strip(r):
    if r["kind"] == "hist":
        return {"id": r["id"], "kind": "hist", "H": r["H"]}
    o = {k: v for k, v in r["o"].items() if k != "frame_ok"}
    return {"id": r["id"], "kind": r["kind"], "c": r["c"], "o": o}


def hist_signature(r, clause):
    i, cl = clause.split(":", 1)
    i = int(i)
    H = r["H"]
    entry = "aprint" if H["entry"] == "aprint" else "ArrayWriter"
    if i == 0:
        return "%s.close|%s|%s" % (entry, cl, H["target"])
    call = H["calls"][i - 1]
    w, c = call["o"], H["ctor"]
    typ = w["typ"] if w["typ"] != "-" else ("fancy" if "T" in (w["fancy"], c["fancy"]) else c["typ"] if c["typ"] != "-" else "table")
    feats = []
    if cl in ("rejected", "line_count", "trailer"):
        if w["nlines"]["given"] and w["nlines"]["n"] > call["tab"]["nrows"]:
            return "ArrayWriter.write|%s|nlines>nrows" % cl
        if call["tab"]["nrows"] == 0:
            return "ArrayWriter.write|%s|nrows=0" % cl
    if cl == "constructor_array_delim_ignored":
        return "ArrayWriter.write|constructor_array_delim_ignored"
    if cl in ("aligned", "header") and w["alt"]["given"]:
        return "ArrayWriter.write|%s|altnames" % cl
    if cl == "stray_output":
        feats.append(H["target"])
    return "ArrayWriter.write|%s|%s%s" % (cl, typ, "".join("|" + f for f in feats))


def b_signature(r, clause):
    c = r["c"]
    fn = r["kind"]
    cls = ""
    if fn == "randind":
        cls = "|nrand=1" if c["n"] == 1 else "|nrand>1"
    elif fn == "ridx":
        cls = "|unique" if c["unique"] else "|replace"
    elif fn == "a2s":
        cls = "|ndim=%d" % len(c["shape"])
    elif fn == "cmp":
        cls = "|ignore_missing=%s" % c["ignore_missing"]
    elif fn == "ahelp":
        cls = "|pretty=%s" % c["pretty"]
    return "%s|%s%s" % (fn, clause, cls)


def case_of(r):
    if r["kind"] == "hist":
        H = r["H"]
        return {"kind": "hist", "conc": r["conc"], "case": {"entry": H["entry"], "ctor": H["ctor"], "calls": [{"tab": c["tab"], "o": c["o"]} for c in H["calls"]]},
                "target": H["target"], "observed": [{"err": c["err"], "lines": [l["raw"] for l in c["lines"]], "stray": c["stray"]} for c in H["calls"]],
                "close": H["close"]}
    return {"kind": r["kind"], "conc": r["conc"], "c": {k: v for k, v in r["c"].items()}, "observed": r["o"]}


def judge(ctx, recs, what, shard_size=4000):
    n0 = len(ctx.tlc_runs)
    rejects = tracecheck.validate(ctx, "ArrayTextTrace.tla", [strip(r) for r in recs], what=what, shard_size=shard_size)
    ctx.tlc_runs[n0:] = sorted(ctx.tlc_runs[n0:], key=lambda t: t["what"])       # completion order of the shards -> fixed order
    byid = {r["id"]: r for r in recs}
    gating = {}
    for rid, failing in rejects.items():
        r = byid[rid]
        real = [cl for cl in failing if not cl.startswith("nongating/")]
        for cl in failing:
            if cl.startswith("nongating/"):
                name = cl.split("/", 1)[1]
                name = name.split(":", 1)[1] if r["kind"] == "hist" else r["kind"] + ":" + name
                LEADS[name] = LEADS.get(name, 0) + 1
        if not real:
            ctx.traces += 1          # only leads: the record is accepted by the contract
            continue
        gating[rid] = real
        for cl in real:
            sig = hist_signature(r, cl) if r["kind"] == "hist" else b_signature(r, cl)
            SIGCOUNT[sig] = SIGCOUNT.get(sig, 0) + 1
            if SIGCOUNT[sig] > 25:
                continue
            ctx.violation(sig, "output / result not allowed by ArrayText.tla: clause %s" % cl, case_of(r))
    for r in recs:
        if r["kind"] == "cmp" and not r["o"].get("frame_ok", True):
            ctx.violation("cmp|argument_modified", "compare_arrays modified an argument", case_of(r))
    return gating


# ------------------------------------------------------------------------------------------ self-tests
def selftests(ctx, consts):
    st = dict(consts, **SELFTEST)
    r = ctx.tlc("ArrayTextMC.tla", what="self-test: the mechanism as found (array_delim re-derived per call) violates MechRefines",
                cfg_text=cfg(constants=dict(st, FixedSticky=False, Parts={"writer"}, DoExport=False), invariants=["MechRefines"]),
                workers=1, allow_violation=True, coverage=False)
    if "MechRefines" not in r.violated:
        raise MachineryError("self-test failed: MechRefines not violated with FixedSticky=FALSE")
    r = ctx.tlc("ArrayTextMC.tla", what="self-test: export reference renderings",
                cfg_text=cfg(constants=dict(st, FixedSticky=True, Parts={"aprint"}, DoExport=True), constraints=["ExportRef"]),
                workers=1, coverage=False)
    refs = [p for p in r.records.get("REF", []) if len(p["calls"][0]["lines"]) >= 2 and len(p["calls"][0]["lines"][-1]["words"]) >= 2]
    if len(refs) < 3:
        raise MachineryError("self-test: no reference rendering exported")
    import copy
    recs, want = [], set()
    rid = 0
    for p in refs[:: max(1, len(refs) // 6)][:6]:
        H = dict(p, target="obj", close={"err": "none", "chain": True})
        rid += 1
        recs.append({"id": rid, "kind": "hist", "H": H})

        def mut(f):
            h = copy.deepcopy(H)
            f(h["calls"][0])
            return h

        def swap(call):
            w = call["lines"][-1]["words"]
            w[0]["s"], w[1]["s"] = w[1]["s"], w[0]["s"]

        def raw(call):
            call["lines"][-1]["raw"] += " "
            call["lines"][-1]["core"] += ";"

        for f in (swap, raw, lambda call: call["lines"].pop(0), lambda call: call.__setitem__("err", "IndexError"),
                  lambda call: call.__setitem__("stray", True), lambda call: call["lines"][-1]["words"][0].__setitem__("how", "none")):
            rid += 1
            recs.append({"id": rid, "kind": "hist", "H": mut(f)})
            want.add(rid)
        rid += 1
        recs.append({"id": rid, "kind": "hist", "H": dict(H, close={"err": "none", "chain": False})})
        want.add(rid)
    saved = ctx.traces
    rej = tracecheck.validate(ctx, "ArrayTextTrace.tla", recs, what="self-test: corrupted reference renderings rejected", workers=1)
    ctx.traces = saved
    got = {k for k, v in rej.items() if any(not cl.startswith("nongating/") for cl in v)}
    if got != want:
        raise MachineryError("binding self-test failed: rejected %s, expected exactly %s (%s)" % (sorted(got), sorted(want), rej))
    return len(want)


def corrupt_b(rec):
    """one corrupted copy of an accepted record of a (b) family, or None"""
    import copy
    r = copy.deepcopy(rec)
    o, fn = r["o"], r["kind"]
    if o.get("err") != "none":
        return None
    if fn == "a2s" and len(o["line"]["words"]) >= 2:
        o["line"]["raw"] = o["line"]["raw"][::-1]
    elif fn == "cmp":
        o["res"] = not o["res"]
    elif fn == "ahelp" and o["fields"] and r["c"]["tab"]["nrows"] > 0:
        o["fields"][0]["ts"] = o["fields"][0]["ts"] + "x"
    elif fn == "ridx" and o["vals"]:
        o["vals"][0] = r["c"]["imax"]
    elif fn == "randind" and o["vals"] and not r["c"]["big"]:
        o["vals"][0] = r["c"]["nmax"]
    elif fn == "srandu":
        o["hi"] = False
    elif fn == "normal" and o["lnp"]:
        o["lnp"][0] = [1, [1, 3]]
    elif fn == "normalnd" and o["one"]:
        o["one"][0] = OFF
    elif fn == "lognormal":
        o["mode"] = [1, [7, 11]]
    elif fn == "getdist" and r["c"]["known"]:
        o["cls"] = "Other"
    elif fn == "cutgen" and o["cells"]:
        o["cells"][0] = 0
    else:
        return None
    return r


# ------------------------------------------------------------------------------------------ run
def run(ctx):
    with ScratchRoot():
        _run(ctx)


def _run(ctx):
    B = BOUNDS[ctx.tier]
    consts = dict(B, FixedSticky=True, Parts={"aprint", "writer", "b"}, DoExport=False)
    only = getattr(ctx, "only", None) or {"mc", "selftest", "replay", "seeded"}
    from concurrent.futures import ThreadPoolExecutor
    require = ["PickShape", "PickKinds", "Aprint", "Open", "Write", "Close", "PickFam", "ChooseA2s", "ChooseCmp", "ChooseAhelp", "ChooseRidx",
               "ChooseRandind", "ChooseSrandu", "ChooseNormal", "ChooseNormalND", "ChooseLogNormal", "ChooseGetDist", "ChooseCut"]

    def export_run():
        # one worker: ordered, ungarbled export lines; the same run is the vacuity guard (every action fires)
        return ctx.tlc("ArrayTextMC.tla", what="export histories and cases; every action fires (vacuity guard)",
                       cfg_text=cfg(constants=dict(consts, DoExport=True), constraints=["Export"]), workers=1, timeout=3000, require=require)

    def inv_run():
        return ctx.tlc("ArrayTextMC.tla", what="mechanism refines the contract; reference renderings accepted, corrupted ones rejected; laws",
                       cfg_text=cfg(constants=consts, invariants=["MechRefines", "RefAccepted", "CorruptRejected", "BLaws"]),
                       workers=16, coverage=False, timeout=3000)
    n0 = len(ctx.tlc_runs)
    with ThreadPoolExecutor(3) as ex:
        f2 = ex.submit(export_run)
        f1 = ex.submit(inv_run) if "mc" in only else None
        f3 = ex.submit(selftests, ctx, consts) if "selftest" in only else None
        r2 = f2.result()
        r1 = f1.result() if f1 else None
        ncorr = f3.result() if f3 else 0
    ctx.tlc_runs[n0:] = sorted(ctx.tlc_runs[n0:], key=lambda t: t["what"])       # completion order -> fixed order
    if r1 is not None and r1.distinct != r2.distinct:
        raise MachineryError("export run and invariant run visited different state spaces (%d / %d)" % (r2.distinct, r1.distinct))
    hists, bcases = r2.records.get("CASE", []), r2.records.get("BCASE", [])
    if not hists or not bcases:
        raise MachineryError("no cases exported")
    items = [(i, h, i + ctx.seed) for i, h in enumerate(hists, 1)]
    base = len(items)
    items += [(base + i, c, i + ctx.seed) for i, c in enumerate(bcases, 1)]
    nrec = 0
    accepted_b = {}
    if "replay" in only:
        BATCH = 20000
        for b0 in range(0, len(items), BATCH):
            recs = pmap(run_item, items[b0:b0 + BATCH])
            for r in recs:
                ctx.count({"k": r["kind"], "c": r["H"]["ctor"] if r["kind"] == "hist" else r["c"],
                           "calls": [[c["tab"], c["o"]] for c in r["H"]["calls"]] if r["kind"] == "hist" else 0})
            if b0 == 0:
                for r in (recs[len(recs) // 3], recs[len(recs) // 2]):
                    ctx.sample(case_of(r))
            gating = judge(ctx, recs, "judge replayed histories and cases %d.. (ArrayTextTrace)" % (b0 + 1))
            for r in recs:
                if r["kind"] != "hist" and r["id"] not in gating and r["kind"] not in accepted_b:
                    cr = corrupt_b(r)
                    if cr is not None:
                        accepted_b[r["kind"]] = cr
            nrec += len(recs)
            del recs
        for r in (run_bcase(items[base]), run_bcase(items[-1])):
            ctx.sample(case_of(r))
        # binding self-test on real records of the other entry points: one corrupted observation each
        if accepted_b:
            crecs = [dict(r, id=n) for n, r in enumerate(accepted_b.values(), 1)]
            saved = ctx.traces
            rej = tracecheck.validate(ctx, "ArrayTextTrace.tla", [strip(r) for r in crecs], what="self-test: corrupted real records rejected", workers=1)
            ctx.traces = saved
            missing = [r["kind"] for r in crecs if not any(not cl.startswith("nongating/") for cl in rej.get(r["id"], []))]
            if missing:
                raise MachineryError("binding self-test failed: corrupted %s record(s) accepted" % missing)
            ncorr += len(crecs)
            ctx.note(selftest_corrupted_families=sorted(r["kind"] for r in crecs))
    nseed = 0
    if "seeded" in only:
        rng = random.Random(ctx.seed * 7919 + 13)
        nseed = 2000 if ctx.quick else 20000
        sitems = [(10 ** 6 + i, rand_history(rng), rng.randrange(10 ** 6)) for i in range(nseed)]
        for b0 in range(0, len(sitems), 20000):
            recs = pmap(run_hist, sitems[b0:b0 + 20000])
            for r in recs:
                ctx.count({"c": r["H"]["ctor"], "calls": [[c["tab"], c["o"]] for c in r["H"]["calls"]]})
            judge(ctx, recs, "judge seeded larger histories %d.. (ArrayTextTrace)" % (b0 + 1), shard_size=800)
            del recs
    ctx.rule = ("every table of 1..%d fields over %d field kinds (int / float / string scalars, sub-arrays) x nrows in %s x every keyword record with at "
                "most %d keywords given (aprint; %d on the smaller tables) and, on the tables with sub-arrays and %d rows, every history "
                "ArrayWriter(<=%d sticky keywords) + up to %d write() (first with <=%d keywords, later ones with <=1 sticky keyword / header / nlines) + "
                "close(), exported from ArrayTextMC.tla; each run against the real code on one of 4 output targets (file object, file name with "
                "prefix replays, stdout, pager) with a value palette and dtypes chosen by the case number; plus every exported case of arr2str, "
                "compare_arrays, ahelp, random_indices, randind, srandu, Normal, NormalND, LogNormal, get_dist, CutGenerator; plus %d seeded larger "
                "histories (tables to 6 fields / 7 rows, free keyword combinations, up to 4 writes on changing tables); a case is distinct by its "
                "abstract record" %
                (B["MaxF"], 10 if B["Rich"] else 5, sorted(B["Rows"]), B["WDev"], B["WDevSmall"], max(B["Rows"]), B["CDev"], B["MaxWrites"], B["HDev"], nseed))
    ctx.exhaustive = True
    ctx.note(bounds={k: sorted(v) if isinstance(v, set) else v for k, v in B.items()}, exported_histories=len(hists), exported_cases=len(bcases),
             selftest_corruptions_rejected=ncorr, rejected_per_signature=dict(SIGCOUNT), leads=dict(LEADS))
    ctx.assumptions = [
        "where ArrayWriter's documentation is silent every reading is accepted: whether keywords of an earlier write() stick; the default of "
        "array_delim (' ', ',' or the field delimiter); settings leaking from an earlier fancy / latex call; b'..' for bytes strings; the "
        "continuation on the last latex line; nlines / header / trailer with latex; a wrong-length altnames list; fields=[] ; '%.3f' on "
        "non-float fields",
        "fancy layout: structure is compared without blanks, alignment by the character columns of '|' / '+' in every line of the table",
        "nformat, the '%s' fallback for names and fields-by-index are leads (documented in aprint but absent from the code / in the code but "
        "undocumented), never verdicts; so are the exact srandu map 2u-1 and the round structure of CutGenerator under scripted deviates",
        "LogNormal is compared at 1e-12 relative (log / exp / sqrt chains), everything else to rounding (8 ulp) on exact lattices",
        "randind: 'Indices will be generated to nmax-1' is decided on a seeded run of 4000 draws with nmax <= 8 (a correct generator misses "
        "an index with probability < 1e-200)",
        "page=True together with file=, write() after close(), NaN / inf values and strings with blanks or delimiter characters are not covered",
    ]
    ctx.trusted_base = ctx.trusted_base + ["fractions.Fraction arithmetic in the float -> lattice projection",
                                           "the lexer (maximal runs of [A-Za-z0-9_.+-'] are words) and the word -> cell binding by parsing",
                                           "scripted stand-ins for numpy.random.random / randn (used only where the code calls exactly these)"]


def replay(ctx, case):
    with ScratchRoot():
        _replay(ctx, case)


def _replay(ctx, case):
    if case.get("kind") == "hist":
        rec = run_hist((1, case["case"], case["conc"]))
        for c in rec["H"]["calls"]:
            print("replay observed: err=%s stray=%s" % (c["err"], c["stray"]))
            for l in c["lines"]:
                print("   | " + l["raw"])
    else:
        rec = run_bcase((1, dict(case["c"], fn=case["kind"]), case["conc"]))
        print("replay observed:", rec["o"])
    judge(ctx, [rec], "replay")
