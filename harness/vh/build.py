"""Scratch copy of /repo's *working tree* + extension build.

Every check starts here.  The tree is copied (no .git, no compiled objects) to a
fresh temporary directory outside /repo and /verif, the C/C++ extensions are
built there from the copied sources, and the directory is put first on sys.path.
It is removed at exit.

Build cache: compiling the five extensions takes ~13 s.  The resulting shared
objects are cached under $VH_CACHE (default /tmp/vh-cache) keyed by a hash of
*every* file that can influence the build (all non-.py files of the tree plus
setup.py / pyproject.toml).  A cache miss simply rebuilds; nothing a registered
command needs lives there.
"""
import atexit
import fcntl
import hashlib
import os
import shutil
import subprocess
import sys
import tempfile

REPO = os.environ.get("VH_REPO", "/repo")
CACHE = os.environ.get("VH_CACHE", "/tmp/vh-cache")
PY = "/venv/bin/python"

_SKIP_DIRS = {".git", "__pycache__", "build", "esutil.egg-info", "tmp", ".pytest_cache"}
_SKIP_EXT = (".so", ".o", ".pyc", ".os", ".exe")


class BuildError(Exception):
    pass


def _walk(root):
    for d, dirs, files in os.walk(root):
        dirs[:] = sorted(x for x in dirs if x not in _SKIP_DIRS)
        for f in sorted(files):
            if f.endswith(_SKIP_EXT):
                continue
            yield os.path.join(d, f)


def tree_key(root):
    h = hashlib.sha256()
    for p in _walk(root):
        rel = os.path.relpath(p, root)
        if rel.endswith(".py") and rel not in ("setup.py",):
            continue
        h.update(rel.encode())
        h.update(b"\0")
        with open(p, "rb") as f:
            h.update(f.read())
        h.update(b"\0")
    h.update(sys.version.encode())
    return h.hexdigest()[:24]


def source_digest(root=REPO):
    """digest of every source file (py included) - recorded in evidence"""
    h = hashlib.sha256()
    for p in _walk(root):
        rel = os.path.relpath(p, root)
        h.update(rel.encode())
        with open(p, "rb") as f:
            h.update(f.read())
    return h.hexdigest()[:16]


def _copy_tree(dst):
    for p in _walk(REPO):
        rel = os.path.relpath(p, REPO)
        q = os.path.join(dst, rel)
        os.makedirs(os.path.dirname(q), exist_ok=True)
        shutil.copy2(p, q)


def _so_files(root):
    out = []
    for d, dirs, files in os.walk(os.path.join(root, "esutil")):
        for f in files:
            if f.endswith(".so"):
                out.append(os.path.relpath(os.path.join(d, f), root))
    return sorted(out)


def _build_ext(tree):
    env = dict(os.environ)
    env["ESUTIL_VERIF"] = "1"
    r = subprocess.run(
        [PY, "setup.py", "-q", "build_ext", "--inplace", "-j", "16"],
        cwd=tree, env=env, stdout=subprocess.PIPE, stderr=subprocess.STDOUT, text=True,
    )
    if r.returncode != 0 or len(_so_files(tree)) < 5:
        raise BuildError("build_ext failed:\n" + r.stdout[-4000:])
    shutil.rmtree(os.path.join(tree, "build"), ignore_errors=True)
    shutil.rmtree(os.path.join(tree, "tmp"), ignore_errors=True)


def scratch_tree(need_ext=True, keep=False):
    """returns the path of a fresh importable copy of the working tree"""
    tree = tempfile.mkdtemp(prefix="vh-tree-")
    if not keep:
        atexit.register(shutil.rmtree, tree, True)
    _copy_tree(tree)
    if need_ext:
        key = tree_key(tree)
        cdir = os.path.join(CACHE, key)
        os.makedirs(CACHE, exist_ok=True)
        with open(os.path.join(CACHE, key + ".lock"), "w") as lk:
            fcntl.flock(lk, fcntl.LOCK_EX)
            try:
                if os.path.isdir(cdir) and os.path.exists(os.path.join(cdir, "OK")):
                    for rel in _so_files(cdir):
                        shutil.copy2(os.path.join(cdir, rel), os.path.join(tree, rel))
                else:
                    _build_ext(tree)
                    shutil.rmtree(cdir, ignore_errors=True)
                    for rel in _so_files(tree):
                        q = os.path.join(cdir, rel)
                        os.makedirs(os.path.dirname(q), exist_ok=True)
                        shutil.copy2(os.path.join(tree, rel), q)
                    open(os.path.join(cdir, "OK"), "w").close()
                    _prune_cache(keep=key)
            finally:
                fcntl.flock(lk, fcntl.LOCK_UN)
    return tree


def _prune_cache(keep, maxn=6):
    try:
        ents = [e for e in os.listdir(CACHE) if os.path.isdir(os.path.join(CACHE, e))]
        ents.sort(key=lambda e: os.path.getmtime(os.path.join(CACHE, e)))
        for e in ents[:-maxn]:
            if e != keep:
                shutil.rmtree(os.path.join(CACHE, e), ignore_errors=True)
                try:
                    os.unlink(os.path.join(CACHE, e + ".lock"))
                except OSError:
                    pass
    except OSError:
        pass


def activate(tree):
    """make `import esutil` resolve to the scratch copy (and verify it)"""
    sys.path.insert(0, tree)
    os.environ["PYTHONPATH"] = tree + os.pathsep + os.environ.get("PYTHONPATH", "")
    for m in [m for m in sys.modules if m == "esutil" or m.startswith("esutil.")]:
        del sys.modules[m]
    import esutil  # noqa
    if not os.path.realpath(esutil.__file__).startswith(os.path.realpath(tree)):
        raise BuildError("esutil imported from %s, not from scratch tree %s" % (esutil.__file__, tree))
    return esutil
