"""C06 - concrete representations of the abstract arrays of ArrayMatch.tla.

A representation record (ArrayMatch.tla, section "representations"; chosen by the model
ArrayMatchMC!ChooseReps, validated by ArrayMatchTrace!AMRepOK) says for each of the two
array arguments the element type, where in the range of the type(s) the abstract values
are placed, the byte order and the layout / container form.  This module turns
(abstract case, representation) into the concrete python / numpy arguments and back:

    inj1, inj2 = injections(c, rep, K)        abstract value -> python item, per argument
    build(items, type, order, layout)         python items   -> the argument handed to esutil

Every injection is strictly increasing (and the two of a match pair agree on common values
up to the sign of a float zero), which is re-checked here for every case on the exact
python values and, at start, against numpy's own ordering (selftest).  Nothing in here
judges a result.
"""
import itertools
import sys

import numpy as np

INT_RANGE = {}
for _b in (1, 2, 4, 8):
    INT_RANGE["i%d" % _b] = (-2 ** (8 * _b - 1), 2 ** (8 * _b - 1) - 1)
    INT_RANGE["u%d" % _b] = (0, 2 ** (8 * _b) - 1)
FLOATS = ("f4", "f8")
BASIC = ("bottom", "top", "ends", "mid")
ARRAY_LAYOUTS = ("contig", "strided", "reversed", "offset", "readonly")
SCALAR_LAYOUTS = ("zerod", "npscalar", "pyscalar")
INF = float("inf")


class Capacity(Exception):
    """the representation cannot hold K distinct values of this case (only for the larger seeded cases)"""


def kind_of(t):
    return t[0] if t[0] in "iufb" else t[0]        # i u f b S U


def is_int(t):
    return t in INT_RANGE


def is_str(t):
    return t[0] in "SU"


# ---------------------------------------------------------------------------------
# strings: 341 words of length 0..4 over a 4-letter alphabet, in lexicographic order
# ---------------------------------------------------------------------------------
def _words(maxlen):
    out = [()]
    for n in range(1, maxlen + 1):
        out += list(itertools.product(range(4), repeat=n))
    out.sort()                      # lexicographic on alphabet positions, a prefix sorts first
    return out


_BALPH = [b"A", b"a", b"\xe9", b"\xff"]          # ascending as unsigned bytes
_UALPH = ["a", "é", "€", "\U0001d11e"]  # ascending code points (1, 2, 3, 4 utf-8 bytes)
_W = _words(4)                                    # the empty string included
KMAX = len(_W)
_WL = {L: sorted(itertools.product(range(4), repeat=L)) for L in (2, 3, 4)}


def _word(t, idx):
    return b"".join(_BALPH[i] for i in idx) if t[0] == "S" else "".join(_UALPH[i] for i in idx)


def _spread_index(place, v, K, n):
    """position of abstract value v (1..K) in an ordered table of n entries"""
    if K > n:
        raise Capacity()
    if place == "bottom":
        return v - 1
    if place == "top":
        return n - 1 - (K - v)
    if place == "ends":
        return v - 1 if v <= (K + 1) // 2 else n - 1 - (K - v)
    if place == "mid":
        return ((v - 1) * (n - 1)) // max(K - 1, 1)
    raise ValueError(place)


# ---------------------------------------------------------------------------------
# injections
# ---------------------------------------------------------------------------------
def _int_place(lo, hi, place, K):
    if K > hi - lo + 1:
        raise Capacity()
    if place == "bottom":
        return lambda v: lo + (v - 1)
    if place == "top":
        return lambda v: hi - (K - v)
    if place == "ends":
        h = (K + 1) // 2
        return lambda v: lo + (v - 1) if v <= h else hi - (K - v)
    if place == "mid":
        c = 0 if lo < 0 else (hi + 1) // 2
        return lambda v: c + (v - 1 - K // 2)
    if place == "small":
        return (lambda v: v - 1 - K // 2) if lo < 0 else (lambda v: v - 1)
    raise ValueError(place)


def _int_alias(narrow, wide, K, present):
    nlo, nhi = INT_RANGE[narrow]
    wlo, whi = INT_RANGE[wide]
    p, q = min(present), max(present)
    if wlo == nlo:
        p = 1                         # the wider type does not reach below: nothing can spill there
    if whi == nhi:
        q = K
    if q - p + 1 > nhi - nlo + 1 or nlo - (p - 1) < wlo or nhi + (K - q) > whi:
        raise Capacity()
    m = (p + q) // 2

    def f(v):
        if v < p:
            return nlo - (p - v)
        if v > q:
            return nhi + (v - q)
        return nlo + (v - p) if v <= m else nhi - (q - v)
    return f


def _float_place(single, place, K):
    F = np.float32 if single else np.float64
    big = 1e30 if single else 1e300

    def r(x):
        return float(F(x))
    if place == "bottom":
        return lambda v: -INF if v == 1 else r(-big * (K + 1 - v) / K)
    if place == "top":
        return lambda v: INF if v == K else r(big * v / K)
    if place == "ends":
        return lambda v: -INF if v == 1 else INF if v == K else r(((v - 1) - (K - 1) / 2.0) * big / K)
    if place == "mid":
        return lambda v: r((v - 1 - K // 2) * 0.1)
    if place == "small":
        return lambda v: float(v - 1 - K // 2)
    raise ValueError(place)


def _float_alias(K, present):
    """values of the f4 array are f4 numbers; the others sit a few f8 ulps next to one of them"""
    P = sorted(present)
    eps = 2.0 ** -40

    def g(v):
        return (v - 1 - K // 2) * 1.5 + 0.25

    def f(v):
        if v in present:
            return g(v)
        below = [x for x in P if x < v]
        return g(below[-1]) + (v - below[-1]) * eps if below else g(P[0]) - (P[0] - v) * eps
    return f


def _str_alias(t, K, present):
    """arr1 holds words of one full width L, the other values extend the nearest one below"""
    L = 2 if K <= 16 else 3 if K <= 64 else 4
    if K > len(_WL[L]) or K > KMAX - 1:
        raise Capacity()
    P = sorted(present)

    def f(v):
        below = [x for x in P if x < v]
        if v in present or not below:
            return _word(t, _WL[L][v - 1])
        return _word(t, _WL[L][below[-1] - 1]) + _word(t, _W[v - below[-1]])
    return f


def value_injections(t1, t2, place, K, vals1, vals2):
    """match: (inj1, inj2) for the two arrays; equal abstract values get equal items"""
    if is_str(t1):
        if place == "alias":
            f = _str_alias(t1, K, set(vals1))
        else:
            f = lambda v: _word(t1, _W[_spread_index(place, v, K, KMAX)])   # noqa: E731
        return f, f
    if is_int(t1) and is_int(t2):
        if place == "alias":
            narrow, wide, present = (t1, t2, vals1) if _nested(t1, t2) else (t2, t1, vals2)
            f = _int_alias(narrow, wide, K, set(present))
        else:
            lo = max(INT_RANGE[t1][0], INT_RANGE[t2][0])
            hi = min(INT_RANGE[t1][1], INT_RANGE[t2][1])
            f = _int_place(lo, hi, place, K)
        return f, f
    if t1 in FLOATS and t2 in FLOATS:
        if place == "alias":
            f = _float_alias(K, set(vals1 if t1 == "f4" else vals2))
            return f, f
        f = _float_place("f4" in (t1, t2), place, K)
        # equal values in two spellings: the zero is +0.0 in the first array and -0.0 in the second
        return f, (lambda v: -0.0 if f(v) == 0.0 else f(v))
    # an integer and a float type: small integers, exact in both
    ti = t1 if is_int(t1) else t2
    g = _int_place(INT_RANGE[ti][0], INT_RANGE[ti][1], "small", K)
    fi, ff = g, (lambda v: float(g(v)))
    return (fi, ff) if is_int(t1) else (ff, fi)


def single_injection(t, place, K, zero_by_position=False):
    """de-duplication: one array; -> f(v, position)"""
    if t == "b1":                    # two levels (AMRepOK admits bool flags only for flag values 1, 2)
        return lambda v, j: v >= 2
    if is_str(t):
        return lambda v, j: _word(t, _W[_spread_index(place, v, K, KMAX)])
    if is_int(t):
        g = _int_place(INT_RANGE[t][0], INT_RANGE[t][1], place, K)
        return lambda v, j: g(v)
    g = _float_place(t == "f4", place, K)
    if zero_by_position:        # equal flags in two spellings: a tie, whichever is kept
        return lambda v, j: (-0.0 if j % 2 else 0.0) if g(v) == 0.0 else g(v)
    return lambda v, j: g(v)


def _nested(tn, tw):
    if is_int(tn) and is_int(tw):
        bn, bw = int(tn[1]), int(tw[1])
        return bn < bw and (tn[0] == tw[0] or (tn[0] == "u" and tw[0] == "i"))
    return tn == "f4" and tw == "f8"


def check_increasing(f, values):
    """machinery: the injection is strictly increasing on the abstract values that occur"""
    vs = sorted(set(values))
    items = [f(v) for v in vs]
    for a, b in zip(items, items[1:]):
        if not a < b:
            raise Capacity()
    return dict(zip(vs, items))


# ---------------------------------------------------------------------------------
# concrete arguments
# ---------------------------------------------------------------------------------
_NATIVE = "<" if sys.byteorder == "little" else ">"
_SWAPPED = ">" if sys.byteorder == "little" else "<"


def dtype_for(t, order, items):
    bo = _SWAPPED if order == "swapped" else _NATIVE
    if t == "b1":
        return np.dtype("?")
    if is_str(t):
        w = max([len(x) for x in items] + [1]) + (3 if t.endswith("w") else 0)
        return np.dtype("S%d" % w) if t[0] == "S" else np.dtype("%sU%d" % (bo, w))
    if t[1] == "1":
        return np.dtype(t)
    return np.dtype(bo + t)


def in_range(t, items):
    if is_int(t):
        lo, hi = INT_RANGE[t]
        return all(lo <= x <= hi for x in items)
    return True


def build(items, t, order, layout):
    """-> (argument handed to esutil, the numpy buffers behind it for the frame check)"""
    if not in_range(t, items):
        raise Capacity()
    dt = dtype_for(t, order, items)
    base = np.array(items, dtype=dt)
    if base.tolist() != list(items):
        raise ValueError("items are not exact in %s: %s" % (dt, items))
    n = base.size
    if layout == "contig":
        return base, [base]
    if layout == "strided":
        buf = np.empty(2 * n + 1, dtype=dt)
        buf[0::2] = np.resize(np.roll(base, 1), n + 1)       # decoys: the array's own values, shifted
        buf[1::2] = base
        return buf[1::2], [buf]
    if layout == "reversed":
        buf = base[::-1].copy()
        return buf[::-1], [buf]
    if layout == "offset":
        rec = np.zeros(n, dtype=[("p", "u1"), ("v", dt)])    # packed: the field is unaligned
        rec["p"] = 0xAB
        rec["v"] = base
        return rec["v"], [rec]
    if layout == "readonly":
        base.flags.writeable = False
        return base, [base]
    if layout == "list":
        if np.array(base.tolist()).dtype.kind != base.dtype.kind and not (is_int(t) and np.array(base.tolist()).dtype.kind in "iu"):
            raise ValueError("python list is not a faithful form of %s %s" % (t, items))   # (excluded by AMPyOK)
        return base.tolist(), []
    if layout == "zerod":
        z = np.array(base[0], dtype=dt)
        return z, [z]
    if layout == "npscalar":
        return base[0], []
    if layout == "pyscalar":
        return base[0].item(), []
    raise ValueError(layout)


def rep_tag(r):
    return "%s,%s/%s,%s/%s%s/%s,%s" % (r["t1"], r["t2"], r["p1"], r["p2"], r["o1"][0], r["o2"][0], r["l1"], r["l2"])


def selftest():
    """every placement of every type is strictly increasing under numpy's own ordering, in every byte order"""
    bad = []
    for t in list(INT_RANGE) + list(FLOATS) + ["S", "Sw", "U", "Uw", "b1"]:
        for place in BASIC:
            for K in (2, 3, 4, 7, 100):
                if t == "b1" and K > 2:
                    continue
                try:
                    f = single_injection(t, place, K)
                    items = [f(v, 0) for v in range(1, K + 1)]
                except Capacity:
                    continue
                for order in ("native", "swapped"):
                    a, _ = build(items, t, order, "contig")
                    ok = (a.size < 2 or (np.all(a[:-1] < a[1:]) and np.all(np.argsort(a, kind="stable") == np.arange(a.size))
                                         and np.all(np.searchsorted(a, a) == np.arange(a.size)))) and a.tolist() == items
                    if not ok:
                        bad.append((t, place, K, order))
    return bad


# ---------------------------------------------------------------------------------
# scale cases (ArrayMatch.tla, section "scale"): arrays given by generators, dense placements
# ---------------------------------------------------------------------------------
def gen_abstract(g, struct=None):
    """the abstract array of generator g (AMGenAt / AMGenArrAt) as int64"""
    n, w = int(g["n"]), int(g["w"])
    if struct is None:
        k = np.arange(n - 1, -1, -1, dtype=np.int64) if g["rev"] else np.arange(n, dtype=np.int64)
        return g["o"] + g["st"] * ((k * int(g["m"]) + int(g["s"])) % w)
    k = np.arange(n, dtype=np.int64)
    if struct == "cyclic":
        cls = (k + int(g["s"])) % w
    else:
        q = (n + w - 1) // w
        cls = (k // q + int(g["s"])) % w
    return g["o"] + g["st"] * cls


def dense_base(t1, place, lo1, hi1):
    """abstract value v of a dense placement is the concrete value base + v (ints) / (base + v) * step (floats)"""
    if is_int(t1):
        tlo, thi = INT_RANGE[t1]
        if int(t1[1]) <= 2 or place == "dense-bottom":
            return tlo - 1, 1                       # v = 1 is the minimum of the type
        if place == "dense-top":
            return thi - hi1, 1
        mid = 0 if tlo < 0 else (thi + 1) // 2
        return mid - (lo1 + hi1) // 2, 1
    lim = 2 ** 23 if t1 == "f4" else 2 ** 52       # integers (f8 mid: halves) are exact below these
    if place == "dense-bottom":
        return -lim, 1
    if place == "dense-top":
        return lim - hi1 - 8, 1
    return -((lo1 + hi1) // 2), (1 if t1 == "f4" else 0.5)


def dense_concrete(v, t, base, step):
    """int64 abstract array -> numpy array of element type t (native order); exactness is checked"""
    vmin, vmax = int(v.min()), int(v.max())
    if is_int(t):
        lo, hi = INT_RANGE[t]
        if not (lo <= base + vmin and base + vmax <= hi):
            raise Capacity()
        u = v.view(np.uint64) + np.uint64(base % 2 ** 64)
        x = u.view(np.int64) if lo < 0 else u
        out = x.astype(np.dtype(t))
        for j in (0, v.size // 2, v.size - 1):          # machinery: spot-check against exact python arithmetic
            if int(out[j]) != base + int(v[j]):
                raise ValueError("dense placement is not exact for %s" % t)
        return out
    lim = 2 ** 24 if t == "f4" else 2 ** 53
    if max(abs(base + vmin), abs(base + vmax)) >= lim:
        raise Capacity()
    out = ((v + base).astype(np.float64) * step).astype(np.dtype(t))
    return out


def build_np(arr, t, order, layout):
    """numpy array (native, element type t) -> the argument in the requested byte order and layout (+ buffers)"""
    dt = dtype_for(t, order, [])
    base = arr.astype(dt)
    n = base.size
    if layout == "contig":
        return base, [base]
    if layout == "strided":
        buf = np.empty(2 * n + 1, dtype=dt)
        buf[0::2] = np.resize(np.roll(base, 1), n + 1)
        buf[1::2] = base
        return buf[1::2], [buf]
    if layout == "reversed":
        buf = base[::-1].copy()
        return buf[::-1], [buf]
    if layout == "offset":
        rec = np.zeros(n, dtype=[("p", "u1"), ("v", dt)])
        rec["p"] = 0xAB
        rec["v"] = base
        return rec["v"], [rec]
    if layout == "readonly":
        base.flags.writeable = False
        return base, [base]
    raise ValueError(layout)


def block_rle(i1, i2, P, cap=16):
    """ArrayMatch!AMBlockRLE of a large result: (number of entries, the first cap entries)"""
    i1 = np.asarray(i1).astype(np.int64).ravel()
    i2 = np.asarray(i2).astype(np.int64).ravel()
    if i1.size != i2.size:
        return None
    if i2.size == 0:
        return 0, []
    blk = i2 // P
    rel = i2 - blk * P
    bnd = np.flatnonzero(np.diff(blk)) + 1
    starts = np.concatenate(([0], bnd)).tolist()
    ends = np.concatenate((bnd, [i2.size])).tolist()
    bl = blk[starts].tolist()
    out, count = [], 0
    ls = le = 0
    b0 = cnt = None
    for s, e, b in zip(starts, ends, bl):
        if cnt is not None and b == b0 + cnt and e - s == le - ls and \
                np.array_equal(i1[s:e], i1[ls:le]) and np.array_equal(rel[s:e], rel[ls:le]):
            cnt += 1
            if count <= cap:
                out[-1]["cnt"] = cnt
            continue
        count += 1
        b0, cnt, ls, le = b, 1, s, e
        if count <= cap:
            out.append({"b0": int(b), "cnt": 1, "i1": i1[s:e].tolist(), "i2": rel[s:e].tolist()})
    return count, out
