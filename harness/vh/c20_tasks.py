"""Picklable task function for the process pool behind esutil.pbar.pmap (C20).

An item is a tuple  (logdir, pos, val, waitfor, sleep_us):
  pos      1-based position of the item in the submitted sequence (its identity)
  val      the abstract value; the task returns pm_f(val)  (= PMF of PoolMap.tla)
  waitfor  positions whose completion marker must exist before this task returns -
           this is how a completion order chosen by TLC is imposed on the real pool
           without consulting a clock: completion is *caused*, not timed
  sleep_us plain latency (seeded), used where no completion order is imposed

The second half (h_sq / h_tab / h_chk, TABLE) serves the call histories of PoolHist.tla.

Every worker process appends to its own file  <logdir>/w<pid>.ndjson  the events
start / saw / finish with a per-process sequence number; events of different
processes are never ordered by time.  The only use of the clock is a liveness
safety net: a wait gives up after GIVEUP_S seconds (recorded as "giveup"; the
adapter then reports the schedule as not reproduced - never as a verdict).
"""
import json
import os
import time

GIVEUP_S = float(os.environ.get("VH_C20_GIVEUP_S", "6"))
_SEQ = 0


def pm_f(v):
    return v * v + 1


def _log(d, op, item):
    global _SEQ
    _SEQ += 1
    pid = os.getpid()
    with open(os.path.join(d, "w%d.ndjson" % pid), "a") as f:
        f.write(json.dumps({"pid": pid, "seq": _SEQ, "op": op, "item": item}) + "\n")


def _marker(d, pos):
    return os.path.join(d, "done.%d" % pos)


def task(item):
    d, pos, val, waitfor, sleep_us = item
    _log(d, "start", pos)
    if sleep_us:
        time.sleep(sleep_us / 1e6)
    giveup = os.path.join(d, "giveup")
    for a in waitfor:
        t0 = time.monotonic()
        ok = True
        while not os.path.exists(_marker(d, a)):
            if os.path.exists(giveup) or time.monotonic() - t0 > GIVEUP_S:
                ok = False
                break
            time.sleep(0.0003)
        if ok:
            _log(d, "saw", a)
        else:
            open(giveup, "w").close()
            _log(d, "giveup", a)
    _log(d, "finish", pos)
    open(_marker(d, pos), "w").close()
    return pm_f(val)


# ---- call histories (PoolHist.tla) -------------------------------------------------------
# TABLE is the module-level state of the calling process that the history task functions
# read (PoolHist.tla: s.tab).  The adapter re-binds it or overwrites it in place BETWEEN
# pmap calls; a call must see the table as it is in the parent when the call is made.
# Items of history calls are plain ints v (index into the table).
POISON = 99
TABLE = [1, 2, 3]


def h_sq(v):
    return v * v + 1


def h_tab(v):
    time.sleep(((v * 7) % 3) * 0.0002)      # uneven latencies: later items may finish first
    return TABLE[v]


def h_chk(v):
    x = TABLE[v]
    if x == POISON:
        raise ValueError("poisoned table entry %d" % v)
    return x + 1


HIST_FNS = {"sq": h_sq, "tab": h_tab, "chk": h_chk}


def read_streams(d):
    """per-process event streams, each ordered by its own sequence numbers; the
    processes are listed by the first item they started (pids are not deterministic)"""
    streams = []
    for name in os.listdir(d):
        if not (name.startswith("w") and name.endswith(".ndjson")):
            continue
        with open(os.path.join(d, name)) as f:
            evs = [json.loads(line) for line in f if line.strip()]
        evs.sort(key=lambda e: e["seq"])
        streams.append([{"op": e["op"], "item": e["item"]} for e in evs])
    streams.sort(key=lambda s: s[0]["item"] if s else 0)
    return streams
