"""./check <ID> --tier quick|thorough | --replay <file> ;  ./check --setup"""
import argparse
import glob
import importlib
import json
import os
import subprocess
import sys
import traceback

from . import build, core, tlc


def setup():
    ok = True
    for tool in ("java", "tlc", "pcal"):
        if subprocess.run(["which", tool], stdout=subprocess.DEVNULL).returncode != 0:
            print("setup: missing tool", tool)
            ok = False
    mods = sorted(glob.glob(os.path.join(tlc.SPEC_DIR, "*.tla")))
    from concurrent.futures import ThreadPoolExecutor
    with ThreadPoolExecutor(8) as ex:
        res = list(ex.map(tlc.sany, mods))
    for m, (good, out) in zip(mods, res):
        if not good:
            ok = False
            print("setup: SANY rejects %s\n%s" % (m, out[-1500:]))
    print("setup: %d TLA+ modules parsed, %s" % (len(mods), "ok" if ok else "FAILED"))
    try:
        import numpy, hypothesis  # noqa
    except ImportError as e:
        print("setup: missing python package", e)
        ok = False
    return 0 if ok else 2


def main(argv=None):
    ap = argparse.ArgumentParser()
    ap.add_argument("prop", nargs="?")
    ap.add_argument("--tier", default=os.environ.get("VERIF_TIER", "quick"), choices=["quick", "thorough"])
    ap.add_argument("--replay")
    ap.add_argument("--setup", action="store_true")
    ap.add_argument("--seed", type=int, default=None)
    ap.add_argument("--only", default=None, help="adapter-specific: run only the named part(s), comma separated (development aid; evidence not written)")
    a = ap.parse_args(argv)
    if a.setup:
        return setup()
    if not a.prop:
        ap.error("property id required")
    prop = a.prop.upper()
    seed = a.seed if a.seed is not None else int(os.environ.get("VERIF_SEED", "0") or 0)
    ctx = core.Ctx(prop, a.tier, seed)
    ctx.only = set(a.only.split(",")) if a.only else None
    try:
        adapter = importlib.import_module("vh.adapters." + prop.lower())
        tree = build.scratch_tree(need_ext=getattr(adapter, "NEEDS_EXT", True))
        ctx.tree = tree
        build.activate(tree)
        ctx.note(source_digest=build.source_digest(tree))
        if a.replay:
            ctx.replaying = True
            with open(a.replay) as f:
                payload = json.load(f)
            adapter.replay(ctx, payload["case"])
            if not ctx.violations:
                print("replay: case no longer violates property", prop)
            rc = core.finish(ctx)
            return rc
        try:
            adapter.run(ctx)
        except (core.MachineryError, tlc.TLCError) as e:
            # A tree that breaks the property badly can also trip a vacuity guard or a self-test that
            # needs clean records.  Violations already established on the real code (judged by TLC) stand;
            # without any, this is a failure of the machinery (exit 2).
            if not ctx.violations:
                raise
            print("MACHINERY-NOTE property=%s: a later stage of the check stopped (%s); reporting the %d violation(s) "
                  "established before it" % (prop, str(e).splitlines()[0][:300], len(ctx.violations)))
            ctx.note(stopped_after_violations=str(e)[:600])
        if ctx.only:
            ctx.replaying = True   # partial run: do not overwrite evidence
        return core.finish(ctx)
    except (core.MachineryError, tlc.TLCError, build.BuildError) as e:
        print("MACHINERY-ERROR property=%s: %s" % (prop, e))
        return 2
    except Exception:
        print("MACHINERY-ERROR property=%s: unexpected exception" % prop)
        traceback.print_exc()
        return 2


if __name__ == "__main__":
    sys.stdout.reconfigure(line_buffering=True)
    sys.exit(main())
