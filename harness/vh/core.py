"""Check context: counters, violations, known findings, evidence, exit codes."""
import hashlib
import json
import os
import random
import sys
import time

from . import tlc as _tlc

VERIF = os.path.dirname(os.path.dirname(os.path.dirname(os.path.abspath(__file__))))
EVIDENCE_DIR = os.path.join(VERIF, "evidence")
REPLAY_DIR = os.path.join(VERIF, "replays")
FINDINGS = os.path.join(VERIF, "known_findings.json")

LEVELS = ("exploration", "fault_enumeration", "model_checking", "proof", "translation_validation", "other")


class MachineryError(Exception):
    """the check itself failed (exit 2) - never a verdict about esutil"""


def jsonable(x):
    import fractions
    try:
        import numpy as np
    except ImportError:  # pragma: no cover
        np = None
    if isinstance(x, dict):
        return {str(k): jsonable(v) for k, v in x.items()}
    if isinstance(x, (list, tuple)):
        return [jsonable(v) for v in x]
    if isinstance(x, (set, frozenset)):
        return sorted((jsonable(v) for v in x), key=repr)
    if isinstance(x, fractions.Fraction):
        return "%d/%d" % (x.numerator, x.denominator)
    if isinstance(x, bytes):
        return x.hex()
    if np is not None:
        if isinstance(x, np.ndarray):
            return jsonable(x.tolist())
        if isinstance(x, np.generic):
            return jsonable(x.item())
    if isinstance(x, float):
        if x != x or x in (float("inf"), float("-inf")):
            return repr(x)
        return x
    if isinstance(x, (int, str, bool)) or x is None:
        return x
    return repr(x)


class Ctx:
    def __init__(self, prop, tier, seed, tree=None):
        self.prop = prop
        self.tier = tier
        self.seed = seed
        self.tree = tree
        self.rng = random.Random(seed)
        self.t0 = time.time()
        self.evaluations = 0
        self.nontrivial = set()         # hashes of distinct non-trivial cases
        self.nontrivial_n = 0           # or plain counter when hashing is too costly
        self.states = 0
        self.transitions = 0
        self.traces = 0                 # spec behaviours replayed into the code + code traces accepted by TLC
        self.samples = []
        self.violations = []            # (signature, what, case)
        self.tlc_runs = []
        self.coverage = {}
        self.extra = {}
        self.assumptions = []
        self.rule = ""
        self.exhaustive = False
        self.level = "model_checking"
        self.trusted_base = [
            "TLC 1.8.0 and the TLA+ CommunityModules",
            "numpy semantics used by the observable projection (indexing, tobytes, dtype)",
            "harness adapter mapping abstract cases to esutil calls",
        ]
        self.replaying = False

    @property
    def quick(self):
        return self.tier == "quick"

    # ---- TLC -------------------------------------------------------------------
    def tlc(self, module, what=None, require=(), allow_violation=False, **kw):
        r = _tlc.run(module, **kw)
        self.tlc_runs.append({"cmd": r.cmd, "what": what or "", "generated": r.generated, "distinct": r.distinct,
                              "depth": r.depth, "wall_s": round(r.wall_s, 2),
                              "actions": {k: v[1] for k, v in r.coverage.items()},
                              "violated": r.violated})
        self.states += r.distinct
        self.log("tlc %-55s %8d states %6.1fs" % ((what or module)[:55], r.distinct, r.wall_s))
        self.transitions += r.generated
        if r.errors or (r.violated and not allow_violation) or (r.rc != 0 and not r.violated):
            raise MachineryError("TLC failed for %s: rc=%s violated=%s errors=%s\n%s" %
                                 (what or module, r.rc, r.violated, r.errors[:3], r.tail(50)))
        if require:
            try:
                _tlc.require_coverage(r, require)
            except _tlc.TLCError as e:
                raise MachineryError(str(e))
        return r

    def log(self, msg):
        print("[%s %6.1fs] %s" % (self.prop, time.time() - self.t0, msg), file=sys.stderr, flush=True)

    # ---- counting --------------------------------------------------------------
    def count(self, case=None, nontrivial=True, n=1):
        self.evaluations += n
        if nontrivial:
            if case is None:
                self.nontrivial_n += n
            else:
                self.nontrivial.add(hashlib.blake2b(json.dumps(jsonable(case), sort_keys=True).encode(),
                                                    digest_size=8).digest())

    def sample(self, case, every=1, cap=6):
        if len(self.samples) < cap:
            self.samples.append(jsonable(case))

    def violation(self, signature, what, case):
        self.violations.append((signature, what, jsonable(case)))

    def note(self, **kw):
        self.extra.update(kw)


# ---------------------------------------------------------------------------------
def load_findings():
    if not os.path.exists(FINDINGS):
        return []
    with open(FINDINGS) as f:
        return json.load(f).get("findings", [])


def finish(ctx, adapter_name=None):
    """classify violations, write replays + evidence, print verdict lines, return exit code"""
    findings = [f for f in load_findings() if f.get("property") == ctx.prop]
    open_sigs = {f["signature"]: f for f in findings if f.get("status") == "open"}
    by_sig = {}
    for sig, what, case in ctx.violations:
        by_sig.setdefault(sig, []).append((what, case))
    known, new = [], []
    for sig, items in sorted(by_sig.items()):
        (known if sig in open_sigs else new).append((sig, items))
    for sig, items in known:
        print("KNOWN-FINDING: property=%s %s [%s; %d case(s) this run, e.g. %s]" %
              (ctx.prop, open_sigs[sig]["what"], sig, len(items), json.dumps(items[0][1])[:200]))
    rc = 0
    replay_paths = []
    if new:
        rc = 1
        d = os.path.join(REPLAY_DIR, ctx.prop)
        os.makedirs(d, exist_ok=True)
        for sig, items in new[:25]:
            what, case = items[0]
            name = hashlib.sha1(sig.encode()).hexdigest()[:10] + ".json"
            path = os.path.join(d, name)
            with open(path, "w") as f:
                json.dump({"property": ctx.prop, "signature": sig, "what": what, "case": case,
                           "n_cases_with_signature": len(items), "more_cases": [c for _, c in items[1:6]],
                           "seed": ctx.seed, "tier": ctx.tier}, f, indent=1)
            replay_paths.append(path)
            print("VIOLATION property=%s replay=%s" % (ctx.prop, path))
            print("  signature: %s\n  what: %s\n  case: %s" % (sig, what, json.dumps(case)[:600]))
        if len(new) > 25:
            print("  (+%d more distinct violation signatures)" % (len(new) - 25))
    if not ctx.replaying:
        try:
            write_evidence(ctx, known, new)
        except MachineryError as e:
            if rc != 1:
                raise
            print("MACHINERY-NOTE property=%s: evidence not written (%s)" % (ctx.prop, e))
    return rc


def write_evidence(ctx, known, new):
    nontriv = len(ctx.nontrivial) + ctx.nontrivial_n
    cov = {
        "states": int(ctx.states),
        "transitions": int(ctx.transitions),
        "traces_validated_against_impl": int(ctx.traces),
        "samples": ctx.samples[:8] or [],
        "evaluations": int(ctx.evaluations),
        "distinct_nontrivial": int(nontriv),
        "rule": ctx.rule,
        "exhaustive": bool(ctx.exhaustive),
        "checker_cmd": "; ".join(r["cmd"] for r in ctx.tlc_runs)[:2000],
        "trusted_base": ctx.trusted_base,
        "tlc_runs": ctx.tlc_runs,
        "known_findings_reproduced": [s for s, _ in known],
        "new_violation_signatures": [s for s, _ in new],
    }
    cov.update(jsonable(ctx.extra))
    ev = {
        "property_id": ctx.prop,
        "tier": ctx.tier,
        "seed": int(ctx.seed),
        "level": ctx.level,
        "coverage": cov,
        "assumptions": ctx.assumptions,
        "wall_s": round(time.time() - ctx.t0, 2),
        "violations": len(new),
    }
    problems = validate_evidence(ev)
    if problems:
        raise MachineryError("evidence would not validate: %s" % problems)
    os.makedirs(EVIDENCE_DIR, exist_ok=True)
    path = os.path.join(EVIDENCE_DIR, ctx.prop + ".json")
    with open(path + ".tmp", "w") as f:
        json.dump(ev, f, indent=1, sort_keys=True)
        f.write("\n")
    os.replace(path + ".tmp", path)


def validate_evidence(ev):
    """minimal re-statement of /root/.vp/EVIDENCE.schema.json (jsonschema is not in /venv)"""
    p = []
    for k in ("property_id", "tier", "seed", "level", "coverage", "wall_s"):
        if k not in ev:
            p.append("missing " + k)
    if ev.get("tier") not in ("quick", "thorough"):
        p.append("tier")
    if ev.get("level") not in LEVELS:
        p.append("level")
    c = ev.get("coverage", {})
    if ev.get("level") == "model_checking":
        if c.get("states", 0) < 1 or c.get("transitions", 0) < 1:
            p.append("model_checking needs states>=1 and transitions>=1")
        if not c.get("samples"):
            p.append("samples empty")
    if c.get("evaluations", 0) < 1:
        p.append("evaluations<1")
    if c.get("distinct_nontrivial", 0) < 2:
        p.append("distinct_nontrivial<2")
    return p
