"""Refinement mapping for C11 (Cosmo.tla <-> esutil.cosmology.Cosmo).

Nothing here knows what a cosmological distance is.  It provides

* ``project``      a reported float -> the lattice rational it represents (or "off")
* ``Evaluator``    a generic exact evaluator of the expression trees exported from
                   Cosmo.tla's CCatalogue (leaves are calls on the object under test)
* ``residual``     |lhs - rhs| as an integer number of units (ulp | ppb), rounded up
* ``gl_rule``      an independently obtained Gauss-Legendre rule (numpy), validated by
                   exact monomial moments before it is used
* shape concretisation for the dispatch machine

Real arithmetic is exact (fractions.Fraction); sqrt / sinh / sin / log10 / pi are
evaluated to >= 45 significant digits (decimal / integer square root).
"""
import decimal
import math
from fractions import Fraction as F

import numpy as np

ULP = F(1, 2 ** 52)
PPB = F(1, 10 ** 9)
CAP = 2 * 10 ** 9          # residuals are capped (TLC has 32-bit integers)
OFF = [0, 0]               # the marker "not on the lattice" (Cosmo.tla CNone)

_DCTX = decimal.Context(prec=60)
PI = F(decimal.Decimal("3.14159265358979323846264338327950288419716939937510582097494"))


class Undefined(Exception):
    """an expression has no finite real value (NaN / inf observed, division by zero, sqrt of a negative)"""


# ---- lattice projection -------------------------------------------------------------
def project(x, max_den=200000, ulps=4):
    """reported float -> [n, d] of the small rational within `ulps` ulp (relative to max(|value|, 1),
    the operand scale of 1 - omega_m) or OFF"""
    try:
        xf = F(x)
    except (ValueError, OverflowError, TypeError):
        return OFF
    fr = xf.limit_denominator(max_den)
    if abs(fr.numerator) >= 2 ** 31:
        return OFF
    if abs(xf - fr) <= ulps * ULP * max(abs(fr), 1):
        return [fr.numerator, fr.denominator]
    return OFF


def frac(nd):
    return F(nd[0], nd[1])


# ---- Gauss-Legendre reference rule ----------------------------------------------------
_GL = {}


def gl_rule(n):
    """numpy's n-point rule; accepted only if it integrates every monomial of degree <= 2n-1 over [-1,1]
    to 4 ulp (exact rational moments) - raises ValueError otherwise"""
    if n not in _GL:
        x, w = np.polynomial.legendre.leggauss(n)
        xs, ws = [F(float(v)) for v in x], [F(float(v)) for v in w]
        for k in range(2 * n):
            m = sum(wi * xi ** k for xi, wi in zip(xs, ws))
            exact = F(2, k + 1) if k % 2 == 0 else F(0)
            if abs(m - exact) > 4 * ULP * 2:
                raise ValueError("reference Gauss-Legendre rule n=%d fails the degree-%d moment by %.3e" %
                                 (n, k, float(m - exact)))
        _GL[n] = ([float(v) for v in x], [float(v) for v in w])
    return _GL[n]


_ES = {}


def esutil_rule(n):
    """the rule esutil documents and exposes: esutil.integrate.gauleg(-1, 1, n) (decided by property C17)"""
    if n not in _ES:
        try:
            from esutil.integrate import gauleg
            x, w = gauleg(-1.0, 1.0, n)
            x, w = [float(v) for v in x], [float(v) for v in w]
            if len(x) != n or len(w) != n or not all(math.isfinite(v) for v in x + w):
                raise ValueError("malformed rule")
            _ES[n] = (x, w)
        except Exception as e:  # noqa
            _ES[n] = Undefined("esutil.integrate.gauleg(-1, 1, %d) unusable: %s" % (n, e))
    if isinstance(_ES[n], Exception):
        raise _ES[n]
    return _ES[n]


# ---- high precision elementary functions ----------------------------------------------
def _dec(x):
    return _DCTX.divide(decimal.Decimal(x.numerator), decimal.Decimal(x.denominator))


def _sqrt(x):
    if x < 0:
        raise Undefined("sqrt of a negative number")
    k = 220
    return F(math.isqrt((x.numerator << (2 * k)) // x.denominator), 1 << k)


def _sinh(x):
    d = _dec(x)
    e = _DCTX.exp(d)
    return F(_DCTX.divide(_DCTX.subtract(e, _DCTX.divide(decimal.Decimal(1), e)), decimal.Decimal(2)))


def _sin(x):
    x = F(round(x * (1 << 220)), 1 << 220)
    term, s, k = x, x, 1
    x2 = x * x
    while abs(term) > F(1, 10 ** 50):
        term = -term * x2 / ((2 * k) * (2 * k + 1))
        term = F(round(term * (1 << 260)), 1 << 260)
        s += term
        k += 1
    return s


def _log10(x):
    if x <= 0:
        raise Undefined("log10 of a non-positive number")
    return F(_DCTX.log10(_dec(x)))


# ---- the evaluator ----------------------------------------------------------------------
class Evaluator:
    """evaluates Cosmo.tla expression trees on one object and one redshift pair"""

    def __init__(self, obj, a, b, der, pars=None):
        self.obj = obj
        self.vals = {"a": float(a), "b": float(b), "DH": float(obj.DH()), "ok": float(obj.omega_k())}
        self.der = der
        self.pars = pars or {}         # the reported parameters as exact lattice rationals [n, d]
        self.env = {}                  # bound quadrature nodes
        self.memo = {}
        self.ncalls = 0

    def call(self, name, *xs):
        key = (name,) + xs
        if key not in self.memo:
            self.ncalls += 1
            with np.errstate(all="ignore"):
                v = getattr(self.obj, name)(*xs)
            v = float(v)
            self.memo[key] = v
        v = self.memo[key]
        if v != v or v in (float("inf"), float("-inf")):
            raise Undefined("%s%s = %r" % (name, xs, v))
        return v

    def arg(self, t):
        """a call argument: the float the real code is given"""
        return float(self.ev(t))

    def ev(self, t):
        op = t[0]
        if op == "v":
            return F(self.vals[t[1]])
        if op == "d":
            nd = self.der[t[1]]
            if nd[1] == 0:
                raise Undefined("derived value %s absent" % t[1])
            return frac(nd)
        if op == "n":
            return F(t[1], t[2])
        if op == "dec":
            return F(t[1])
        if op == "pi":
            return PI
        if op == "q1":
            return F(self.call(t[1], self.arg(t[2])))
        if op == "q2":
            return F(self.call(t[1], self.arg(t[2]), self.arg(t[3])))
        if op == "p":
            nd = self.pars.get(t[1])
            if nd is None or nd[1] == 0:
                raise Undefined("reported parameter %s is not on the lattice" % t[1])
            return frac(nd)
        if op == "x":
            return self.env[t[1]]
        if op == "gl":
            n, rule, var, body = t[1], t[2], t[3], t[4]
            lo, hi = self.arg(t[5]), self.arg(t[6])
            xs, ws = esutil_rule(n) if rule == "esutil" else gl_rule(n)
            f1, f2 = (hi - lo) / 2.0, (hi + lo) / 2.0            # the documented mapping, in binary64
            total, saved = F(0), self.env.get(var)
            try:
                for x, w in zip(xs, ws):
                    self.env[var] = F(x * f1 + f2)
                    total += F(w) * F(f1) * self.ev(body)
            finally:
                if saved is None:
                    self.env.pop(var, None)
                else:
                    self.env[var] = saved
            return total
        if op in ("add", "sub", "mul", "div", "max"):
            x, y = self.ev(t[1]), self.ev(t[2])
            if op == "add":
                return x + y
            if op == "sub":
                return x - y
            if op == "mul":
                return x * y
            if op == "max":
                return max(x, y)
            if y == 0:
                raise Undefined("division by zero")
            return x / y
        x = self.ev(t[1])
        if op == "neg":
            return -x
        if op == "sq":
            return x * x
        if op == "abs":
            return abs(x)
        if op == "sqrt":
            return _sqrt(x)
        if op == "sinh":
            return _sinh(x)
        if op == "sin":
            return _sin(x)
        if op == "log10":
            return _log10(x)
        raise ValueError("unknown expression operator %r" % (op,))

    def residual(self, ident):
        """-> ([units, sign], info) ; units = -1 when a side has no finite value"""
        try:
            lhs, rhs = self.ev(ident["lhs"]), self.ev(ident["rhs"])
            if ident["scale"][0] == "maxabs":
                scale = max(abs(lhs), abs(rhs))
            else:
                scale = abs(self.ev(ident["scale"]))
        except Undefined as e:
            return [-1, 0], {"undefined": str(e)}
        return residual(lhs, rhs, scale, ident["unit"])


def residual(lhs, rhs, scale, unit):
    dev = abs(lhs - rhs)
    sgn = (lhs > rhs) - (lhs < rhs)
    if dev == 0:
        units = 0
    elif scale == 0:
        units = CAP
    else:
        q = dev / (scale * (ULP if unit == "ulp" else PPB))
        units = min(CAP, -((-q.numerator) // q.denominator))
    info = {"lhs": float(lhs), "rhs": float(rhs), "rel_dev": 0.0 if dev == 0 else (float(dev / scale) if scale else float("inf"))}
    return [int(units), int(sgn)], info


# ---- dispatch representations ---------------------------------------------------------------
# Value tables per argument position (dyadic, so f4 and f8 hold the same number; integers for the integer
# types).  Position 0 / 1 = first / second redshift argument.  They include zmin < zmax, zmin = zmax and
# zmin > zmax (sigmacritinv's zero branch), narrow intervals and intervals wider than 2 and 4 (a scalar
# routine that treats wide intervals differently from its vector twin shows up), and zmin = 0.
VALS = {"float": ([0.5, 1.0, 0.25], [4.5, 1.0, 0.125]),
        "int": ([0, 1, 3], [5, 1, 1])}
SCALAR = {"float": (0.5, 4.0), "int": (1, 4)}
INT_DT = ("int", "i8", "i4", ">i8")


def digest(u64):
    import hashlib
    return hashlib.sha1(np.ascontiguousarray(u64).tobytes()).hexdigest()[:16]


def _fam(rep):
    return "int" if rep["dt"] in INT_DT else "float"


def element(rep, which, i):
    """the binary64 VALUE of entry i of the value table (1-based; 0 = the scalar) of argument `which` (0|1)"""
    fam = _fam(rep)
    if i == 0:
        return float(SCALAR[fam][which])
    return float(VALS[fam][which][i - 1])


def concretise(rep, which):
    """abstract representation [cls, dt, lay, len] -> the python object handed to the real code"""
    cls, dt, lay, n = rep["cls"], rep["dt"], rep["lay"], rep["len"]
    fam = _fam(rep)
    conv = int if fam == "int" else float
    if cls == "absent":
        return None
    if cls == "pyfloat":
        return float(SCALAR[fam][which])
    if cls == "pyint":
        return int(SCALAR[fam][which])
    if cls == "npscalar":
        return np.dtype(dt).type(SCALAR[fam][which])
    tab = VALS[fam][which]
    if cls in ("list", "tuple"):
        v = [conv(tab[k]) for k in range(n)]
        return v if cls == "list" else tuple(v)
    if cls != "ndarray":
        raise ValueError("unknown representation class %r" % cls)
    dtype = np.dtype(dt)
    filler = conv(4.75) if fam == "float" else 4
    if lay == "zerod":
        return np.array(conv(tab[0]), dtype=dtype)
    if lay == "f2d":                            # shape (2, n), Fortran order; C-order element k holds table entry (k mod 3)
        flat = [conv(tab[k % 3]) for k in range(2 * n)]
        a = np.asfortranarray(np.array(flat, dtype=dtype).reshape(2, n))
        if n > 1 and not a.flags.f_contiguous:
            raise ValueError("could not build a Fortran-ordered array")
        return a
    v = [conv(tab[k]) for k in range(n)]
    if lay == "contig":
        return np.array(v, dtype=dtype)
    if lay == "strided":                        # every other element of a longer buffer
        buf = np.full(2 * n, filler, dtype=dtype)
        buf[::2] = v
        return buf[::2]
    if lay == "reversed":                       # negative stride
        return np.array(v[::-1], dtype=dtype)[::-1]
    raise ValueError("unknown layout %r" % lay)
