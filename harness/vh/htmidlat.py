"""Concretisation of the exact lattices of spec/HtmIds.tla (property C13).

abstract -> concrete : lattice positions / radii / bin edges -> float (ra, dec, radius, rmin,
                       rmax, scale) with ONE correctly rounded operation (float(Fraction)) or, on
                       tilted great circles and the rational sphere, a few longdouble libm calls.
concrete -> abstract : int64 ids -> three 22-bit limbs (TLC decodes the base-4 digits itself);
                       membership of an id in a (possibly huge) returned id list.
Nothing here decides a property.  (The great-circle / rational-sphere parts follow
vh/htmlat.py of C12; they are copied because that file belongs to C12.)
"""
import math
from fractions import Fraction as F

import numpy as np

_LD = np.longdouble
_PI = _LD(4) * np.arctan(_LD(1))
_R2D = _LD(180) / _PI
_D2R = _PI / _LD(180)

# great circles a case can be placed on:
#   ("eq", off)              ra = t + off, dec = 0                      (runs along trixel edges)
#   ("mer", off)             meridian circle ra = off / off+180 through both poles; t = 0 on the equator
#                            at ra = off, t = 90 north pole, t = 270 south pole (off = 0, 90, .. : trixel edges)
#   ("tilt", inc, node, off) the equator tilted by inc degrees about the axis through ra = node, dec = 0;
#                            general position.  Coordinates carry <= 3e-14 degree of rounding, nine orders of
#                            magnitude below the half lattice step that separates "inside" from "outside".
CIRCLES = [("eq", 0), ("mer", 0), ("eq", 37), ("mer", 90), ("tilt", 23, 11, 0), ("mer", 37), ("eq", 45),
           ("tilt", 60, 200, 17), ("mer", 45), ("mer", 270), ("eq", 359), ("tilt", 85, 90, 3), ("mer", 180)]

EPS = {"1e-1": F(1, 10), "1e-2": F(1, 100), "1e-3": F(1, 10 ** 3), "2e-4": F(2, 10 ** 4), "1e-4": F(1, 10 ** 4),
       "4e-5": F(4, 10 ** 5), "1e-5": F(1, 10 ** 5), "1e-6": F(1, 10 ** 6), "1e-7": F(1, 10 ** 7)}


def gc_arc(pos, eps):
    a, b = pos
    return (F(a) + b * eps) % 360


def gc_point(circle, eps, pos):
    """(ra, dec) in degrees as floats"""
    typ = circle[0]
    t = gc_arc(pos, eps)
    if typ == "eq":
        return float((t + circle[1]) % 360), 0.0
    if typ == "mer":
        off = circle[1]
        if t <= 90:
            return float(F(off) % 360), float(t)
        if t < 270:
            return float(F(off + 180) % 360), float(180 - t)
        return float(F(off) % 360), float(t - 360)
    _, inc, node, off = circle
    tt = (t + off) % 360
    tr = (_LD(tt.numerator) / _LD(tt.denominator)) * _D2R
    ir = _LD(inc) * _D2R
    x, y, z = np.cos(tr), np.sin(tr) * np.cos(ir), np.sin(tr) * np.sin(ir)
    ra = np.arctan2(y, x) * _R2D + _LD(node)
    ra = ra % _LD(360)
    dec = np.arcsin(z) * _R2D
    ra = float(ra)
    if ra >= 360.0:
        ra = 0.0
    return ra, float(dec)


def gc_half(r, eps):
    """a radius / bin edge <<a, h>> = a + h*eps/2 in degrees, exact"""
    a, h = r
    return F(a) + h * eps / 2


# ---- rational sphere ---------------------------------------------------------------
def rs_point(p):
    x, y, z, d = p
    if x == 0 and y == 0:
        ra = _LD(0)
    else:
        ra = np.arctan2(_LD(y), _LD(x)) * _R2D
        if ra < 0:
            ra += 360
    dec = np.arcsin(_LD(z) / _LD(d)) * _R2D
    ra = float(ra)
    if ra >= 360.0:
        ra = 0.0
    return ra, float(dec)


def acos_ld(c):
    """angle in radians (longdouble) of the rational cosine c = (p, q)"""
    fr = F(c[0], c[1])
    if fr == 1:
        return _LD(0)
    if fr == -1:
        return _PI
    return np.arccos(_LD(fr.numerator) / _LD(fr.denominator))


def rs_radius_deg(c):
    return float(acos_ld(c) * _R2D)


def pythagorean_points(maxd=15):
    out = []
    for d in range(1, maxd + 1):
        for x in range(-d, d + 1):
            for y in range(-d, d + 1):
                z2 = d * d - x * x - y * y
                if z2 < 0:
                    continue
                z = math.isqrt(z2)
                if z * z != z2:
                    continue
                for zz in {z, -z}:
                    if math.gcd(math.gcd(abs(x), abs(y)), math.gcd(abs(zz), d)) == 1:
                        out.append((x, y, zz, d))
    return sorted(set(out))


def points(lat, pts, circle, eps):
    if lat == "gc":
        cc = [gc_point(circle, eps, p) for p in pts]
    else:
        cc = [rs_point(p) for p in pts]
    return [c[0] for c in cc], [c[1] for c in cc]


def radius_deg(lat, r, eps):
    return float(gc_half(r, eps)) if lat == "gc" else rs_radius_deg(r)


# ---- pair-count arguments ------------------------------------------------------------
def bin_args(lat, edges, scale, eps, unit):
    """(rmin, rmax, nbin, scale argument or None) for HTM.bincount.

    gc: an edge <<a,h>> is a + h*eps/2 in degrees of *scaled* separation m*sep.  Without scale the
        call is in degrees.  With multipliers m_i the call uses scale_i = m_i*unit*180/pi, so that
        scale_i * angle[rad] = unit * m_i * sep[deg], and rmin/rmax = unit * edge.
    rs: an edge is the cosine of an angle theta; multiplier k_i means the window k_i*theta, i.e.
        scale_i = unit/k_i with rmin/rmax = unit*theta[rad] (degrees, unit ignored, without scale).
    """
    nbin = len(edges) - 1
    unit = F(unit)
    uld = _LD(unit.numerator) / _LD(unit.denominator)
    if lat == "gc":
        lo, hi = gc_half(edges[0], eps), gc_half(edges[-1], eps)
        if not scale:
            return float(lo), float(hi), nbin, None
        r2d = _LD(180) / _PI
        sc = [float(_LD(m) * uld * r2d) for m in scale]
        return float(lo * unit), float(hi * unit), nbin, sc
    lo, hi = acos_ld(edges[0]), acos_ld(edges[-1])
    if not scale:
        return float(lo * _R2D), float(hi * _R2D), nbin, None
    sc = [float(uld / _LD(k)) for k in scale]
    return float(lo * uld), float(hi * uld), nbin, sc


def max_angle_deg(lat, edges, scale, eps):
    """upper bound of the largest search angle of a pair-count problem (cost control only)"""
    if lat == "gc":
        m = min(scale) if scale else 1
        return float(gc_half(edges[-1], eps)) / m + 1e-6
    k = max(scale) if scale else 1
    return min(180.0, k * rs_radius_deg(edges[-1]) + 1e-6)


def trixels_in_cap(radius_deg_, depth):
    """expected number of depth-`depth` trixels meeting a cap of that radius (cost control only)"""
    frac = (1.0 - math.cos(math.radians(min(180.0, radius_deg_)))) / 2.0
    return frac * 8 * 4 ** depth + 12 * 2 ** depth * math.sin(math.radians(min(90.0, radius_deg_))) + 8


# ---- memory layouts -------------------------------------------------------------------
def layout(values, how):
    a = np.array(values, dtype="f8")
    if how == "contig":
        return a
    if how == "strided":
        big = np.full(2 * a.size + 1, 777.0)
        v = big[1::2]
        v[:] = a
        return v
    if how == "swapped":
        return a.astype(">f8")
    if how == "list":
        return [float(x) for x in a]
    if how == "f4ok":               # values are passed through float64 anyway; a tuple instead of a list
        return tuple(float(x) for x in a)
    raise ValueError(how)


LAYOUTS = ["contig", "strided", "swapped", "list", "f4ok"]


def snapshot(x):
    if isinstance(x, np.ndarray):
        return (x.tobytes(), str(x.dtype), x.strides)
    return repr(x)


# ---- ids ------------------------------------------------------------------------------------
_M22 = (1 << 22) - 1


def limbs(i):
    """int64 id -> [l1, l2, l3] with id = l1*2^44 + l2*2^22 + l3 (TLC has 32-bit integers)"""
    i = int(i)
    if i <= 0 or i >= (1 << 66):
        return [-1, 0, 0]
    return [i >> 44, (i >> 22) & _M22, i & _M22]


def pos_class(ra, dec):
    """coarse structural class of a concrete position (names violations, nothing else)"""
    if abs(dec) == 90.0:
        return "pole"
    if dec == 0.0 and ra % 90.0 == 0.0:
        return "octant_corner"
    if ra in (0.0, 360.0):
        return "seam"
    if dec == 0.0 or ra % 90.0 == 0.0:
        return "octant_edge"
    return "interior"


# ---- "star" concretisation: arcs measured from an arbitrary centre along rays ------------------
def star_point(ra0, dec0, phi, pos, eps):
    """the point t = a + b*eps degrees away from (ra0, dec0) along the great circle that leaves the centre
    with position angle phi (degrees, from north through east).  The separation from the centre is t (or
    360 - t beyond the antipode) whatever the centre and the direction are - which is all the cover and
    the one-to-many pair-count clauses use - so the centre may be ANY position, lattice or not.
    Rounding of the result to doubles: <= 3e-14 degree."""
    t = gc_arc(pos, eps)
    tr = (_LD(t.numerator) / _LD(t.denominator)) * _D2R
    a0, d0, ph = _LD(ra0) * _D2R, _LD(dec0) * _D2R, _LD(phi) * _D2R
    c = (np.cos(d0) * np.cos(a0), np.cos(d0) * np.sin(a0), np.sin(d0))
    north = (-np.sin(d0) * np.cos(a0), -np.sin(d0) * np.sin(a0), np.cos(d0))
    east = (-np.sin(a0), np.cos(a0), _LD(0))
    tv = [np.cos(ph) * north[k] + np.sin(ph) * east[k] for k in range(3)]
    p = [c[k] * np.cos(tr) + tv[k] * np.sin(tr) for k in range(3)]
    if t == 0:
        return float(ra0), float(dec0)
    ra = np.arctan2(p[1], p[0]) * _R2D
    if ra < 0:
        ra += 360
    z = max(_LD(-1), min(_LD(1), p[2]))
    # near the poles asin loses digits: use atan2 of z against the horizontal length
    dec = np.arctan2(z, np.sqrt(p[0] * p[0] + p[1] * p[1])) * _R2D
    ra = float(ra)
    if ra >= 360.0:
        ra = 0.0
    return ra, float(dec)


def star_points(centre, dirs, pts, eps):
    cc = [star_point(centre[0], centre[1], ph, p, eps) for ph, p in zip(dirs, pts)]
    return [c[0] for c in cc], [c[1] for c in cc]


# ---- representations of one argument (spec/HtmIds.tla "representations of the arguments") -----------
N1_ONLY = {"zerod", "npscalar", "pyscalar"}
NEEDS_WHOLE = {"f4", "i4", "i8", "npfloat32", "npint"}          # the values must be whole numbers to survive the type


def represent(values, rep, index=False):
    """the same numbers handed over differently.  values: list of python floats (coordinates, scales) or ints
    (index=True: htm ids / reverse indices)"""
    base = "i8" if index else "f8"
    a = np.array(values, dtype=base)
    n = a.size
    if rep == "contig":
        return a
    if rep == "strided":
        big = np.full(2 * n + 1, 777, dtype=base)
        v = big[1::2]
        v[:] = a
        return v
    if rep in ("recfield12", "recfield20"):
        dt = [("v", base), ("x", "i4")] + ([("w", "f8")] if rep == "recfield20" else [])
        r = np.zeros(n, dtype=np.dtype(dt))                       # packed: itemsize 12 / 20, unaligned 8-byte fields
        r["v"] = a
        r["x"] = 7
        v = r["v"]
        assert v.strides == (12 if rep == "recfield12" else 20,)
        return v
    if rep == "reversed":
        return a[::-1].copy()[::-1]
    if rep == "be":
        return a.astype(">" + base)
    if rep in ("f4", "i4", "i8", "u8"):
        b = a.astype(rep)
        if not np.array_equal(b.astype(base), a):
            raise ValueError("values do not survive %s" % rep)
        return b
    if rep == "list":
        return [int(x) for x in a] if index else [float(x) for x in a]
    if rep == "tuple":
        return tuple(int(x) for x in a) if index else tuple(float(x) for x in a)
    if rep == "twod_row":
        return a.reshape(1, n)
    if rep == "twod_col":
        return a.reshape(n, 1)
    if n != 1:
        raise ValueError("%s needs one element" % rep)
    if rep == "zerod":
        return np.array(a[0])
    if rep == "npscalar":
        return a[0]
    if rep == "pyscalar":
        return a[0].item()
    raise ValueError(rep)


def represent_scalar(x, rep):
    """one double argument of HTM.intersect"""
    x = float(x)
    if rep == "pyfloat":
        return x
    if rep == "npfloat64":
        return np.float64(x)
    if rep == "longdouble":
        return np.longdouble(x)
    if rep == "zerod":
        return np.array(x)
    if rep == "onearray":
        return np.array([x])
    if rep in ("npfloat32", "npint"):
        if x != int(x):
            raise ValueError("not a whole number")
        return np.float32(x) if rep == "npfloat32" else np.int64(int(x))
    raise ValueError(rep)


# ---- trixel geometry (input selection for targeted probes only; validated against lookup_id each run) ----------
_V6 = [(0, 0, 1), (1, 0, 0), (0, 1, 0), (-1, 0, 0), (0, -1, 0), (0, 0, -1)]
_ROOT = {8: (1, 5, 2), 9: (2, 5, 3), 10: (3, 5, 4), 11: (4, 5, 1), 12: (1, 0, 4), 13: (4, 0, 3), 14: (3, 0, 2), 15: (2, 0, 1)}


def _unit(v):
    return v / np.sqrt((v * v).sum())


def trixel_corners(htmid, depth):
    """the three corners (longdouble unit vectors, counter-clockwise) of a trixel, by the library's midpoint subdivision"""
    htmid = int(htmid)
    v0, v1, v2 = [np.array(_V6[i], dtype=_LD) for i in _ROOT[htmid >> (2 * depth)]]
    for lev in range(depth - 1, -1, -1):
        j = (htmid >> (2 * lev)) & 3
        w0, w1, w2 = _unit(v1 + v2), _unit(v0 + v2), _unit(v1 + v0)
        if j == 0:
            v0, v1, v2 = v0, w2, w1
        elif j == 1:
            v0, v1, v2 = v1, w0, w2
        elif j == 2:
            v0, v1, v2 = v2, w1, w0
        else:
            v0, v1, v2 = w0, w1, w2
    return v0, v1, v2


def xyz_ld(ra, dec):
    a, d = _LD(ra) * _D2R, _LD(dec) * _D2R
    return np.array([np.cos(d) * np.cos(a), np.cos(d) * np.sin(a), np.sin(d)])


def sep_ld(u, v):
    """angle between two unit vectors in degrees (longdouble, accurate for tiny angles)"""
    c = cross3(u, v)
    return np.arctan2(np.sqrt(c[0] * c[0] + c[1] * c[1] + c[2] * c[2]), u[0] * v[0] + u[1] * v[1] + u[2] * v[2]) * _R2D


def position_angle(cen_ra, cen_dec, p):
    """direction (degrees from north through east) in which the unit vector p is seen from the centre"""
    a0, d0 = _LD(cen_ra) * _D2R, _LD(cen_dec) * _D2R
    north = np.array([-np.sin(d0) * np.cos(a0), -np.sin(d0) * np.sin(a0), np.cos(d0)])
    east = np.array([-np.sin(a0), np.cos(a0), _LD(0)])
    return float((np.arctan2((p * east).sum(), (p * north).sum()) * _R2D) % 360)


def cross3(a, b):
    return np.array([a[1] * b[2] - a[2] * b[1], a[2] * b[0] - a[0] * b[2], a[0] * b[1] - a[1] * b[0]])


def edge_normals(corners):
    v0, v1, v2 = corners
    return (cross3(v0, v1), cross3(v1, v2), cross3(v2, v0))


def edge_margins(p, corners, normals=None):
    """(v_i x v_j).p for the three edges: the numbers SpatialIndex::isInside compares with -gEpsilon = -1e-15"""
    nn = normals if normals is not None else edge_normals(corners)
    return [float(n[0] * p[0] + n[1] * p[1] + n[2] * p[2]) for n in nn]
