"""Concretisation of the two exact lattices of spec/HtmSphere.tla (C12, C13).

abstract -> concrete : lattice positions / radii -> float (ra, dec, radius) with ONE
                       correctly rounded operation (float(Fraction)) or, on the rational
                       sphere, one longdouble atan2/asin/acos.
concrete -> abstract : a reported separation (float, degrees) is *projected* onto the
                       lattice value it is within TOL_DEG of, or marked off.  The
                       projection never looks at the points: TLC compares the projected
                       value with the exact separation it computes itself.
Nothing here decides a property.
"""
import math
from fractions import Fraction as F

import numpy as np

TOL_DEG = F(1, 10 ** 9)          # DESIGN C12: reported separation compared at 1e-9 degree

# great circles: ("eq", off)  -> ra = t + off, dec = 0
#                ("mer", off) -> the meridian circle ra = off / off+180 through both poles,
#                                t = 0 on the equator at ra = off, t = 90 north pole, t = 270 south pole
CIRCLES = [("eq", 0), ("mer", 0), ("eq", 37), ("mer", 90), ("mer", 37), ("eq", 45), ("mer", 45), ("mer", 270)]
EPS = {"1e-3": F(1, 10 ** 3), "1e-6": F(1, 10 ** 6), "1e-7": F(1, 10 ** 7), "1e-4": F(1, 10 ** 4),
       "1e-5": F(1, 10 ** 5), "1e-2": F(1, 100), "1e-1": F(1, 10)}


def gc_arc(pos, eps):
    a, b = pos
    return (F(a) + b * eps) % 360


def gc_point(circle, eps, pos):
    """(ra, dec) in degrees as floats, each the correctly rounded lattice value"""
    typ, off = circle
    t = gc_arc(pos, eps)
    if typ == "eq":
        return float((t + off) % 360), 0.0
    if t <= 90:
        return float(F(off) % 360), float(t)
    if t < 270:
        return float(F(off + 180) % 360), float(180 - t)
    return float(F(off) % 360), float(t - 360)


def gc_radius(r, eps):
    a, h = r
    return float(F(a) + h * eps / 2)


def gc_project(d, eps):
    """reported separation -> {"on": bool, "v": [a, b]} (+ "dev" in degrees for the log)"""
    if not (d == d) or d in (float("inf"), float("-inf")):
        return {"on": False, "v": [0, 0], "dev": repr(d)}
    fd = F(d)
    a = int(round(d))
    b = int(round((fd - a) / eps))
    dev = fd - (a + b * eps)
    if abs(dev) <= TOL_DEG and abs(b) * eps < F(1, 2):
        return {"on": True, "v": [a, b]}
    return {"on": False, "v": [0, 0], "dev": float(dev)}


# ---- rational sphere ---------------------------------------------------------------
_LD = np.longdouble
_R2D = _LD(180) / (_LD(4) * np.arctan(_LD(1)))


def rs_point(p):
    x, y, z, d = p
    if x == 0 and y == 0:
        ra = _LD(0)
    else:
        ra = np.arctan2(_LD(y), _LD(x)) * _R2D
        if ra < 0:
            ra += 360
    dec = np.arcsin(_LD(z) / _LD(d)) * _R2D
    ra = float(ra)
    if ra >= 360.0:
        ra = 0.0
    return ra, float(dec)


def _acos_deg(fr):
    if fr == 1:
        return _LD(0)
    if fr == -1:
        return _LD(180)
    return np.arccos(_LD(fr.numerator) / _LD(fr.denominator)) * _R2D


def rs_radius(r):
    return float(_acos_deg(F(r[0], r[1])))


def rs_project(d, maxden=225):
    """reported separation -> the rational cosine (den <= maxden) whose angle is within TOL_DEG, else off"""
    if not (d == d) or d in (float("inf"), float("-inf")) or d < -1 or d > 181:
        return {"on": False, "v": [0, 1], "dev": repr(d)}
    c = np.cos(_LD(d) / _R2D)
    fr = F(float(c)).limit_denominator(maxden)
    dev = float(_LD(d) - _acos_deg(fr))
    if abs(dev) <= float(TOL_DEG):
        return {"on": True, "v": [fr.numerator, fr.denominator]}
    return {"on": False, "v": [0, 1], "dev": dev}


def pythagorean_points(maxd=15):
    """all (x,y,z,d), gcd = 1, x^2+y^2+z^2 = d^2, d <= maxd"""
    out = []
    for d in range(1, maxd + 1):
        for x in range(-d, d + 1):
            for y in range(-d, d + 1):
                z2 = d * d - x * x - y * y
                if z2 < 0:
                    continue
                z = math.isqrt(z2)
                if z * z != z2:
                    continue
                for zz in ({z, -z}):
                    if math.gcd(math.gcd(abs(x), abs(y)), math.gcd(abs(zz), d)) == 1:
                        out.append((x, y, zz, d))
    return sorted(set(out))


# ---- concrete points from an abstract case ------------------------------------------
def points(kind, pts, circle, eps):
    if kind == "gc":
        cc = [gc_point(circle, eps, p) for p in pts]
    else:
        cc = [rs_point(p) for p in pts]
    return [c[0] for c in cc], [c[1] for c in cc]


def radius(kind, r, eps):
    return gc_radius(r, eps) if kind == "gc" else rs_radius(r)


def project(kind, d, eps):
    return gc_project(d, eps) if kind == "gc" else rs_project(d)


def radius_deg_upper(kind, r):
    """a cheap upper bound of the radius in degrees (cost control only)"""
    if kind == "gc":
        return r[0] + 1.0
    return float(_acos_deg(F(r[0], r[1]))) + 1e-6


def trixels_in_cap(radius_deg, depth):
    """expected number of depth-`depth` trixels meeting a cap of that radius (cost control only)"""
    frac = (1.0 - math.cos(math.radians(min(180.0, radius_deg)))) / 2.0
    return frac * 8 * 4 ** depth + 12 * 2 ** depth * math.sin(math.radians(min(90.0, radius_deg))) + 8


def layout(values, how):
    """the same float64 values in different memory layouts / containers"""
    a = np.array(values, dtype="f8")
    if how == "contig":
        return a
    if how == "strided":
        big = np.full(2 * a.size + 1, 777.0)
        v = big[1::2]
        v[:] = a
        return v
    if how == "swapped":
        return a.astype(">f8")
    if how == "reversed":          # negative stride
        return a[::-1].copy()[::-1]
    if how == "list":
        return [float(x) for x in a]
    raise ValueError(how)


LAYOUTS = ["contig", "strided", "swapped", "reversed", "list"]


def snapshot(x):
    if isinstance(x, np.ndarray):
        return (x.tobytes(), str(x.dtype), x.strides)
    return repr(x)


# ---- HTM ids ------------------------------------------------------------------------
def id_digits(i):
    """int64 id -> its base-4 digits, most significant first (never a number > 3 reaches TLC)"""
    i = int(i)
    if i <= 0:
        return [-1]
    out = []
    while i:
        out.append(i & 3)
        i >>= 2
    return out[::-1]
