"""C13, class W (process-level state): run sessions over several live HTM objects, each session in ONE fresh process.

Run as a script (`python htmworld.py`, PYTHONPATH pointing at the tree under test): a "zygote" that has imported
numpy and esutil and has never created an HTM object or called anything.  It reads one session (JSON) per line on
stdin and, per session, forks
  - one child that creates all objects of the session and executes ALL its steps in order (the session), and
  - one child per call that creates only that call's object and makes only that call (the fresh world),
and writes one JSON line with what was observed.  Nothing is judged here (HtmIds.tla WorldFailing does that under TLC).

session = {"depths": [d_1, ..], "pos": [[ra, dec], ..], "radius": r, "filler": [[ra, dec], ..],
           "steps": [{"op": "lookup"|"intersect"|"scribble", "obj": k (1-based), "pos": p (1-based), "mode": ..,
                      "target": n (1-based step, scribble), "form": how the arguments are handed over}, ..]}
forms: scalar lookups "pyfloat" "npfloat" "zerod"; array lookups "array1" "list1" "arrayN" (the position among fillers, at
index len(filler)//2) "reused" (ONE pair of buffers for all such calls of the session, overwritten in place before the call).
"""
import json
import os
import signal
import sys

_M22 = (1 << 22) - 1


def limbs(i):
    i = int(i)
    if i <= 0 or i >= (1 << 66):
        return [-1, 0, 0]
    return [i >> 44, (i >> 22) & _M22, i & _M22]


def _args(np, st, s, bufs):
    ra, dec = s["pos"][st["pos"] - 1]
    form = st.get("form", "pyfloat")
    if form == "pyfloat":
        return float(ra), float(dec), 0
    if form == "npfloat":
        return np.float64(ra), np.float64(dec), 0
    if form == "zerod":
        return np.array(ra), np.array(dec), 0
    if form == "array1":
        return np.array([ra]), np.array([dec]), 0
    if form == "list1":
        return [ra], [dec], 0
    fill = s.get("filler") or [[10.0, 10.0], [200.0, -40.0]]
    k = len(fill) // 2
    ras = [q[0] for q in fill[:k]] + [ra] + [q[0] for q in fill[k:]]
    decs = [q[1] for q in fill[:k]] + [dec] + [q[1] for q in fill[k:]]
    if form == "reused":
        if "ra" not in bufs:
            bufs["ra"], bufs["dec"] = np.empty(len(ras)), np.empty(len(ras))
        bufs["ra"][:] = ras
        bufs["dec"][:] = decs
        return bufs["ra"], bufs["dec"], k
    return np.array(ras), np.array(decs), k            # arrayN


def run_steps(s, only=None):
    """the whole session (only=None) or the fresh world of step `only` (1-based): just that object, just that call"""
    import numpy as np
    import esutil
    objs = {}
    if only is None:
        for k, d in enumerate(s["depths"], 1):
            objs[k] = esutil.htm.HTM(d)                # all objects alive for the whole session
    results, bufs, out = {}, {}, []
    for n, st in enumerate(s["steps"], 1):
        o = {"err": "none", "id": [0, 0, 0], "dig": []}
        if only is not None and n != only:
            out.append(o)
            continue
        try:
            if st["op"] == "scribble":
                res = results.get(st["target"])
                if isinstance(res, np.ndarray) and res.size and res.flags.writeable:
                    res[...] = 3 if res.dtype.kind in "iu" else 0          # results are the caller's
            else:
                if st["obj"] not in objs:
                    objs[st["obj"]] = esutil.htm.HTM(s["depths"][st["obj"] - 1])
                h = objs[st["obj"]]
                a, d, k = _args(np, st, s, bufs)
                if st["op"] == "lookup":
                    res = h.lookup_id(a, d)
                    v = np.asarray(res).ravel()
                    o["id"] = limbs(v[k]) if v.size > k else [-1, 0, 0]
                    o["dig"] = [int(v.size)]
                else:
                    res = h.intersect(a, d, s["radius"]) if st.get("form") != "array1" else h.intersect(a, d, s["radius"], inclusive=True)
                    v = np.asarray(res).ravel()
                    o["dig"] = [int(v.size)] + (limbs(v.min()) + limbs(v.max()) + [int(sum(int(x) & _M22 for x in v) & _M22)] if v.size else [])
                results[n] = res
        except Exception as e:  # noqa
            o["err"] = type(e).__name__
        out.append(o)
    return out


def forked(fn, *a):
    r, w = os.pipe()
    pid = os.fork()
    if pid == 0:
        code = 0
        try:
            os.close(r)
            data = json.dumps(fn(*a)).encode()
            with os.fdopen(w, "wb") as f:
                f.write(data)
        except BaseException:  # noqa
            code = 3
        os._exit(code)
    os.close(w)
    with os.fdopen(r, "rb") as f:
        data = f.read()
    _, status = os.waitpid(pid, 0)
    if os.WIFSIGNALED(status):
        return "CRASH_" + signal.Signals(os.WTERMSIG(status)).name
    if not data:
        return "CRASH_exit%d" % os.WEXITSTATUS(status)
    return json.loads(data)


def observe(s):
    nst = len(s["steps"])
    ses = forked(run_steps, s)
    if isinstance(ses, str):
        ses = [{"err": "CRASH", "id": [0, 0, 0], "dig": []} for _ in range(nst)]
    calls = []
    for n, st in enumerate(s["steps"], 1):
        c = dict(op=st["op"], obj=st["obj"], pos=st["pos"], mode=st["mode"], target=st["target"],
                 err=ses[n - 1]["err"], id=ses[n - 1]["id"], dig=ses[n - 1]["dig"], ferr="none", fid=[0, 0, 0], fdig=[])
        if st["op"] != "scribble":
            fr = forked(run_steps, s, n)
            if isinstance(fr, str):
                c["ferr"] = "CRASH"
            else:
                c["ferr"], c["fid"], c["fdig"] = fr[n - 1]["err"], fr[n - 1]["id"], fr[n - 1]["dig"]
        calls.append(c)
    return {"kind": "world", "depths": s["depths"], "calls": calls}


def main():
    import numpy  # noqa
    import esutil  # noqa  (imported, nothing called: the pristine world every child starts from)
    import esutil.htm  # noqa
    for line in sys.stdin:
        line = line.strip()
        if not line:
            continue
        sys.stdout.write(json.dumps(observe(json.loads(line))) + "\n")
        sys.stdout.flush()


if __name__ == "__main__":
    main()
