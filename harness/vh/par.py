"""fork-based parallel map for the python side of replays (esutil is imported before the fork)"""
import multiprocessing as mp
import os

_FN = None


def _call(chunk):
    return [_FN(x) for x in chunk]


def pmap(fn, items, nproc=None, chunk=None):
    global _FN
    items = list(items)
    nproc = nproc or min(16, os.cpu_count() or 1)
    nproc = max(1, min(nproc, int(os.environ.get("VH_MAX_WORKERS", "16"))))
    if len(items) < 64 or nproc == 1:
        return [fn(x) for x in items]
    chunk = chunk or max(1, min(2000, len(items) // (nproc * 4)))
    chunks = [items[i:i + chunk] for i in range(0, len(items), chunk)]
    _FN = fn
    ctx = mp.get_context("fork")
    with ctx.Pool(nproc) as pool:
        out = []
        for part in pool.imap(_call, chunks):
            out.extend(part)
    _FN = None
    return out
