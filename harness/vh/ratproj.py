"""float -> lattice projection of real-valued observables (part of the refinement mapping).

The specifications (Stats.tla, BinStats.tla) compute over exact rationals in lattice
units.  What the real code returned is a binary64 number in concrete units.  This
module converts the float to an exact Fraction, maps it back to lattice units
(divide by the concretisation's unit, subtract its offset; square it first where the
specification is stated through squares) and records

    {"k": "rat", "n": num, "d": den}   the nearest rational with denominator <= den_bound,
                                       when the observation is within rounding of it
    {"k": "off", ...}                  anything else (negative value of a square root included)
    {"k": "nan", ...}                  NaN / infinity
    {"k": "sent", ...}                 exactly the documented sentinel (-9999), when asked for

No expectation is computed here: the trace specification decides whether the recorded
rational is the right one and rejects "off"/"nan" wherever the statement constrains a
value.

Soundness of the snap: two distinct rationals with denominators <= D differ by at
least 1/D^2.  With D = 2^20 and observations whose true error is a few ulp of values
<= 2^6 (<= 2^-44 absolute), a float within rounding of an expected value p/q, q <= D,
has no other rational with denominator <= D closer to it (2^-40 >> 2 * 2^-44), so a
correct result is always mapped to exactly the expected <<p, q>>.  The generators keep
every expected denominator <= D (total weights <= 32: W^4 <= 2^20); `need_den` lets an
adapter assert that.
"""
import math
from fractions import Fraction

ULP = Fraction(1, 2 ** 52)
# "to rounding": 4 ulp per rounding step; the longest chain (sum, divide, subtract+square, sqrt) has 4
RELTOL = 16 * ULP
DEN_BOUND = 2 ** 20
INT_LIMIT = 2 ** 31 - 1

OFF = {"k": "off", "n": 0, "d": 1}
NAN = {"k": "nan", "n": 0, "d": 1}
SENT = {"k": "sent", "n": 0, "d": 1}


def frac(v):
    return v if isinstance(v, Fraction) else Fraction(v)


def real(obs, scale, div=1, off=0, mul=1, square=False, sentinel=None, den_bound=DEN_BOUND, reltol=RELTOL):
    """project one observed float.

    lattice value = (obs [squared]) * mul / div - off ;  scale: magnitude (lattice units, of the
    final quantity) the rounding error is relative to (floored at one lattice unit)."""
    try:
        v = float(obs)
    except (TypeError, ValueError):
        return dict(OFF)
    if math.isnan(v) or math.isinf(v):
        return dict(NAN)
    if sentinel is not None and v == sentinel:
        return dict(SENT)
    f = Fraction(v)
    if square:
        if f < 0:
            return dict(OFF)
        f = f * f
    a = f * frac(mul) / frac(div) - frac(off)
    tol = reltol * (2 if square else 1) * max(frac(scale), Fraction(1))
    s = a.limit_denominator(den_bound)
    if abs(a - s) <= tol and abs(s.numerator) <= INT_LIMIT:
        return {"k": "rat", "n": s.numerator, "d": s.denominator}
    return dict(OFF)


def need_den(value, what=""):
    """generator-side guard: an expected denominator bound must fit the snap bound"""
    if value > DEN_BOUND:
        from .core import MachineryError
        raise MachineryError("lattice too large for the projection (%s: denominator bound %d > %d)" % (what, value, DEN_BOUND))


def rat(fr):
    """exact Fraction -> the spec's <<num, den>>"""
    fr = frac(fr)
    return [fr.numerator, fr.denominator]
