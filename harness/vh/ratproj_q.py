"""Exact projection kernel for C17 / C19 (part of the refinement mapping, not of the oracle).

The specifications (Quadrature.tla, Sampler.tla) compute over exact rationals.  What the
real code returns are binary64 numbers - dyadic rationals.  This module evaluates, in exact
integer arithmetic on those dyadic rationals,

    power sums              sum_i w_i x_i^k                      (x-monomials)
    normalised power sums   sum_i w_i t_i^k,  t = (2x-a-b)/(b-a)
    Chebyshev sums          sum_i w_i T_k(t_i)
    piecewise-linear interpolation of a rational table at a dyadic abscissa

and compares them with an expectation *supplied by the specification* (exported by TLC from
QuadratureMC.tla) under the tolerance the property states.  It never computes an expectation
itself.  The kernel is validated on every run against values TLC computed for dyadic toy
rules and tables (KV cases); a mismatch is a machinery error.
"""
import math
from fractions import Fraction

import numpy as np

OFF = [0, 0]          # Quadrature.tla: QOff


def finite(vals):
    return all(math.isfinite(float(v)) for v in vals)


def exact_ints(vals, shift=0):
    """finite floats -> (ints, E) with  val * 2**(-shift) == int / 2**E  exactly (E >= 0)"""
    nd = [float(v).as_integer_ratio() for v in vals]      # (n, 2^j)
    E = 0
    for _, d in nd:
        E = max(E, d.bit_length() - 1 + shift)
    return [n << (E - shift - (d.bit_length() - 1)) for n, d in nd], E


def sign(v):
    return (v > 0) - (v < 0)


def ulp(v):
    return Fraction(math.ulp(abs(float(v)))) if v else Fraction(0)


def within(num, den, exp, tol, strict=True):
    """| num/den - exp | < tol   (den > 0; exp, tol Fractions; no gcd on the big numbers)"""
    lhs = abs(num * exp.denominator - exp.numerator * den) * tol.denominator
    rhs = tol.numerator * den * exp.denominator
    if lhs == 0:
        return True                     # exact (max|p| = 0 makes the stated bound degenerate)
    return lhs < rhs if strict else lhs <= rhs


class RuleSums(object):
    """exact sums of a rule (xs, ws) returned for the lattice interval [a,b] * 2**sc  (a, b ints)"""

    def __init__(self, xs, ws, a, b, sc=0):
        self.a, self.b = a, b
        self.X, self.Ex = exact_ints(xs, sc)          # x / 2^sc = X / 2^Ex
        self.W, self.Ew = exact_ints(ws, sc)          # w / 2^sc = W / 2^Ew
        self.N = [2 * x - ((a + b) << self.Ex) for x in self.X]      # t = N / D
        self.D = (b - a) << self.Ex

    def mono(self, kmax):
        """yields (k, num, den) with  sum w x^k = num/den  on the unscaled interval [a,b]"""
        pw = list(self.W)
        for k in range(kmax + 1):
            yield k, sum(pw), 1 << (self.Ew + k * self.Ex)
            if k < kmax:
                pw = [p * x for p, x in zip(pw, self.X)]

    def nmono(self, kmax):
        """yields (k, num, den): sum w t^k = num/den (den > 0)"""
        pw = list(self.W)
        D, sg = abs(self.D), (1 if self.D > 0 else -1)
        dk = 1 << self.Ew
        for k in range(kmax + 1):
            yield k, sum(pw) * (sg ** k), dk
            if k < kmax:
                pw = [p * n for p, n in zip(pw, self.N)]
                dk *= D

    def cheb(self, kmax):
        """yields (k, num, den): sum w T_k(t) = num/den"""
        D, sg = abs(self.D), (1 if self.D > 0 else -1)
        N = [n * sg for n in self.N]                 # t = N / D with D > 0
        D2 = D * D
        s0 = [1] * len(N)
        s1 = list(N)
        dk = 1 << self.Ew
        for k in range(kmax + 1):
            if k == 0:
                cur = s0
            elif k == 1:
                cur = s1
            else:
                cur = [2 * n * p - D2 * q for n, p, q in zip(N, s1, s0)]
                s0, s1 = s1, cur
            yield k, sum(w * c for w, c in zip(self.W, cur)), dk
            dk *= D


def project_series(series, expected, tol_of):
    """series: iterable (k, num, den); expected[k] = [n, d] from the spec; tol_of(k) Fraction.
    returns the list of recorded values: the spec's value when within tolerance, else OFF"""
    out = []
    for k, num, den in series:
        e = expected[k]
        out.append(list(e) if within(num, den, Fraction(e[0], e[1]), tol_of(k)) else list(OFF))
    return out


def interp_exact(tab, q):
    """piecewise-linear interpolation of tab = [(x Fraction, y Fraction), ...] (x increasing) at q"""
    for s in range(len(tab) - 1):
        if tab[s][0] <= q <= tab[s + 1][0]:
            (x0, y0), (x1, y1) = tab[s], tab[s + 1]
            return y0 + (q - x0) * (y1 - y0) / (x1 - x0)
    raise ValueError("query outside the table")


def poly_maxabs_upper(c, ngrid=4001):
    """rigorous upper bound of max |p| on [-1,1] for p = sum c[j] t^j: grid maximum and Markov's
    inequality |p'| <= d^2 max|p|  =>  max|p| <= gridmax / (1 - h d^2 / 2)"""
    d = len(c) - 1
    if d <= 0:
        return Fraction(abs(c[0])) if c else Fraction(0)
    t = np.linspace(-1.0, 1.0, ngrid)
    v = np.polynomial.polynomial.polyval(t, np.array(c, dtype="f8"))
    gm = float(np.max(np.abs(v))) * (1 + 1e-9) + 1e-12
    h = 2.0 / (ngrid - 1)
    f = 1.0 - h * d * d / 2.0
    if f <= 0.5:
        raise ValueError("grid too coarse for degree %d" % d)
    return Fraction(gm / f)


def validate_kernel(kv_cases):
    """KV cases exported by QuadratureMC.tla -> list of mismatches (empty = kernel agrees with TLC)"""
    bad = []
    for c in kv_cases:
        if c["k"] == "kvrule":
            xs = [p["x"][0] / p["x"][1] for p in c["rule"]]
            ws = [p["w"][0] / p["w"][1] for p in c["rule"]]
            # rules are fed as floats on the (fictitious) interval [-1,1]: t = x
            rs = RuleSums(xs, ws, -1, 1)
            k = c["deg"]
            ps = [(n, d) for kk, n, d in rs.mono(k)][k]
            ns = [(n, d) for kk, n, d in rs.nmono(k)][k]
            cs = [(n, d) for kk, n, d in rs.cheb(k)][k]
            if Fraction(ps[0], ps[1]) != Fraction(c["ps"][0], c["ps"][1]):
                bad.append(("powersum", c))
            if Fraction(ns[0], ns[1]) != Fraction(c["ps"][0], c["ps"][1]):
                bad.append(("npowersum", c))
            if Fraction(cs[0], cs[1]) != Fraction(c["cs"][0], c["cs"][1]):
                bad.append(("chebsum", c))
            # the same rule shifted/scaled: x' = 3 + 2 x on [1,5], scale 2^-7: normalised sums unchanged
            rs2 = RuleSums([math.ldexp(3 + 2 * x, -7) for x in xs], [math.ldexp(2 * w, -7) for w in ws], 1, 5, -7)
            ns2 = [(n, d) for kk, n, d in rs2.nmono(k)][k]
            cs2 = [(n, d) for kk, n, d in rs2.cheb(k)][k]
            if Fraction(ns2[0], ns2[1]) != 2 * Fraction(c["ps"][0], c["ps"][1]):
                bad.append(("npowersum_affine", c))
            if Fraction(cs2[0], cs2[1]) != 2 * Fraction(c["cs"][0], c["cs"][1]):
                bad.append(("chebsum_affine", c))
            # and reversed orientation [5,1]: t -> -t, weights negative
            rs3 = RuleSums([3 + 2 * x for x in xs], [-2 * w for w in ws], 5, 1)
            ns3 = [(n, d) for kk, n, d in rs3.nmono(k)][k]
            if Fraction(ns3[0], ns3[1]) != -2 * ((-1) ** k) * Fraction(c["ps"][0], c["ps"][1]):
                bad.append(("npowersum_reversed", c))
        elif c["k"] == "kvtab":
            tab = [(Fraction(p["x"][0], p["x"][1]), Fraction(p["y"][0], p["y"][1])) for p in c["tab"]]
            v = interp_exact(tab, Fraction(c["q"][0], c["q"][1]))
            if v != Fraction(c["v"][0], c["v"][1]):
                bad.append(("interp", c))
    return bad
