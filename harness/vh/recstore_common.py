"""Abstract <-> concrete mapping shared by the record-file checks (C03, C01).

Nothing here judges: it turns the abstract vocabulary of spec/RecStore.tla (row tokens,
descr ids <<base, order>>, header ids, delimiter ids, events) into esutil calls and
projects what the real code returned / left on disk back onto that vocabulary.
"""
import atexit
import hashlib
import os
import shutil
import struct
import tempfile

import numpy as np

DELIMS = {"none": None, "c": ",", "t": "\t", "s": " ", "k": ":"}
DELIM_IDS = {v: k for k, v in DELIMS.items()}

# ---- header catalogue (ids of RecStore.tla) -----------------------------------------
HEADERS = {
    "none": None,
    "h1": {"k": 1},
    "h2": {"date": "2007-05-12", "age": 33, "nest": {"a": [1, 2.5, None, "x"], "t": (True, b"by")},
           "SIZE": "SIZE = 3", "q": "it's \"q\"\n", "_x": -7},
}
RESERVED = ("_DTYPE", "_VERSION", "_SIZE", "_DELIM")


def deep_equal(a, b):
    """== that also distinguishes types (1 vs True vs 1.0, list vs tuple, str vs bytes)"""
    if type(a) is not type(b):
        return False
    if isinstance(a, dict):
        return a.keys() == b.keys() and all(deep_equal(a[k], b[k]) for k in a)
    if isinstance(a, (list, tuple)):
        return len(a) == len(b) and all(deep_equal(x, y) for x, y in zip(a, b))
    if isinstance(a, float):
        return struct.pack("<d", a) == struct.pack("<d", b)
    return a == b


def user_part(h):
    return {k: v for k, v in h.items() if k not in RESERVED}


def header_id(h, catalogue=HEADERS):
    """observed header dict -> id of the catalogue header whose user keys it carries, else '?'"""
    if not isinstance(h, dict):
        return "?"
    u = user_part(h)
    for hid, want in catalogue.items():
        if deep_equal(u, want or {}):
            return hid
    return "?"


# ---- dtype families: concrete meaning of the descr bases D N T S F R ----------------------
# D the reference structure; N a field renamed; T a field's type changed; S a sub-array shape
# changed; F the last field missing; R two fields swapped.  Families 2 and 3 keep the row size
# equal across several variants (the case a size-only check cannot see).
FAMILIES = [
    {"D": [("id", "i4"), ("v", "f8", (2,)), ("s", "S3")],
     "N": [("id", "i4"), ("w", "f8", (2,)), ("s", "S3")],
     "T": [("id", "i4"), ("v", "f4", (2,)), ("s", "S3")],
     "S": [("id", "i4"), ("v", "f8", (3,)), ("s", "S3")],
     "F": [("id", "i4"), ("v", "f8", (2,))],
     "R": [("v", "f8", (2,)), ("id", "i4"), ("s", "S3")]},
    {"D": [("a", "i2"), ("b", "u8"), ("c", "f4", (2, 2))],
     "N": [("a", "i2"), ("B", "u8"), ("c", "f4", (2, 2))],
     "T": [("a", "u2"), ("b", "u8"), ("c", "f4", (2, 2))],
     "S": [("a", "i2"), ("b", "u8"), ("c", "f4", (4,))],
     "F": [("a", "i2"), ("b", "u8")],
     "R": [("b", "u8"), ("a", "i2"), ("c", "f4", (2, 2))]},
    {"D": [("x", "f8"), ("y", "f8")],
     "N": [("x", "f8"), ("z", "f8")],
     "T": [("x", "f8"), ("y", "i8")],
     "S": [("x", "f8"), ("y", "f8", (1,))],
     "F": [("x", "f8")],
     "R": [("y", "f8"), ("x", "f8")]},
    {"D": [("s", "S4"), ("n", "i8"), ("t", "S2", (2,))],
     "N": [("s", "S4"), ("m", "i8"), ("t", "S2", (2,))],
     "T": [("s", "S5"), ("n", "i8"), ("t", "S2", (2,))],
     "S": [("s", "S4"), ("n", "i8"), ("t", "S2", (2, 1))],
     "F": [("s", "S4"), ("n", "i8")],
     "R": [("n", "i8"), ("s", "S4"), ("t", "S2", (2,))]},
    # families 4 and 5 serve the byte-order dimension (ORDER_FAMS): several numeric sub-array fields of different
    # element sizes next to string / native key columns (4), and strings + sub-array fields ONLY (5: there a uniformly
    # big-endian chunk has no scalar numeric field at all)
    {"D": [("name", "S4"), ("id", "i4"), ("pos", "f8", (2,)), ("cnt", "i2", (3,))],
     "N": [("name", "S4"), ("id", "i4"), ("pos", "f8", (2,)), ("num", "i2", (3,))],
     "T": [("name", "S4"), ("id", "i4"), ("pos", "f8", (2,)), ("cnt", "u2", (3,))],
     "S": [("name", "S4"), ("id", "i4"), ("pos", "f8", (2,)), ("cnt", "i2", (1, 3))],
     "F": [("name", "S4"), ("id", "i4"), ("pos", "f8", (2,))],
     "R": [("id", "i4"), ("name", "S4"), ("pos", "f8", (2,)), ("cnt", "i2", (3,))]},
    {"D": [("tag", "S2"), ("pos", "f4", (2,)), ("m", "u2", (2, 2))],
     "N": [("tag", "S2"), ("xy", "f4", (2,)), ("m", "u2", (2, 2))],
     "T": [("tag", "S2"), ("pos", "i4", (2,)), ("m", "u2", (2, 2))],
     "S": [("tag", "S2"), ("pos", "f4", (2,)), ("m", "u2", (4,))],
     "F": [("tag", "S2"), ("pos", "f4", (2,))],
     "R": [("pos", "f4", (2,)), ("tag", "S2"), ("m", "u2", (2, 2))]},
]
GENERAL_FAMS = 4              # the families every part of the check rotates through
ORDER_FAMS = (0, 1, 4, 5)     # the families of the byte-order part: numeric sub-array fields present
BASES = ("D", "N", "T", "S", "F", "R")
NATIVE = "lt" if np.little_endian else "gt"


# byte orders of a descr (RecStore.tla: Orders): per FIELD CLASS - the scalar fields and the sub-array (vector / n-d)
# fields of a table can differ in byte order (columns taken over from a FITS table / an XDR dump next to native keys)
#   lt : all little-endian      gt : all big-endian
#   vg : sub-array fields big-endian, scalar fields little-endian      sg : scalar fields big-endian, sub-array fields little
ORDERS = ("lt", "gt", "vg", "sg")
MIXED_ORDERS = ("vg", "sg")
_ORDER_CH = {"lt": ("<", "<"), "gt": (">", ">"), "vg": ("<", ">"), "sg": (">", "<"), "na": ("=", "=")}   # (scalar, sub-array)


def dtype_of(fam, base, order):
    """numpy dtype of descr <<base, order>> in family `fam` ('na' = native, as text files read back)"""
    chs = _ORDER_CH[order]
    out = []
    for f in FAMILIES[fam][base]:
        code = f[1]
        code = ("|" if code[0] == "S" or code.endswith("1") else chs[1 if len(f) > 2 else 0]) + code
        out.append((f[0], code) + tuple(f[2:]))
    return np.dtype(out)


def order_effective(fam, base, order):
    """the descr <<base, order>> is a dtype of its own in this family (a mixed order needs a numeric scalar field and
    a numeric sub-array field to differ from both uniform orders)"""
    return all(dtype_of(fam, base, order) != dtype_of(fam, base, o) for o in ORDERS if o != order)


def reorder(a, fam, base, order):
    """the little-endian array `a` of base `base` with the SAME VALUES in byte order `order`: the bytes of every
    element of every field whose order differs are reversed (bit for bit: NaN payloads survive)"""
    if order == "na":
        order = NATIVE
    le, tgt = a.dtype, dtype_of(fam, base, order)
    if tgt == le:
        return a
    raw = np.frombuffer(a.tobytes(), dtype=np.uint8).reshape(a.size, le.itemsize).copy()
    for name in le.names:
        ft, off = le.fields[name][0], le.fields[name][1]
        if tgt.fields[name][0].base == ft.base:
            continue
        sz = ft.base.itemsize
        nel = int(np.prod(ft.shape, dtype=int)) if ft.shape else 1
        for e in range(nel):
            o = off + e * sz
            raw[:, o:o + sz] = raw[:, o:o + sz][:, ::-1]
    return np.frombuffer(raw.tobytes(), dtype=tgt).copy()


def descr_id(fam, dt, text):
    """observed numpy dtype -> [base, order] ('?' when it is none of the family's)"""
    if dt.names is None:
        return ["?", "na"]
    for base in BASES:
        if text:
            if dt.newbyteorder("<") == dtype_of(fam, base, "lt"):
                return [base, "na"]
        else:
            for order in ORDERS:                      # (a mixed order that is no dtype of its own reads as the uniform one)
                if dt == dtype_of(fam, base, order):
                    return [base, order]
    return ["?", "na"]


_B62 = b"0123456789ABCDEFGHIJKLMNOPQRSTUVWXYZabcdefghijklmnopqrstuvwxyz"
_F8_SPECIAL = [0x7FF8000000000001, 0xFFF0DEADBEEF0001, 0x8000000000000000, 0x7FF0000000000000, 0x0000000000000001,
               0xFFF0000000000000, 0x7FF4000000000000]
_F4_SPECIAL = [0x7FC00001, 0xFFC0BEEF, 0x80000000, 0x7F800000, 0x00000001, 0x7FA00000]


def _b62(n, width):
    out = bytearray()
    for _ in range(width):
        out.append(_B62[n % 62])
        n //= 62
    return bytes(out[::-1])


def concrete_row(seed, fam, base, order, token, text):
    """the one-row array a token stands for under descr <<base, order>>.
    binary: adversarial bytes (hash-derived, with NaN payloads, -0.0, infinities, denormals and integer
    extremes overlaid beyond the first 8 bytes, which stay hash-derived so that rows are distinct);
    text: benign values (C04 decides text value fidelity, not C03)."""
    le = dtype_of(fam, base, "lt")
    if text:
        a = np.zeros(1, dtype=le)
        for j, name in enumerate(le.names):
            ft = le[name]
            k, nel = ft.base.kind, int(np.prod(ft.shape, dtype=int)) if ft.shape else 1
            if k == "S":
                vals = [_b62(token * 5 + j + e, ft.base.itemsize) for e in range(nel)]
            elif k in "iu":
                vals = [(token + 3 * e + j) % 30000 + 1 for e in range(nel)]
            else:
                vals = [token + 0.25 * (e + 1) + 16 * j for e in range(nel)]
            a[name] = np.array(vals, dtype=ft.base).reshape((1,) + ft.shape)
    else:
        raw = bytearray(hashlib.blake2b(("%d:%d:%s:%d" % (seed, fam, base, token)).encode(),
                                        digest_size=le.itemsize).digest())
        pick = hashlib.blake2b(("p%d:%d:%s:%d" % (seed, fam, base, token)).encode(), digest_size=32).digest()
        i = 0
        for name in le.names:
            ft, off = le.fields[name][0], le.fields[name][1]
            nel = int(np.prod(ft.shape, dtype=int)) if ft.shape else 1
            for e in range(nel):
                o = off + e * ft.base.itemsize
                sel = pick[i % 32]
                i += 1
                if o < 8 or sel % 3:
                    continue
                k, sz = ft.base.kind, ft.base.itemsize
                if k == "f" and sz == 8:
                    raw[o:o + 8] = struct.pack("<Q", _F8_SPECIAL[sel % len(_F8_SPECIAL)])
                elif k == "f" and sz == 4:
                    raw[o:o + 4] = struct.pack("<I", _F4_SPECIAL[sel % len(_F4_SPECIAL)])
                elif k in "iu":
                    raw[o:o + sz] = [b"\xff" * sz, b"\x00" * (sz - 1) + b"\x80", b"\xff" * (sz - 1) + b"\x7f"][(sel // 3) % 3]
                elif k == "S":
                    raw[o:o + sz] = [b"\x00" * sz, b"a" + b"\x00" * (sz - 1), b"\x00" * (sz - 1) + b"z"][(sel // 3) % 3]
        a = np.frombuffer(bytes(raw), dtype=le).copy()
    return reorder(a, fam, base, order)


# ---- scale: a token >= BIG_TOK is a block of many rows (RecStore.tla: BigTok, BigW) --------------------------------
BIG_TOK, BIG_W = 900, 1000
IO_BLOCK = 1 << 24          # sizes are chosen across and at this boundary (16 MiB: stdio / chunked-write block sizes)
BIG_KINDS = 4


def big_nrows(fam, base, kind):
    """number of rows of a block, from the row size: just over one I/O block | just over two | exactly what fits in
    one (the row size may or may not divide it) | three blocks and a bit"""
    isz = dtype_of(fam, base, "lt").itemsize
    q = IO_BLOCK // isz
    return (q + 1000, 2 * q + 1, q, 3 * q + 17)[kind % BIG_KINDS]


_BLOCKS = {}


def concrete_block(seed, fam, base, order, token, nrows):
    """the rows a block token stands for: a counter pattern over every byte of every row (row i differs from row j,
    and a shift by any number of bytes is visible), defined in little-endian and byte-swapped like single rows"""
    key = (seed, fam, base, order, token, nrows)
    if key not in _BLOCKS:
        if len(_BLOCKS) >= 2:
            _BLOCKS.clear()
        le = dtype_of(fam, base, "lt")
        isz = le.itemsize
        c = np.arange(nrows, dtype=np.uint64) * np.uint64(2654435761) + np.uint64(token * 7 + seed)
        raw = np.empty((nrows, isz), dtype=np.uint8)
        for j in range(isz):                      # one pass per byte column: every byte of a row depends on its index
            raw[:, j] = ((c * np.uint64(2 * j + 1) + np.uint64(40503 * j)) >> np.uint64((5 * j) % 17 + 3)).astype(np.uint8)
        a = np.frombuffer(raw.tobytes(), dtype=le).copy()
        _BLOCKS[key] = reorder(a, fam, base, order)
    return _BLOCKS[key]


def chunk_array(seed, fam, chunk, text, bigkind=0):
    """the array a chunk stands for, *in the chunk's byte order* (np.concatenate would hand back a
    native-order array: the rows are joined as bytes)"""
    base, order = chunk["descr"]
    dt = dtype_of(fam, base, order)
    rows = [concrete_row(seed, fam, base, order, t, text) if t < BIG_TOK else
            concrete_block(seed, fam, base, order, t, big_nrows(fam, base, bigkind)) for t in chunk["rows"]]
    if not rows:
        return np.zeros(0, dtype=dt)
    return np.frombuffer(b"".join(r.tobytes() for r in rows), dtype=dt).copy()


class TokenTable:
    """observed row bytes -> token, for the tokens that occur in one trace"""

    def __init__(self, seed, fam, tokens_by_base, bigkind=0):
        self.seed, self.fam, self.tokens_by_base, self.bigkind = seed, fam, tokens_by_base, bigkind
        self.has_big = any(t >= BIG_TOK for ts in tokens_by_base.values() for t in ts)
        self._cache = {}

    def units(self, count, base):
        """an observed row count in the units of the specification: q blocks and r single rows -> q * BigW + r
        (one-to-one for r < BigW; anything else is no count the specification can mean: -2)"""
        if not self.has_big or base not in FAMILIES[self.fam] or count < 0:
            return count
        q, r = divmod(int(count), big_nrows(self.fam, base, self.bigkind))
        return q * BIG_W + r if r < BIG_W else -2

    def _table(self, base, order, text):
        key = (base, order, text)
        if key not in self._cache:
            tab = {}
            for t in sorted(self.tokens_by_base.get(base, ())):
                if t >= BIG_TOK:
                    continue
                b = concrete_row(self.seed, self.fam, base, order, t, text).tobytes()
                if b in tab:
                    raise RuntimeError("token concretisation not injective: %s %s" % (tab[b], t))
                tab[b] = t
            self._cache[key] = tab
        return self._cache[key]

    def tokens(self, data, did, text):
        """array read back (descr id `did`) -> list of tokens; 0 = a row no write produced"""
        if did[0] == "?":
            return [0] * int(data.size)
        order = did[1] if did[1] != "na" else NATIVE
        tab = self._table(did[0], order, text)
        data = np.ascontiguousarray(data).reshape(-1)
        bigs = [t for t in sorted(self.tokens_by_base.get(did[0], ())) if t >= BIG_TOK] if not text else []
        n = big_nrows(self.fam, did[0], self.bigkind) if bigs else 0
        if not bigs or data.size < n:
            if data.size > 400:                       # far more rows than any history of this check writes singly
                return [tab.get(data[i:i + 1].tobytes(), 0) for i in range(400)] + [0]
            return [tab.get(data[i:i + 1].tobytes(), 0) for i in range(data.size)]
        # a block is identified as a whole, bit for bit, wherever it starts
        out, i = [], 0
        while i < data.size and len(out) <= 400:
            hit = None
            if data.size - i >= n:
                for t in bigs:
                    blk = concrete_block(self.seed, self.fam, did[0], order, t, n)
                    if data[i:i + 1].tobytes() == blk[0:1].tobytes() and data[i:i + n].tobytes() == blk.tobytes():
                        hit = t
                        break
            if hit is not None:
                out.append(hit)
                i += n
            else:
                out.append(tab.get(data[i:i + 1].tobytes(), 0))
                i += 1
        if i < data.size:
            out.append(0)
        return out


def cols_tokens(table, data, base, order, text):
    """a column-subset result (rows of some fields of the file) -> tokens: a row matches the token whose concrete row
    has the same bytes in those fields; 0 = no written row has them"""
    names = list(data.dtype.names or ())
    if base == "?" or not names:
        return [0] * int(data.size)
    order = order if order != "na" else NATIVE
    tab = {}
    for t in sorted(table.tokens_by_base.get(base, ())):
        if t >= BIG_TOK:
            continue
        row = concrete_row(table.seed, table.fam, base, order, t, text)
        if any(n not in row.dtype.names for n in names):
            return [0] * int(data.size)
        key = b"|".join(row[n].tobytes() for n in names)
        if key in tab:
            raise RuntimeError("token concretisation not injective on columns %s: %s %s" % (names, tab[key], t))
        tab[key] = t
    data = np.ascontiguousarray(data).reshape(-1)
    return [tab.get(b"|".join(data[n][i:i + 1].tobytes() for n in names), 0) for i in range(data.size)]


def tokens_by_base(events):
    out = {}
    for e in events:
        c = e.get("chunk")
        if c and c["rows"]:
            out.setdefault(c["descr"][0], set()).update(c["rows"])
    return out


# ---- the world: real files and handles ------------------------------------------------------
NO_CHUNK = {"descr": ["none", "na"], "rows": []}
NO_RES = {"err": "none", "descr": ["none", "na"], "rows": [], "hdr": "none", "size": -1, "delim": "none"}
UNOBSERVED = {"st": "unobserved", "delim": "none", "hdr": "none", "descr": ["none", "na"], "size": 0, "rows": []}
READERS = ("sfile.read", "SFile.read", "SFile[:]", "io.read")
WRITERS = ("sfile.write", "io.write", "sfile.write(data,file)")


_SESSION = {"root": None, "pid": None, "dir": None}


def session_root():
    """one scratch root per check run (tmpfs when there is one: directory operations on the sandbox's /tmp
    cost milliseconds), created in the parent before any fork and removed at exit"""
    if _SESSION["root"] is None:
        base = "/dev/shm" if os.path.isdir("/dev/shm") and os.access("/dev/shm", os.W_OK) else None
        _SESSION["root"] = tempfile.mkdtemp(prefix="vh-rs-", dir=base)
        atexit.register(shutil.rmtree, _SESSION["root"], True)
    return _SESSION["root"]


def _process_dir():
    if _SESSION["pid"] != os.getpid():
        _SESSION["pid"] = os.getpid()
        _SESSION["dir"] = tempfile.mkdtemp(prefix="w%d-" % os.getpid(), dir=session_root())
    return _SESSION["dir"]


READ_SELS = ("all", "first", "head", "cols")
LIBS = ("sfile", "recfile")


class World:
    """executes abstract events on the real esutil inside a private directory.

    A handle id is one handle *object* (an SFile, or with lib='recfile' a bare recfile.Recfile) for the whole trace:
    the first `open` event on it constructs it, later ones call its .open() again - whether it is closed or still
    open (reuse=False: a new object for every open, the old one closed first)."""

    def __init__(self, seed, fam, npaths=2, writer=0, reader=0, headers=HEADERS, lib="sfile", reuse=True, bigkind=0):
        self.seed, self.fam = seed, fam
        self.lib, self.reuse, self.bigkind = lib, reuse, bigkind
        self.bigpaths = set()               # paths a block was written to (no partial reads are asked of them)
        self._rawcache = {}
        self.root = _process_dir()
        self.paths = {p: os.path.join(self.root, "f%d.rec" % p) for p in range(1, npaths + 1)}
        # the NAME a writing call is given for path p: plain, or with the shortcuts the library documents
        # ("~" and "$VAR" are expanded by SFile.open); the projections always use the plain path
        os.environ["VHRSDIR"] = self.root
        os.environ["HOME"] = self.root
        style = {p: (seed + 3 * p + writer) % 4 for p in self.paths}
        self.names = {p: (self.paths[p] if style[p] < 2 or lib != "sfile" else
                          "$VHRSDIR/f%d.rec" % p if style[p] == 2 else "~/f%d.rec" % p) for p in self.paths}
        self._wipe()
        self.objects = {}                   # handle id -> the object (kept when closed)
        self.handles = {}                   # handle id -> the object, while it is open
        self.htext = {}
        self.hpath = {}
        self.hmode = {}
        self.bare = {}                      # lib='recfile': path -> (descr, delim id) the caller has to remember
        self.writer, self.reader = writer, reader
        self.headers = headers
        self.table = None
        self.nread = 0

    def _wipe(self):
        for path in self.paths.values():
            try:
                os.unlink(path)
            except FileNotFoundError:
                pass

    def close(self):
        for sf in self.objects.values():
            try:
                sf.close()
            except Exception:  # noqa
                pass
        for p in self.paths:
            self._reap(p)
        self._wipe()

    def in_scope(self, e):
        """the call is one the specification speaks about, given which handles really are open
        (a behaviour of the model that continues after an outcome the real code did not take is cut here)"""
        op = e["op"]
        if op == "open":
            ok = e["p"] not in {q for h, q in self.hpath.items() if h != e["h"]}
        elif op == "hwrite":
            ok = e["h"] in self.handles and self.hmode[e["h"]] != "r"
        elif op in ("hread", "hclose", "hdrop"):
            ok = e["h"] in self.handles
            if op == "hread" and e.get("sel", "all") != "all" and self.hpath.get(e["h"]) in self.bigpaths:
                ok = False                                  # (a row of a block is no token)
        elif op in ("write", "append"):
            ok = e["p"] not in set(self.hpath.values())
        else:
            ok = True
        if ok and any(t >= BIG_TOK for t in e["chunk"]["rows"]):
            # blocks are written in binary form only (millions of text rows cost seconds and decide nothing more)
            if op == "hwrite":
                ok = not self.htext[e["h"]]
            elif op == "write":
                ok = e["delim"] == "none"
            elif op == "append":
                ok = not self._file_is_text(e["p"]) and (bool(self.raw(e["p"])) or e["delim"] == "none")
        return ok and (self.lib == "sfile" or self._bare_admissible(e))

    def _reap(self, p):
        """a constructor that raises after its fopen (mode 'w+' without a dtype) leaves the descriptor open: no handle
        of ours is open on p at this point, so every descriptor of this process that still points at it is such a
        leftover - closed here, or a long run exhausts the descriptor table (housekeeping, nothing is judged)"""
        try:
            for fd in os.listdir("/proc/self/fd"):
                try:
                    if os.readlink("/proc/self/fd/" + fd) == self.paths[p]:
                        os.close(int(fd))
                except OSError:
                    pass
        except OSError:
            pass

    # -- bare recfile: no header, no stored dtype - the calls a caller who remembers the dtype can make -----------
    def _bare_admissible(self, e):
        op = e["op"]
        if op == "readhdr" or e["hdr"] != "none":
            return False
        p = self.hpath.get(e["h"]) if op in ("hwrite", "hread", "hclose", "hdrop") else e["p"]
        known = self.bare.get(p)
        if op == "open":
            return e["mode"] in ("w", "w+") or known is not None or e["mode"] == "r+"
        if op == "hwrite" or op == "append":
            if known is None:
                return op == "hwrite"                      # first write through a creating handle
            text = known[1] != "none"
            same = e["chunk"]["descr"][0] == known[0][0] and (text or e["chunk"]["descr"][1] == known[0][1])
            return same                                    # nothing records the fields: only matching chunks
        if op in ("hread", "read"):
            return known is not None
        return True

    def _bare_dtype(self, p):
        d, dl = self.bare[p]
        return dtype_of(self.fam, d[0], d[1] if dl == "none" else "na"), dl

    # -- projections -----------------------------------------------------------------------
    def raw(self, p):
        """the bytes of path p (None: no such file); of a file of many megabytes its length and a digest, recomputed
        only when the file's stat changed"""
        path = self.paths[p]
        try:
            st = os.stat(path)
        except FileNotFoundError:
            return None
        if st.st_size <= (4 << 20):
            with open(path, "rb") as f:
                return f.read()
        key = (st.st_size, st.st_mtime_ns, st.st_ino)
        hit = self._rawcache.get(p)
        if hit is None or hit[0] != key:
            h = hashlib.blake2b(digest_size=16)
            with open(path, "rb") as f:
                for blk in iter(lambda: f.read(1 << 22), b""):
                    h.update(blk)
            hit = (key, ("big", st.st_size, h.hexdigest()))
            self._rawcache[p] = hit
        return hit[1]

    def head(self, p, n=1 << 16):
        try:
            with open(self.paths[p], "rb") as f:
                return f.read(n)
        except FileNotFoundError:
            return b""

    def _project(self, data, hdr, sel="all", full=None):
        """(array, header dict) as returned by a reader -> the res/obs fields (full: dtype of the whole row, for the
        result of a column-subset read)"""
        dl = hdr.get("_DELIM") if isinstance(hdr, dict) else None
        text = dl is not None
        size = hdr.get("_SIZE", -1) if isinstance(hdr, dict) else -1
        if sel == "cols":
            fd = descr_id(self.fam, full, text) if full is not None else ["?", "na"]
            did, rows = ["cols", "na"], cols_tokens(self.table, data, fd[0], fd[1], text)
        else:
            did = descr_id(self.fam, data.dtype, text)
            rows = self.table.tokens(data, did, text)
        size = int(size) if isinstance(size, (int, np.integer)) and not isinstance(size, bool) else -1
        base = (descr_id(self.fam, full, text) if sel == "cols" and full is not None else did)[0]
        return {"delim": DELIM_IDS.get(dl, "?"), "hdr": header_id(hdr, self.headers), "descr": did,
                "size": self.table.units(size, base), "rows": rows}

    def _bare_hdr(self, p, n):
        """what a bare record file 'stores' besides the rows: nothing - the delimiter is the caller's, the count the reader's"""
        dl = DELIMS[self.bare[p][1]]
        h = {"_SIZE": int(n)}
        if dl is not None:
            h["_DELIM"] = dl
        return h

    def _fresh_read(self, path, which, p=None):
        import esutil
        from esutil import sfile
        if self.lib == "recfile":
            from esutil import recfile
            dt, dl = self._bare_dtype(p)
            if which % 2:
                data = recfile.read(path, dt, delim=DELIMS[dl])
            else:
                with recfile.Recfile(path, mode="r", dtype=dt, delim=DELIMS[dl]) as robj:
                    data = robj[:]
            return data, self._bare_hdr(p, data.size)
        r = READERS[which % len(READERS)]
        if r == "sfile.read":
            return sfile.read(path, header=True)
        if r == "io.read":
            return esutil.io.read(path, header=True)
        with sfile.SFile(path) as sf:
            data = sf.read() if r == "SFile.read" else sf[:]
            return data, sf.get_header()

    def observe(self, p):
        path = self.paths[p]
        if not os.path.exists(path):
            return dict(UNOBSERVED, st="missing")
        if os.path.getsize(path) == 0 or (self.lib == "recfile" and p not in self.bare):
            return dict(UNOBSERVED, st="blank")
        self.nread += 1
        try:
            data, hdr = self._fresh_read(path, self.reader + self.nread, p)
            return dict(self._project(data, hdr), st="ok")
        except Exception as ex:  # noqa
            return dict(UNOBSERVED, st="unreadable", exc="%s: %s" % (type(ex).__name__, str(ex)[:120]))

    # -- events ------------------------------------------------------------------------------
    def _array(self, e, text):
        if any(t >= BIG_TOK for t in e["chunk"]["rows"]):
            self.bigpaths.add(self.hpath[e["h"]] if e["op"] == "hwrite" else e["p"])
        return chunk_array(self.seed, self.fam, e["chunk"], text, self.bigkind)

    def _file_is_text(self, p):
        """whether path p currently holds a text file (decides only which *values* the chunk gets)"""
        if self.lib == "recfile":
            return p in self.bare and self.bare[p][1] != "none"
        b = self.head(p)
        return bool(b) and b"'_DELIM'" in b.split(b"END\n", 1)[0]

    def _open(self, e, before):
        """construct the handle object of id h, or open the existing one again"""
        from esutil import sfile, recfile
        h, p, mode = e["h"], e["p"], e["mode"]
        self.handles.pop(h, None)                       # whatever happens the object first closes what it has open
        self.hpath.pop(h, None)
        if self.lib == "recfile":
            kw = {"delim": DELIMS[e["delim"]]}
            if mode[0] == "r":
                dt, dl = self._bare_dtype(p) if p in self.bare else (dtype_of(self.fam, "D", "lt"), e["delim"])
                kw = {"delim": DELIMS[dl], "dtype": dt}
            make = lambda: recfile.Recfile(self.names[p], mode=mode, **kw)    # noqa
        else:
            kw = {"delim": DELIMS[e["delim"]]}
            make = lambda: sfile.SFile(self.names[p], mode=mode, **kw)        # noqa
        obj = self.objects.get(h)
        try:
            if obj is not None and self.reuse:
                obj.open(self.names[p], mode=mode, **kw)
            else:
                if obj is not None:
                    obj.close()
                obj = make()
                self.objects[h] = obj
        except Exception:
            if obj is not None:
                try:
                    obj.close()                         # a rejected (re-)open leaves the object closed
                except Exception:  # noqa
                    pass
            raise
        # (the file as it is now: a re-open first closed - flushed - what the object had open, maybe on this very path)
        now = self.raw(p)
        if mode == "r" and not now:
            obj.close()                                 # "opened" something that is not a record file: not used further
            return obj, False
        # which *values* later chunks get (benign for text): from the file when it is appended to
        self.htext[h] = self._file_is_text(p) if mode in ("r", "r+") and now else e["delim"] != "none"
        if self.lib == "recfile" and mode in ("w", "w+"):
            self.bare.pop(p, None)
        self.handles[h], self.hpath[h], self.hmode[h] = obj, p, mode
        return obj, True

    def _hread(self, e):
        h, sel = e["h"], e.get("sel", "all")
        obj, p = self.handles[h], self.hpath[h]
        alt = (self.reader + h) % 2
        full = obj.dtype
        names = list(full.names[:2]) if full is not None and full.names else []
        if sel == "all":
            data = obj[:] if alt else obj.read()
        elif sel == "first":
            data = obj.read(rows=[0])
        elif sel == "head":
            data = obj[0:2]
        elif sel == "cols":
            data = obj.read(rows=[0], columns=names)
        else:
            raise RuntimeError("unknown selection " + sel)
        hdr = self._bare_hdr(p, obj.nrows) if self.lib == "recfile" else obj.get_header()
        return self._project(data, hdr, sel=sel, full=full)

    def execute(self, e, observe=True, last=False):
        """run one abstract event; returns the event completed with res / obs / rawsame"""
        import esutil
        from esutil import sfile, recfile
        op = e["op"]
        before = {p: self.raw(p) for p in self.paths}
        res = dict(NO_RES)
        exc = None
        try:
            if op == "open":
                obj, opened = self._open(e, before)
                if opened:
                    res["size"] = self._hcount(obj)
            elif op == "hwrite":
                sf, p = self.handles[e["h"]], self.hpath[e["h"]]
                arr = self._array(e, self.htext[e["h"]])
                if e["hdr"] == "none":
                    sf.write(arr)
                else:
                    sf.write(arr, header=self.headers[e["hdr"]])
                if self.lib == "recfile" and p not in self.bare:
                    dl = DELIM_IDS.get(sf.delim, "?")
                    self.bare[p] = (e["chunk"]["descr"] if dl == "none" else [e["chunk"]["descr"][0], "na"], dl)
                res["size"] = self._hcount(sf)
            elif op == "hread":
                res.update(self._hread(e))
            elif op == "hclose":
                self.hpath.pop(e["h"], None)
                self.handles.pop(e["h"]).close()
            elif op == "hdrop":
                # the object is released without close(): the last reference goes, the collector runs
                # (the cycle collector is run only if dropping the last reference did not destroy the object: a full
                # collection walks the whole heap of the check, which is large)
                import gc
                import weakref
                self.hpath.pop(e["h"], None)
                obj = self.handles.pop(e["h"])
                self.objects.pop(e["h"], None)
                try:
                    alive = weakref.ref(obj)
                except TypeError:
                    alive = None
                del obj
                if alive is None or alive() is not None:
                    gc.collect()
            elif op in ("write", "append"):
                path = self.names[e["p"]]
                if op == "append" and before[e["p"]]:
                    text = self._file_is_text(e["p"])
                else:
                    text = e["delim"] != "none"
                arr = self._array(e, text)
                kw = {}
                if e["hdr"] != "none":
                    kw["header"] = self.headers[e["hdr"]]
                if e["delim"] != "none":
                    kw["delim"] = DELIMS[e["delim"]]
                if self.lib == "recfile":
                    if op == "append":
                        dt, dl = self._bare_dtype(e["p"])
                        recfile.write(path, arr, mode="r+", dtype=dt, delim=DELIMS[dl])
                    else:
                        recfile.write(path, arr, mode="w", **kw)
                        self.bare[e["p"]] = (e["chunk"]["descr"] if not text else [e["chunk"]["descr"][0], "na"], e["delim"])
                else:
                    if op == "append":
                        kw["append"] = True
                    w = WRITERS[self.writer % len(WRITERS)]
                    if w == "sfile.write":
                        sfile.write(path, arr, **kw)
                    elif w == "io.write":
                        esutil.io.write(path, arr, **kw)
                    else:
                        sfile.write(arr, path, **kw)
            elif op == "read":
                data, hdr = self._fresh_read(self.paths[e["p"]], self.reader, e["p"])
                res.update(self._project(data, hdr))
            elif op == "readhdr":
                hdr = sfile.read_header(self.paths[e["p"]]) if self.reader % 2 == 0 else \
                    esutil.io.read(self.paths[e["p"]], header="only")
                dl = hdr.get("_DELIM")
                res.update({"delim": DELIM_IDS.get(dl, "?"), "hdr": header_id(hdr, self.headers),
                            "descr": descr_id(self.fam, np.dtype(hdr["_DTYPE"]), dl is not None),
                            "size": self.table.units(int(hdr["_SIZE"]),
                                                     descr_id(self.fam, np.dtype(hdr["_DTYPE"]), dl is not None)[0])})
            else:
                raise RuntimeError("unknown op " + op)
        except Exception as ex:  # noqa  (any exception of the call = "rejected")
            res = dict(NO_RES, err="rejected")
            exc = "%s: %s" % (type(ex).__name__, str(ex)[:160])
        out = dict(e)
        out.setdefault("sel", "all")
        out["res"] = res
        if exc:
            out["exc"] = exc
        look = observe or last or res["err"] != "none"
        out["obs"] = [self.observe(p) if look else dict(UNOBSERVED) for p in sorted(self.paths)]
        out["rawsame"] = [self.raw(p) == before[p] for p in sorted(self.paths)]
        if res["err"] != "none" or any(o["st"] == "unreadable" for o in out["obs"]):
            for p in self.paths:
                if p not in self.hpath.values():
                    self._reap(p)
        return out

    def _hcount(self, sf):
        try:
            n = sf.nrows
            return int(n) if isinstance(n, (int, np.integer)) else -1
        except Exception:  # noqa
            return -1


def entry_name(e, writer, reader, lib="sfile"):
    """the esutil entry point an event went through (first component of a signature)"""
    op = e["op"]
    cls = "SFile" if lib == "sfile" else "Recfile"
    if op == "open":
        return "%s(mode=%s)" % (cls, e["mode"])
    if op == "hwrite":
        return cls + ".write"
    if op == "hread":
        return cls + ".read(same handle)"
    if op == "hclose":
        return cls + ".close"
    if op == "hdrop":
        return "del " + cls
    if op in ("write", "append"):
        if lib != "sfile":
            return "recfile.write(mode=%s)" % ("r+" if op == "append" else "w")
        w = WRITERS[writer % len(WRITERS)].split("(")[0]
        return w + ("(append=True)" if op == "append" else "")
    if op == "read":
        return READERS[reader % len(READERS)] if lib == "sfile" else "recfile.read"
    return "read_header"


def run_trace(seed, fam, events, npaths=2, writer=0, reader=0, sched="every", headers=HEADERS, lib="sfile", reuse=True,
              bigkind=0):
    """execute a list of abstract events from an empty directory; handles still open at the end are closed by
    explicit hclose events (what they wrote becomes observable).  Returns (events issued, events completed)"""
    w = World(seed, fam, npaths=npaths, writer=writer, reader=reader, headers=headers, lib=lib, reuse=reuse, bigkind=bigkind)
    w.table = TokenTable(seed, fam, tokens_by_base(events), bigkind)
    kept, out = [], []
    try:
        for i, e in enumerate(events):
            if lib != "sfile" and e["hdr"] != "none" and e["op"] in ("hwrite", "write", "append"):
                e = dict(e, hdr="none")                 # a bare record file has no header
            if not w.in_scope(e):
                continue
            e = dict(e)
            e.setdefault("sel", "all")
            kept.append(e)
            out.append(w.execute(e, observe=(sched == "every"), last=(i == len(events) - 1)))
        for h in sorted(w.handles):
            e = {"op": "hclose", "h": h, "p": w.hpath[h], "mode": "none", "delim": "none", "chunk": dict(NO_CHUNK),
                 "hdr": "none", "sel": "all"}
            kept.append(e)
            out.append(w.execute(e, observe=True, last=True))
    finally:
        w.close()
    return kept, out


TLA_EVENT_FIELDS = ("op", "h", "p", "mode", "delim", "chunk", "hdr", "sel", "res", "obs", "rawsame")


def tla_event(e):
    """strip the fields the trace specification does not read"""
    out = {k: e[k] for k in TLA_EVENT_FIELDS if k != "sel"}
    out["sel"] = e.get("sel", "all")
    out["obs"] = [{k: o[k] for k in ("st", "delim", "hdr", "descr", "size", "rows")} for o in e["obs"]]
    return out
