"""Lattice <-> float helpers for spec/Sphere.tla (DESIGN.md 4.1, 4.2).

Three things live here, all part of the *refinement mapping* (abstract lattice value
<-> concrete float), none of them an oracle:

1. concretisation: an eps-angle <<a, b>> (a + b*eps degrees) or a rational-sphere point
   <<a, b, c, d>> becomes the float(s) handed to esutil, with one correctly rounded
   operation (float(Fraction)); radians through a 70-digit rational pi.
2. projection of a returned float onto the lattice: `project_gc` gives the lattice values
   a + b*eps (a range of b) that lie within a tolerance of the returned number, exactly,
   with fractions.Fraction; `exact_angle_deg` gives the angle whose cosine is the exact
   rational D/M (to ~1e-45 degree, decimal arithmetic with 60 digits, no libm) so that
   the deviation of a returned angle from an exported rational cosine can be measured.
3. the longdouble chord kernel `sep_ld` (DESIGN 4.1 "projection kernel"): the on-sky
   separation of two *generic* coordinate pairs, used by C09 (and later C12/C13/C19) to
   map implementation outputs onto the spec's predicates "same point as" / "as far apart
   as".  It is validated on every run that uses it (`validate_kernel`): it must reproduce
   SepGC on the exported great-circle lattice and CosSep on the exported rational sphere
   to 1e-13 degree, or the run ends with a MachineryError (exit 2).  It is never used to
   decide C08, whose subject is the separation function itself.

`self_validate()` checks the decimal machinery (pi, sin/cos series, exact_angle_deg) against
closed-form anchors and is called by every adapter that imports this module.
"""
import math
from decimal import Decimal, localcontext
from fractions import Fraction

import numpy as np

from .core import MachineryError

# eps instantiations (degrees), indexed 0..3
EPS = (Fraction(1, 10 ** 12), Fraction(1, 10 ** 9), Fraction(1, 10 ** 6), Fraction(1, 10 ** 3))
EPS_NAMES = ("1e-12", "1e-9", "1e-6", "1e-3")

PREC = 60      # decimal digits carried by the exact-angle arithmetic


# ---------------------------------------------------------------------------------
# pi and sin/cos in decimal arithmetic (no libm)
def _atan_inv(n, prec):
    """atan(1/n) by its Taylor series, integer n >= 2"""
    with localcontext() as c:
        c.prec = prec + 10
        x = Decimal(1) / n
        x2 = x * x
        term, s, k = x, x, 1
        lim = Decimal(10) ** -(prec + 8)
        while abs(term) > lim:
            term = -term * x2
            k += 2
            s += term / k
        return +s


def _pi(prec):
    with localcontext() as c:
        c.prec = prec + 10
        return +(16 * _atan_inv(5, prec + 5) - 4 * _atan_inv(239, prec + 5))    # Machin


PI_D = _pi(PREC + 10)
PI_F = Fraction(PI_D)                 # |PI_F - pi| < 1e-69
D180 = Decimal(180)


def sincos(x):
    """(sin x, cos x) of a Decimal |x| <= 7 by Taylor series at PREC digits"""
    with localcontext() as c:
        c.prec = PREC + 8
        x2 = x * x
        lim = Decimal(10) ** -(PREC + 6)
        s = ts = x
        co = tc = Decimal(1)
        k = 1
        while abs(ts) > lim or abs(tc) > lim:
            tc = -tc * x2 / ((2 * k - 1) * (2 * k))
            ts = -ts * x2 / ((2 * k) * (2 * k + 1))
            co += tc
            s += ts
            k += 1
            if k > 200:
                raise MachineryError("sincos series did not converge")
        return +s, +co


def exact_angle_deg(dot, den):
    """the angle in [0,180] degrees (Decimal, ~1e-45) whose cosine is the rational dot/den,
    |dot| <= den.  sin = sqrt(den^2 - dot^2)/den.  One Newton-like correction of the double
    estimate theta0: sin(theta - theta0) = sin(theta) cos(theta0) - cos(theta) sin(theta0)."""
    dot, den = int(dot), int(den)
    if den <= 0 or abs(dot) > den:
        raise MachineryError("exact_angle_deg: not a cosine: %s/%s" % (dot, den))
    nsq = den * den - dot * dot
    with localcontext() as c:
        c.prec = PREC + 8
        rt = Decimal(nsq).sqrt()
        t0 = Decimal(math.atan2(math.sqrt(nsq), dot))      # exact conversion of the double
        s0, c0 = sincos(t0)
        x = (rt * c0 - dot * s0) / den                      # = sin(theta - t0), |.| ~ 1e-16
        if abs(x) > Decimal("1e-13"):
            raise MachineryError("exact_angle_deg: correction too large (%s) for %s/%s" % (x, dot, den))
        theta = t0 + x + x * x * x / 6
        return +(theta * D180 / PI_D)


def self_validate():
    """anchors for pi, the series and exact_angle_deg; raises MachineryError"""
    with localcontext() as c:
        c.prec = PREC + 8
        tiny = Decimal(10) ** -(PREC - 5)
        s, co = sincos(PI_D / 6)
        s2, c2 = sincos(PI_D / 2)
        s3, c3 = sincos(PI_D)
        s4, c4 = sincos(Decimal("1.2345"))
        ok = (abs(s - Decimal("0.5")) < tiny and abs(co * co - Decimal("0.75")) < tiny and abs(s2 - 1) < tiny
              and abs(c2) < tiny and abs(s3) < tiny and abs(c3 + 1) < tiny and abs(s4 * s4 + c4 * c4 - 1) < tiny
              and str(PI_D).startswith("3.14159265358979323846264338327950288419716939937510"))
        if not ok:
            raise MachineryError("spherelat self-validation failed: decimal pi / sin / cos")
        anchors = [((1, 1), 0), ((0, 1), 90), ((-1, 1), 180), ((1, 2), 60), ((-1, 2), 120)]
        for (d, m), want in anchors:
            if abs(exact_angle_deg(d, m) - want) > Decimal("1e-45"):
                raise MachineryError("spherelat self-validation failed: exact_angle_deg(%d/%d)" % (d, m))
        # cos of the returned angle reproduces the rational, for a generic one (24/25, -119/169)
        for d, m in ((24, 25), (-119, 169), (224, 225), (-224, 225)):
            th = exact_angle_deg(d, m) * PI_D / D180
            if abs(sincos(th)[1] - Decimal(d) / m) > Decimal("1e-45"):
                raise MachineryError("spherelat self-validation failed: cos(exact_angle(%d/%d))" % (d, m))
        # and the double / longdouble libm agree with it to their own precision
        for d, m in ((24, 25), (-119, 169), (0, 1)):
            th = float(exact_angle_deg(d, m))
            if abs(th - math.degrees(math.acos(d / m))) > 1e-12:
                raise MachineryError("spherelat self-validation failed: libm acos disagrees")


# ---------------------------------------------------------------------------------
# concretisation
def eangle(pair, eps, wrap=0):
    """eps-angle <<a, b>> (+ wrap*360) as an exact Fraction of degrees"""
    return Fraction(int(pair[0]) + 360 * wrap) + int(pair[1]) * eps


def deg_float(fr):
    """the double nearest to the exact number of degrees"""
    return float(fr)


def rad_float(fr):
    """the double nearest to fr degrees expressed in radians"""
    return float(fr * PI_F / 180)


def rad_to_deg_fraction(r):
    """a returned number of radians as an exact (to 1e-69 relative) Fraction of degrees"""
    return Fraction(r) * 180 / PI_F


_LD_PI = np.longdouble(0)


def _ld_pi():
    global _LD_PI
    if _LD_PI == 0:
        hi = float(PI_D)
        _LD_PI = np.longdouble(hi) + np.longdouble(float(PI_D - Decimal(hi)))
    return _LD_PI


def rs_point_deg(v):
    """(ra, dec) in degrees (doubles) of the rational-sphere point <<a,b,c,d>>: atan2 in longdouble,
    then one rounding to double; ra in [0, 360)"""
    a, b, c, d = (int(t) for t in v)
    L = np.longdouble
    r2d = L(180) / _ld_pi()
    if a == 0 and b == 0:
        ra = 0.0
    else:
        ra = float(np.arctan2(L(b), L(a)) * r2d)
        if ra < 0.0:
            ra += 360.0
            if ra >= 360.0:
                ra = 0.0
    dec = float(np.arctan2(L(c), np.sqrt(L(a * a + b * b))) * r2d)
    return ra, dec


# ---------------------------------------------------------------------------------
# projection onto the great-circle lattice
BCLIP = 2 ** 30


def _ceil(fr):
    return -((-fr.numerator) // fr.denominator)


def project_gc(r_deg, eps, tol):
    """lattice values a + b*eps within tol of the exact Fraction r_deg:
    returns (on, a, blo, bhi) with on = False when there is none"""
    a = int(math.floor(r_deg + Fraction(1, 2)))
    blo = _ceil((r_deg - tol - a) / eps)
    bhi = ((r_deg + tol - a) / eps).__floor__()
    blo, bhi = max(blo, -BCLIP), min(bhi, BCLIP)
    if blo > bhi:
        return False, a, 0, 0
    return True, a, int(blo), int(bhi)


# ---------------------------------------------------------------------------------
# the longdouble chord kernel (refinement mapping of generic outputs; see module doc)
def _xyz_ld(lon_deg, lat_deg):
    L = np.longdouble
    d2r = _ld_pi() / L(180)
    lon = np.asarray(lon_deg, dtype=np.float64).astype(L) * d2r
    lat = np.asarray(lat_deg, dtype=np.float64).astype(L) * d2r
    cl = np.cos(lat)
    return cl * np.cos(lon), cl * np.sin(lon), np.sin(lat)


def sep_xyz_ld(x1, y1, z1, x2, y2, z2):
    """angle in degrees (longdouble) between two (not necessarily normalised) vectors:
    2*atan2(|u/|u| - v/|v||, |u/|u| + v/|v||), well conditioned everywhere"""
    L = np.longdouble
    x1, y1, z1, x2, y2, z2 = (np.asarray(t, dtype=L) for t in (x1, y1, z1, x2, y2, z2))
    n1 = np.sqrt(x1 * x1 + y1 * y1 + z1 * z1)
    n2 = np.sqrt(x2 * x2 + y2 * y2 + z2 * z2)
    x1, y1, z1, x2, y2, z2 = x1 / n1, y1 / n1, z1 / n1, x2 / n2, y2 / n2, z2 / n2
    dm = np.sqrt((x1 - x2) ** 2 + (y1 - y2) ** 2 + (z1 - z2) ** 2)
    dp = np.sqrt((x1 + x2) ** 2 + (y1 + y2) ** 2 + (z1 + z2) ** 2)
    return 2 * np.arctan2(dm, dp) * (L(180) / _ld_pi())


def sep_ld(lon1, lat1, lon2, lat2):
    """on-sky separation in degrees (longdouble) of (lon1,lat1) and (lon2,lat2), degrees"""
    return sep_xyz_ld(*(_xyz_ld(lon1, lat1) + _xyz_ld(lon2, lat2)))


def ld_fraction(x):
    """a longdouble as an exact Fraction (two-double split)"""
    x = np.longdouble(x)
    hi = float(x)
    lo = float(x - np.longdouble(hi))
    return Fraction(hi) + Fraction(lo)


def validate_kernel(gc_cases, rs_cases, tol=1e-13):
    """gc_cases: iterable of ((lon1,lat1,lon2,lat2) as Fractions of degrees, exact separation Fraction);
    rs_cases: iterable of (u, v, dot, den).  The kernel must reproduce every exact separation to
    `tol` degrees (the inputs are rounded to doubles first: allowance 2e-13)."""
    n = 0
    worst = 0.0
    allow = tol + 2e-13
    for (l1, b1, l2, b2), sep in gc_cases:
        got = sep_ld(float(l1), float(b1), float(l2), float(b2))
        dev = abs(float(ld_fraction(got) - sep))
        worst = max(worst, dev)
        n += 1
        if not dev <= allow:
            raise MachineryError("chord kernel off the great-circle lattice by %g deg at %s" % (dev, (l1, b1, l2, b2)))
    for u, v, dot, den in rs_cases:
        p, q = rs_point_deg(u), rs_point_deg(v)
        got = sep_ld(p[0], p[1], q[0], q[1])
        g = ld_fraction(got)
        dev = abs(float(Decimal(g.numerator) / Decimal(g.denominator) - exact_angle_deg(dot, den)))
        worst = max(worst, dev)
        n += 1
        if not dev <= allow:
            raise MachineryError("chord kernel off the rational sphere by %g deg at %s %s" % (dev, u, v))
    if n == 0:
        raise MachineryError("chord kernel validation ran on zero cases")
    return n, worst
