"""Run TLC / SANY / pcal and parse what they print."""
import json
import os
import re
import shutil
import subprocess
import tempfile
import time

SPEC_DIR = os.path.join(os.path.dirname(os.path.dirname(os.path.dirname(os.path.abspath(__file__)))), "spec")
JAR = "/opt/veriftools/tla/tla2tools.jar"
CP = JAR + ":/opt/veriftools/tla/CommunityModules-deps.jar"


class TLCError(Exception):
    """machinery failure (parse error, evaluation error, timeout) - exit 2"""


_RE_STATES = re.compile(r"^(\d+) states generated, (\d+) distinct states found, (\d+) states left on queue")
_RE_DEPTH = re.compile(r"^The depth of the complete state graph search is (\d+)")
_RE_COV = re.compile(r"^<(\w+) line \d+, col \d+ to line \d+, col \d+ of module (\w+)>: (\d+):(\d+)")
_RE_CASE = re.compile(r'^<<"([A-Z_]+)", (".*")>>$')
_RE_INVV = re.compile(r"^Error: Invariant (\w+) is violated")
_RE_PROPV = re.compile(r"^Error: (Action property|Temporal properties|Property) (\w+)? ?(.*)violated")


class TLCResult:
    def __init__(self):
        self.rc = None
        self.out = ""
        self.generated = 0
        self.distinct = 0
        self.depth = 0
        self.coverage = {}      # action name -> (distinct, total)
        self.records = {}       # tag -> list of decoded JSON values printed with PrintT(<<tag, ToJson(v)>>)
        self.violated = []      # names of violated invariants / properties
        self.errors = []        # other "Error:" lines
        self.wall_s = 0.0
        self.cmd = ""
        self.garbled = 0        # export lines that could not be parsed (interleaved worker output)

    @property
    def ok(self):
        return self.rc == 0 and not self.violated and not self.errors

    def tail(self, n=40):
        return "\n".join(self.out.splitlines()[-n:])


def _acquire_slot():
    """A machine-wide cap on concurrently running TLC JVMs (each may grow to its -Xmx): several checks started
    side by side (development, seed tests) otherwise exhaust the memory and the kernel kills JVMs at random, which
    would surface as spurious machinery errors.  VH_TLC_SLOTS=0 switches the cap off; one check alone never needs
    more than 16.  Waiting for a slot is not counted against the TLC timeout."""
    n = int(os.environ.get("VH_TLC_SLOTS", "16"))
    if n <= 0:
        return None
    import fcntl
    d = os.path.join(tempfile.gettempdir(), "vh-tlc-slots")
    try:
        os.makedirs(d, exist_ok=True)
    except OSError:
        return None
    waited = 0.0
    while True:
        for k in range(n):
            try:
                f = open(os.path.join(d, "slot-%d" % k), "a")
            except OSError:
                return None
            try:
                fcntl.flock(f, fcntl.LOCK_EX | fcntl.LOCK_NB)
                return f
            except OSError:
                f.close()
        time.sleep(0.25)
        waited += 0.25
        if waited > 900:
            return None


def _release_slot(f):
    if f is not None:
        try:
            f.close()
        except OSError:
            pass


def run(module, cfg_text=None, cfg=None, workers=16, env=None, timeout=900, simulate=None,
        coverage=True, extra=(), depth_first=False, keep_out=True, continue_=False, jvm=()):
    """module: file name in SPEC_DIR (or absolute path).  cfg_text: literal cfg content
    (written to a scratch file) or cfg: file name in SPEC_DIR."""
    mpath = module if os.path.isabs(module) else os.path.join(SPEC_DIR, module)
    workers = max(1, min(int(workers), int(os.environ.get("VH_MAX_WORKERS", "16"))))
    scratch = tempfile.mkdtemp(prefix="vh-tlc-")
    try:
        if cfg_text is not None:
            cpath = os.path.join(scratch, "model.cfg")
            with open(cpath, "w") as f:
                f.write(cfg_text)
        else:
            cpath = cfg if os.path.isabs(cfg) else os.path.join(SPEC_DIR, cfg)
        # a small, re-used heap and few GC threads: first-touch page faults dominate in this VM otherwise
        jopts = ["-XX:+UseParallelGC", "-Xss16m"]
        if not any(o.startswith("-Xmx") for o in jvm):
            jopts.append("-Xmx4g")
        if not any("ParallelGCThreads" in o for o in jvm):
            jopts.append("-XX:ParallelGCThreads=4")
        jopts += list(jvm)
        if depth_first:
            jopts.append("-Dtlc2.tool.queue.IStateQueue=StateDeque")
        cmd = ["java"] + jopts + ["-cp", CP, "tlc2.TLC", "-workers", str(workers),
                                  "-metadir", os.path.join(scratch, "meta"), "-noGenerateSpecTE"]
        if coverage and not simulate:
            cmd += ["-coverage", "1"]
        if simulate:
            cmd += ["-simulate", simulate]
        if continue_:
            cmd += ["-continue"]
        cmd += list(extra)
        cmd += ["-config", cpath, mpath]
        e = dict(os.environ)
        e.pop("JAVA_TOOL_OPTIONS", None)
        if env:
            e.update({k: str(v) for k, v in env.items()})
        slot = _acquire_slot()
        t0 = time.time()
        try:
            p = subprocess.run(cmd, cwd=os.path.dirname(mpath), env=e, stdout=subprocess.PIPE,
                               stderr=subprocess.STDOUT, text=True, timeout=timeout)
        except subprocess.TimeoutExpired as ex:
            raise TLCError("TLC timed out after %ss: %s" % (timeout, " ".join(cmd)))
        finally:
            _release_slot(slot)
        r = TLCResult()
        r.wall_s = time.time() - t0
        r.rc = p.returncode
        r.cmd = "tlc -workers %s %s -config %s %s" % (workers, "-simulate " + simulate if simulate else "",
                                                       os.path.basename(cpath), os.path.basename(mpath))
        out = p.stdout
        for line in out.splitlines():
            if line.startswith("<<\""):
                m = _RE_CASE.match(line)
                if m:
                    try:
                        r.records.setdefault(m.group(1), []).append(json.loads(json.loads(m.group(2))))
                        continue
                    except ValueError:
                        pass
            m = _RE_STATES.match(line)
            if m:
                r.generated, r.distinct = int(m.group(1)), int(m.group(2))
                continue
            m = _RE_DEPTH.match(line)
            if m:
                r.depth = int(m.group(1))
                continue
            m = _RE_COV.match(line)
            if m:
                r.coverage[m.group(1)] = (int(m.group(3)), int(m.group(4)))
                continue
            m = _RE_INVV.match(line)
            if m:
                r.violated.append(m.group(1))
                continue
            if line.startswith("Error:"):
                if "violated" in line:
                    r.violated.append(line[6:].strip())
                elif "behavior up to this point" in line or "counter-example" in line or "counterexample" in line:
                    pass
                else:
                    r.errors.append(line)
        r.garbled = len(re.findall(r'<<"[A-Z_]+", "', out)) - sum(len(v) for v in r.records.values())
        if keep_out:
            # drop the (possibly huge) export lines from the retained text
            r.out = "\n".join(l for l in out.splitlines() if not l.startswith("<<\""))[-20000:]
        return r
    finally:
        shutil.rmtree(scratch, ignore_errors=True)


def must_ok(r, what=""):
    if not r.ok:
        raise TLCError("TLC run failed (%s) rc=%s violated=%s errors=%s\n%s" %
                       (what or r.cmd, r.rc, r.violated, r.errors[:3], r.tail(60)))
    return r


def require_coverage(r, actions):
    """vacuity guard: every named action must have been taken at least once"""
    missing = [a for a in actions if r.coverage.get(a, (0, 0))[1] == 0]
    if missing:
        raise TLCError("vacuous model run: action(s) never taken: %s (coverage=%s)" % (missing, r.coverage))


def sany(module):
    mpath = module if os.path.isabs(module) else os.path.join(SPEC_DIR, module)
    p = subprocess.run(["java", "-cp", CP, "tla2sany.SANY", mpath], cwd=os.path.dirname(mpath),
                       stdout=subprocess.PIPE, stderr=subprocess.STDOUT, text=True)
    bad = p.returncode != 0 or "*** Errors" in p.stdout or "Fatal errors" in p.stdout or "Could not find module" in p.stdout
    return (not bad), p.stdout


def cfg(constants=None, init="Init", next_="Next", spec=None, invariants=(), properties=(),
        constraints=(), action_constraints=(), postcondition=None, deadlock=False, view=None):
    """emit a TLC config with literal constants"""
    L = []
    if spec:
        L.append("SPECIFICATION " + spec)
    else:
        L.append("INIT " + init)
        L.append("NEXT " + next_)
    for k, v in (constants or {}).items():
        L.append("CONSTANT %s = %s" % (k, tla(v)))
    for i in invariants:
        L.append("INVARIANT " + i)
    for i in properties:
        L.append("PROPERTY " + i)
    for i in constraints:
        L.append("CONSTRAINT " + i)
    for i in action_constraints:
        L.append("ACTION_CONSTRAINT " + i)
    if postcondition:
        L.append("POSTCONDITION " + postcondition)
    if view:
        L.append("VIEW " + view)
    L.append("CHECK_DEADLOCK " + ("TRUE" if deadlock else "FALSE"))
    return "\n".join(L) + "\n"


class Raw(str):
    """a TLA+ expression passed through verbatim"""


def tla(v):
    """python value -> TLA+ literal usable in a cfg file"""
    if isinstance(v, Raw):
        return str(v)
    if isinstance(v, bool):
        return "TRUE" if v else "FALSE"
    if isinstance(v, int):
        return str(v)
    if isinstance(v, str):
        return '"%s"' % v
    if isinstance(v, (set, frozenset)):
        return "{" + ", ".join(tla(x) for x in sorted(v, key=repr)) + "}"
    if isinstance(v, (list, tuple)):
        return "<<" + ", ".join(tla(x) for x in v) + ">>"
    if isinstance(v, dict):
        return "[" + ", ".join("%s |-> %s" % (k, tla(x)) for k, x in v.items()) + "]"
    raise TypeError(v)
