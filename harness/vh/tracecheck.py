"""Batch trace validation: records written by the harness from the real code are
judged by a TLA+ trace module (XTrace.tla) run under TLC.

The module reads IOEnv.TRACE_FILE (ndjson), visits every record as one state
(blocks of records are expanded by different workers) and prints
<<"REJECT", ToJson([id |-> ..., failing |-> {clause names}])>> for each record the
specification does not allow.  Large batches are sharded over several TLC
processes (TLC's own worker scaling on this kind of spec saturates at ~4).
"""
import json
import os
import tempfile
from concurrent.futures import ThreadPoolExecutor

from . import tlc
from .core import MachineryError, jsonable


def _one(ctx, module, records, what, constants, workers, timeout, constraint, extra_env, xmx):
    fd, path = tempfile.mkstemp(prefix="vh-trace-", suffix=".ndjson")
    try:
        with os.fdopen(fd, "w") as f:
            for r in records:
                f.write(json.dumps(r, separators=(",", ":"), default=jsonable))
                f.write("\n")
        env = {"TRACE_FILE": path}
        if extra_env:
            env.update(extra_env)
        cfg = tlc.cfg(constants=constants, constraints=[constraint])
        r = ctx.tlc(module, what=what, cfg_text=cfg, workers=workers, env=env, timeout=timeout, coverage=False,
                    jvm=["-Xmx%s" % xmx, "-XX:ParallelGCThreads=2"])
        nrec = len(records)
        if r.distinct < nrec + 1:   # every record must have been visited
            raise MachineryError("trace validation visited %d states for %d records" % (r.distinct, nrec))
        if r.garbled:
            if workers == 1:
                raise MachineryError("unparsed REJECT lines in TLC output:\n" + r.tail(20))
            return _one(ctx, module, records, what, constants, 1, timeout, constraint, extra_env, xmx)
        return {rec["id"]: sorted(rec["failing"]) for rec in r.records.get("REJECT", [])}
    finally:
        try:
            os.unlink(path)
        except OSError:
            pass


def validate(ctx, module, records, what=None, constants=None, workers=None, timeout=1800,
             constraint="Check", extra_env=None, shard_size=5000, max_shards=5):
    """records: list of dicts with a unique integer 'id'.  Returns {id: [failing clauses]}."""
    if not records:
        return {}
    what = what or ("trace validation " + module)
    nsh = max(1, min(max_shards, (len(records) + shard_size - 1) // shard_size))
    if nsh == 1:
        rejects = _one(ctx, module, records, what, constants, workers or 4, timeout, constraint, extra_env, "4g")
    else:
        parts = [records[i::nsh] for i in range(nsh)]
        with ThreadPoolExecutor(nsh) as ex:
            futs = [ex.submit(_one, ctx, module, p, "%s [shard %d/%d]" % (what, i + 1, nsh), constants,
                              workers or 3, timeout, constraint, extra_env, "2g") for i, p in enumerate(parts)]
            rejects = {}
            for f in futs:
                rejects.update(f.result())
    ctx.traces += len(records) - len(rejects)
    return rejects
