"""C10 lattice: abstract Wcs.tla headers / pixels / sky anchors <-> concrete wcsutil inputs, and the
projection of real-valued observations onto the spec's exact values.  No oracle lives here: World,
the class representative, the allowed anchor points and the acceptance clauses are TLC's.
"""
import decimal
import math
from fractions import Fraction as Fr

import numpy as np

TOL_DEG = Fr(1, 10 ** 9)        # "to 1e-9 degree"
TOL_PIX = Fr(1, 10 ** 6)        # "to better than 1e-6 pixel"
NAXIS = (2048, 4096)

SCALES = [10, 11, 12, 13, 14]   # pixel scale u = 2^-s degree  (3.5 .. 0.22 arcsec)
# reference points for the class comparison (the same for both class mates): equator, seam, general
# position, near and at both poles
CRVALS = [(10.0, 0.0), (0.0, 0.0), (359.999999, 37.5), (123.456, -57.25), (200.0, 89.9999), (45.0, 90.0),
          (300.0, -90.0), (0.0, -89.999999), (1e-7, 20.0), (180.0, 5.0)]
# reference pixels: origin, inside the image, far outside (DECam-like), far outside on the other side
CRPIX_BASE = [(Fr(0), Fr(0)), (Fr(2049, 2), Fr(8193, 4)), (Fr(-18471, 4), Fr(-17219, 2)), (Fr(48001, 4), Fr(300))]
EPS = ["1e-3", "1e-6", "1e-9", "1e-12"]

_CTYPE = {"TAN": ("RA---TAN", "DEC--TAN"), "TPV": ("RA---TPV", "DEC--TPV"), "TANPV": ("RA---TAN", "DEC--TAN"),
          "SIP": ("RA---TAN-SIP", "DEC--TAN-SIP")}
_PV_KEYS = (0, 1, 2, 4, 5, 6, 7, 8, 9, 10)
PV_SET_KEYS = {"all": _PV_KEYS, "deg2": (0, 1, 2, 4, 5, 6), "deg1": (0, 1, 2), "one": (1,)}      # = PVSetKeys of Wcs.tla


class LatticeError(Exception):
    """a lattice value is not exactly representable - machinery failure"""


def exact(fr):
    f = float(fr)
    if Fr(f) != fr:
        raise LatticeError("not a binary64 value: %s" % fr)
    return f


def rat(v):
    return Fr(int(v[0]), int(v[1]))


def concretisation(k):
    s = SCALES[k % len(SCALES)]
    crval = CRVALS[(k // len(SCALES)) % len(CRVALS)]
    base = CRPIX_BASE[(k // 7) % len(CRPIX_BASE)]
    pv3 = bool((k // 3) % 2)
    return s, crval, base, pv3


def make_header(h, s, crval, base=(Fr(0), Fr(0)), pv3zero=False):
    """abstract header of Wcs.tla -> the dict a FITS reader would hand to wcsutil.WCS (lower-case keys).
    cd = M * 2^-s; a PV coefficient of degree n is val * u^(1-n) = val * 2^(s(n-1)); SIP coefficients are in
    pixel units; PV sets are complete (scamp style: every key present, identity linear terms)."""
    u = Fr(1, 2 ** s)
    ct = _CTYPE[h["proj"]]
    hdr = {"naxis1": NAXIS[0], "naxis2": NAXIS[1], "ctype1": ct[0], "ctype2": ct[1], "cunit1": "deg", "cunit2": "deg",
           "crpix1": exact(base[0] + h["crpix"][0]), "crpix2": exact(base[1] + h["crpix"][1]),
           "crval1": float(crval[0]), "crval2": float(crval[1])}
    for i in (0, 1):
        for j in (0, 1):
            hdr["cd%d_%d" % (i + 1, j + 1)] = exact(h["cd"][i][j] * u)
    if h["proj"] in ("TPV", "TANPV"):
        pvsets = h.get("pvsets", ["all", "all"])
        for ax in (1, 2):
            for j in PV_SET_KEYS[pvsets[ax - 1]]:        # the two axes need not write the same keywords
                hdr["pv%d_%d" % (ax, j)] = 1.0 if j == 1 else 0.0
            if pv3zero and pvsets[ax - 1] == "all":
                hdr["pv%d_3" % ax] = 0.0
        for c in h["co"]:
            hdr["pv%d_%d" % (c["ax"], c["j"])] = exact(rat(c["val"]) * Fr(2) ** (s * (c["deg"] - 1)))
    elif h["proj"] == "SIP":
        order = max([2] + [c["p"] + c["q"] for c in h["co"]])
        ao, bo = h.get("ord", [order, order])               # declared orders: independent per axis
        for c in h["co"]:
            if c["p"] + c["q"] > (ao, bo)[c["ax"] - 1]:
                raise LatticeError("coefficient above the declared order: %s" % (c,))
        hdr["a_order"] = int(ao)
        hdr["b_order"] = int(bo)
        if h["invkeys"]:
            apo, bpo = h.get("iord", [order, order])
            hdr["ap_order"] = int(apo)
            hdr["bp_order"] = int(bpo)
        for c in h["co"]:
            hdr["%s_%d_%d" % ("ab"[c["ax"] - 1], c["p"], c["q"])] = exact(rat(c["val"]))
    return hdr


def pixel(h, pix, base=(Fr(0), Fr(0))):
    return exact(base[0] + rat(pix[0])), exact(base[1] + rat(pix[1]))


TAN_REP = {"proj": "TAN", "crpix": [0, 0], "cd": [[1, 0], [0, 1]], "co": [], "invkeys": True,
           "ord": [0, 0], "iord": [0, 0], "pvsets": ["all", "all"]}


# ---- projection kernel (DESIGN 4.1): great-circle separation in long double ----------------------
def _ld(x):
    if isinstance(x, Fr):
        return np.longdouble(x.numerator) / np.longdouble(x.denominator)
    return np.longdouble(x)


def sep_deg(lon1, lat1, lon2, lat2):
    # pi to double precision is enough: it only scales angles that are differenced and scaled back
    d2r = np.longdouble(np.pi) / np.longdouble(180)
    lo1, la1, lo2, la2 = (_ld(v) * d2r for v in (lon1, lat1, lon2, lat2))
    sdl = np.sin((la2 - la1) / 2)
    sdo = np.sin((lo2 - lo1) / 2)
    a = sdl * sdl + np.cos(la1) * np.cos(la2) * sdo * sdo
    a = min(max(a, np.longdouble(0)), np.longdouble(1))
    return float(2 * np.arcsin(np.sqrt(a)) / d2r)


def kernel_selftest():
    """the kernel must reproduce lattice separations (integer degrees along the equator and along a meridian
    circle, across the seam and across a pole) to 1e-12 degree"""
    bad = []
    for a0 in (0, 10, 359):
        for t in (0, 1, 30, 45, 60, 90, 150):
            pairs = [((a0, 0), ((a0 + t) % 360, 0), t),                       # along the equator
                     ((a0, 40), ((a0, 40 + t) if 40 + t <= 90 else ((a0 + 180) % 360, 180 - 40 - t)), t)]  # across the pole
            for p, q, want in pairs:
                got = sep_deg(p[0], p[1], q[0], q[1])
                if abs(got - want) > 1e-12:
                    bad.append((p, q, want, got))
    tiny = sep_deg(10, 89.5, 10 + 1e-6, 89.5)
    if not (abs(tiny - 1e-6 * math.cos(math.radians(89.5))) < 1e-14):
        bad.append(("tiny", tiny))
    return bad


def finite(*vals):
    return all(np.all(np.isfinite(np.asarray(v, dtype="f8"))) for v in vals)


def sky_rel(a, b):
    """relation between two (lon, lat) results of the implementation"""
    if not finite(a, b):
        return "off"
    if (float(a[0]), float(a[1])) == (float(b[0]), float(b[1])):
        return "same"
    return "close" if Fr(sep_deg(a[0], a[1], b[0], b[1])) <= TOL_DEG else "off"


def pix_rel(a, b, tol=TOL_PIX):
    if not finite(a, b):
        return "off"
    fa, fb = [float(v) for v in a], [float(v) for v in b]
    if fa == fb:
        return "same"
    return "close" if all(abs(Fr(x) - Fr(y)) <= tol for x, y in zip(fa, fb)) else "off"


def in_range(lon):
    return bool(np.isfinite(lon) and 0.0 <= float(lon) < 360.0)


# ---- anchors ---------------------------------------------------------------------------------------
_PI40 = decimal.Decimal("3.14159265358979323846264338327950288419716939937510582097494")


def gnomonic_radius_deg(tansq):
    """R = sqrt(tansq) * 180 / pi, correctly rounded (the radial function itself is the spec's TanSq table)"""
    with decimal.localcontext() as cx:
        cx.prec = 50
        r = (decimal.Decimal(int(tansq[0])) / decimal.Decimal(int(tansq[1]))).sqrt() * 180 / _PI40
        return float(r)


def lattice_angle(pair, eps):
    """<<a, b>> = a + b*eps degrees"""
    return Fr(int(pair[0])) + int(pair[1]) * Fr(eps)


# ---- realistic headers for the inverse / scalar-array / history parts --------------------------------
def realistic_header(rng, kind, crval=None, crpix=None, invkeys=True):
    """random CD (rotation, flip, 0.05-2 arcsec), PV / SIP sets of realistic magnitude up to the supported order:
    the non-linear terms move the farthest image corner by at most ~3 per cent of its offset (DECam-like)."""
    scale = rng.choice([0.05, 0.1, 0.263, 0.396, 1.0, 2.0]) / 3600.0
    th = rng.uniform(0, 2 * math.pi)
    flip = rng.choice([1, -1])
    cd = ((scale * math.cos(th) * flip, -scale * math.sin(th)), (scale * math.sin(th) * flip, scale * math.cos(th)))
    nx, ny = NAXIS
    if crval is None:
        crval = (rng.choice([0.0, 1e-7, 359.9999999, rng.uniform(0, 360), rng.uniform(0, 360)]),
                 rng.choice([0.0, rng.uniform(-85, 85), rng.uniform(-85, 85), rng.uniform(-85, 85)]))
    if crpix is None:
        crpix = rng.choice([(nx / 2 + .5, ny / 2 + .5), (rng.uniform(1, nx), rng.uniform(1, ny)), (-4617.7, -8609.6),
                            (12000.3, 300.0)])
    rpx = max(math.hypot(cx - crpix[0], cy - crpix[1]) for cx in (1, nx) for cy in (1, ny))
    proj = {"TANPV": "TAN"}.get(kind, kind)
    ct = _CTYPE[kind]
    hdr = {"naxis1": nx, "naxis2": ny, "ctype1": ct[0], "ctype2": ct[1], "cunit1": "deg", "cunit2": "deg",
           "crpix1": crpix[0], "crpix2": crpix[1], "crval1": crval[0], "crval2": crval[1],
           "cd1_1": cd[0][0], "cd1_2": cd[0][1], "cd2_1": cd[1][0], "cd2_2": cd[1][1]}
    f = 0.01
    if kind in ("TPV", "TANPV"):
        r = rpx * scale
        hdr.update(pv1_0=rng.uniform(-1e-2, 1e-2) * r, pv1_1=1 + rng.uniform(-3e-2, 3e-2), pv1_2=rng.uniform(-2e-2, 2e-2),
                   pv2_0=rng.uniform(-1e-2, 1e-2) * r, pv2_1=1 + rng.uniform(-3e-2, 3e-2), pv2_2=rng.uniform(-2e-2, 2e-2))
        # the two axes need not carry the same coefficient set: highest degree written per axis
        top = rng.choice([(3, 3), (3, 3), (3, 1), (2, 3), (1, 3), (3, 2)])
        for j in (4, 5, 6, 7, 8, 9, 10):
            n = 2 if j < 7 else 3
            v1, v2 = rng.uniform(-f, f) / r ** (n - 1), rng.uniform(-f, f) / r ** (n - 1)
            if n <= top[0]:
                hdr["pv1_%d" % j] = v1
            if n <= top[1]:
                hdr["pv2_%d" % j] = v2
    elif kind == "SIP":
        # A_ORDER and B_ORDER are independent in the convention, and so are AP_ORDER and BP_ORDER
        ao, bo = rng.choice([(2, 2), (3, 3), (4, 4), (2, 3), (3, 2), (4, 2), (2, 4), (3, 5), (5, 3)])
        apo, bpo = rng.choice([(ao, bo), (max(ao, bo), max(ao, bo)), (bo + 1, ao), (2, 5), (5, 2)])
        hdr.update(a_order=ao, b_order=bo)
        if invkeys:
            hdr.update(ap_order=apo, bp_order=bpo)
        toponly = rng.random() < 0.25        # coefficients only at the highest order of the axis
        for pre, order in (("a", ao), ("b", bo)):
            for p in range(order + 1):
                for q in range(order + 1):
                    if 2 <= p + q <= order:
                        v = rng.uniform(-f, f) / rpx ** (p + q - 1)
                        if not toponly or p + q == order:
                            hdr["%s_%d_%d" % (pre, p, q)] = v
    assert proj
    return hdr


def image_pixels(rng, hdr, extra=2):
    nx, ny = NAXIS
    px = [(1.0, 1.0), (float(nx), float(ny)), (1.0, float(ny)), (float(nx), 1.0), (nx / 2 + 0.5, ny / 2 + 0.5)]
    for _ in range(extra):
        px.append((rng.uniform(1, nx), rng.uniform(1, ny)))
    return px
