------------------------------- MODULE Algo -------------------------------
(* Property-level definitions for C20 that need no state: what an in-place sort,  *)
(* esutil.algorithm.isplit and esutil.numpy_util.splitarray may return.           *)
(* Used by the models (Quicksort.tla, Isplit.tla) as the property their mechanism *)
(* must refine, and by the trace modules (QuicksortTrace.tla, ChunkTrace.tla) to  *)
(* judge what the real code returned.  Every clause is named so that a rejected   *)
(* record says which clause of the statement failed.                              *)
EXTENDS VU

\* ---- sorting -----------------------------------------------------------------------
\* case         [variant : {"plain","kv"}, keys : Seq(Int), vals : Seq(Int)]
\* observation  [err : STRING, keys : Seq(Int), vals : Seq(Int)]   (the arrays after the call)
ASorted(k)     == \A i \in 1..(Len(k) - 1) : k[i] <= k[i + 1]
ACount(s, x)   == Cardinality({i \in DOMAIN s : s[i] = x})
ASameBag(s, t) == /\ Len(s) = Len(t)
                  /\ \A x \in VRange(s) \cup VRange(t) : ACount(s, x) = ACount(t, x)
APairs(k, v)   == [i \in 1..Len(k) |-> <<k[i], v[i]>>]

SortFailing(c, o) ==
    IF o.err # "none" THEN {"unexpected_error"}
    ELSE IF Len(o.keys) # Len(c.keys) THEN {"length_changed"}
    ELSE (IF ASorted(o.keys) THEN {} ELSE {"not_sorted"}) \cup
         (IF ASameBag(o.keys, c.keys) THEN {} ELSE {"not_permutation"}) \cup
         (IF c.variant = "kv"
          THEN (IF Len(o.vals) # Len(c.vals) THEN {"length_changed"}
                ELSE IF ASameBag(APairs(o.keys, o.vals), APairs(c.keys, c.vals)) THEN {}
                ELSE {"pairs_broken"})
          ELSE {})
SortAccept(c, o) == SortFailing(c, o) = {}

\* ---- sorting at scale: the same clauses on run-length encoded arrays ----------------------
\* Sortedness, permutation and "pairs kept together" are O(n) predicates, and they do not need
\* the n elements written out: an array is given as a sequence of RAMPS <<a, d, k>> (the k values
\* a, a + d, .., a + (k-1) d; d = 0 is a plain run), an observed (keys, values) pair of arrays as
\* a sequence of pair ramps <<a, d, b, e, k>> (keys a + j d next to values b + j e).  A thousand
\* already sorted or reversed elements are one ramp.  SortScale.tla checks on the small scope
\* that these clauses say exactly what SortFailing says about the written-out arrays, whatever
\* ramps are used to write an array down (RampLaw).
\*   case         [variant, keys : Seq(ramp), valmode : "none" | "pos" | "lin"]
\*                "pos": the values are the positions 1..n; "lin": values[i] = 3 keys[i] + 1
\*   observation  [err, pr : Seq(pair ramp)]      (plain variant: b = e = 0)
RNormR(r) == IF r[2] < 0 THEN <<r[1] + (r[3] - 1) * r[2], -r[2], r[3]>> ELSE r     \* same bag, step >= 0
RLen(rs)  == VSum([i \in DOMAIN rs |-> rs[i][3]])
RFirst(r) == r[1]
RLast(r)  == r[1] + (r[3] - 1) * r[2]
RCountIn(r0, x) ==
    LET r == RNormR(r0) IN
    IF r[2] = 0 \/ r[3] = 1 THEN (IF x = r[1] THEN r[3] ELSE 0)
    ELSE IF x >= r[1] /\ x <= RLast(r) /\ (x - r[1]) % r[2] = 0 THEN 1 ELSE 0
RCount(rs, x) == VSum([i \in DOMAIN rs |-> RCountIn(rs[i], x)])
RValues(rs)   == UNION {{rs[i][1] + j * rs[i][2] : j \in 0..(rs[i][3] - 1)} : i \in DOMAIN rs}
RSameBag(rs, ts) == /\ RLen(rs) = RLen(ts)
                    /\ \A x \in RValues(rs) \cup RValues(ts) : RCount(rs, x) = RCount(ts, x)
RSorted(rs) == /\ \A i \in DOMAIN rs : rs[i][3] > 1 => rs[i][2] >= 0
               /\ \A i \in 1..(Len(rs) - 1) : RLast(rs[i]) <= RFirst(rs[i + 1])
\* element p (1-based) of the array the ramps stand for
RStarts(rs) == [i \in DOMAIN rs |-> VSum([j \in 1..(i - 1) |-> rs[j][3]])]
RAt(rs, st, p) == LET i == CHOOSE i \in DOMAIN rs : st[i] < p /\ p <= st[i] + rs[i][3]
                  IN rs[i][1] + (p - st[i] - 1) * rs[i][2]
PRKeys(pr) == [i \in DOMAIN pr |-> <<pr[i][1], pr[i][2], pr[i][5]>>]
PRVals(pr) == [i \in DOMAIN pr |-> <<pr[i][3], pr[i][4], pr[i][5]>>]

RPairsKept(c, o) ==
    LET n == RLen(c.keys) IN
    IF c.valmode = "lin"
    THEN /\ \A i \in DOMAIN o.pr : LET r == o.pr[i] IN r[3] = 3 * r[1] + 1 /\ (r[5] > 1 => r[4] = 3 * r[2])
         /\ RSameBag(PRKeys(o.pr), c.keys)
    ELSE /\ RSameBag(PRVals(o.pr), << <<1, 1, n>> >>)                      \* the positions 1..n, each once
         /\ LET st == RStarts(c.keys) IN
            \A i \in DOMAIN o.pr : LET r == o.pr[i] IN
               \A j \in 0..(r[5] - 1) : RAt(c.keys, st, r[3] + j * r[4]) = r[1] + j * r[2]   \* key next to where it came from

SortFailingR(c, o) ==
    IF o.err # "none" THEN {"unexpected_error"}
    ELSE IF RLen(PRKeys(o.pr)) # RLen(c.keys) THEN {"length_changed"}
    ELSE (IF RSorted(PRKeys(o.pr)) THEN {} ELSE {"not_sorted"}) \cup
         (IF RSameBag(PRKeys(o.pr), c.keys) THEN {} ELSE {"not_permutation"}) \cup
         (IF c.variant = "kv" THEN (IF RPairsKept(c, o) THEN {} ELSE {"pairs_broken"}) ELSE {})

\* ---- isplit(num, nchunks) -------------------------------------------------------
\* case         [num : Nat, nchunks : Nat \ {0}]
\* observation  [err : STRING, starts : Seq(Int), ends : Seq(Int)]
ChunkSizes(o) == [i \in 1..Len(o.starts) |-> o.ends[i] - o.starts[i]]

IsplitFailing(c, o) ==
    IF o.err # "none" THEN {"unexpected_error"}
    ELSE IF Len(o.starts) # c.nchunks \/ Len(o.ends) # c.nchunks THEN {"number_of_ranges"}
    ELSE LET n == c.nchunks  sz == ChunkSizes(o) IN
         (IF o.starts[1] = 0 THEN {} ELSE {"first_start_ne_0"}) \cup
         (IF o.ends[n] = c.num THEN {} ELSE {"last_end_ne_num"}) \cup
         (IF \A i \in 1..(n - 1) : o.ends[i] = o.starts[i + 1] THEN {} ELSE {"not_contiguous"}) \cup
         (IF \A i \in 1..n : sz[i] >= 0 THEN {} ELSE {"negative_size"}) \cup
         (IF \A x, y \in VRange(sz) : x - y <= 1 THEN {} ELSE {"sizes_differ_by_more_than_1"}) \cup
         (IF \A i \in 1..(n - 1) : sz[i] >= sz[i + 1] THEN {} ELSE {"larger_not_first"})
IsplitAccept(c, o) == IsplitFailing(c, o) = {}

\* the (unique) accepted answer, written without divmod: chunk i (1-based) starts
\* at floor((i-1) num / n) rounded the "larger first" way
IsplitRefStart(c, i) == LET q == c.num \div c.nchunks  r == c.num % c.nchunks
                        IN (i - 1) * q + VMin2(i - 1, r)
IsplitRef(c) == [err |-> "none",
                 starts |-> [i \in 1..c.nchunks |-> IsplitRefStart(c, i)],
                 ends   |-> [i \in 1..c.nchunks |-> IsplitRefStart(c, i + 1)]]

\* ---- splitarray(nper, a) ----------------------------------------------------------
\* case         [nper : Nat \ {0}, a : Seq(Int)]
\* observation  [err : STRING, chunks : Seq(Seq(Int))]
RECURSIVE AFlatten(_)
AFlatten(ss) == IF ss = <<>> THEN <<>> ELSE Head(ss) \o AFlatten(Tail(ss))

\* "consecutive chunks of exactly the requested size (the last possibly shorter)
\* whose concatenation is the input".  Whether the last chunk may be empty is not
\* said: accepted (weaker reading).
SplitFailing(c, o) ==
    IF o.err # "none" THEN {"unexpected_error"}
    ELSE LET m == Len(o.chunks) IN
         (IF AFlatten(o.chunks) = c.a THEN {} ELSE {"concatenation_ne_input"}) \cup
         (IF \A i \in 1..(m - 1) : Len(o.chunks[i]) = c.nper THEN {} ELSE {"chunk_size_ne_nper"}) \cup
         (IF m > 0 /\ Len(o.chunks[m]) > c.nper THEN {"last_chunk_too_long"} ELSE {})
SplitAccept(c, o) == SplitFailing(c, o) = {}

SplitRef(c) ==
    LET n == Len(c.a)  m == (n + c.nper - 1) \div c.nper
    IN [err |-> "none",
        chunks |-> [i \in 1..m |-> SubSeq(c.a, (i - 1) * c.nper + 1, VMin2(i * c.nper, n))]]
=============================================================================
