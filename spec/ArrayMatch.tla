------------------------------- MODULE ArrayMatch -------------------------------
(* Property-level specification of esutil.numpy_util.match / match_multi /        *)
(* unique / rem_dup (C06) and implementation-shaped models of their mechanisms.   *)
(*                                                                                *)
(* Abstract values are small integers; only their ORDER and EQUALITY matter.      *)
(* The harness realises them through order-preserving injections (ints near the   *)
(* ends of the 64-bit ranges, floats, byte / unicode strings of mixed length),    *)
(* so an index array returned by the real code is already an abstract value.      *)
(*                                                                                *)
(* A case is  [kind |-> "match", a1 : Seq(Int), a2 : Seq(Int), f : <<>>]          *)
(*        or  [kind |-> "dedup", a1 : Seq(Int), a2 : <<>>,     f : Seq(Int)]      *)
(* An observation is                                                              *)
(*   [fn : STRING, err : "none" | "rejected", i1, i2 : Seq(Int), vals : Seq(Int)] *)
(* with 0-based indices exactly as returned.  fn is one of                        *)
(*   match, match_presorted, match_multi, match_multi_presorted                   *)
(*        i1, i2 = the two returned index arrays                                  *)
(*   unique          i1 = returned indices                                        *)
(*   unique_values   vals = returned values (abstract; 0 = not a lattice value)   *)
(*   rem_dup         i1 = returned indices                                        *)
(*   rem_dup_values  i1 = returned indices, vals = returned values                *)
EXTENDS VU

AMHasRepeats(a) == \E i, j \in DOMAIN a : i < j /\ a[i] = a[j]
AMNonDecreasing(a) == \A i \in 1..(Len(a) - 1) : a[i] <= a[i + 1]
AMIota(n) == [j \in 1..n |-> j]

\* ---------------------------------------------------------------------------------
\* match: the reference result (a function of the case when a1 has no repeats)
AMMatched(a1, a2) == SelectSeq(AMIota(Len(a2)), LAMBDA j : a2[j] \in VRange(a1))
AMPos(a, v) == CHOOSE i \in DOMAIN a : a[i] = v
AMRefMatch(a1, a2) ==
    LET js == AMMatched(a1, a2)
    IN [i1 |-> [k \in DOMAIN js |-> AMPos(a1, a2[js[k]]) - 1],
        i2 |-> [k \in DOMAIN js |-> js[k] - 1]]

\* clause by clause, in the words of the statement
AMIdxInRange(idx, n) == \A k \in DOMAIN idx : idx[k] >= 0 /\ idx[k] < n

AMMatchFailing(a1, a2, o) ==
    IF o.err # "none" THEN (IF AMHasRepeats(a1) THEN {} ELSE {"unexpected_error"})
    ELSE IF AMHasRepeats(a1) THEN {"repeats_not_rejected"}
    ELSE IF Len(o.i1) # Len(o.i2) THEN {"index_arrays_differ_in_length"}
    ELSE IF ~(AMIdxInRange(o.i1, Len(a1)) /\ AMIdxInRange(o.i2, Len(a2))) THEN {"index_out_of_range"}
    ELSE
      \* "index pairs whose elements are equal" (also: "no other element appears")
      (IF \A k \in DOMAIN o.i1 : a1[o.i1[k] + 1] = a2[o.i2[k] + 1] THEN {} ELSE {"pair_elements_unequal"}) \cup
      \* "every element of the second array whose value occurs in the first appears ..."
      (IF \A j \in DOMAIN a2 : a2[j] \in VRange(a1) => \E k \in DOMAIN o.i2 : o.i2[k] = j - 1
         THEN {} ELSE {"matching_element_missing"}) \cup
      \* "... exactly once"
      (IF \A k, m \in DOMAIN o.i2 : k < m => o.i2[k] # o.i2[m] THEN {} ELSE {"element_appears_twice"}) \cup
      \* "ordered by position in the second array"
      (IF \A k \in 1..(Len(o.i2) - 1) : o.i2[k] <= o.i2[k + 1] THEN {} ELSE {"not_ordered_by_second_array"})

\* ---------------------------------------------------------------------------------
\* de-duplication: exactly one index per distinct value; ANY representative
AMOnePerValue(a, idx) ==
    /\ \A k, m \in DOMAIN idx : k < m => a[idx[k] + 1] # a[idx[m] + 1]
    /\ \A j \in DOMAIN a : \E k \in DOMAIN idx : a[idx[k] + 1] = a[j]

AMUniqueFailing(a, o) ==
    IF o.err # "none" THEN {"unexpected_error"}
    ELSE IF ~AMIdxInRange(o.i1, Len(a)) THEN {"index_out_of_range"}
    ELSE IF AMOnePerValue(a, o.i1) THEN {} ELSE {"not_one_index_per_value"}

\* values=True: the unique values - each distinct value of the input exactly once
AMUniqueValuesFailing(a, o) ==
    IF o.err # "none" THEN {"unexpected_error"}
    ELSE IF /\ \A k, m \in DOMAIN o.vals : k < m => o.vals[k] # o.vals[m]
            /\ VRange(o.vals) = VRange(a)
         THEN {} ELSE {"values_not_one_per_value"}

\* flagged variant: the kept index carries the largest flag of its value (ties: any)
AMRemDupFailing(a, f, o) ==
    IF o.err # "none" THEN {"unexpected_error"}
    ELSE IF ~AMIdxInRange(o.i1, Len(a)) THEN {"index_out_of_range"}
    ELSE (IF AMOnePerValue(a, o.i1) THEN {} ELSE {"not_one_index_per_value"}) \cup
         (IF \A k \in DOMAIN o.i1 : \A j \in DOMAIN a : a[j] = a[o.i1[k] + 1] => f[j] <= f[o.i1[k] + 1]
            THEN {} ELSE {"flag_not_largest"})

AMRemDupValuesFailing(a, f, o) ==
    AMRemDupFailing(a, f, o) \cup
    (IF o.err # "none" \/ ~AMIdxInRange(o.i1, Len(a)) THEN {}
     ELSE IF Len(o.vals) = Len(o.i1) /\ \A k \in DOMAIN o.i1 : o.vals[k] = a[o.i1[k] + 1]
          THEN {} ELSE {"values_ne_arr_at_indices"})

\* ---------------------------------------------------------------------------------
IsMatchFn(fn) == fn \in {"match", "match_presorted", "match_multi", "match_multi_presorted"}

Failing(c, o) ==
    IF c.kind = "match" THEN
         IF IsMatchFn(o.fn) THEN AMMatchFailing(c.a1, c.a2, o) ELSE {"bad_record"}
    ELSE IF o.fn = "unique" THEN AMUniqueFailing(c.a1, o)
    ELSE IF o.fn = "unique_values" THEN AMUniqueValuesFailing(c.a1, o)
    ELSE IF o.fn = "rem_dup" THEN AMRemDupFailing(c.a1, c.f, o)
    ELSE IF o.fn = "rem_dup_values" THEN AMRemDupValuesFailing(c.a1, c.f, o)
    ELSE {"bad_record"}

Accept(c, o) == Failing(c, o) = {}

\* =================================================================================
\* Implementation-shaped models (numpy_util.py, one operator per code step)
\* =================================================================================

\* every permutation of 1..n that sorts a (argsort is not stable: ties in any order)
AMSortPerms(a) ==
    {p \in [1..Len(a) -> 1..Len(a)] :
        /\ \A i, j \in 1..Len(a) : i < j => p[i] # p[j]
        /\ \A i \in 1..(Len(a) - 1) : a[p[i]] <= a[p[i + 1]]}

\* --- match: "sorted search with high-end clamp then equality filter" -------------
\* np.searchsorted(arr1, arr2, sorter=st1), side='left': number of elements < v (0-based slot)
AMSearchLeft(a1, st, v) == Cardinality({i \in DOMAIN st : a1[st[i]] < v})

\* ClampMode: "code"   = as written (strings always; numbers when max(a2) > max(a1))
\*            "never"  = deviating variant used by the self-test
AMClamp(a1, a2, sub, isString, ClampMode) ==
    IF ClampMode = "code" /\ (isString \/ VSeqMax(a2) > VSeqMax(a1))
    THEN [j \in DOMAIN sub |-> IF sub[j] = Len(a1) THEN Len(a1) - 1 ELSE sub[j]]
    ELSE sub

\* (sub2,) = where(arr1[st1[sub1]] == arr2); sub1 = st1[sub1[sub2]]
\* indexing past the end is an IndexError
AMFilter(a1, a2, st, sub) ==
    IF \E j \in DOMAIN sub : sub[j] >= Len(a1) THEN [fn |-> "match", err |-> "rejected", i1 |-> <<>>, i2 |-> <<>>, vals |-> <<>>]
    ELSE LET js == SelectSeq(AMIota(Len(a2)), LAMBDA j : a1[st[sub[j] + 1]] = a2[j])
         IN [fn |-> "match", err |-> "none",
             i1 |-> [k \in DOMAIN js |-> st[sub[js[k]] + 1] - 1],
             i2 |-> [k \in DOMAIN js |-> js[k] - 1], vals |-> <<>>]

\* --- unique: "index-of-unique scan over argsort" ----------------------------------
\* state [s, val, i, nkeep, keep]; keep is 0-based content, 1-based here; i is the 0-based loop index
\* SeedSorted = TRUE : val = arr[s[0]], keep[0] = s[0]   (repaired)
\*            = FALSE: val = arr[0],    keep[0] = 0      (pinned code)
AMUniqInit(a, s, SeedSorted) ==
    [s |-> s, val |-> IF SeedSorted THEN a[s[1]] ELSE a[1], i |-> 1, nkeep |-> 0,
     keep |-> [k \in 1..Len(a) |-> IF k = 1 /\ SeedSorted THEN s[1] - 1 ELSE 0]]

AMUniqStep(a, st) ==
    LET ind == st.s[st.i + 1]
    IN IF a[ind] # st.val
       THEN [st EXCEPT !.val = a[ind], !.nkeep = @ + 1, !.keep = [@ EXCEPT ![st.nkeep + 2] = ind - 1], !.i = @ + 1]
       ELSE [st EXCEPT !.i = @ + 1]

AMUniqResult(st) == [fn |-> "unique", err |-> "none", i1 |-> SubSeq(st.keep, 1, st.nkeep + 1), i2 |-> <<>>, vals |-> <<>>]

\* --- rem_dup: "largest-flag selection per run of equal values" --------------------
\* works on the sorted arrays; keep holds positions in the sorted order (0-based content)
AMRemInit(a, f, s) ==
    [s |-> s, val |-> a[s[1]], f |-> f[s[1]], i |-> 1, nkeep |-> 0, keep |-> [k \in 1..Len(a) |-> 0]]

AMRemStep(a, f, st) ==
    LET v == a[st.s[st.i + 1]]
        g == f[st.s[st.i + 1]]
    IN IF v # st.val
       THEN [st EXCEPT !.val = v, !.f = g, !.nkeep = @ + 1, !.keep = [@ EXCEPT ![st.nkeep + 2] = st.i], !.i = @ + 1]
       ELSE IF g > st.f
            THEN [st EXCEPT !.f = g, !.keep = [@ EXCEPT ![st.nkeep + 1] = st.i], !.i = @ + 1]
            ELSE [st EXCEPT !.i = @ + 1]

\* s = s[keep]; s.sort()
AMRemResult(st) ==
    LET picked == {st.s[st.keep[k] + 1] - 1 : k \in 1..(st.nkeep + 1)}
    IN [fn |-> "rem_dup", err |-> "none", i1 |-> VSortSet(picked), i2 |-> <<>>, vals |-> <<>>]
=============================================================================
