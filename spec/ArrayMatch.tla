------------------------------- MODULE ArrayMatch -------------------------------
(* Property-level specification of esutil.numpy_util.match / match_multi /        *)
(* unique / rem_dup (C06) and implementation-shaped models of their mechanisms.   *)
(*                                                                                *)
(* Abstract values are small integers; only their ORDER and EQUALITY matter.      *)
(* The harness realises them through order-preserving injections, so an index     *)
(* array returned by the real code is already an abstract value.  HOW every array *)
(* argument is realised is itself part of the case: a REPRESENTATION record       *)
(* (element types of the two arguments, where in the types' ranges the values are *)
(* placed, byte orders, memory layouts / container forms - section                *)
(* "representations" below).  The clauses never read it: the statement quantifies *)
(* over "any array", so the same answer is demanded in every representation.      *)
(*                                                                                *)
(* A case is  [kind |-> "match", a1 : Seq(Int), a2 : Seq(Int), f : <<>>]          *)
(*        or  [kind |-> "dedup", a1 : Seq(Int), a2 : <<>>,     f : Seq(Int)]      *)
(* (the model adds  reps : Seq(representation record) ), or a SCALE case whose     *)
(* arrays are given by generators (section "scale": laws and linear-time clauses).*)
(* An observation is                                                              *)
(*   [fn : STRING, err : "none" | "rejected", i1, i2 : Seq(Int), vals : Seq(Int)] *)
(* with 0-based indices exactly as returned.  fn is one of                        *)
(*   match, match_presorted, match_multi, match_multi_presorted                   *)
(*        i1, i2 = the two returned index arrays                                  *)
(*   unique          i1 = returned indices                                        *)
(*   unique_values   vals = returned values (abstract; 0 = not a lattice value)   *)
(*   rem_dup         i1 = returned indices                                        *)
(*   rem_dup_values  i1 = returned indices, vals = returned values                *)
EXTENDS VU

AMHasRepeats(a) == \E i, j \in DOMAIN a : i < j /\ a[i] = a[j]
AMNonDecreasing(a) == \A i \in 1..(Len(a) - 1) : a[i] <= a[i + 1]
AMIota(n) == [j \in 1..n |-> j]

\* ---------------------------------------------------------------------------------
\* match: the reference result (a function of the case when a1 has no repeats)
AMMatched(a1, a2) == SelectSeq(AMIota(Len(a2)), LAMBDA j : a2[j] \in VRange(a1))
AMPos(a, v) == CHOOSE i \in DOMAIN a : a[i] = v
AMRefMatch(a1, a2) ==
    LET js == AMMatched(a1, a2)
    IN [i1 |-> [k \in DOMAIN js |-> AMPos(a1, a2[js[k]]) - 1],
        i2 |-> [k \in DOMAIN js |-> js[k] - 1]]

\* clause by clause, in the words of the statement
AMIdxInRange(idx, n) == \A k \in DOMAIN idx : idx[k] >= 0 /\ idx[k] < n

AMMatchFailing(a1, a2, o) ==
    IF o.err # "none" THEN (IF AMHasRepeats(a1) THEN {} ELSE {"unexpected_error"})
    ELSE IF AMHasRepeats(a1) THEN {"repeats_not_rejected"}
    ELSE IF Len(o.i1) # Len(o.i2) THEN {"index_arrays_differ_in_length"}
    ELSE IF ~(AMIdxInRange(o.i1, Len(a1)) /\ AMIdxInRange(o.i2, Len(a2))) THEN {"index_out_of_range"}
    ELSE
      \* "index pairs whose elements are equal" (also: "no other element appears")
      (IF \A k \in DOMAIN o.i1 : a1[o.i1[k] + 1] = a2[o.i2[k] + 1] THEN {} ELSE {"pair_elements_unequal"}) \cup
      \* "every element of the second array whose value occurs in the first appears ..."
      (IF \A j \in DOMAIN a2 : a2[j] \in VRange(a1) => \E k \in DOMAIN o.i2 : o.i2[k] = j - 1
         THEN {} ELSE {"matching_element_missing"}) \cup
      \* "... exactly once"
      (IF \A k, m \in DOMAIN o.i2 : k < m => o.i2[k] # o.i2[m] THEN {} ELSE {"element_appears_twice"}) \cup
      \* "ordered by position in the second array"
      (IF \A k \in 1..(Len(o.i2) - 1) : o.i2[k] <= o.i2[k + 1] THEN {} ELSE {"not_ordered_by_second_array"})

\* ---------------------------------------------------------------------------------
\* de-duplication: exactly one index per distinct value; ANY representative
AMOnePerValue(a, idx) ==
    /\ \A k, m \in DOMAIN idx : k < m => a[idx[k] + 1] # a[idx[m] + 1]
    /\ \A j \in DOMAIN a : \E k \in DOMAIN idx : a[idx[k] + 1] = a[j]

AMUniqueFailing(a, o) ==
    IF o.err # "none" THEN {"unexpected_error"}
    ELSE IF ~AMIdxInRange(o.i1, Len(a)) THEN {"index_out_of_range"}
    ELSE IF AMOnePerValue(a, o.i1) THEN {} ELSE {"not_one_index_per_value"}

\* values=True: the unique values - each distinct value of the input exactly once
AMUniqueValuesFailing(a, o) ==
    IF o.err # "none" THEN {"unexpected_error"}
    ELSE IF /\ \A k, m \in DOMAIN o.vals : k < m => o.vals[k] # o.vals[m]
            /\ VRange(o.vals) = VRange(a)
         THEN {} ELSE {"values_not_one_per_value"}

\* flagged variant: the kept index carries the largest flag of its value (ties: any)
AMRemDupFailing(a, f, o) ==
    IF o.err # "none" THEN {"unexpected_error"}
    ELSE IF ~AMIdxInRange(o.i1, Len(a)) THEN {"index_out_of_range"}
    ELSE (IF AMOnePerValue(a, o.i1) THEN {} ELSE {"not_one_index_per_value"}) \cup
         (IF \A k \in DOMAIN o.i1 : \A j \in DOMAIN a : a[j] = a[o.i1[k] + 1] => f[j] <= f[o.i1[k] + 1]
            THEN {} ELSE {"flag_not_largest"})

AMRemDupValuesFailing(a, f, o) ==
    AMRemDupFailing(a, f, o) \cup
    (IF o.err # "none" \/ ~AMIdxInRange(o.i1, Len(a)) THEN {}
     ELSE IF Len(o.vals) = Len(o.i1) /\ \A k \in DOMAIN o.i1 : o.vals[k] = a[o.i1[k] + 1]
          THEN {} ELSE {"values_ne_arr_at_indices"})

\* ---------------------------------------------------------------------------------
IsMatchFn(fn) == fn \in {"match", "match_presorted", "match_multi", "match_multi_presorted"}

Failing(c, o) ==
    IF c.kind = "match" THEN
         IF IsMatchFn(o.fn) THEN AMMatchFailing(c.a1, c.a2, o) ELSE {"bad_record"}
    ELSE IF o.fn = "unique" THEN AMUniqueFailing(c.a1, o)
    ELSE IF o.fn = "unique_values" THEN AMUniqueValuesFailing(c.a1, o)
    ELSE IF o.fn = "rem_dup" THEN AMRemDupFailing(c.a1, c.f, o)
    ELSE IF o.fn = "rem_dup_values" THEN AMRemDupValuesFailing(c.a1, c.f, o)
    ELSE {"bad_record"}

Accept(c, o) == Failing(c, o) = {}

\* =================================================================================
\* Representations: how the abstract arrays of a case become concrete arguments
\* =================================================================================
\* A representation is a record
\*   [t1, t2 : element type of the first / second array argument (match: arr1, arr2;
\*             de-duplication: arr, flag)
\*    p1, p2 : placement of the abstract values inside the range of the type(s)
\*             (match: p1 = p2, one injection serves both arrays so that equal abstract
\*             values stay equal; de-duplication: values and flags are placed separately)
\*    o1, o2 : byte order  "native" | "swapped"
\*    l1, l2 : layout / container form]
\* Element types: numpy codes (i/u = signed/unsigned integer of 1,2,4,8 bytes, f4/f8,
\* b1 = bool); S/U = byte/unicode strings sized by numpy, Sw/Uw = declared 3 wider.
\* Placements (each is a strictly increasing injection, so order and equality survive):
\*   bottom  from the minimum of the (common) range upwards: type minimum / 0 / -inf /
\*           False / the empty string included
\*   top     up to the maximum of the range: type maximum / +inf / True included
\*   ends    lower half at the minimum, upper half at the maximum
\*   mid     around the middle: 0 and negatives for signed and floats (the float zero is
\*           -0.0 on one side and +0.0 on the other: equal values), the sign-bit
\*           boundary for unsigned, strings spread over all lengths
\*   small   small integers exactly representable in both an integer and a float type
\*   alias   the two types are nested and the values that occur only in the array of the
\*           WIDER type are values the narrower type cannot hold and which a narrowing
\*           conversion would turn into a value of the other array (integers: congruent
\*           modulo 2^bits beyond the type's ends; f8 next to an f4 number; a longer
\*           string extending a full-width one)
\* Layouts: contig, strided (every 2nd element of a buffer whose gaps hold decoys),
\*   reversed (negative stride), offset (unaligned field of a packed record), readonly;
\*   match only: list (python list); length 1 only: zerod (0-d array), npscalar, pyscalar.
AMIntTypes   == <<"i1", "i2", "i4", "i8", "u1", "u2", "u4", "u8">>
AMFloatTypes == <<"f4", "f8">>
AMStrTypes   == <<"S", "Sw", "U", "Uw">>
AMValueTypes == AMIntTypes \o AMFloatTypes \o AMStrTypes
AMFlagTypes  == AMIntTypes \o AMFloatTypes \o <<"b1">>
AMBasicPlaces == <<"bottom", "top", "ends", "mid">>
AMOrders     == <<"native", "swapped">>
AMArrayLayouts  == <<"contig", "strided", "reversed", "offset", "readonly">>
AMScalarLayouts == <<"zerod", "npscalar", "pyscalar">>

AMKindOf(t) == CASE t \in {"i1", "i2", "i4", "i8"} -> "i"
                 [] t \in {"u1", "u2", "u4", "u8"} -> "u"
                 [] t \in {"f4", "f8"} -> "f"
                 [] t \in {"S", "Sw"} -> "S"
                 [] t \in {"U", "Uw"} -> "U"
                 [] OTHER -> "b"
AMBitsOf(t) == CASE t \in {"i1", "u1", "b1"} -> 8
                 [] t \in {"i2", "u2"} -> 16
                 [] t \in {"i4", "u4", "f4"} -> 32
                 [] t \in {"i8", "u8", "f8"} -> 64
                 [] OTHER -> 0
AMIsInt(t) == AMKindOf(t) \in {"i", "u"}
AMIsStr(t) == AMKindOf(t) \in {"S", "U"}
\* the type has a byte order at all
AMHasOrder(t) == AMKindOf(t) = "U" \/ AMBitsOf(t) > 8
\* every value of tn is a value of tw, and tw has more
AMNested(tn, tw) ==
    \/ AMIsInt(tn) /\ AMKindOf(tn) = AMKindOf(tw) /\ AMBitsOf(tn) < AMBitsOf(tw)
    \/ AMKindOf(tn) = "u" /\ AMKindOf(tw) = "i" /\ AMBitsOf(tn) < AMBitsOf(tw)
    \/ tn = "f4" /\ tw = "f8"

\* placements admitted for a pair of element types of match (<<>>: the pair is outside
\* the quantifier - byte with unicode strings, strings with numbers, and 64-bit unsigned
\* with signed integers, which numpy itself compares through float64)
AMPairPlaces(t1, t2) ==
    IF t1 = t2 THEN AMBasicPlaces
    ELSE IF AMIsInt(t1) /\ AMIsInt(t2) THEN
         IF (t1 = "u8" /\ AMKindOf(t2) = "i") \/ (t2 = "u8" /\ AMKindOf(t1) = "i") THEN <<>>
         ELSE AMBasicPlaces \o (IF AMNested(t1, t2) \/ AMNested(t2, t1) THEN <<"alias">> ELSE <<>>)
    ELSE IF AMKindOf(t1) = "f" /\ AMKindOf(t2) = "f" THEN AMBasicPlaces \o <<"alias">>
    ELSE IF (AMIsInt(t1) /\ AMKindOf(t2) = "f") \/ (AMKindOf(t1) = "f" /\ AMIsInt(t2)) THEN <<"small">>
    ELSE IF AMIsStr(t1) /\ AMKindOf(t1) = AMKindOf(t2) THEN AMBasicPlaces \o <<"alias">>
    ELSE <<>>
AMPartners(t1) == SelectSeq(AMValueTypes, LAMBDA t : AMPairPlaces(t1, t) # <<>>)
\* (the same written out, for speed; the ASSUME keeps it equal to the definition)
AMPartnersT(t1) ==
    CASE AMKindOf(t1) = "i" -> <<"i1", "i2", "i4", "i8", "u1", "u2", "u4", "f4", "f8">>
      [] t1 = "u8" -> <<"u1", "u2", "u4", "u8", "f4", "f8">>
      [] AMKindOf(t1) = "u" -> AMIntTypes \o AMFloatTypes
      [] AMKindOf(t1) = "f" -> AMIntTypes \o AMFloatTypes
      [] AMKindOf(t1) = "S" -> <<"S", "Sw">>
      [] OTHER -> <<"U", "Uw">>
ASSUME \A i \in DOMAIN AMValueTypes : AMPartnersT(AMValueTypes[i]) = AMPartners(AMValueTypes[i])
AMFlagTypesNoBool == SelectSeq(AMFlagTypes, LAMBDA t : t # "b1")

\* python ints carry no dtype: numpy gives a list int64 when all are below 2^63, uint64 when
\* all are at or above, and float64 when they straddle 2^63 (u8 placed "mid" or "ends"), which
\* no longer tells neighbouring integers apart - those lists are not a faithful form of the case
AMPyOK(t1, t2, p) == ~(t1 = "u8" /\ t2 = "u8" /\ p \in {"mid", "ends"})
\* layouts admitted for an argument of n elements (py: python containers are faithful)
AMLayoutsFor(kind, n, py) ==
    AMArrayLayouts \o (IF kind = "match" /\ py THEN <<"list">> ELSE <<>>)
                   \o (IF kind = "match" /\ n = 1
                       THEN (IF py THEN AMScalarLayouts ELSE SelectSeq(AMScalarLayouts, LAMBDA l : l # "pyscalar"))
                       ELSE <<>>)
\* python containers carry no dtype, hence no byte order
AMOrdersFor(t, l) == IF AMHasOrder(t) /\ l \notin {"list", "pyscalar"} THEN AMOrders ELSE <<"native">>

AMInSeq(x, s) == \E i \in DOMAIN s : s[i] = x

AMRepOK(c, r) ==
    /\ DOMAIN r = {"t1", "t2", "p1", "p2", "o1", "o2", "l1", "l2"}
    /\ IF c.kind = "match"
       THEN /\ AMInSeq(r.t1, AMValueTypes) /\ AMInSeq(r.t2, AMValueTypes)
            /\ AMInSeq(r.p1, AMPairPlaces(r.t1, r.t2)) /\ r.p2 = r.p1
            /\ AMInSeq(r.l1, AMLayoutsFor("match", Len(c.a1), AMPyOK(r.t1, r.t2, r.p1)))
            /\ AMInSeq(r.l2, AMLayoutsFor("match", Len(c.a2), AMPyOK(r.t1, r.t2, r.p1)))
       ELSE /\ AMInSeq(r.t1, AMValueTypes) /\ AMInSeq(r.p1, AMBasicPlaces)
            /\ AMInSeq(r.t2, AMFlagTypes) /\ AMInSeq(r.p2, AMBasicPlaces)
            \* a bool flag array has two levels only
            /\ r.t2 = "b1" => \A j \in DOMAIN c.f : c.f[j] <= 2
            /\ AMInSeq(r.l1, AMLayoutsFor("dedup", Len(c.a1), TRUE)) /\ AMInSeq(r.l2, AMLayoutsFor("dedup", Len(c.f), TRUE))
    /\ AMInSeq(r.o1, AMOrdersFor(r.t1, r.l1)) /\ AMInSeq(r.o2, AMOrdersFor(r.t2, r.l2))

\* ---- the covering design: representation number g (any natural number) of a case ------
\* mixed-radix decoding of g over the admitted choices, dimension by dimension, so that a
\* set of g spread over a large range meets every combination of a few dimensions
AMPick(s, g) == s[(g % Len(s)) + 1]
AMDesignRep(c, g) ==
    IF c.kind = "match" THEN
      LET t1 == AMPick(AMValueTypes, g)                  g1 == g \div Len(AMValueTypes)
          ps == AMPartnersT(t1)
          t2 == AMPick(ps, g1)                           g2 == g1 \div Len(ps)
          pl == AMPairPlaces(t1, t2)
          p  == AMPick(pl, g2)                           g3 == g2 \div Len(pl)
          L1 == AMLayoutsFor("match", Len(c.a1), AMPyOK(t1, t2, p))
          l1 == AMPick(L1, g3)                           g4 == g3 \div Len(L1)
          L2 == AMLayoutsFor("match", Len(c.a2), AMPyOK(t1, t2, p))
          l2 == AMPick(L2, g4)                           g5 == g4 \div Len(L2)
          o1 == AMPick(AMOrdersFor(t1, l1), g5)          g6 == g5 \div 2
          o2 == AMPick(AMOrdersFor(t2, l2), g6)
      IN [t1 |-> t1, t2 |-> t2, p1 |-> p, p2 |-> p, o1 |-> o1, o2 |-> o2, l1 |-> l1, l2 |-> l2]
    ELSE
      LET fts == IF \A j \in DOMAIN c.f : c.f[j] <= 2 THEN AMFlagTypes
                 ELSE AMFlagTypesNoBool
          t2 == AMPick(fts, g)                           g1 == g \div Len(fts)
          p2 == AMPick(AMBasicPlaces, g1)                g2 == g1 \div Len(AMBasicPlaces)
          t1 == AMPick(AMValueTypes, g2)                 g3 == g2 \div Len(AMValueTypes)
          p1 == AMPick(AMBasicPlaces, g3)                g4 == g3 \div Len(AMBasicPlaces)
          l1 == AMPick(AMArrayLayouts, g4)               g5 == g4 \div Len(AMArrayLayouts)
          l2 == AMPick(AMArrayLayouts, g5)               g6 == g5 \div Len(AMArrayLayouts)
          o1 == AMPick(AMOrdersFor(t1, l1), g6)          g7 == g6 \div 2
          o2 == AMPick(AMOrdersFor(t2, l2), g7)
      IN [t1 |-> t1, t2 |-> t2, p1 |-> p1, p2 |-> p2, o1 |-> o1, o2 |-> o2, l1 |-> l1, l2 |-> l2]

\* =================================================================================
\* Scale: laws that decide large cases from small ones, and linear-time clauses
\* =================================================================================
\* Behaviour that appears only beyond some size (a second array of 10^6 elements, a first
\* array filling most of a narrow integer type) cannot be enumerated, but
\*  (L1) the clauses of match can be evaluated in (log-)linear time            - AMLinMatchFailing,
\*       and say exactly what the clauses above say                           - theorem LinearAgrees;
\*  (L2) matching distributes over concatenation of the second array:
\*       Match(a1, x \o y) = Match(a1, x) \o Shift(Match(a1, y), Len(x))      - theorem ConcatLaw;
\*  (L3) hence the result for a PERIODIC second array (a block B repeated r times plus the
\*       first t elements of B) is the result for B repeated with shifted indices plus the
\*       result for the prefix, "ordered by position in the second array" says that the
\*       blocks come out in order, and a result can be judged from its block run-length
\*       encoding: one entry [b0, cnt, i1, i2] per maximal group of cnt consecutive blocks
\*       b0, b0+1, .. whose entries are identical relative to the block start
\*       - AMBlockRLE, AMBlockMatchFailing, theorem BlockJudgeAgrees;
\*  (L4) "exactly one index per distinct value (carrying the largest flag)" is decided by
\*       counting classes, for arrays whose classes are known positions - AMGenDedupFailing,
\*       theorem GenDedupAgrees.
\* All theorems are invariants of ArrayMatchMC, checked on the small scope.
\*
\* Large arrays are given by GENERATORS  g = [n, w, m, s, o, st, rev]:
\*   element i (1..n) =  o + st * ((k * m + s) % w),  k = i - 1  (rev: k = n - i)
\* with gcd(m, w) = 1: w distinct values o, o+st, .. in a scrambled cyclic order (m = 1,
\* s = 0: ascending; rev: descending); n = w for a first array (all distinct); a second array
\* has n >= w: period w, w <= 2000 values from below to above the first array's.
AMGenAt(g, i) == g.o + g.st * ((((IF g.rev THEN g.n - i ELSE i - 1) * g.m) + g.s) % g.w)
AMGenSeq(g) == [i \in 1..g.n |-> AMGenAt(g, i)]
\* v is an element (n >= w)
AMGenHas(g, v) == v >= g.o /\ (v - g.o) % g.st = 0 /\ (v - g.o) \div g.st < g.w
AMGcd1(a, b) == VGcd(a, b) = 1
AMGenOK(g) == /\ g.n >= 1 /\ g.w >= 1 /\ g.m >= 1 /\ g.s >= 0 /\ g.st >= 1 /\ AMGcd1(g.m, g.w)
              /\ g.n <= 4200000 /\ g.m <= 500 /\ g.w <= 1100000 /\ g.s <= 1100000       \* 32-bit arithmetic

\* (L1) the clauses of AMMatchFailing for a first array WITHOUT repeats given by its element
\* function A1 (1..n1) and membership test Has1, a second array A2 (1..n2)
AMLinMatchFailing(A1(_), n1, Has1(_), A2(_), n2, o) ==
    IF o.err # "none" THEN {"unexpected_error"}
    ELSE IF Len(o.i1) # Len(o.i2) THEN {"index_arrays_differ_in_length"}
    ELSE IF ~(AMIdxInRange(o.i1, n1) /\ AMIdxInRange(o.i2, n2)) THEN {"index_out_of_range"}
    ELSE LET listed == {o.i2[k] : k \in DOMAIN o.i2}
         IN (IF \A k \in DOMAIN o.i1 : A1(o.i1[k] + 1) = A2(o.i2[k] + 1) THEN {} ELSE {"pair_elements_unequal"}) \cup
            (IF \A j \in 1..n2 : Has1(A2(j)) => (j - 1) \in listed THEN {} ELSE {"matching_element_missing"}) \cup
            (IF Cardinality(listed) = Len(o.i2) THEN {} ELSE {"element_appears_twice"}) \cup
            (IF \A k \in 1..(Len(o.i2) - 1) : o.i2[k] <= o.i2[k + 1] THEN {} ELSE {"not_ordered_by_second_array"})

\* (L2)
AMShift(r, d) == [i1 |-> r.i1, i2 |-> [k \in DOMAIN r.i2 |-> r.i2[k] + d]]
AMCat(r, q) == [i1 |-> r.i1 \o q.i1, i2 |-> r.i2 \o q.i2]

\* (L3) block run-length encoding of a result (i1, i2) for period P: the MAPPING the harness
\* applies to a large result before it is judged
RECURSIVE AMBlockGroups(_, _, _, _)
\* groups of consecutive entries lying in the same block: <<[b, i1, i2 (relative)]>>
AMBlockGroups(i1, i2, P, k) ==
    IF k > Len(i2) THEN <<>>
    ELSE LET b == i2[k] \div P
             RECURSIVE upto(_)
             upto(m) == IF m < Len(i2) /\ i2[m + 1] \div P = b THEN upto(m + 1) ELSE m
             e == upto(k)
         IN <<[b |-> b, i1 |-> SubSeq(i1, k, e), i2 |-> [j \in 1..(e - k + 1) |-> i2[k + j - 1] - b * P]]>>
            \o AMBlockGroups(i1, i2, P, e + 1)
RECURSIVE AMMergeGroups(_, _)
AMMergeGroups(gs, acc) ==
    IF gs = <<>> THEN acc
    ELSE LET g == Head(gs)
             last == IF acc = <<>> THEN [b0 |-> 0, cnt |-> 0, i1 |-> <<>>, i2 |-> <<>>] ELSE acc[Len(acc)]
         IN IF acc # <<>> /\ g.b = last.b0 + last.cnt /\ g.i1 = last.i1 /\ g.i2 = last.i2
            THEN AMMergeGroups(Tail(gs), [acc EXCEPT ![Len(acc)].cnt = @ + 1])
            ELSE AMMergeGroups(Tail(gs), Append(acc, [b0 |-> g.b, cnt |-> 1, i1 |-> g.i1, i2 |-> g.i2]))
AMBlockRLE(i1, i2, P) == AMMergeGroups(AMBlockGroups(i1, i2, P, 1), <<>>)

\* an observation of a large match: [fn, err, nrle, rle] with rle = the first entries of the
\* encoding (all of them when nrle = Len(rle); the harness keeps at most 16).
\* The second array is A2 on 1..P (one block), repeated r times, then its first t elements.
AMBlockMatchFailing(A1(_), n1, Has1(_), A2(_), P, r, t, o) ==
    IF o.err # "none" THEN {"unexpected_error"}
    ELSE LET pat(run) == [err |-> "none", i1 |-> run.i1, i2 |-> run.i2]
             lastb(run) == run.b0 + run.cnt - 1
             mfull == \E j \in 1..P : Has1(A2(j))
             mtail == \E j \in 1..t : Has1(A2(j))
             expected == (IF mfull THEN r ELSE 0) + (IF mtail THEN 1 ELSE 0)
             inrange(run) == run.b0 >= 0 /\ run.cnt >= 1 /\ lastb(run) <= (IF t > 0 THEN r ELSE r - 1)
             order == IF \A k \in 1..(Len(o.rle) - 1) : o.rle[k + 1].b0 >= o.rle[k].b0 + o.rle[k].cnt
                      THEN {} ELSE {"not_ordered_by_second_array"}
         IN \* a cut encoding: by (L3) an accepted result has at most two entries, so some clause is violated;
            \* the entries that were kept still show whether the blocks come out in order
            IF o.nrle # Len(o.rle) THEN {"result_not_block_periodic"} \cup order
            ELSE
            UNION {IF ~inrange(o.rle[k]) THEN {"index_out_of_range"}
                   ELSE (IF o.rle[k].b0 < r THEN AMLinMatchFailing(A1, n1, Has1, A2, P, pat(o.rle[k])) ELSE {}) \cup
                        (IF lastb(o.rle[k]) = r THEN AMLinMatchFailing(A1, n1, Has1, A2, t, pat(o.rle[k])) ELSE {})
                   : k \in DOMAIN o.rle} \cup
            \* "ordered by position in the second array": the blocks come out in order, each once
            order \cup
            \* every block that has a matching element is there
            (IF VSum([k \in DOMAIN o.rle |-> o.rle[k].cnt]) < expected
               THEN {"matching_element_missing"} ELSE {})

\* (L4) de-duplication of a generated array: the class of position i is its value; the
\* positions of a class are known.  arr: generator with m = 1 and
\*   struct = "cyclic": element i = o + st * ((i - 1 + s) % w)           (duplicates interleaved)
\*   struct = "runs"  : element i = o + st * (((i - 1) \div q + s) % w), q = ceil(n / w)  (runs of equal values)
\* flags: any generator of the same length.
AMGenQ(g) == (g.n + g.w - 1) \div g.w
AMGenClass(g, i) == IF g.struct = "cyclic" THEN (i - 1 + g.s) % g.w ELSE (((i - 1) \div AMGenQ(g)) + g.s) % g.w
AMGenArrAt(g, i) == g.o + g.st * AMGenClass(g, i)
AMGenNClasses(g) == IF g.struct = "cyclic" THEN VMin2(g.w, g.n) ELSE (g.n + AMGenQ(g) - 1) \div AMGenQ(g)
AMGenClassPositions(g, cl) ==
    IF g.struct = "cyclic"
    THEN LET i0 == ((cl - g.s) % g.w) + 1 IN {i0 + k * g.w : k \in 0..((g.n - i0) \div g.w)}
    ELSE LET b == (cl - g.s) % g.w IN (b * AMGenQ(g) + 1)..VMin2((b + 1) * AMGenQ(g), g.n)
\* the first per positions of a class: flags generated with period per repeat along a class
\* (its positions are an arithmetic progression), so these carry every flag value of the class
AMGenClassHead(g, cl, per) ==
    IF g.struct = "cyclic"
    THEN LET i0 == ((cl - g.s) % g.w) + 1 IN {i0 + k * g.w : k \in 0..VMin2((g.n - i0) \div g.w, per - 1)}
    ELSE LET b == (cl - g.s) % g.w IN (b * AMGenQ(g) + 1)..VMin2(VMin2((b + 1) * AMGenQ(g), g.n), b * AMGenQ(g) + per)
AMGenArrOK(g) == /\ g.struct \in {"cyclic", "runs"} /\ g.m = 1 /\ ~g.rev /\ g.n >= 1 /\ g.w >= 1 /\ g.w <= g.n
                 /\ g.s >= 0 /\ g.s < g.w /\ g.st >= 1 /\ g.n <= 1100000

AMGenOnePerValue(ga, idx) ==
    /\ Cardinality({AMGenClass(ga, idx[k] + 1) : k \in DOMAIN idx}) = Len(idx)
    /\ Len(idx) = AMGenNClasses(ga)
AMGenDedupFailing(ga, gf, o) ==
    IF o.err # "none" THEN {"unexpected_error"}
    ELSE IF o.fn = "unique_values" THEN
         (IF /\ \A k \in DOMAIN o.vals : o.vals[k] >= ga.o /\ (o.vals[k] - ga.o) % ga.st = 0
             /\ Cardinality({o.vals[k] : k \in DOMAIN o.vals}) = Len(o.vals)
             /\ Len(o.vals) = AMGenNClasses(ga)
             /\ \A k \in DOMAIN o.vals : AMGenClassPositions(ga, (o.vals[k] - ga.o) \div ga.st) # {}
          THEN {} ELSE {"values_not_one_per_value"})
    ELSE IF ~AMIdxInRange(o.i1, ga.n) THEN {"index_out_of_range"}
    ELSE (IF AMGenOnePerValue(ga, o.i1) THEN {} ELSE {"not_one_index_per_value"}) \cup
         (IF o.fn \in {"rem_dup", "rem_dup_values"} /\
             ~(\A k \in DOMAIN o.i1 : \A p \in AMGenClassHead(ga, AMGenClass(ga, o.i1[k] + 1), gf.w) :
                    AMGenAt(gf, p) <= AMGenAt(gf, o.i1[k] + 1))
          THEN {"flag_not_largest"} ELSE {}) \cup
         (IF o.fn = "rem_dup_values" /\
             ~(Len(o.vals) = Len(o.i1) /\ \A k \in DOMAIN o.i1 : o.vals[k] = AMGenArrAt(ga, o.i1[k] + 1))
          THEN {"values_ne_arr_at_indices"} ELSE {})

\* ---- scale cases ------------------------------------------------------------------
\*   [kind |-> "smatch", g1, g2 : generators, rep]      obs: [fn, err, nrle, rle]
\*   [kind |-> "sdedup", ga : array generator (with struct), gf : flag generator, rep]
\*                                                       obs: [fn, err, i1, vals]
\* rep = [t1, t2, p1, p2, o1, o2, l1, l2] as above with array layouts only and
\*   p1 = "dense-bottom" | "dense-mid" | "dense-top": abstract value v is the v-th value of the
\*   type t1 counted from its minimum (narrow types: the abstract values ARE positions in the
\*   type, 1 = minimum .. 2^bits = maximum, and a wider t2 reaches below 1 / above 2^bits);
\*   for 32/64-bit and float types the block of values is put at the bottom / around zero /
\*   at the top of t1's range;  p2 = p1 for match, a basic placement for flags.
AMScaleTypes == <<"i1", "u1", "i2", "u2", "i4", "i8", "u8", "f4", "f8">>
AMTypeSize(t) == IF AMIsInt(t) /\ AMBitsOf(t) = 8 THEN 256 ELSE IF AMIsInt(t) /\ AMBitsOf(t) = 16 THEN 65536 ELSE 0   \* 0: plenty
AMDensePlaces == <<"dense-bottom", "dense-mid", "dense-top">>
\* second-array types for a first array of type t1: the same, or a wider one containing it
AMScalePartners(t1) == SelectSeq(AMScaleTypes, LAMBDA t : t = t1 \/ AMNested(t1, t))
\* abstract positions a type t2 \supseteq t1 reaches, in t1's coordinates (narrow t1): [lo, hi] or unbounded
AMCanBelow(t1, t2) == t2 # t1 /\ AMKindOf(t2) = "i"
AMCanAbove(t1, t2) == t2 # t1

AMScaleRepOK(c, r) ==
    /\ DOMAIN r = {"t1", "t2", "p1", "p2", "o1", "o2", "l1", "l2"}
    /\ AMInSeq(r.t1, AMScaleTypes) /\ AMInSeq(r.p1, AMDensePlaces)
    /\ AMInSeq(r.l1, AMArrayLayouts) /\ AMInSeq(r.l2, AMArrayLayouts)
    /\ AMInSeq(r.o1, AMOrdersFor(r.t1, r.l1)) /\ AMInSeq(r.o2, AMOrdersFor(r.t2, r.l2))
    /\ IF c.kind = "smatch"
       THEN LET size == AMTypeSize(r.t1)
                lo1 == c.g1.o   hi1 == c.g1.o + c.g1.st * (c.g1.w - 1)
                lo2 == c.g2.o   hi2 == c.g2.o + c.g2.st * (c.g2.w - 1)
            IN /\ AMInSeq(r.t2, AMScalePartners(r.t1)) /\ r.p2 = r.p1
               /\ AMGenOK(c.g1) /\ AMGenOK(c.g2) /\ c.g1.n = c.g1.w /\ ~c.g2.rev /\ c.g2.w <= 2000
               \* the values fit their types
               /\ size > 0 => /\ lo1 >= 1 /\ hi1 <= size
                              /\ (lo2 >= 1 \/ AMCanBelow(r.t1, r.t2)) /\ (hi2 <= size \/ AMCanAbove(r.t1, r.t2))
                              /\ r.p1 = "dense-bottom"          \* the generator itself says where in the type
               /\ size = 0 => /\ lo1 >= 1 /\ (lo2 >= 1 \/ r.p1 # "dense-bottom") /\ lo2 >= -2
                              /\ (hi2 <= hi1 \/ r.p1 # "dense-top") /\ hi2 <= hi1 + 3
       ELSE /\ AMGenArrOK(c.ga) /\ AMGenOK(c.gf) /\ c.gf.n = c.ga.n /\ c.gf.st = 1 /\ c.gf.o = 1 /\ ~c.gf.rev
            /\ c.ga.o >= 1 /\ (AMTypeSize(r.t1) > 0 => c.ga.o + c.ga.st * (c.ga.w - 1) <= AMTypeSize(r.t1))
            /\ (AMTypeSize(r.t1) > 0 => r.p1 = "dense-bottom")
            /\ AMInSeq(r.t2, AMFlagTypes) /\ AMInSeq(r.p2, AMBasicPlaces)
            /\ (r.t2 = "b1" => c.gf.w <= 2) /\ c.gf.w <= 200

AMScaleFailing(c, o) ==
    IF c.kind = "smatch" THEN
        LET A1(i) == AMGenAt(c.g1, i)
            Has1(v) == AMGenHas(c.g1, v)
            A2(j) == AMGenAt(c.g2, j)
            P == c.g2.w
        IN IF ~IsMatchFn(o.fn) THEN {"bad_record"}
           ELSE AMBlockMatchFailing(A1, c.g1.n, Has1, A2, P, c.g2.n \div P, c.g2.n % P, o)
    ELSE IF o.fn \in {"unique", "unique_values", "rem_dup", "rem_dup_values"} THEN AMGenDedupFailing(c.ga, c.gf, o)
    ELSE {"bad_record"}

\* =================================================================================
\* World: sessions of calls in ONE process
\* =================================================================================
\* The statement speaks about the two arrays of a call.  Hence the outcome of a call depends
\* on the CONTENTS its arguments have at the time of the call and on nothing else: not on
\* what was matched earlier in the process, not on which array OBJECTS carried the contents
\* (an object seen before whose contents were changed since; a new object at the address of
\* a dead one; the same object passed as both arguments), and not on what the caller did to
\* results it was handed (they are the caller's).  A session is
\*   [t, p        : element type and placement of all its arrays,
\*    objs        : <<[kind, a]>>  the array objects alive at the start, kind =
\*                  "rw" (writeable array), "roview" (read-only view of a writeable buffer of
\*                  the caller), "memmap" (read-only memory map of a file that the caller also
\*                  maps writeable),
\*    steps       : <<[op, o, fn, src, a]>>]
\*   op = "call"     fn(object o, second array): src = 0: the fresh array a;
\*                                               src = j > 0: the object j itself (j = o: the
\*                                               same object passed twice)
\*        "mutate"   the caller overwrites the contents of object o with a (rw: in place;
\*                   roview / memmap: through the writeable buffer / second map: MutateBase)
\*        "replace"  object o is dropped (garbage collected) and a new object of the same kind
\*                   with contents a takes its name (and quite possibly its address)
\*        "scribble" the caller overwrites the index arrays returned by step o
\* and an observation sequence has one entry per step ([fn |-> "step"] for caller steps; for a
\* call vals = the contents of object o as read back by the harness just before the call).
\* Invariant of the world (AMSessionFailing = {}): every call is accepted by the clauses for
\* the contents at the time of the call - which, match being a function of the case, says
\* "the outcome equals the outcome in a fresh world".
AMWorldKinds == <<"rw", "roview", "memmap">>
AMWorldTypes == <<"i8", "f8", "i2", "u4", "f4", "S", "U">>
AMWApply(cs, s) == IF s.op \in {"mutate", "replace"} THEN [cs EXCEPT ![s.o] = s.a] ELSE cs
RECURSIVE AMWBefore(_, _, _)
\* the contents of all objects just before step k
AMWBefore(cs0, steps, k) == IF k <= 1 THEN cs0 ELSE AMWApply(AMWBefore(cs0, steps, k - 1), steps[k - 1])
AMWArg2(cs, s) == IF s.src = 0 THEN s.a ELSE cs[s.src]
AMWContents0(sess) == [i \in DOMAIN sess.objs |-> sess.objs[i].a]

AMSessionOK(sess) ==
    /\ AMInSeq(sess.t, AMWorldTypes) /\ AMInSeq(sess.p, AMBasicPlaces)
    /\ Len(sess.objs) >= 1
    /\ \A i \in DOMAIN sess.objs : AMInSeq(sess.objs[i].kind, AMWorldKinds) /\ Len(sess.objs[i].a) >= 1
    /\ \A k \in DOMAIN sess.steps :
         LET s == sess.steps[k]  cs == AMWBefore(AMWContents0(sess), sess.steps, k)
         IN CASE s.op = "call" -> /\ s.o \in DOMAIN sess.objs /\ s.src \in 0..Len(sess.objs) /\ IsMatchFn(s.fn)
                                  /\ (s.src = 0 => Len(s.a) >= 1)
                                  \* presorted=True is a promise of the caller: made only when it holds
                                  /\ (s.fn \in {"match_presorted", "match_multi_presorted"} => AMNonDecreasing(cs[s.o]))
              [] s.op \in {"mutate", "replace"} -> /\ s.o \in DOMAIN sess.objs
                                                   /\ Len(s.a) >= 1
                                                   \* a buffer / file keeps its size
                                                   /\ (s.op = "mutate" => Len(s.a) = Len(cs[s.o]))
              [] s.op = "scribble" -> s.o \in 1..(k - 1) /\ sess.steps[s.o].op = "call"
              [] OTHER -> FALSE

AMSessionFailing(sess, obs) ==
    IF Len(obs) # Len(sess.steps) THEN {<<0, "step", "bad_record">>}
    ELSE UNION {
        LET s == sess.steps[k]
            cs == AMWBefore(AMWContents0(sess), sess.steps, k)
        IN IF s.op # "call" THEN (IF obs[k].fn = "step" THEN {} ELSE {<<k, "step", "bad_record">>})
           \* the harness read back the contents the session prescribes (else the harness is at fault)
           ELSE IF obs[k].fn # s.fn \/ obs[k].vals # cs[s.o] THEN {<<k, s.fn, "bad_record">>}
           ELSE {<<k, s.fn, cl>> : cl \in AMMatchFailing(cs[s.o], AMWArg2(cs, s), obs[k])}
        : k \in DOMAIN sess.steps}

\* =================================================================================
\* Implementation-shaped models (numpy_util.py, one operator per code step)
\* =================================================================================

\* every permutation of 1..n that sorts a (argsort is not stable: ties in any order)
AMSortPerms(a) ==
    {p \in [1..Len(a) -> 1..Len(a)] :
        /\ \A i, j \in 1..Len(a) : i < j => p[i] # p[j]
        /\ \A i \in 1..(Len(a) - 1) : a[p[i]] <= a[p[i + 1]]}

\* --- match: "sorted search with high-end clamp then equality filter" -------------
\* np.searchsorted(arr1, arr2, sorter=st1), side='left': number of elements < v (0-based slot)
AMSearchLeft(a1, st, v) == Cardinality({i \in DOMAIN st : a1[st[i]] < v})

\* ClampMode: "code"   = as written (strings always; numbers when max(a2) > max(a1))
\*            "never"  = deviating variant used by the self-test
AMClamp(a1, a2, sub, isString, ClampMode) ==
    IF ClampMode = "code" /\ (isString \/ VSeqMax(a2) > VSeqMax(a1))
    THEN [j \in DOMAIN sub |-> IF sub[j] = Len(a1) THEN Len(a1) - 1 ELSE sub[j]]
    ELSE sub

\* (sub2,) = where(arr1[st1[sub1]] == arr2); sub1 = st1[sub1[sub2]]
\* indexing past the end is an IndexError
AMFilter(a1, a2, st, sub) ==
    IF \E j \in DOMAIN sub : sub[j] >= Len(a1) THEN [fn |-> "match", err |-> "rejected", i1 |-> <<>>, i2 |-> <<>>, vals |-> <<>>]
    ELSE LET js == SelectSeq(AMIota(Len(a2)), LAMBDA j : a1[st[sub[j] + 1]] = a2[j])
         IN [fn |-> "match", err |-> "none",
             i1 |-> [k \in DOMAIN js |-> st[sub[js[k]] + 1] - 1],
             i2 |-> [k \in DOMAIN js |-> js[k] - 1], vals |-> <<>>]

\* --- unique: "index-of-unique scan over argsort" ----------------------------------
\* state [s, val, i, nkeep, keep]; keep is 0-based content, 1-based here; i is the 0-based loop index
\* SeedSorted = TRUE : val = arr[s[0]], keep[0] = s[0]   (repaired)
\*            = FALSE: val = arr[0],    keep[0] = 0      (pinned code)
AMUniqInit(a, s, SeedSorted) ==
    [s |-> s, val |-> IF SeedSorted THEN a[s[1]] ELSE a[1], i |-> 1, nkeep |-> 0,
     keep |-> [k \in 1..Len(a) |-> IF k = 1 /\ SeedSorted THEN s[1] - 1 ELSE 0]]

AMUniqStep(a, st) ==
    LET ind == st.s[st.i + 1]
    IN IF a[ind] # st.val
       THEN [st EXCEPT !.val = a[ind], !.nkeep = @ + 1, !.keep = [@ EXCEPT ![st.nkeep + 2] = ind - 1], !.i = @ + 1]
       ELSE [st EXCEPT !.i = @ + 1]

AMUniqResult(st) == [fn |-> "unique", err |-> "none", i1 |-> SubSeq(st.keep, 1, st.nkeep + 1), i2 |-> <<>>, vals |-> <<>>]

\* --- rem_dup: "largest-flag selection per run of equal values" --------------------
\* works on the sorted arrays; keep holds positions in the sorted order (0-based content)
AMRemInit(a, f, s) ==
    [s |-> s, val |-> a[s[1]], f |-> f[s[1]], i |-> 1, nkeep |-> 0, keep |-> [k \in 1..Len(a) |-> 0]]

AMRemStep(a, f, st) ==
    LET v == a[st.s[st.i + 1]]
        g == f[st.s[st.i + 1]]
    IN IF v # st.val
       THEN [st EXCEPT !.val = v, !.f = g, !.nkeep = @ + 1, !.keep = [@ EXCEPT ![st.nkeep + 2] = st.i], !.i = @ + 1]
       ELSE IF g > st.f
            THEN [st EXCEPT !.f = g, !.keep = [@ EXCEPT ![st.nkeep + 1] = st.i], !.i = @ + 1]
            ELSE [st EXCEPT !.i = @ + 1]

\* s = s[keep]; s.sort()
AMRemResult(st) ==
    LET picked == {st.s[st.keep[k] + 1] - 1 : k \in 1..(st.nkeep + 1)}
    IN [fn |-> "rem_dup", err |-> "none", i1 |-> VSortSet(picked), i2 |-> <<>>, vals |-> <<>>]
=============================================================================
