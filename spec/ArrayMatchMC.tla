------------------------------- MODULE ArrayMatchMC -------------------------------
(* Exhaustive small-scope model for C06:                                          *)
(*  - ChooseA1 / ChooseA2 enumerate every (first array, second array) pair and    *)
(*    ChooseArr / ChooseFlags every (array, flag array) pair of the bounded space *)
(*    (exported as JSON and replayed into the real code);                         *)
(*  - MSort .. MFilter, UBegin .. UEnd, RBegin .. REnd run the implementation-    *)
(*    shaped mechanisms of ArrayMatch.tla on the case, one action per code step;  *)
(*  - ChooseReps attaches to every case NReps representations (element types of   *)
(*    both arguments x placement in the types' ranges x byte orders x layouts,     *)
(*    ArrayMatch!AMDesignRep) taken from a covering design: the representation     *)
(*    numbers are spread by a multiplicative hash of the case, so that over the    *)
(*    cases every admitted (type pair, placement), every (type, layout, order) of  *)
(*    either argument and every pair of layouts occurs (the adapter verifies that  *)
(*    against the DESIGN record printed below); RepDesignOK: each is admitted;     *)
(*  - MechRefines: every finished mechanism run is accepted by the property-level *)
(*    specification; RefAccepted / RefUnique: theorems about the property itself. *)
EXTENDS ArrayMatch, Json

CONSTANTS MaxLen1,     \* first arrays of length 1..MaxLen1
          MaxLen2,     \* second arrays of length 1..MaxLen2
          RepLen2,     \* ... but only 1..RepLen2 when the first array has repeats (it is rejected whatever a2 is)
          A1Vals,      \* values of the first array
          A2Vals,      \* values of the second array (extends below and above A1Vals)
          MaxLenD,     \* de-duplication input arrays of length 1..MaxLenD
          DVals,       \* over these values
          FVals,       \* flag values
          ClampMode,   \* "code" | "never"   (ArrayMatch!AMClamp)
          SeedSorted,  \* TRUE: unique() seeds from the smallest element (repaired); FALSE: from arr[0] (pinned)
          ShardCount,  \* the case space is cut into ShardCount parts by the first array (exports run side by side);
          ShardIndex,  \* this run enumerates part ShardIndex \in 0..ShardCount-1   (1, 0: everything)
          NReps,       \* representations attached to every case (0: the mechanism runs do not need them)
          DoExport

VARIABLES phase, c, st
vars == <<phase, c, st>>

NoCase == [kind |-> "none", a1 |-> <<>>, a2 |-> <<>>, f |-> <<>>, reps |-> <<>>]
Init == phase = "start" /\ c = NoCase /\ st = <<>>

\* ---- enumeration -------------------------------------------------------------------
\* a sequence as a number (all values are in 1..7)
RECURSIVE SeqCode(_)
SeqCode(s) == IF s = <<>> THEN 0 ELSE Head(s) + 8 * SeqCode(Tail(s))
InShard(a) == VSum(a) % ShardCount = ShardIndex

ChooseA1 ==
    /\ phase = "start"
    /\ \E n \in 1..MaxLen1 : \E a \in [1..n -> A1Vals] :
          InShard(a) /\ c' = [kind |-> "match", a1 |-> a, a2 |-> <<>>, f |-> <<>>, reps |-> <<>>]
    /\ phase' = "a1" /\ UNCHANGED st

ChooseA2 ==
    /\ phase = "a1"
    /\ \E n \in 1..(IF AMHasRepeats(c.a1) THEN RepLen2 ELSE MaxLen2) : \E a \in [1..n -> A2Vals] :
          c' = [c EXCEPT !.a2 = a]
    /\ phase' = "mcase" /\ UNCHANGED st

ChooseArr ==
    /\ phase = "start"
    /\ \E n \in 1..MaxLenD : \E a \in [1..n -> DVals] :
          InShard(a) /\ c' = [kind |-> "dedup", a1 |-> a, a2 |-> <<>>, f |-> <<>>, reps |-> <<>>]
    /\ phase' = "arr" /\ UNCHANGED st

ChooseFlags ==
    /\ phase = "arr"
    /\ \E g \in [1..Len(c.a1) -> FVals] : c' = [c EXCEPT !.f = g]
    /\ phase' = "dcase" /\ UNCHANGED st

\* ---- representations: the covering design ------------------------------------------------
\* the case as a number (digits of a1, then of a2 / f)
ASSUME /\ MaxLen1 <= 5 /\ MaxLen2 <= 5 /\ MaxLenD <= 5 /\ NReps <= 32
       /\ (A1Vals \cup A2Vals \cup DVals \cup FVals) \subseteq 1..7
HashM == 999983                                           \* prime; (HashM - 1) * 2003 + 200 * 611953 < 2^31
CaseHash(cc) == ((SeqCode(cc.a1) + 32768 * SeqCode(cc.a2 \o cc.f)) % HashM) * 2003
RepNumber(cc, k) == (CaseHash(cc) + k * 611953) % HashM
\* (the few cases of two one-element arrays carry the 9 x 9 scalar / container forms: six times as many)
RepCount(cc) == IF cc.kind = "match" /\ Len(cc.a1) = 1 /\ Len(cc.a2) = 1 THEN 6 * NReps ELSE NReps
DesignReps(cc) == [k \in 1..RepCount(cc) |-> AMDesignRep(cc, RepNumber(cc, k))]

ChooseReps ==
    /\ phase \in {"mcase", "dcase"} /\ NReps > 0
    /\ c' = [c EXCEPT !.reps = DesignReps(c)]
    /\ phase' = (IF phase = "mcase" THEN "mrep" ELSE "drep") /\ UNCHANGED st

\* ---- match mechanism: one action per statement of numpy_util.match ------------------
\* (both the sorter path and the presorted path when a1 happens to be sorted;
\*  both the string branch and the numeric branch of the clamp)
MSort ==
    /\ phase = "mcase" /\ ~AMHasRepeats(c.a1)              \* the uniqueness guard lets the case through
    /\ \E pre \in {FALSE} \cup (IF AMNonDecreasing(c.a1) THEN {TRUE} ELSE {}) : \E str \in BOOLEAN :
          st' = [pre |-> pre, str |-> str,
                 s |-> IF pre THEN AMIota(Len(c.a1)) ELSE CHOOSE p \in AMSortPerms(c.a1) : TRUE,
                 sub |-> <<>>, out |-> <<>>]
    /\ phase' = "msorted" /\ UNCHANGED c

MGuard ==                                                   \* np.unique(arr1).size != arr1.size -> ValueError
    /\ phase = "mcase" /\ AMHasRepeats(c.a1)
    /\ st' = [pre |-> FALSE, str |-> FALSE, s |-> <<>>, sub |-> <<>>,
              out |-> [fn |-> "match", err |-> "rejected", i1 |-> <<>>, i2 |-> <<>>, vals |-> <<>>]]
    /\ phase' = "mdone" /\ UNCHANGED c

MSearch ==
    /\ phase = "msorted"
    /\ st' = [st EXCEPT !.sub = [j \in DOMAIN c.a2 |-> AMSearchLeft(c.a1, st.s, c.a2[j])]]
    /\ phase' = "msearched" /\ UNCHANGED c

MClamp ==
    /\ phase = "msearched"
    /\ st' = [st EXCEPT !.sub = AMClamp(c.a1, c.a2, st.sub, st.str, ClampMode)]
    /\ phase' = "mclamped" /\ UNCHANGED c

MFilter ==
    /\ phase = "mclamped"
    /\ st' = [st EXCEPT !.out = AMFilter(c.a1, c.a2, st.s, st.sub)]
    /\ phase' = "mdone" /\ UNCHANGED c

\* ---- unique mechanism (does not look at the flags: branches from "arr") -------------
UBegin ==
    /\ phase = "arr"
    /\ \E s \in AMSortPerms(c.a1) : st' = AMUniqInit(c.a1, s, SeedSorted)
    /\ phase' = "uscan" /\ UNCHANGED c

UStep ==
    /\ phase = "uscan" /\ st.i < Len(c.a1)
    /\ st' = AMUniqStep(c.a1, st) /\ UNCHANGED <<phase, c>>

UEnd ==
    /\ phase = "uscan" /\ st.i >= Len(c.a1)
    /\ st' = [out |-> AMUniqResult(st)] /\ phase' = "udone" /\ UNCHANGED c

\* ---- rem_dup mechanism ---------------------------------------------------------------
RBegin ==
    /\ phase = "dcase" /\ Len(c.a1) > 1                    \* n == 1 returns 0 directly
    /\ \E s \in AMSortPerms(c.a1) : st' = AMRemInit(c.a1, c.f, s)
    /\ phase' = "rscan" /\ UNCHANGED c

RStep ==
    /\ phase = "rscan" /\ st.i < Len(c.a1)
    /\ st' = AMRemStep(c.a1, c.f, st) /\ UNCHANGED <<phase, c>>

REnd ==
    /\ phase = "rscan" /\ st.i >= Len(c.a1)
    /\ st' = [out |-> AMRemResult(st)] /\ phase' = "rdone" /\ UNCHANGED c

Next == ChooseA1 \/ ChooseA2 \/ ChooseArr \/ ChooseFlags
        \/ MSort \/ MGuard \/ MSearch \/ MClamp \/ MFilter
        \/ UBegin \/ UStep \/ UEnd \/ RBegin \/ RStep \/ REnd

NextExport == ChooseA1 \/ ChooseA2 \/ ChooseArr \/ ChooseFlags \/ ChooseReps
Spec == Init /\ [][Next]_vars

\* ---- properties ------------------------------------------------------------------------
\* the mechanisms refine the property
MechRefines ==
    /\ phase = "mdone" => Accept(c, st.out)
    /\ phase = "udone" => Accept(c, st.out)
    /\ phase = "rdone" => Accept(c, st.out)

\* the match mechanism delivers exactly the reference result
MechIsRef == (phase = "mdone" /\ st.out.err = "none") =>
    /\ st.out.i1 = AMRefMatch(c.a1, c.a2).i1
    /\ st.out.i2 = AMRefMatch(c.a1, c.a2).i2

\* theorems about the property-level spec: the reference result is accepted, and any
\* single-entry corruption of it is not (the clauses pin the result down)
RefObs(cc) == LET r == AMRefMatch(cc.a1, cc.a2)
              IN [fn |-> "match", err |-> "none", i1 |-> r.i1, i2 |-> r.i2, vals |-> <<>>]
RefAccepted == (phase = "mcase" /\ ~AMHasRepeats(c.a1)) =>
    /\ Accept(c, RefObs(c))
    /\ \A k \in DOMAIN RefObs(c).i2 :
          /\ ~Accept(c, [RefObs(c) EXCEPT !.i1[k] = (@ + 1) % Len(c.a1)]) \/ Len(c.a1) = 1
          /\ ~Accept(c, [RefObs(c) EXCEPT !.i2 = SubSeq(@, 1, k - 1) \o SubSeq(@, k + 1, Len(@)),
                                           !.i1 = SubSeq(@, 1, k - 1) \o SubSeq(@, k + 1, Len(@))])
    /\ ~Accept(c, [RefObs(c) EXCEPT !.err = "rejected"])
RefRejects == (phase = "mcase" /\ AMHasRepeats(c.a1)) =>
    /\ ~Accept(c, RefObs(c))
    /\ Accept(c, [RefObs(c) EXCEPT !.err = "rejected"])

\* de-duplication: the smallest index of every value is an accepted answer of unique, the
\* set of first maximal-flag indices an accepted answer of rem_dup
FirstIdx(a) == VSortSet({(CHOOSE i \in DOMAIN a : a[i] = v /\ \A j \in DOMAIN a : a[j] = v => i <= j) - 1 : v \in VRange(a)})
MaxFlagIdx(a, g) == VSortSet({(CHOOSE i \in DOMAIN a : a[i] = v /\ \A j \in DOMAIN a : a[j] = v => g[j] <= g[i]) - 1 : v \in VRange(a)})
RefDedup == phase = "dcase" =>
    /\ Accept(c, [fn |-> "unique", err |-> "none", i1 |-> FirstIdx(c.a1), i2 |-> <<>>, vals |-> <<>>])
    /\ Accept(c, [fn |-> "rem_dup", err |-> "none", i1 |-> MaxFlagIdx(c.a1, c.f), i2 |-> <<>>, vals |-> <<>>])
    /\ Accept(c, [fn |-> "rem_dup_values", err |-> "none", i1 |-> MaxFlagIdx(c.a1, c.f), i2 |-> <<>>,
                  vals |-> [k \in DOMAIN MaxFlagIdx(c.a1, c.f) |-> c.a1[MaxFlagIdx(c.a1, c.f)[k] + 1]]])
    /\ Len(c.a1) > 1 => ~Accept(c, [fn |-> "unique", err |-> "none", i1 |-> FirstIdx(c.a1) \o <<0>>, i2 |-> <<>>, vals |-> <<>>])

\* every representation the design attaches is admitted for its case
RepDesignOK == phase \in {"mrep", "drep"} => \A k \in DOMAIN c.reps : AMRepOK(c, c.reps[k])

\* ---- export ----------------------------------------------------------------------------
Export == (DoExport /\ phase \in {"mrep", "drep"}) => PrintT(<<"CASE", ToJson(c)>>)

\* the admitted choices, for the adapter's covering guard (printed once per run)
DesignRecord ==
    [pairs  |-> UNION {UNION {{<<t1, t2, AMPairPlaces(t1, t2)[i]>> : i \in DOMAIN AMPairPlaces(t1, t2)}
                              : t2 \in VRange(AMValueTypes)} : t1 \in VRange(AMValueTypes)},
     values |-> VRange(AMValueTypes), flags |-> VRange(AMFlagTypes), places |-> VRange(AMBasicPlaces),
     layouts |-> VRange(AMArrayLayouts), scalars |-> VRange(AMScalarLayouts) \cup {"list"}]
ASSUME DoExport => PrintT(<<"DESIGN", ToJson(DesignRecord)>>)
=============================================================================
