------------------------------- MODULE ArrayMatchMC -------------------------------
(* Exhaustive small-scope model for C06:                                          *)
(*  - ChooseA1 / ChooseA2 enumerate every (first array, second array) pair and    *)
(*    ChooseArr / ChooseFlags every (array, flag array) pair of the bounded space *)
(*    (exported as JSON and replayed into the real code);                         *)
(*  - MSort .. MFilter, UBegin .. UEnd, RBegin .. REnd run the implementation-    *)
(*    shaped mechanisms of ArrayMatch.tla on the case, one action per code step;  *)
(*  - ChooseReps attaches to every case NReps representations (element types of   *)
(*    both arguments x placement in the types' ranges x byte orders x layouts,     *)
(*    ArrayMatch!AMDesignRep) taken from a covering design: the representation     *)
(*    numbers are spread by a multiplicative hash of the case, so that over the    *)
(*    cases every admitted (type pair, placement), every (type, layout, order) of  *)
(*    either argument and every pair of layouts occurs (the adapter verifies that  *)
(*    against the DESIGN record printed below); RepDesignOK: each is admitted;     *)
(*  - MechRefines: every finished mechanism run is accepted by the property-level *)
(*    specification; RefAccepted / RefUnique: theorems about the property itself. *)
EXTENDS ArrayMatch, Json

CONSTANTS MaxLen1,     \* first arrays of length 1..MaxLen1
          MaxLen2,     \* second arrays of length 1..MaxLen2
          RepLen2,     \* ... but only 1..RepLen2 when the first array has repeats (it is rejected whatever a2 is)
          A1Vals,      \* values of the first array
          A2Vals,      \* values of the second array (extends below and above A1Vals)
          MaxLenD,     \* de-duplication input arrays of length 1..MaxLenD
          DVals,       \* over these values
          FVals,       \* flag values
          ClampMode,   \* "code" | "never"   (ArrayMatch!AMClamp)
          SeedSorted,  \* TRUE: unique() seeds from the smallest element (repaired); FALSE: from arr[0] (pinned)
          ShardCount,  \* the case space is cut into ShardCount parts by the first array (exports run side by side);
          ShardIndex,  \* this run enumerates part ShardIndex \in 0..ShardCount-1   (1, 0: everything)
          LawLen,      \* the block law (L3) is checked for second-array blocks of length <= LawLen
          GenN,        \* small generated arrays of length 1..GenN for the theorem about (L4)   (0: none)
          ScaleN2,     \* scale cases: lengths of the second array of match ...
          ScaleND,     \* ... and of the input of the de-duplication helpers   ({}: none)
          ScaleReps,   \* scale cases per (element type, length)
          ScaleBigStride, \* ... but only every ScaleBigStride-th (type, length) for lengths of 10^6 (1: all)
          ScaleSeed,   \* rotates the choices of the scale design (the harness passes its seed)
          NReps,       \* representations attached to every case (0: the mechanism runs do not need them)
          DoExport

VARIABLES phase, c, st
vars == <<phase, c, st>>

NoCase == [kind |-> "none", a1 |-> <<>>, a2 |-> <<>>, f |-> <<>>, reps |-> <<>>]
Init == phase = "start" /\ c = NoCase /\ st = <<>>

\* ---- enumeration -------------------------------------------------------------------
\* a sequence as a number (all values are in 1..7)
RECURSIVE SeqCode(_)
SeqCode(s) == IF s = <<>> THEN 0 ELSE Head(s) + 8 * SeqCode(Tail(s))
InShard(a) == VSum(a) % ShardCount = ShardIndex

ChooseA1 ==
    /\ phase = "start"
    /\ \E n \in 1..MaxLen1 : \E a \in [1..n -> A1Vals] :
          InShard(a) /\ c' = [kind |-> "match", a1 |-> a, a2 |-> <<>>, f |-> <<>>, reps |-> <<>>]
    /\ phase' = "a1" /\ UNCHANGED st

ChooseA2 ==
    /\ phase = "a1"
    /\ \E n \in 1..(IF AMHasRepeats(c.a1) THEN RepLen2 ELSE MaxLen2) : \E a \in [1..n -> A2Vals] :
          c' = [c EXCEPT !.a2 = a]
    /\ phase' = "mcase" /\ UNCHANGED st

ChooseArr ==
    /\ phase = "start"
    /\ \E n \in 1..MaxLenD : \E a \in [1..n -> DVals] :
          InShard(a) /\ c' = [kind |-> "dedup", a1 |-> a, a2 |-> <<>>, f |-> <<>>, reps |-> <<>>]
    /\ phase' = "arr" /\ UNCHANGED st

ChooseFlags ==
    /\ phase = "arr"
    /\ \E g \in [1..Len(c.a1) -> FVals] : c' = [c EXCEPT !.f = g]
    /\ phase' = "dcase" /\ UNCHANGED st

\* ---- representations: the covering design ------------------------------------------------
\* the case as a number (digits of a1, then of a2 / f)
ASSUME /\ MaxLen1 <= 5 /\ MaxLen2 <= 5 /\ MaxLenD <= 5 /\ NReps <= 32
       /\ (A1Vals \cup A2Vals \cup DVals \cup FVals) \subseteq 1..7
HashM == 999983                                           \* prime; (HashM - 1) * 2003 + 200 * 611953 < 2^31
CaseHash(cc) == ((SeqCode(cc.a1) + 32768 * SeqCode(cc.a2 \o cc.f)) % HashM) * 2003
RepNumber(cc, k) == (CaseHash(cc) + k * 611953) % HashM
\* (the few cases of two one-element arrays carry the 9 x 9 scalar / container forms: six times as many)
RepCount(cc) == IF cc.kind = "match" /\ Len(cc.a1) = 1 /\ Len(cc.a2) = 1 THEN 6 * NReps ELSE NReps
DesignReps(cc) == [k \in 1..RepCount(cc) |-> AMDesignRep(cc, RepNumber(cc, k))]

ChooseReps ==
    /\ phase \in {"mcase", "dcase"} /\ NReps > 0
    /\ c' = [c EXCEPT !.reps = DesignReps(c)]
    /\ phase' = (IF phase = "mcase" THEN "mrep" ELSE "drep") /\ UNCHANGED st

\* ---- match mechanism: one action per statement of numpy_util.match ------------------
\* (both the sorter path and the presorted path when a1 happens to be sorted;
\*  both the string branch and the numeric branch of the clamp)
MSort ==
    /\ phase = "mcase" /\ ~AMHasRepeats(c.a1)              \* the uniqueness guard lets the case through
    /\ \E pre \in {FALSE} \cup (IF AMNonDecreasing(c.a1) THEN {TRUE} ELSE {}) : \E str \in BOOLEAN :
          st' = [pre |-> pre, str |-> str,
                 s |-> IF pre THEN AMIota(Len(c.a1)) ELSE CHOOSE p \in AMSortPerms(c.a1) : TRUE,
                 sub |-> <<>>, out |-> <<>>]
    /\ phase' = "msorted" /\ UNCHANGED c

MGuard ==                                                   \* np.unique(arr1).size != arr1.size -> ValueError
    /\ phase = "mcase" /\ AMHasRepeats(c.a1)
    /\ st' = [pre |-> FALSE, str |-> FALSE, s |-> <<>>, sub |-> <<>>,
              out |-> [fn |-> "match", err |-> "rejected", i1 |-> <<>>, i2 |-> <<>>, vals |-> <<>>]]
    /\ phase' = "mdone" /\ UNCHANGED c

MSearch ==
    /\ phase = "msorted"
    /\ st' = [st EXCEPT !.sub = [j \in DOMAIN c.a2 |-> AMSearchLeft(c.a1, st.s, c.a2[j])]]
    /\ phase' = "msearched" /\ UNCHANGED c

MClamp ==
    /\ phase = "msearched"
    /\ st' = [st EXCEPT !.sub = AMClamp(c.a1, c.a2, st.sub, st.str, ClampMode)]
    /\ phase' = "mclamped" /\ UNCHANGED c

MFilter ==
    /\ phase = "mclamped"
    /\ st' = [st EXCEPT !.out = AMFilter(c.a1, c.a2, st.s, st.sub)]
    /\ phase' = "mdone" /\ UNCHANGED c

\* ---- unique mechanism (does not look at the flags: branches from "arr") -------------
UBegin ==
    /\ phase = "arr"
    /\ \E s \in AMSortPerms(c.a1) : st' = AMUniqInit(c.a1, s, SeedSorted)
    /\ phase' = "uscan" /\ UNCHANGED c

UStep ==
    /\ phase = "uscan" /\ st.i < Len(c.a1)
    /\ st' = AMUniqStep(c.a1, st) /\ UNCHANGED <<phase, c>>

UEnd ==
    /\ phase = "uscan" /\ st.i >= Len(c.a1)
    /\ st' = [out |-> AMUniqResult(st)] /\ phase' = "udone" /\ UNCHANGED c

\* ---- rem_dup mechanism ---------------------------------------------------------------
RBegin ==
    /\ phase = "dcase" /\ Len(c.a1) > 1                    \* n == 1 returns 0 directly
    /\ \E s \in AMSortPerms(c.a1) : st' = AMRemInit(c.a1, c.f, s)
    /\ phase' = "rscan" /\ UNCHANGED c

RStep ==
    /\ phase = "rscan" /\ st.i < Len(c.a1)
    /\ st' = AMRemStep(c.a1, c.f, st) /\ UNCHANGED <<phase, c>>

REnd ==
    /\ phase = "rscan" /\ st.i >= Len(c.a1)
    /\ st' = [out |-> AMRemResult(st)] /\ phase' = "rdone" /\ UNCHANGED c


\* ---- properties ------------------------------------------------------------------------
\* the mechanisms refine the property
MechRefines ==
    /\ phase = "mdone" => Accept(c, st.out)
    /\ phase = "udone" => Accept(c, st.out)
    /\ phase = "rdone" => Accept(c, st.out)

\* the match mechanism delivers exactly the reference result
MechIsRef == (phase = "mdone" /\ st.out.err = "none") =>
    /\ st.out.i1 = AMRefMatch(c.a1, c.a2).i1
    /\ st.out.i2 = AMRefMatch(c.a1, c.a2).i2

\* theorems about the property-level spec: the reference result is accepted, and any
\* single-entry corruption of it is not (the clauses pin the result down)
RefObs(cc) == LET r == AMRefMatch(cc.a1, cc.a2)
              IN [fn |-> "match", err |-> "none", i1 |-> r.i1, i2 |-> r.i2, vals |-> <<>>]
RefAccepted == (phase = "mcase" /\ ~AMHasRepeats(c.a1)) =>
    /\ Accept(c, RefObs(c))
    /\ \A k \in DOMAIN RefObs(c).i2 :
          /\ ~Accept(c, [RefObs(c) EXCEPT !.i1[k] = (@ + 1) % Len(c.a1)]) \/ Len(c.a1) = 1
          /\ ~Accept(c, [RefObs(c) EXCEPT !.i2 = SubSeq(@, 1, k - 1) \o SubSeq(@, k + 1, Len(@)),
                                           !.i1 = SubSeq(@, 1, k - 1) \o SubSeq(@, k + 1, Len(@))])
    /\ ~Accept(c, [RefObs(c) EXCEPT !.err = "rejected"])
RefRejects == (phase = "mcase" /\ AMHasRepeats(c.a1)) =>
    /\ ~Accept(c, RefObs(c))
    /\ Accept(c, [RefObs(c) EXCEPT !.err = "rejected"])

\* de-duplication: the smallest index of every value is an accepted answer of unique, the
\* set of first maximal-flag indices an accepted answer of rem_dup
FirstIdx(a) == VSortSet({(CHOOSE i \in DOMAIN a : a[i] = v /\ \A j \in DOMAIN a : a[j] = v => i <= j) - 1 : v \in VRange(a)})
MaxFlagIdx(a, g) == VSortSet({(CHOOSE i \in DOMAIN a : a[i] = v /\ \A j \in DOMAIN a : a[j] = v => g[j] <= g[i]) - 1 : v \in VRange(a)})
RefDedup == phase = "dcase" =>
    /\ Accept(c, [fn |-> "unique", err |-> "none", i1 |-> FirstIdx(c.a1), i2 |-> <<>>, vals |-> <<>>])
    /\ Accept(c, [fn |-> "rem_dup", err |-> "none", i1 |-> MaxFlagIdx(c.a1, c.f), i2 |-> <<>>, vals |-> <<>>])
    /\ Accept(c, [fn |-> "rem_dup_values", err |-> "none", i1 |-> MaxFlagIdx(c.a1, c.f), i2 |-> <<>>,
                  vals |-> [k \in DOMAIN MaxFlagIdx(c.a1, c.f) |-> c.a1[MaxFlagIdx(c.a1, c.f)[k] + 1]]])
    /\ Len(c.a1) > 1 => ~Accept(c, [fn |-> "unique", err |-> "none", i1 |-> FirstIdx(c.a1) \o <<0>>, i2 |-> <<>>, vals |-> <<>>])

\* ---- scale: the laws of ArrayMatch.tla, section "scale", as theorems on the small scope --------
RevSeq(q) == [k \in DOMAIN q |-> q[Len(q) + 1 - k]]
MkObs(i1, i2) == [fn |-> "match", err |-> "none", i1 |-> i1, i2 |-> i2, vals |-> <<>>]
\* the reference result and results that deviate from it in one respect (the last one: the pairs
\* sorted by VALUE of the second array instead of by position)
ObsVariants(a1, a2) ==
    LET r == AMRefMatch(a1, a2)
        n == Len(r.i2)
        p == VStableArgsort([k \in DOMAIN r.i2 |-> a2[r.i2[k] + 1]])
    IN {MkObs(r.i1, r.i2), MkObs(RevSeq(r.i1), RevSeq(r.i2)), [MkObs(r.i1, r.i2) EXCEPT !.err = "rejected"],
        MkObs([k \in DOMAIN r.i1 |-> r.i1[p[k]]], [k \in DOMAIN r.i2 |-> r.i2[p[k]]])} \cup
       (IF n = 0 THEN {MkObs(<<0>>, <<0>>)}
        ELSE {MkObs(Tail(r.i1), Tail(r.i2)), MkObs(<<r.i1[1]>> \o r.i1, <<r.i2[1]>> \o r.i2),
              MkObs([r.i1 EXCEPT ![n] = (@ + 1) % Len(a1)], r.i2), MkObs(r.i1, [r.i2 EXCEPT ![1] = Len(a2)]),
              MkObs(SubSeq(r.i1, 1, n - 1), SubSeq(r.i2, 1, n - 1))})

\* (L1) the linear clauses say what the clauses of the statement say
LinearAgrees == (phase = "mcase" /\ ~AMHasRepeats(c.a1)) =>
    \A o \in ObsVariants(c.a1, c.a2) :
        AMLinMatchFailing(LAMBDA i : c.a1[i], Len(c.a1), LAMBDA v : v \in VRange(c.a1), LAMBDA j : c.a2[j], Len(c.a2), o)
          = AMMatchFailing(c.a1, c.a2, o)

\* (L2) matching distributes over concatenation of the second array
ConcatLaw == (phase = "mcase" /\ ~AMHasRepeats(c.a1)) =>
    \A k \in 0..Len(c.a2) :
        LET x == SubSeq(c.a2, 1, k)  y == SubSeq(c.a2, k + 1, Len(c.a2))
        IN AMRefMatch(c.a1, c.a2) = AMCat(AMRefMatch(c.a1, x), AMShift(AMRefMatch(c.a1, y), k))

\* (L3) a periodic second array (block c.a2 repeated r times, then its first t elements): a result is
\* accepted by the clauses of the statement iff its block run-length encoding is accepted by
\* AMBlockMatchFailing; an accepted result has at most two entries; a cut encoding is never accepted
RECURSIVE Power(_, _)
Power(b, r) == IF r = 0 THEN <<>> ELSE b \o Power(b, r - 1)
BlockJudgeAgrees == (phase = "mcase" /\ ~AMHasRepeats(c.a1) /\ Len(c.a2) <= LawLen) =>
    \A r \in 0..2 : \A t \in 0..(Len(c.a2) - 1) : (r + t > 0) =>
        LET big == Power(c.a2, r) \o SubSeq(c.a2, 1, t)
            P == Len(c.a2)
        IN \A o \in ObsVariants(c.a1, big) :
              LET rle == AMBlockRLE(o.i1, o.i2, P)
                  enc == [fn |-> "match", err |-> o.err, nrle |-> Len(rle), rle |-> rle]
                  blockf == AMBlockMatchFailing(LAMBDA i : c.a1[i], Len(c.a1), LAMBDA v : v \in VRange(c.a1),
                                                LAMBDA j : c.a2[j], P, r, t, enc)
                  exact == AMMatchFailing(c.a1, big, o)
              IN /\ (blockf = {}) <=> (exact = {})
                 /\ exact = {} => Len(rle) <= 2
                 /\ "not_ordered_by_second_array" \in exact => "not_ordered_by_second_array" \in blockf
                 /\ Len(rle) > 1 =>
                      AMBlockMatchFailing(LAMBDA i : c.a1[i], Len(c.a1), LAMBDA v : v \in VRange(c.a1),
                                          LAMBDA j : c.a2[j], P, r, t, [enc EXCEPT !.rle = SubSeq(@, 1, 1)]) # {}

\* (L4) small generated arrays: the counting clauses agree with the clauses of the statement
ChooseGen ==
    /\ phase = "start" /\ GenN > 0
    /\ \E n \in 1..GenN : \E w \in 1..VMin2(n, 3) : \E s \in 0..(w - 1) : \E struct \in {"cyclic", "runs"} : \E stp \in 1..2 :
       \E wf \in 1..3 : \E mf \in {x \in 1..2 : AMGcd1(x, wf)} : \E sf \in 0..(wf - 1) :
          st' = [ga |-> [n |-> n, w |-> w, m |-> 1, s |-> s, o |-> 2, st |-> stp, rev |-> FALSE, struct |-> struct],
                 gf |-> [n |-> n, w |-> wf, m |-> mf, s |-> sf, o |-> 1, st |-> 1, rev |-> FALSE]]
    /\ phase' = "gcase" /\ UNCHANGED c

DObs(fn, i1, vals) == [fn |-> fn, err |-> "none", i1 |-> i1, i2 |-> <<>>, vals |-> vals]
GenDedupAgrees == phase = "gcase" =>
    LET a == [i \in 1..st.ga.n |-> AMGenArrAt(st.ga, i)]
        f == AMGenSeq(st.gf)
        first == FirstIdx(a)
        best == MaxFlagIdx(a, f)
        vals(idx) == [k \in DOMAIN idx |-> a[idx[k] + 1]]
        idxs == {first, best, RevSeq(first), Tail(first), first \o <<0>>, [first EXCEPT ![1] = st.ga.n],
                 [first EXCEPT ![1] = (@ + 1) % st.ga.n], [best EXCEPT ![Len(best)] = (@ + st.ga.n - 1) % st.ga.n]}
    IN /\ AMGenArrOK(st.ga) /\ AMGenOK(st.gf)
       /\ \A i \in 1..st.ga.n : AMGenClassPositions(st.ga, AMGenClass(st.ga, i)) = {j \in 1..st.ga.n : a[j] = a[i]}
       /\ AMGenNClasses(st.ga) = Cardinality(VRange(a))
       /\ \A i \in 1..st.ga.n : {f[p] : p \in AMGenClassHead(st.ga, AMGenClass(st.ga, i), st.gf.w)}
                                   = {f[p] : p \in AMGenClassPositions(st.ga, AMGenClass(st.ga, i))}
       /\ \A idx \in idxs :
            /\ AMGenDedupFailing(st.ga, st.gf, DObs("unique", idx, <<>>)) = AMUniqueFailing(a, DObs("unique", idx, <<>>))
            /\ AMGenDedupFailing(st.ga, st.gf, DObs("rem_dup", idx, <<>>)) = AMRemDupFailing(a, f, DObs("rem_dup", idx, <<>>))
            /\ AMIdxInRange(idx, st.ga.n) =>
                 /\ AMGenDedupFailing(st.ga, st.gf, DObs("rem_dup_values", idx, vals(idx)))
                      = AMRemDupValuesFailing(a, f, DObs("rem_dup_values", idx, vals(idx)))
                 /\ AMGenDedupFailing(st.ga, st.gf, DObs("unique_values", <<>>, vals(idx)))
                      = AMUniqueValuesFailing(a, DObs("unique_values", <<>>, vals(idx)))
                 /\ AMGenDedupFailing(st.ga, st.gf, DObs("rem_dup_values", idx, RevSeq(vals(idx))))
                      = AMRemDupValuesFailing(a, f, DObs("rem_dup_values", idx, RevSeq(vals(idx))))

\* ---- scale cases: a handful per run, for every element type and every length -------------------
\* (number of distinct values, step) of a DENSE first array: most of them span more than half of
\* a narrow type's range; lengths ScaleN2 / ScaleND lie at and across 2^10, 2^16, 10^6, 2^20
N2Seq == VSortSet(ScaleN2)
NDSeq == VSortSet(ScaleND)
DensePairs(size) ==
    IF size = 256 THEN <<<<33, 4>>, <<64, 3>>, <<129, 1>>, <<64, 4>>, <<200, 1>>, <<256, 1>>, <<40, 2>>>>
    ELSE IF size = 65536 THEN <<<<8193, 4>>, <<16385, 3>>, <<40000, 1>>, <<65536, 1>>, <<20001, 2>>, <<8193, 1>>>>
    ELSE <<<<5, 2>>, <<1000, 1>>, <<50021, 1>>, <<1000, 3>>, <<20011, 4>>, <<17, 1>>>>
CoprimeFrom(w) == CHOOSE x \in {7, 11, 13, 17, 19, 23} : AMGcd1(x, w) /\ \A y \in {7, 11, 13, 17, 19, 23} : AMGcd1(y, w) => x <= y
ScaleRep(t1, t2, p1, p2, rot) ==
    LET l1 == AMPick(AMArrayLayouts, rot)   l2 == AMPick(AMArrayLayouts, rot \div 5 + rot)
    IN [t1 |-> t1, t2 |-> t2, p1 |-> p1, p2 |-> p2, l1 |-> l1, l2 |-> l2,
        o1 |-> AMPick(AMOrdersFor(t1, l1), rot \div 3), o2 |-> AMPick(AMOrdersFor(t2, l2), rot \div 2)]

ScaleMatchCase(ti, ni, k) ==
    LET t1 == AMScaleTypes[ti]          n2 == N2Seq[ni]
        size == AMTypeSize(t1)
        rot == ti + ni + 3 * k + ScaleSeed
        pr == AMPick(DensePairs(size), rot)
        n1 == pr[1]   stp == pr[2]   span == stp * (n1 - 1) + 1
        anchor == AMPick(<<"bottom", "mid", "top">>, ti + 2 * ni + k + ScaleSeed)
        o1 == IF size = 0 \/ anchor = "bottom" THEN 1 ELSE IF anchor = "top" THEN size - span + 1 ELSE (size - span) \div 2 + 1
        order == AMPick(<<"asc", "scr", "desc">>, 2 * ti + ni + k + ScaleSeed)
        g1 == [n |-> n1, w |-> n1, m |-> IF order = "scr" THEN CoprimeFrom(n1) ELSE 1,
               s |-> IF order = "scr" THEN n1 \div 3 ELSE 0, o |-> o1, st |-> stp, rev |-> order = "desc"]
        t2 == AMPick(AMScalePartners(t1), ti + ni + 2 * k + ScaleSeed)
        hi1 == o1 + span - 1
        lo2 == IF size > 0 THEN (IF AMCanBelow(t1, t2) THEN o1 - 3 ELSE VMax2(1, o1 - 3))
               ELSE (IF anchor = "bottom" THEN 1 ELSE -2)
        hi2 == IF size > 0 THEN (IF AMCanAbove(t1, t2) THEN hi1 + 3 ELSE VMin2(size, hi1 + 3))
               ELSE (IF anchor = "top" THEN hi1 ELSE hi1 + 3)
        \* the second array probes at most ~1000 values from lo2 to hi2 (every value when the span is below
        \* that, else every st2-th from a phase that rotates): its period, the block of law (L3), stays small
        st2 == (hi2 - lo2 + 1024) \div 1024
        ph == (ScaleSeed + ni + k) % st2
        w2 == (hi2 - lo2 - ph) \div st2 + 1
        g2 == [n |-> n2, w |-> w2, m |-> CoprimeFrom(w2), s |-> w2 \div 2, o |-> lo2 + ph, st |-> st2, rev |-> FALSE]
        p1 == IF size > 0 THEN "dense-bottom" ELSE "dense-" \o anchor
    IN [kind |-> "smatch", g1 |-> g1, g2 |-> g2, rep |-> ScaleRep(t1, t2, p1, p1, rot)]

ScaleDedupCase(ti, ni, k) ==
    LET t1 == AMScaleTypes[ti]          n == NDSeq[ni]
        size == AMTypeSize(t1)
        rot == ti + ni + 3 * k + ScaleSeed
        pr == AMPick(DensePairs(size), rot)
        w == VMin2(VMin2(pr[1], n), 2048)   stp == pr[2]   span == stp * (w - 1) + 1
        anchor == AMPick(<<"bottom", "mid", "top">>, ti + 2 * ni + k + ScaleSeed)
        o1 == IF size = 0 \/ anchor = "bottom" THEN 1 ELSE IF anchor = "top" THEN size - span + 1 ELSE (size - span) \div 2 + 1
        ga == [n |-> n, w |-> w, m |-> 1, s |-> IF (rot % 2) = 0 THEN w \div 3 ELSE 0, o |-> o1, st |-> stp, rev |-> FALSE,
               struct |-> AMPick(<<"cyclic", "runs">>, ni + k + ScaleSeed)]
        t2 == AMPick(AMFlagTypes, 2 * ti + ni + k + ScaleSeed)
        wf == IF t2 = "b1" THEN 2 ELSE AMPick(<<3, 8, 200, 2, 1>>, rot)
        gf == [n |-> n, w |-> wf, m |-> CoprimeFrom(wf), s |-> wf \div 2, o |-> 1, st |-> 1, rev |-> FALSE]
        p1 == IF size > 0 THEN "dense-bottom" ELSE "dense-" \o anchor
    IN [kind |-> "sdedup", ga |-> ga, gf |-> gf, rep |-> ScaleRep(t1, t2, p1, AMPick(AMBasicPlaces, rot), rot)]

ChooseScale ==
    /\ phase = "start" /\ DoExport /\ ShardIndex = 0
    /\ \E ti \in DOMAIN AMScaleTypes : \E k \in 1..ScaleReps :
          \/ \E ni \in DOMAIN N2Seq : /\ (IF N2Seq[ni] < 900000 THEN TRUE ELSE (ti + ni + k + ScaleSeed) % ScaleBigStride = 0)
                                       /\ st' = ScaleMatchCase(ti, ni, k)
          \/ \E ni \in DOMAIN NDSeq : st' = ScaleDedupCase(ti, ni, k)
    /\ phase' = "scase" /\ UNCHANGED c
\* every scale case of the design is admitted
ScaleDesignOK == phase = "scase" => AMScaleRepOK(st, st.rep)

\* every representation the design attaches is admitted for its case
RepDesignOK == phase \in {"mrep", "drep"} => \A k \in DOMAIN c.reps : AMRepOK(c, c.reps[k])

Next == ChooseA1 \/ ChooseA2 \/ ChooseArr \/ ChooseFlags
        \/ MSort \/ MGuard \/ MSearch \/ MClamp \/ MFilter
        \/ UBegin \/ UStep \/ UEnd \/ RBegin \/ RStep \/ REnd \/ ChooseGen

NextExport == ChooseA1 \/ ChooseA2 \/ ChooseArr \/ ChooseFlags \/ ChooseReps \/ ChooseScale
Spec == Init /\ [][Next]_vars

\* ---- export ----------------------------------------------------------------------------
Export == /\ (DoExport /\ phase \in {"mrep", "drep"}) => PrintT(<<"CASE", ToJson(c)>>)
          /\ (DoExport /\ phase = "scase") => PrintT(<<"SCALE", ToJson(st)>>)

\* the admitted choices, for the adapter's covering guard (printed once per run)
DesignRecord ==
    [pairs  |-> UNION {UNION {{<<t1, t2, AMPairPlaces(t1, t2)[i]>> : i \in DOMAIN AMPairPlaces(t1, t2)}
                              : t2 \in VRange(AMValueTypes)} : t1 \in VRange(AMValueTypes)},
     values |-> VRange(AMValueTypes), flags |-> VRange(AMFlagTypes), places |-> VRange(AMBasicPlaces),
     layouts |-> VRange(AMArrayLayouts), scalars |-> VRange(AMScalarLayouts) \cup {"list"}]
ASSUME DoExport => PrintT(<<"DESIGN", ToJson(DesignRecord)>>)
=============================================================================
