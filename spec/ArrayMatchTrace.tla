------------------------------- MODULE ArrayMatchTrace -------------------------------
(* Trace validation for C06: every recorded call of the real match / match_multi / *)
(* unique / rem_dup (abstract case + what the code returned, indices as returned,   *)
(* values mapped back through the realisation's injection) is judged by the         *)
(* property-level clauses of ArrayMatch.tla.  One ndjson line per record:           *)
(*   {"id": k, "c": <case>, "reps": [<representation>, ...], "obs": [...]}          *)
(* reps = the representations in which the case was executed (the observations are  *)
(* the distinct results over all of them): each must be one the specification       *)
(* admits for this case (AMRepOK) - a record that is not is the harness's fault.    *)
(* Rejected records are printed with <<observation number, function, failing       *)
(* clause>> triples.                                                                *)
EXTENDS ArrayMatch, Json, IOUtils

VARIABLES blk, tid
Traces == ndJsonDeserialize(IOEnv.TRACE_FILE)
NT == Len(Traces)
BlockSize == 256
NBlocks == (NT + BlockSize - 1) \div BlockSize

Init == blk = 0 /\ tid = 0
PickBlock == blk = 0 /\ tid = 0 /\ \E b \in 1..NBlocks : blk' = b /\ tid' = 0
PickTrace == blk > 0 /\ tid = 0
             /\ \E t \in ((blk - 1) * BlockSize + 1)..VMin2(blk * BlockSize, NT) : tid' = t /\ blk' = blk
Next == PickBlock \/ PickTrace

\* the result of a presorted / match_multi call must be THE result: as match is a
\* function of the case (the clauses pin it down) accepting each observation
\* separately already implies "gives the same result".
\* scale cases (arrays given by generators, results in compressed form) are judged through
\* the laws of ArrayMatch.tla, section "scale"; their representation is part of the case.
\* world sessions (a sequence of calls and caller steps in one process; one observation per step):
\* every call is judged for the contents its arguments had at the time of the call.
FailingRec(r) ==
    IF r.c.kind = "session"
    THEN AMSessionFailing(r.c, r.obs) \cup
         (IF AMSessionOK(r.c) THEN {} ELSE {<<1, "representation", "bad_representation">>})
    ELSE
    IF r.c.kind \in {"smatch", "sdedup"}
    THEN UNION {{<<k, r.obs[k].fn, cl>> : cl \in AMScaleFailing(r.c, r.obs[k])} : k \in DOMAIN r.obs} \cup
         (IF AMScaleRepOK(r.c, r.c.rep) THEN {} ELSE {<<1, "representation", "bad_representation">>})
    ELSE
    UNION {{<<k, r.obs[k].fn, cl>> : cl \in Failing(r.c, r.obs[k])} : k \in DOMAIN r.obs} \cup
    {<<k, "representation", "bad_representation">> : k \in {j \in DOMAIN r.reps : ~AMRepOK(r.c, r.reps[j])}}

Check == tid > 0 =>
    LET r == Traces[tid]  f == FailingRec(r)
    IN f = {} \/ PrintT(<<"REJECT", ToJson([id |-> r.id, failing |-> f])>>)
=============================================================================
