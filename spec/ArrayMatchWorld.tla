------------------------------- MODULE ArrayMatchWorld -------------------------------
(* The world machine of C06 (ArrayMatch.tla, section "world"): sessions of match /   *)
(* match_multi calls over a few array OBJECTS in one process, interleaved with the     *)
(* caller's own steps                                                                   *)
(*    Mutate   - the contents of an object are overwritten (a read-only view / memory  *)
(*               map: through the caller's writeable buffer / second map), after which *)
(*               the SAME object is passed again,                                       *)
(*    Replace  - an object is dropped and a new one takes its name (and address),       *)
(*    Scribble - the caller overwrites index arrays it was handed by an earlier call,   *)
(* and calls whose second argument is an object of the session (the same object twice). *)
(* The process state a mechanism may keep between calls is modelled explicitly:         *)
(*    memo  - what the mechanism remembers, store - result storage handed to the caller *)
(*  CacheMode = "none"         nothing is remembered (numpy_util.match as written)      *)
(*              "readonly_id"  the sort order of a read-only first array is remembered  *)
(*                             by object identity and re-used without looking at the    *)
(*                             contents (dropped when the object dies)                  *)
(*              "id_noweak"    ... of any first array, and not dropped at death         *)
(*              "share_result" results remembered by the CONTENTS of both arguments     *)
(*                             (a faithful key) but the remembered arrays themselves    *)
(*                             are handed out                                           *)
(* WorldFresh: every call of every session is accepted by the clauses of the statement  *)
(* for the contents at the time of the call (= its outcome in a fresh world).  "none"   *)
(* satisfies it; each of the other three violates it (self-tests of the adapter).       *)
(* With DoExport the sessions are exported (tlc -simulate: one per behaviour) and       *)
(* executed on the real code, each in ONE fresh process.                                *)
EXTENDS ArrayMatch, Json

CONSTANTS WNObj,       \* objects of a session
          WLens,       \* their lengths
          WVals,       \* their values
          WNProbes,    \* fresh second arrays: the first WNProbes of ProbeSeq
          WTypes, WPlaces, WKinds,   \* element types / placements / object kinds to choose from (sets)
          WDepth,      \* steps of a session
          WMinCalls,   \* exported sessions have at least this many calls
          Thin,        \* TRUE: caller steps choose among a few transforms of the current contents (simulation)
          CacheMode, DoExport

VARIABLES phase, sess, cur, outs, memo, store, slots
vars == <<phase, sess, cur, outs, memo, store, slots>>

NoSess == [t |-> "i8", p |-> "mid", objs |-> <<>>, steps |-> <<>>]
Init == /\ phase = "start" /\ sess = NoSess /\ cur = <<>> /\ outs = <<>> /\ memo = <<>> /\ store = <<>> /\ slots = <<>>

Contents(n) == [1..n -> WVals]
\* fresh second arrays: every value from below to above the objects' values (the most telling probe: each
\* value of the first array must be found, each other value must not), the same downwards and upwards
\* (repeats), a single value, three values with a repeat
WLo == (CHOOSE v \in WVals : \A w \in WVals : v <= w) - 1
WHi == (CHOOSE v \in WVals : \A w \in WVals : v >= w) + 1
WFull == [k \in 1..(WHi - WLo + 1) |-> WLo + k - 1]
ProbeSeq == <<WFull, [k \in DOMAIN WFull |-> WFull[Len(WFull) + 1 - k]] \o WFull, <<WHi - 1>>, <<WHi - 1, WLo + 1, WHi - 1>>>>
WProbes == {ProbeSeq[i] : i \in 1..WNProbes}
AllContents == UNION {Contents(n) : n \in WLens}

\* ---- the caller's choices -------------------------------------------------------------
WRev(a) == [k \in DOMAIN a |-> a[Len(a) + 1 - k]]
WRot(a) == [k \in DOMAIN a |-> a[(k % Len(a)) + 1]]
WSorted(a) == LET p == VStableArgsort(a) IN [k \in DOMAIN a |-> a[p[k]]]
WAbsent(a) == WVals \ VRange(a)
WFreshVal(a) == IF WAbsent(a) = {} THEN a[1] ELSE CHOOSE v \in WAbsent(a) : \A w \in WAbsent(a) : v <= w
WFreshTop(a) == IF WAbsent(a) = {} THEN a[1] ELSE CHOOSE v \in WAbsent(a) : \A w \in WAbsent(a) : v >= w
\* a few related contents: other orders of the same values, one value exchanged, a repeat
Trans(a) == {WRev(a), WRot(a), WSorted(a), WRev(WSorted(a)), [a EXCEPT ![1] = a[Len(a)]],
             [a EXCEPT ![1] = WFreshVal(a)], [a EXCEPT ![Len(a)] = WFreshTop(a)]}
SeedBase(n) == [k \in 1..n |-> VSortSet(WVals)[k]]
Seeds == UNION {{SeedBase(n)} \cup Trans(SeedBase(n)) \cup UNION {Trans(x) : x \in Trans(SeedBase(n))} : n \in WLens}
\* the session is set up in stages (few successors each: tlc -simulate draws one)
SetupRep ==
    /\ phase = "start"
    /\ \E t \in WTypes : \E p \in WPlaces : sess' = [sess EXCEPT !.t = t, !.p = p]
    /\ phase' = "kinds" /\ UNCHANGED <<cur, outs, memo, store, slots>>
SetupKinds ==
    /\ phase = "kinds"
    /\ \E ks \in [1..WNObj -> WKinds] : sess' = [sess EXCEPT !.objs = [i \in 1..WNObj |-> [kind |-> ks[i], a |-> <<>>]]]
    /\ phase' = "contents" /\ UNCHANGED <<cur, outs, memo, store, slots>>
\* contents of the next object: anything (Thin: a few seeds; a later object is a twin of the first - the same
\* contents, the same values in another order, one value exchanged)
SetupContents ==
    /\ phase = "contents"
    /\ \E a \in (IF ~Thin THEN AllContents ELSE IF cur = <<>> THEN Seeds ELSE Trans(cur[1]) \cup {cur[1]}) :
          /\ cur' = Append(cur, a)
          /\ sess' = [sess EXCEPT !.objs[Len(cur) + 1].a = a]
          /\ phase' = IF Len(cur) + 1 = WNObj THEN "run" ELSE "contents"
    /\ memo' = [i \in 1..WNObj |-> <<>>]
    /\ UNCHANGED <<outs, store, slots>>
Setup == SetupRep \/ SetupKinds \/ SetupContents

NewContents(a) == IF Thin THEN Trans(a) \ {a} ELSE Contents(Len(a)) \ {a}
ReplContents(a) ==
    IF Thin THEN Trans(a) \cup {a}
                 \cup (IF Len(a) + 1 \in WLens THEN {Append(a, WFreshVal(a))} ELSE {})
                 \cup (IF Len(a) - 1 \in WLens THEN {Tail(a)} ELSE {})
    ELSE AllContents

Fns(a) == {"match", "match_multi"} \cup (IF AMNonDecreasing(a) THEN {"match_presorted", "match_multi_presorted"} ELSE {})
IsPre(fn) == fn \in {"match_presorted", "match_multi_presorted"}
Step(op, o, fn, src, a) == [op |-> op, o |-> o, fn |-> fn, src |-> src, a |-> a]
NStep == Len(sess.steps) + 1
\* Thin sessions are sequences of turns: at most one caller step, then a call that looks at what it changed
LastOp == IF sess.steps = <<>> THEN "none" ELSE sess.steps[Len(sess.steps)].op
CallerMay == ~Thin \/ LastOp = "call"
CallMay(o) == ~Thin \/ LastOp \notin {"mutate", "replace"} \/ sess.steps[Len(sess.steps)].o = o
NCalls == Cardinality({k \in DOMAIN sess.steps : sess.steps[k].op = "call"})

\* ---- the mechanism ---------------------------------------------------------------------
Rejected(fn, a1) == [fn |-> fn, err |-> "rejected", i1 |-> <<>>, i2 |-> <<>>, vals |-> a1]
\* numpy_util.match with sort order s (its own, or a remembered one)
Search(fn, a1, a2, s) ==
    LET sub == [j \in DOMAIN a2 |-> AMSearchLeft(a1, s, a2[j])]
        out == AMFilter(a1, a2, s, AMClamp(a1, a2, sub, FALSE, "code"))
    IN [out EXCEPT !.fn = fn, !.vals = a1]
OwnOrder(fn, a1) == IF IsPre(fn) THEN AMIota(Len(a1)) ELSE CHOOSE p \in AMSortPerms(a1) : TRUE
FreshResult(fn, a1, a2) == IF AMHasRepeats(a1) THEN Rejected(fn, a1) ELSE Search(fn, a1, a2, OwnOrder(fn, a1))

Call ==
    /\ phase = "run" /\ NStep <= WDepth
    /\ \E o \in {x \in 1..WNObj : CallMay(x)} : \E fn \in Fns(cur[o]) : \E src \in 0..WNObj : \E a \in (IF src = 0 THEN WProbes ELSE {<<>>}) :
         LET a1 == cur[o]
             a2 == IF src = 0 THEN a ELSE cur[src]
             byid == ~IsPre(fn) /\ (CacheMode = "id_noweak" \/ (CacheMode = "readonly_id" /\ sess.objs[o].kind # "rw"))
             hit == byid /\ Len(memo[o]) = Len(a1)
             shared == IF CacheMode = "share_result"
                       THEN {k \in DOMAIN sess.steps : /\ sess.steps[k].op = "call" /\ outs[k].vals = a1
                                                       /\ outs[k].fn = fn /\ slots[k] > 0 /\ store[slots[k]].a2 = a2}
                       ELSE {}
             res == IF shared # {} THEN store[slots[CHOOSE k \in shared : TRUE]].out
                    ELSE IF hit THEN Search(fn, a1, a2, memo[o])
                    ELSE FreshResult(fn, a1, a2)
         IN /\ sess' = [sess EXCEPT !.steps = Append(@, Step("call", o, fn, src, a))]
            /\ outs' = Append(outs, res)
            /\ memo' = IF byid /\ ~hit /\ res.err = "none" THEN [memo EXCEPT ![o] = OwnOrder(fn, a1)] ELSE memo
            /\ IF shared # {} THEN /\ slots' = Append(slots, slots[CHOOSE k \in shared : TRUE]) /\ UNCHANGED store
               ELSE /\ store' = Append(store, [a2 |-> a2, out |-> res]) /\ slots' = Append(slots, Len(store) + 1)
    /\ UNCHANGED <<phase, cur>>

StepObs == [fn |-> "step", err |-> "none", i1 |-> <<>>, i2 |-> <<>>, vals |-> <<>>]

Mutate ==
    /\ phase = "run" /\ NStep <= WDepth /\ CallerMay
    /\ \E o \in 1..WNObj : \E a \in NewContents(cur[o]) :
         /\ sess' = [sess EXCEPT !.steps = Append(@, Step("mutate", o, "", 0, a))]
         /\ cur' = [cur EXCEPT ![o] = a]
    /\ outs' = Append(outs, StepObs) /\ slots' = Append(slots, 0)
    /\ UNCHANGED <<phase, memo, store>>

Replace ==
    /\ phase = "run" /\ NStep <= WDepth /\ CallerMay
    /\ \E o \in 1..WNObj : \E a \in ReplContents(cur[o]) :
         /\ sess' = [sess EXCEPT !.steps = Append(@, Step("replace", o, "", 0, a))]
         /\ cur' = [cur EXCEPT ![o] = a]
         \* the dead object's entry is dropped - unless the mechanism does not notice deaths
         /\ memo' = IF CacheMode = "id_noweak" THEN memo ELSE [memo EXCEPT ![o] = <<>>]
    /\ outs' = Append(outs, StepObs) /\ slots' = Append(slots, 0)
    /\ UNCHANGED <<phase, store>>

\* the caller overwrites the arrays it was handed by step k (they are the caller's): the storage
\* behind them changes - which nobody notices unless the mechanism kept it
Garbage(out) == [out EXCEPT !.i1 = [j \in DOMAIN @ |-> 9], !.i2 = [j \in DOMAIN @ |-> 9]]
Scribble ==
    /\ phase = "run" /\ NStep <= WDepth /\ CallerMay
    /\ \E k \in DOMAIN sess.steps :
         /\ sess.steps[k].op = "call"
         /\ sess' = [sess EXCEPT !.steps = Append(@, Step("scribble", k, "", 0, <<>>))]
         /\ store' = [store EXCEPT ![slots[k]].out = Garbage(@)]
    /\ outs' = Append(outs, StepObs) /\ slots' = Append(slots, 0)
    /\ UNCHANGED <<phase, cur, memo>>

Finish ==
    /\ phase = "run" /\ NStep > WDepth /\ DoExport /\ NCalls >= WMinCalls
    /\ phase' = "done" /\ UNCHANGED <<sess, cur, outs, memo, store, slots>>

Next == Setup \/ Call \/ Mutate \/ Replace \/ Scribble \/ Finish
Spec == Init /\ [][Next]_vars

\* ---- the invariant of the world ----------------------------------------------------------
WorldFresh == phase \in {"run", "done"} => AMSessionFailing(sess, outs) = {}
SessionsOK == phase \in {"run", "done"} => AMSessionOK(sess)
\* the bookkeeping of the machine agrees with the session semantics of ArrayMatch.tla
CurIsFold == phase \in {"run", "done"} => cur = AMWBefore(AMWContents0(sess), sess.steps, Len(sess.steps) + 1)

Export == (DoExport /\ phase = "done") => PrintT(<<"SESSION", ToJson(sess)>>)
=============================================================================
