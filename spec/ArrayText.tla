------------------------------- MODULE ArrayText -------------------------------
(* Extension X06: text rendering of structured arrays (numpy_util.ArrayWriter, aprint,   *)
(* arr2str / ArrayStringifier, compare_arrays, ahelp) and the small helpers of           *)
(* esutil.random that no listed property covers (randind, srandu, Normal, NormalND,      *)
(* LogNormal, get_dist, CutGenerator, random_indices).                                    *)
(*                                                                                        *)
(* The contract, clause by clause, with the docstring line each clause comes from.        *)
(*                                                                                        *)
(* PART A - rendering (numpy_util.py)                                                     *)
(*  A1 "recarrays are written in columns" / aprint: "Print out the rows and columns of    *)
(*     the array with fields": one line per printed row, the fields in dtype order.        *)
(*  A2 "fields or columns: Only print a subset of the fields": the named fields, in the    *)
(*     order given; a name that is no field cannot be printed (rejection).                 *)
(*  A3 "delim: The delimiter between fields" (default ' ').                                *)
(*  A4 "array_delim: The delimiter between sub-array elements"; "bracket_arrays: Put       *)
(*     brackets in place to delineate dimensional boundies. e.g. {{a,b,c},{d,e,f}}".       *)
(*     The default of array_delim is stated as ' ' in the constructor line, as ',' for     *)
(*     fancy printing, and the code derives it from delim / brackets: every one of these   *)
(*     readings is accepted when array_delim was never given.                              *)
(*  A5 "NOTE: All the keywords for the constructor can also be sent to the write()         *)
(*     method, but note that constructor keywords will "stick"": a constructor keyword     *)
(*     stays in force for every write() that does not give that keyword itself.  Whether   *)
(*     a keyword given to an earlier write() sticks is not said: both readings accepted.   *)
(*  A6 "nlines: Print only the top N lines.  Default is to print all."  (N larger than     *)
(*     the table: the top N lines of a shorter table are all its lines.)                   *)
(*  A7 "header: ... If the input is a string, it is written as the header followed by a    *)
(*     new line.  If it is boolean True, a header is generated with the column names.      *)
(*     For fancy printing there is always a header."  "altnames: ... There must be an      *)
(*     entry for each field to be printed." (wrong length: rejection allowed)              *)
(*  A8 "trailer: Text to print after the array data."                                      *)
(*  A9 "format: A format string to apply to every argument.  E.g. format='%15s'" (the      *)
(*     example output shows the names of a header formatted the same way).                 *)
(* A10 "If 'fancy' print with a visually appealing format. The delim keyword is ignored    *)
(*     and arrays are always bracketed."  "If type='fancy', the default array_delim is     *)
(*     ','".  "title: A title to place above the printout when using fancy printing."      *)
(*     "altnames: ... The names are printed above each column when doing fancy printing."  *)
(*     The docstring example fixes the shape: names line, a rule of '-' with '+' under     *)
(*     the '|' column separators, one line per row with '|' between the fields, the        *)
(*     separators of all lines in the same character columns.                              *)
(* A11 "If 'latex' print a latex table such that the delimiter is '&' and the lines end    *)
(*     in latex continuations. ... Currently this just prints the data part of the table"  *)
(*     (whether the last line carries a continuation, blanks around '&', and what          *)
(*     nlines / header / trailer do for latex is not said: accepted either way).           *)
(* A12 "file: File name or file object to use for printing" / "Send results to this file   *)
(*     rather than standard output"; "page: If True, send the output to a pager".          *)
(*     The output of a call goes to that destination and nowhere else; after close() a     *)
(*     named file holds everything written, each write() appending to what was there.      *)
(* A13 The printed tokens are the values: an integer token parses to the stored integer,   *)
(*     a float token parses back to the stored float (numpy's str() round-trips; with a    *)
(*     '%.3f' format to 0.5e-3), a unicode string is printed verbatim (a bytes string       *)
(*     verbatim or as python shows it, b'..': the documentation predates python 3).        *)
(* A14 ArrayStringifier "Stringify a simple array using a delimiter and possibly           *)
(*     brackets" (arr2str: delim=',' brackets=False).                                      *)
(* A15 compare_arrays "Compare the values field-by-field ... Return true if the data       *)
(*     match."  "ignore_missing: Default True.  Ignore fields not found in both arrays."   *)
(*     "verbose:  By default the program is silent.  set verbose=True to print info        *)
(*     about each field."                                                                  *)
(* A16 ahelp "size: 1147506  nfields: 27  type: records" then per field, in order,         *)
(*     "  run   >i4  1933" / "  tai   >f8  array[5]": name, type string, and for a         *)
(*     sub-array field its shape.                                                          *)
(*  Not in the code although aprint's docstring lists it (leads, never verdicts): nformat; *)
(*  "If formatting fails, a simple '%s' is used for the names"; fields by index number     *)
(*  (in the code, not in the documentation).                                               *)
(*                                                                                        *)
(* PART B - esutil.random helpers (random.py)                                             *)
(*  B1 random_indices "Get a unique random selection of indices in [0,imax)"; "unique: If  *)
(*     False, the sample will have replacement, and nrand can be greater than imax";       *)
(*     "seed: A seed to create a new rng"; "rng: Optional random number generator".        *)
(*  B2 randind "Generate random indices, with replacement, in the open interval [0,nmax)"; *)
(*     "nmax: Indices will be generated to nmax-1"; "nrand: Number of randoms to create";  *)
(*     "dtype: If not sent, will be unsigned 8-byte integer if nmax > 2**32-1 else will    *)
(*     be unsigned 4-byte."                                                                *)
(*  B3 srandu "Generate random numbers in the symmetric distribution [-1,1]".              *)
(*  B4 Normal "mean, sigma"; "lnprob(x): Get the natural logarithm of the probability of   *)
(*     x.  x can be an array"; "prob(x)"; get_max "Get maximum value of this               *)
(*     distribution" = 1, get_max_lnprob = 0, get_mode "location of the peak": the         *)
(*     normalisation is prob(mean) = 1, so lnprob(x) = -((x-mean)/sigma)^2 / 2 exactly.    *)
(*     "sample(nrand): Get nrand random deviates from the distribution".                   *)
(*  B5 NormalND "Currently no covariance": the sum of the one-dimensional terms.           *)
(*  B6 LogNormal "mean: such that <x> in linear space is mean ... sigma: such than the     *)
(*     variace in linear space is sigma**2" - the lognormal density with                   *)
(*     var(log x) = log(1 + sigma^2/mean^2), <log x> = log(mean) - var/2.  Rational        *)
(*     consequences when 1 + sigma^2/mean^2 = (a/b)^2: the median is mean*b/a ("If z is    *)
(*     drawn from a normal random distribution, then exp(logmean+logsigma*z) is drawn      *)
(*     from lognormal": z = 0 gives the median), the mode is mean*b^3/a^3, and             *)
(*     prob(median*t) * t^2 = prob(median/t).  "prob(x): x can be an array and can go < 0  *)
(*     since no logs are taken" (the density is 0 there).                                  *)
(*  B7 get_dist: 'normal' / 'lognormal' (case-insensitive in the code), else rejection.    *)
(*  B8 CutGenerator "Points are generated in the plane [xmin,xmax] [0,max(pofx)] and       *)
(*     points below the curve are kept"; "numrand: The number of randoms to generate";     *)
(*     "seed: the seed for the random number generator".                                   *)
(* Where a clause needs a real number the harness projects the observation onto the        *)
(* lattice of exact values (denominator given by the case) and this module demands the     *)
(* exact rational.                                                                         *)
EXTENDS VU

\* ===================================================================== PART A
\* field   == [nm |-> STRING, cls |-> "i"|"f"|"s", sk |-> "-"|"S"|"U", shape |-> Seq(Nat\{0})]
\* table   == [nrows |-> Nat, fields |-> Seq(field)]
\* options == [typ, fancy, delim, adelim, bracket : STRING ("-" = keyword not given),
\*             hdr |-> "-"|"T"|"F"|"S", hdrtext, sel |-> [key, form, idx], alt |-> [given, names],
\*             trailer |-> [given, text], title |-> [given, text], nlines |-> [given, n],
\*             fmt |-> [kind |-> "-"|"s"|"f3", width, left], nfmt |-> same]
\* history == [entry |-> "writer"|"aprint", target |-> "obj"|"name"|"stdout"|"page", ctor |-> options,
\*             calls |-> Seq([tab, o, err, lines, stray]), close |-> [err, chain]]
\* line    == [raw, core, strip : STRING, bars |-> Seq(Nat), rule |-> BOOLEAN,
\*             words |-> Seq([s, r, f, k, how])]      (r,f,k) = the table cell the word parses to, 0 = none
ATGiven(v) == v # "-"

RECURSIVE ATProd(_)
ATProd(sh) == IF sh = <<>> THEN 1 ELSE Head(sh) * ATProd(Tail(sh))

RECURSIVE ATSp(_)
ATSp(n) == IF n <= 0 THEN "" ELSE " " \o ATSp(n - 1)

RECURSIVE ATJoin(_, _)
ATJoin(ss, d) == IF ss = <<>> THEN "" ELSE IF Len(ss) = 1 THEN ss[1] ELSE ss[1] \o d \o ATJoin(Tail(ss), d)

\* a string without its blanks
RECURSIVE ATStrip(_)
ATStrip(s) == IF s = "" THEN "" ELSE LET h == SubSeq(s, 1, 1) t == ATStrip(SubSeq(s, 2, Len(s))) IN IF h = " " THEN t ELSE h \o t

ATNoWord == "<?>"
\* the text printed for cell (r, f, k) on this line (the harness bound the word to the cell by parsing it)
ATWord(ln, r, f, k) ==
    LET S == {j \in DOMAIN ln.words : ln.words[j].r = r /\ ln.words[j].f = f /\ ln.words[j].k = k}
    IN IF S = {} THEN ATNoWord ELSE ln.words[VSetMin(S)].s

\* A4 / A14: the elements row-major, the delimiter between neighbours at every level, brackets per dimension
RECURSIVE ATArr(_, _, _, _, _, _, _)
ATArr(ln, r, f, sh, off, A, B) ==
    LET d == Head(sh)
        rest == Tail(sh)
        blk == ATProd(rest)
        el(i) == IF rest = <<>> THEN ATWord(ln, r, f, off + i) ELSE ATArr(ln, r, f, rest, off + (i - 1) * blk, A, B)
        body == ATJoin([i \in 1..d |-> el(i)], A)
    IN IF B THEN "{" \o body \o "}" ELSE body

ATFieldStr(ln, tab, r, f, A, B) ==
    IF tab.fields[f].shape = <<>> THEN ATWord(ln, r, f, 1) ELSE ATArr(ln, r, f, tab.fields[f].shape, 0, A, B)

\* A9: '%Ns' / '%-Ns' / '%N.3f' pad to the width
ATPad(fmt, s) == IF fmt.kind = "-" THEN s
                 ELSE LET p == ATSp(fmt.width - Len(s)) IN IF fmt.left THEN s \o p ELSE p \o s

ATRowStr(ln, tab, sel, r, D, A, B, fmt) ==
    ATJoin([j \in 1..Len(sel) |-> ATPad(fmt, ATFieldStr(ln, tab, r, sel[j], A, B))], D)

\* A13: how a word may stand for the cell it is bound to
ATHowOK(tab, fmt, w) ==
    LET fd == tab.fields[w.f] IN
    \/ fd.cls = "i" /\ w.how = "int"
    \/ fd.cls = "f" /\ (w.how = "flt" \/ (fmt.kind = "f3" /\ w.how = "flt3"))
    \/ fd.cls = "s" /\ (w.how = "str" \/ (fd.sk = "S" /\ w.how = "bstr"))

\* ---- A2: the fields to print ------------------------------------------------------
ATSel(tab, w) == IF ATGiven(w.sel.key) THEN w.sel.idx ELSE [j \in 1..Len(tab.fields) |-> j]
ATSelBad(tab, w) == \E j \in DOMAIN ATSel(tab, w) : ATSel(tab, w)[j] \notin 1..Len(tab.fields)
ATSelDup(tab, w) == \E j, k \in DOMAIN ATSel(tab, w) : j # k /\ ATSel(tab, w)[j] = ATSel(tab, w)[k]     \* not a "subset"
ATAltOK(tab, w) == w.alt.given /\ Len(w.alt.names) = Len(ATSel(tab, w))
ATName(tab, w, j) == IF ATAltOK(tab, w) THEN w.alt.names[j] ELSE tab.fields[ATSel(tab, w)[j]].nm

\* ---- A5: which keyword values may be in force at write number i -------------------
ATPrev(H, i, key) == {H.calls[j].o[key] : j \in {n \in 1..(i - 1) : ATGiven(H.calls[n].o[key])}}
ATFancyFlag(H, i) == H.ctor.fancy = "T" \/ \E j \in 1..i : H.calls[j].o.fancy = "T"
ATTypGiven(H, i) == ATGiven(H.ctor.typ) \/ \E j \in 1..i : ATGiven(H.calls[j].o.typ)
ATTypeSet(H, i) ==
    LET w == H.calls[i].o  c == H.ctor
        base == IF ATGiven(w.typ) THEN {w.typ}
                ELSE {IF ATGiven(c.typ) THEN c.typ ELSE "table"} \cup ATPrev(H, i, "typ")
    IN IF ATFancyFlag(H, i) /\ ~ATTypGiven(H, i) THEN {"fancy"}
       ELSE base \cup (IF ATFancyFlag(H, i) THEN {"fancy"} ELSE {})
\* types that may have been in force before write i (the code lets some of their settings leak)
ATEverType(H, i) == UNION {ATTypeSet(H, j) : j \in 1..(i - 1)} \cup
                    (IF ATGiven(H.ctor.typ) THEN {H.ctor.typ} ELSE {}) \cup (IF H.ctor.fancy = "T" THEN {"fancy"} ELSE {})
ATLatexDelims == {" & ", "&", "& ", " &"}
ATDelimSet(H, i, typ) ==
    LET w == H.calls[i].o  c == H.ctor IN
    IF typ = "latex" THEN ATLatexDelims
    ELSE IF typ = "fancy" THEN {"|"}
    ELSE IF ATGiven(w.delim) THEN {w.delim}
    ELSE {IF ATGiven(c.delim) THEN c.delim ELSE " "} \cup ATPrev(H, i, "delim")
         \cup (IF "latex" \in ATEverType(H, i) THEN {" & "} ELSE {})
ATBracketSet(H, i, typ) ==
    LET w == H.calls[i].o  c == H.ctor IN
    IF typ = "fancy" THEN {TRUE}
    ELSE IF ATGiven(w.bracket) THEN {w.bracket = "T"}
    ELSE {IF ATGiven(c.bracket) THEN c.bracket = "T" ELSE FALSE} \cup {b = "T" : b \in ATPrev(H, i, "bracket")}
         \cup (IF "fancy" \in ATEverType(H, i) THEN {TRUE} ELSE {})
\* every delimiter a reading of A3/A5 may have in force (the derived default of array_delim follows it)
ATAnyDelim(H, i) == {" "} \cup (IF ATGiven(H.ctor.delim) THEN {H.ctor.delim} ELSE {}) \cup ATPrev(H, i + 1, "delim")
ATAdelimSet(H, i, typ, D, B) ==
    LET w == H.calls[i].o  c == H.ctor
        dflt == IF typ = "fancy" THEN {","} ELSE {" ", ","} \cup ATAnyDelim(H, i) \cup {D}
        leak == IF typ = "latex" \/ "latex" \in ATEverType(H, i) THEN {" "} ELSE {}
    IN IF ATGiven(w.adelim) THEN {w.adelim} \cup (IF typ = "latex" THEN {" "} ELSE {})
       ELSE (IF ATGiven(c.adelim) THEN {c.adelim} ELSE dflt) \cup ATPrev(H, i, "adelim") \cup leak
\* A6
ATNPrint(tab, w, typ) ==
    IF ~w.nlines.given THEN {tab.nrows}
    ELSE {VMin2(w.nlines.n, tab.nrows)} \cup (IF typ = "latex" THEN {tab.nrows} ELSE {})

ATCands(H, i) ==
    LET tab == H.calls[i].tab  w == H.calls[i].o IN
    UNION {UNION {UNION {{[typ |-> t, D |-> d, B |-> b, A |-> a, np |-> n] :
                            a \in ATAdelimSet(H, i, t, d, b), n \in ATNPrint(tab, w, t)} :
                         b \in ATBracketSet(H, i, t)} : d \in ATDelimSet(H, i, t)} : t \in ATTypeSet(H, i)}

\* ---- what one candidate reading demands of the lines of a call ----------------------
ATValueFail(tab, fmt, L, from, n) ==
    IF \E q \in from..(from + n - 1) : \E j \in DOMAIN L[q].words : L[q].words[j].r > 0 /\ ~ATHowOK(tab, fmt, L[q].words[j])
    THEN {"value"} ELSE {}

ATTableFail(tab, w, cd, L) ==
    LET sel == ATSel(tab, w)
        hN == IF w.hdr \in {"T", "S"} THEN 1 ELSE 0
        tN == IF w.trailer.given THEN 1 ELSE 0
    IN IF Len(L) # hN + cd.np + tN THEN {"line_count"}
       ELSE (IF w.hdr = "S" /\ L[1].raw # w.hdrtext THEN {"header"} ELSE {}) \cup
            (IF w.hdr = "T" /\ w.nfmt.kind = "-"
                /\ L[1].raw # ATJoin([j \in 1..Len(sel) |-> ATPad(w.fmt, ATName(tab, w, j))], cd.D) THEN {"header"} ELSE {}) \cup
            (IF \E r \in 1..cd.np : L[hN + r].raw # ATRowStr(L[hN + r], tab, sel, r, cd.D, cd.A, cd.B, w.fmt) THEN {"row"} ELSE {}) \cup
            ATValueFail(tab, w.fmt, L, hN + 1, cd.np) \cup
            (IF tN = 1 /\ L[Len(L)].raw # w.trailer.text THEN {"trailer"} ELSE {})

\* A10: blanks are layout; the structure is compared without them, the layout by the separator columns
ATFancyFail(tab, w, cd, L) ==
    LET sel == ATSel(tab, w)
        uN == IF w.title.given THEN 1 ELSE 0
        tN == IF w.trailer.given THEN 1 ELSE 0
        h == uN + 1
        nofmt == [kind |-> "-", width |-> 0, left |-> FALSE]
        body == (h + 2)..(h + 1 + cd.np)
    IN IF Len(L) # uN + 2 + cd.np + tN THEN {"line_count"}
       ELSE (IF uN = 1 /\ L[1].strip # w.title.text THEN {"title"} ELSE {}) \cup
            (IF L[h].core # ATJoin([j \in 1..Len(sel) |-> ATName(tab, w, j)], "|") THEN {"header"} ELSE {}) \cup
            (IF ~L[h + 1].rule THEN {"rule"} ELSE {}) \cup
            (IF \E q \in body : L[q].core # ATRowStr(L[q], tab, sel, q - h - 1, "|", ATStrip(cd.A), TRUE, nofmt) THEN {"row"} ELSE {}) \cup
            ATValueFail(tab, nofmt, L, h + 2, cd.np) \cup
            (IF Len(L[h].bars) # Len(sel) - 1 \/ \E q \in body \cup {h + 1} : L[q].bars # L[h].bars THEN {"aligned"} ELSE {}) \cup
            (IF tN = 1 /\ L[Len(L)].strip # w.trailer.text THEN {"trailer"} ELSE {})

ATBackslashes == "\\\\"          \* the two characters of a latex line continuation
ATLatexFail(tab, w, cd, L) ==
    LET sel == ATSel(tab, w)
        row(q) == ATRowStr(L[q], tab, sel, q, cd.D, cd.A, cd.B, w.fmt)
        ends(q) == {row(q) \o " " \o ATBackslashes, row(q) \o ATBackslashes} \cup (IF q = cd.np THEN {row(q)} ELSE {})
    IN IF Len(L) # cd.np THEN {"line_count"}
       ELSE (IF \E q \in 1..cd.np : L[q].raw \notin ends(q) THEN {"row"} ELSE {}) \cup ATValueFail(tab, w.fmt, L, 1, cd.np)

ATFailWith(H, i, cd) ==
    LET call == H.calls[i] IN
    IF cd.typ = "fancy" THEN ATFancyFail(call.tab, call.o, cd, call.lines)
    ELSE IF cd.typ = "latex" THEN ATLatexFail(call.tab, call.o, cd, call.lines)
    ELSE ATTableFail(call.tab, call.o, cd, call.lines)

\* ---- rejections -----------------------------------------------------------------------
ATSelScalarFloat(tab, w) == \A j \in DOMAIN ATSel(tab, w) :
    ATSel(tab, w)[j] \in 1..Len(tab.fields) /\ LET fd == tab.fields[ATSel(tab, w)[j]] IN fd.cls = "f" /\ fd.shape = <<>>
\* nothing is demanded of these calls (the documentation does not say what they do)
ATUnconstrained(H, i) ==
    LET tab == H.calls[i].tab  w == H.calls[i].o  T == ATTypeSet(H, i) IN
    \/ ATSel(tab, w) = <<>>
    \/ ATSelDup(tab, w) /\ "fancy" \in T
    \/ w.sel.form = "index" /\ "fancy" \in T                    \* index numbers: in the code of the table type only, undocumented
    \/ w.fmt.kind = "f3" /\ ~ATSelBad(tab, w) /\ (~ATSelScalarFloat(tab, w) \/ w.hdr = "T" \/ "fancy" \in T)
    \/ "latex" \in T /\ (w.hdr \in {"T", "S"} \/ w.trailer.given \/ w.title.given \/ w.alt.given \/ w.nfmt.kind # "-")
    \/ "fancy" \notin T /\ w.title.given
    \/ "fancy" \in T /\ w.hdr \in {"S", "F"}
    \/ w.alt.given /\ ~ATAltOK(tab, w) /\ ("fancy" \in T \/ w.hdr = "T")     \* A7: "There must be an entry for each field"
\* A2: a name that is no field cannot be printed - demanded when a row of it would have to be printed
ATMustReject(H, i) ==
    LET tab == H.calls[i].tab  w == H.calls[i].o IN
    ATSelBad(tab, w) /\ tab.nrows > 0 /\ ~(w.nlines.given /\ w.nlines.n = 0)
ATMayReject(H, i) ==
    LET tab == H.calls[i].tab  w == H.calls[i].o IN
    \/ w.alt.given /\ ~ATAltOK(tab, w)
    \/ w.sel.form = "index"
    \/ ATSelDup(tab, w)

ATStrayOK(H, i) == \/ ~H.calls[i].stray
                   \/ H.target = "stdout"
                   \/ H.target = "page" /\ "latex" \in ATTypeSet(H, i)

\* which reading to blame when none fits: the one that fails the fewest clauses, a wrong number of lines counting most
ATWeight(f) == Cardinality(f) + (IF "line_count" \in f THEN 10 ELSE 0)
ATBest(H, i) == LET F == {ATFailWith(H, i, cd) : cd \in ATCands(H, i)} IN CHOOSE f \in F : \A g \in F : ATWeight(f) <= ATWeight(g)
ATFailingCall(H, i) ==
    LET call == H.calls[i]
        out == IF ATUnconstrained(H, i) THEN {}
               ELSE IF ATMustReject(H, i) THEN (IF call.err = "none" THEN {"not_rejected"} ELSE {})
               ELSE IF ATSelBad(call.tab, call.o) THEN {}
               ELSE IF call.err # "none" THEN (IF ATMayReject(H, i) THEN {} ELSE {"rejected"})
               ELSE IF \E cd \in ATCands(H, i) : ATFailWith(H, i, cd) = {} THEN {}
               \* none fits.  Diagnosis (it names the clause, the verdict stands): if the rows are what the call would print
               \* had the constructor never been given array_delim, say so instead of "row"
               ELSE LET f1 == ATBest(H, i)
                        f2 == ATBest([H EXCEPT !.ctor.adelim = "-"], i)
                    IN IF ATGiven(H.ctor.adelim) /\ "row" \in f1 /\ "row" \notin f2 /\ "line_count" \notin f2
                       THEN f2 \cup {"constructor_array_delim_ignored"} ELSE f1
    IN out \cup (IF ATStrayOK(H, i) THEN {} ELSE {"stray_output"})

\* leads: documented in aprint's docstring but not in the code / in the code but not documented
ATLeadsCall(H, i) ==
    LET call == H.calls[i]  tab == call.tab  w == call.o  sel == ATSel(tab, w)  L == call.lines IN
    (IF w.nfmt.kind # "-" /\ w.hdr = "T" /\ ATTypeSet(H, i) = {"table"} /\ ~ATSelBad(tab, w) /\ sel # <<>>
        /\ (call.err # "none" \/ L = <<>> \/
            \A d \in ATDelimSet(H, i, "table") : L[1].raw # ATJoin([j \in 1..Len(sel) |-> ATPad(w.nfmt, ATName(tab, w, j))], d))
     THEN {"nformat_not_applied"} ELSE {}) \cup
    (IF w.fmt.kind = "f3" /\ w.hdr = "T" /\ ATSelScalarFloat(tab, w) /\ call.err # "none" THEN {"format_fallback_for_names"} ELSE {}) \cup
    (IF w.sel.form = "index" /\ ~ATSelBad(tab, w) /\ call.err # "none" /\ tab.nrows > 0 /\ ~(w.nlines.given /\ w.nlines.n > tab.nrows)
     THEN {IF "fancy" \in ATTypeSet(H, i) THEN "fields_by_index_rejected_fancy" ELSE "fields_by_index_rejected"} ELSE {})

\* A12: close() completes a named file; every prefix of the history left a prefix of the final text
ATFailingClose(H) ==
    (IF H.close.err # "none" THEN {"close_rejected"} ELSE {}) \cup (IF ~H.close.chain THEN {"file_not_appended"} ELSE {})

ATIdx(i) == <<"1", "2", "3", "4", "5", "6", "7", "8", "9">>[VMin2(i, 9)]
ATFailingHist(H) ==
    UNION {{ATIdx(i) \o ":" \o cl : cl \in ATFailingCall(H, i)} : i \in DOMAIN H.calls} \cup
    {"0:" \o cl : cl \in ATFailingClose(H)} \cup
    UNION {{"nongating/" \o ATIdx(i) \o ":" \o cl : cl \in ATLeadsCall(H, i)} : i \in DOMAIN H.calls}

\* ---- A14: arr2str / ArrayStringifier ---------------------------------------------------
\* c == [shape, delim, brackets], o == [err, line]   (the elements are bound to cells (1, 1, k))
ATA2sFailing(c, o) ==
    IF c.shape = <<>> \/ ATProd(c.shape) = 0 THEN {}                  \* 0-d / empty: nothing said
    ELSE IF o.err # "none" THEN {"rejected"}
    ELSE (IF o.line.raw # ATArr(o.line, 1, 1, c.shape, 0, c.delim, c.brackets) THEN {"text"} ELSE {}) \cup
         (IF \E j \in DOMAIN o.line.words : o.line.words[j].how \notin {"int", "flt", "str"} THEN {"value"} ELSE {})

\* ---- A15: compare_arrays ------------------------------------------------------------------
\* c == [a, b : [nrows, fields : Seq([nm, shape, vals])], verbose, ignore_missing], o == [err, res, nout, mentioned]
ATCmpNames(t) == {t.fields[j].nm : j \in DOMAIN t.fields}
ATCmpField(t, n) == t.fields[CHOOSE j \in DOMAIN t.fields : t.fields[j].nm = n]
ATCmpExpected(c) ==
    /\ c.ignore_missing \/ ATCmpNames(c.a) = ATCmpNames(c.b)
    /\ \A n \in ATCmpNames(c.a) \cap ATCmpNames(c.b) :
          /\ c.a.nrows = c.b.nrows
          /\ ATCmpField(c.a, n).shape = ATCmpField(c.b, n).shape
          /\ ATCmpField(c.a, n).vals = ATCmpField(c.b, n).vals
ATCmpFailing(c, o) ==
    IF o.err # "none" THEN {"rejected"}
    ELSE (IF o.res # ATCmpExpected(c) THEN {IF ATCmpExpected(c) THEN "false_for_matching_data" ELSE "true_for_differing_data"} ELSE {}) \cup
         (IF ~c.verbose /\ o.nout > 0 THEN {"not_silent"} ELSE {}) \cup
         (IF c.verbose /\ \E n \in ATCmpNames(c.a) \cap ATCmpNames(c.b) : n \notin VRange(o.mentioned) THEN {"verbose_field_missing"} ELSE {})

\* ---- A16: ahelp ------------------------------------------------------------------------------
\* c == [tab (fields carry ts, the numpy type string), pretty], o == [err, size, nfields, typ, fields]
\* o.fields[j]: was the name of field j found (as a blank-separated token, after the name of field j-1)?  then ts = the
\* token after it, dims = the integers in the rest of the text up to the next field's name
ATAhelpFailing(c, o) ==
    LET nf == Len(c.tab.fields) IN
    IF c.tab.nrows = 0 THEN {}                                          \* the example value of row `index` does not exist
    ELSE IF o.err # "none" THEN {"rejected"}
    ELSE (IF o.size # c.tab.nrows THEN {"top_size"} ELSE {}) \cup
         (IF o.nfields # nf THEN {"top_nfields"} ELSE {}) \cup
         (IF o.typ # "records" THEN {"top_type"} ELSE {}) \cup
         (IF \E j \in 1..nf : ~o.fields[j].found THEN {"field_names_in_order"}
          ELSE (IF \E j \in 1..nf : o.fields[j].ts # c.tab.fields[j].ts THEN {"field_types"} ELSE {}) \cup
               (IF \E j \in 1..nf : c.tab.fields[j].shape # <<>> /\ o.fields[j].dims # c.tab.fields[j].shape
                THEN {"field_shapes"} ELSE {}))

\* ===================================================================== PART B
\* rationals are <<n, d>> (VU); an observed real is [1, <<n, d>>] (on the case's lattice) or [0, <<0, 1>>] (off)
ATOn(p, q) == p[1] = 1 /\ REq(p[2], q)
ATIsOn(p) == p[1] = 1

\* ---- B1 random_indices: c == [imax, n, unique], o == [err, vals, again]
ATIdxFailing(c, o) ==
    IF (c.unique /\ c.n > c.imax) \/ (c.imax = 0 /\ c.n > 0) THEN (IF o.err = "none" THEN {"not_rejected"} ELSE {})
    ELSE IF o.err # "none" THEN {"rejected"}
    ELSE (IF Len(o.vals) # c.n THEN {"count"} ELSE {}) \cup
         (IF \E j \in DOMAIN o.vals : o.vals[j] < 0 \/ o.vals[j] >= c.imax THEN {"range"} ELSE {}) \cup
         (IF c.unique /\ Cardinality(VRange(o.vals)) # Len(o.vals) THEN {"unique"} ELSE {}) \cup
         (IF o.again # o.vals THEN {"reproducible"} ELSE {})

\* ---- B2 randind: c == [nmax (0 = above 2^32-1), n, big], o == [err, vals, dtype, seen]
\* `seen`: the distinct values of a long seeded run (n * reps draws) - every index of [0,nmax) has probability 1/nmax
ATRandindFailing(c, o) ==
    IF o.err # "none" THEN {"rejected"}
    ELSE (IF Len(o.vals) # c.n THEN {"count"} ELSE {}) \cup
         (IF ~c.big /\ \E j \in DOMAIN o.vals : o.vals[j] < 0 \/ o.vals[j] >= c.nmax THEN {"range"} ELSE {}) \cup
         (IF c.n > 1 /\ o.dtype # (IF c.big THEN "u8" ELSE "u4") THEN {"dtype"} ELSE {}) \cup
         (IF ~c.big /\ c.long /\ VRange(o.seen) # 0..(c.nmax - 1) THEN {"some_index_never_drawn"} ELSE {})

\* ---- B3 srandu: c == [n (0 = no argument), us], o == [err, shape, lo, hi, stub]
\* lo / hi: every value of a seeded run is >= -1 / <= 1;  stub: the values for the scripted deviates us
ATSranduFailing(c, o) ==
    IF o.err # "none" THEN {"rejected"}
    \* the module docstring says srandu(num=1), the signature num=None: without an argument a scalar or one number
    ELSE (IF o.shape \notin (IF c.n = 0 THEN {<<>>, <<1>>} ELSE {<<c.n>>}) THEN {"shape"} ELSE {}) \cup
         (IF ~o.lo \/ ~o.hi THEN {"range"} ELSE {}) \cup
         (IF o.again THEN {} ELSE {"reproducible"})
ATSranduLeads(c, o) ==
    IF o.err = "none" /\ o.stubbed /\ \E j \in DOMAIN c.us : ~ATOn(o.stub[j], RSub(RMul(RInt(2), c.us[j]), RInt(1)))
    THEN {"not_2u_minus_1"} ELSE {}

\* ---- B4 Normal: c == [mean, sigma, xs, zs], o == [err, lnp, scal, probexp, pmean, getters, smp, shapes, again]
ATNormLnp(m, s, x) == RNeg(RDiv(RSq(RSub(x, m)), RMul(RInt(2), RSq(s))))
ATNormalFailing(c, o) ==
    IF o.err # "none" THEN {"rejected"}
    ELSE (IF \E j \in DOMAIN c.xs : ~ATOn(o.lnp[j], ATNormLnp(c.mean, c.sigma, c.xs[j])) THEN {"lnprob_array"} ELSE {}) \cup
         (IF \E j \in DOMAIN c.xs : ~ATOn(o.scal[j], ATNormLnp(c.mean, c.sigma, c.xs[j])) THEN {"lnprob_scalar"} ELSE {}) \cup
         (IF ~o.probexp THEN {"prob_is_exp_lnprob"} ELSE {}) \cup
         (IF ~ATOn(o.pmean, RInt(1)) THEN {"prob_at_mean"} ELSE {}) \cup
         (IF ~(ATOn(o.getters.mean, c.mean) /\ ATOn(o.getters.sigma, c.sigma) /\ ATOn(o.getters.mode, c.mean)
               /\ ATOn(o.getters.max, RInt(1)) /\ ATOn(o.getters.maxln, RInt(0))) THEN {"getters"} ELSE {}) \cup
         (IF o.shapes # <<<<>>, <<Len(c.zs)>>>> THEN {"sample_shape"} ELSE {}) \cup
         (IF ~o.again THEN {"reproducible"} ELSE {}) \cup
         (IF o.stubbed /\ ~(\/ \A j \in DOMAIN c.zs : ATOn(o.smp[j], RAdd(c.mean, RMul(c.sigma, c.zs[j])))
                            \/ \A j \in DOMAIN c.zs : ATOn(o.smp[j], RSub(c.mean, RMul(c.sigma, c.zs[j]))))
          THEN {"sample_not_mean_plus_sigma_z"} ELSE {})

\* ---- B5 NormalND: c == [mean, sigma (sequences), pos (sequence of points), zs], o == [err, one, many, shapes, smp]
RECURSIVE ATNDLnp(_, _, _)
ATNDLnp(m, s, p) == IF m = <<>> THEN RInt(0) ELSE RAdd(ATNormLnp(Head(m), Head(s), Head(p)), ATNDLnp(Tail(m), Tail(s), Tail(p)))
ATRAbs(q) == IF q[1] < 0 THEN RNeg(q) ELSE q
\* the bag of |deviate| the sample used, as a sequence sorted by the harness (numerators over the common denominator)
ATNormalNDFailing(c, o) ==
    LET nd == Len(c.mean) IN
    IF o.err # "none" THEN {"rejected"}
    ELSE (IF \E j \in DOMAIN c.pos : ~ATOn(o.one[j], ATNDLnp(c.mean, c.sigma, c.pos[j])) THEN {"lnprob_point"} ELSE {}) \cup
         (IF \E j \in DOMAIN c.pos : ~ATOn(o.many[j], ATNDLnp(c.mean, c.sigma, c.pos[j])) THEN {"lnprob_points"} ELSE {}) \cup
         (IF o.shapes # <<<<nd>>, <<c.nsamp, nd>>>> THEN {"sample_shape"} ELSE {}) \cup
         (IF o.stubbed /\ ~(\A r \in 1..c.nsamp : \A j \in 1..nd :
                 /\ ATIsOn(o.smp[r][j])
                 /\ \E q \in DOMAIN c.zs : REq(ATRAbs(RDiv(RSub(o.smp[r][j][2], c.mean[j]), c.sigma[j])), ATRAbs(c.zs[q])))
          THEN {"sample_not_mean_plus_sigma_z"} ELSE {})

\* ---- B6 LogNormal: c == [mean, a, b (1 + sigma^2/mean^2 = (a/b)^2), ts], o == [...]
ATLogNormalFailing(c, o) ==
    LET med == RDiv(RMul(c.mean, RInt(c.b)), RInt(c.a))
        mode == RDiv(RMul(c.mean, RInt(c.b * c.b * c.b)), RInt(c.a * c.a * c.a)) IN
    IF o.err # "none" THEN {"rejected"}
    ELSE (IF ~ATOn(o.mode, mode) THEN {"mode"} ELSE {}) \cup
         (IF ~(ATOn(o.getmean, c.mean) /\ ATOn(o.getsigma, c.sigma)) THEN {"getters"} ELSE {}) \cup
         (IF o.stubbed /\ ~ATOn(o.smp0, med) THEN {"sample_at_z0_is_median"} ELSE {}) \cup
         (IF \E j \in DOMAIN c.ts : ~ATOn(o.refl[j], RSq(c.ts[j])) THEN {"reflection_about_median"} ELSE {}) \cup
         (IF ~o.maxatmode THEN {"max_is_prob_at_mode"} ELSE {}) \cup
         (IF ~o.probexp THEN {"prob_is_exp_lnprob"} ELSE {}) \cup
         (IF ~o.scalararray THEN {"scalar_equals_array_element"} ELSE {}) \cup
         (IF o.negprob # "zero" THEN {"prob_of_nonpositive_x_" \o o.negprob} ELSE {}) \cup
         (IF o.prob2d # "shape_kept" THEN {"prob_2d_" \o o.prob2d} ELSE {}) \cup
         (IF o.shapes # <<<<>>, <<3>>>> THEN {"sample_shape"} ELSE {}) \cup
         (IF ~o.again THEN {"reproducible"} ELSE {})

\* ---- B7 get_dist: c == [name, known, documented, kind], o == [err, cls, mean, sigma]
\* (a name that differs from 'normal' / 'lognormal' only by case may be rejected)
ATGetDistFailing(c, o) ==
    IF ~c.known THEN (IF o.err = "none" THEN {"not_rejected"} ELSE {})
    ELSE IF o.err # "none" THEN (IF c.documented THEN {"rejected"} ELSE {})
    ELSE (IF o.cls # c.kind THEN {"class"} ELSE {}) \cup
         (IF ~(ATOn(o.mean, c.mean) /\ ATOn(o.sigma, c.sigma)) THEN {"parameters"} ELSE {})

\* ---- B8 CutGenerator: the density is a step function on the integer cells of [xmin, xmax):
\* c == [xmin, p (sequence of heights, cell j = [xmin+j-1, xmin+j)), pmax, n, us (scripted deviates in 64ths)],
\* o == [err, count, cells, again, stubbed, stubus (the returned values as deviates in 64ths, -1 = not on the lattice)]
\* cells: for every returned value the 1-based cell it fell in (0 = outside [xmin, xmax])
ATCutCell(c, ux) == (ux * Len(c.p)) \div 64 + 1
ATCutFailing(c, o) ==
    IF o.err # "none" THEN {"rejected"}
    ELSE (IF o.count # c.n THEN {"count"} ELSE {}) \cup
         (IF \E j \in DOMAIN o.cells : o.cells[j] = 0 THEN {"range"} ELSE {}) \cup
         (IF \E j \in DOMAIN o.cells : o.cells[j] > 0 /\ c.p[o.cells[j]] = 0 THEN {"kept_a_point_not_below_the_curve"} ELSE {}) \cup
         (IF ~o.again THEN {"reproducible"} ELSE {}) \cup
         (IF o.stubbed /\ Len(o.stubus) # c.n THEN {"stub_count"} ELSE {}) \cup
         (IF o.stubbed /\ \E j \in DOMAIN o.stubus : o.stubus[j] \notin VRange(c.us) THEN {"stub_point_not_generated"}
          ELSE IF o.stubbed /\ \E j \in DOMAIN o.stubus : c.p[ATCutCell(c, o.stubus[j])] = 0 THEN {"stub_point_outside_support"} ELSE {})

\* the mechanism as the docstring tells it, for scripted deviates: rounds of nleft points (x_j, y_j),
\* x = xmin + ux*width, y = uy*pmax, kept iff y < p(x).  xs / ys: the scripted deviates in 64ths, cycled.
RECURSIVE ATCutRounds(_, _, _, _)
ATCutKept(c, ux, uy) == uy * c.pmax < 64 * c.p[ATCutCell(c, ux)]
ATCutRounds(c, nleft, pos, fuel) ==
    IF nleft = 0 \/ fuel = 0 THEN <<>>
    ELSE LET ux(j) == c.us[((pos + j - 2) % Len(c.us)) + 1]
             uy(j) == c.us[((pos + nleft + j - 2) % Len(c.us)) + 1]
             kept == SelectSeq([j \in 1..nleft |-> j], LAMBDA j : ATCutKept(c, ux(j), uy(j)))
         IN [q \in 1..Len(kept) |-> ux(kept[q])] \o ATCutRounds(c, nleft - Len(kept), pos + 2 * nleft, fuel - 1)
ATCutLeads(c, o) ==
    IF o.err = "none" /\ o.stubbed /\ o.stubus # ATCutRounds(c, c.n, 1, 12) THEN {"stub_sequence_differs_from_round_model"} ELSE {}
=============================================================================
