------------------------------- MODULE ArrayTextMC -------------------------------
(* Small-scope model for extension X06 (ArrayText.tla).                                   *)
(*                                                                                        *)
(* (a) WRITER HISTORIES.  PickShape / PickKinds choose a bounded table (1..MaxF fields     *)
(*     over the field kinds, nrows in Rows).  Then either Aprint(s) - one call of           *)
(*     aprint(table, keywords s) = ArrayWriter(kw s).write(table, kw s) - or Open(s) followed by  *)
(*     up to MaxWrites Write(s) and a Close: one action per public call.  Keyword records    *)
(*     s are drawn from Hamming balls around "no keyword given" (every combination of at     *)
(*     most WDev / CDev / HDev keywords, every alternative value of each).  The state is     *)
(*     the history H (constructor keywords + the keywords of every write so far), which is   *)
(*     all the contract of ArrayText.tla depends on, plus `mech`, the code-shaped model of    *)
(*     ArrayWriter.set_defaults / set_keywords (one update per call).  Checked on every      *)
(*     state: MechRefines (the settings the mechanism has in force are among those clause    *)
(*     A5 allows), RefAccepted (the rendering with those settings is accepted by             *)
(*     ATFailingCall: the contract is satisfiable and the matcher not vacuous) and           *)
(*     CorruptRejected.  FixedSticky = FALSE is the code as found (array_delim re-derived     *)
(*     on every call): MechRefines is violated (self-test).  Every closed history is          *)
(*     exported and replayed into the real ArrayWriter / aprint.                             *)
(* (b) CASES of arr2str, compare_arrays, ahelp and of the esutil.random helpers on exact     *)
(*     lattices (ChooseB), exported, with the laws of the contract checked on each (BLaws).  *)
EXTENDS ArrayText, Json

CONSTANTS MaxF,         \* tables of 1..MaxF fields
          Rows,         \* numbers of rows
          Rich,         \* TRUE: the larger alphabets of field kinds and keyword values
          WDev,         \* aprint: at most WDev keywords given (tables with the most rows)
          WDevSmall,    \* aprint: ... on the other tables
          CDev,         \* constructor: at most CDev (sticky) keywords given
          HDev,         \* first write of a history: at most HDev keywords given
          MaxWrites,    \* writes per history
          HTables,      \* histories on the first HTables tables of HistList
          FixedSticky,  \* TRUE: constructor array_delim sticks (contract); FALSE: the code as found
          Parts,        \* subset of {"aprint", "writer", "b"}
          DeepAll,      \* TRUE: RefAccepted / CorruptRejected on every history (FALSE: on the aprint histories only)
          DoExport

VARIABLES ph, tab, H, mech, bc
vars == <<ph, tab, H, mech, bc>>

\* ---------------------------------------------------------------- tables
Names == <<"a", "bb", "c3">>
K(c, k, sh) == [cls |-> c, sk |-> k, shape |-> sh]
KindsBase == {K("i", "-", <<>>), K("f", "-", <<>>), K("s", "S", <<>>), K("i", "-", <<2>>), K("f", "-", <<2, 2>>)}
KindsRich == KindsBase \cup {K("s", "U", <<>>), K("s", "U", <<2>>), K("i", "-", <<1>>), K("f", "-", <<3>>), K("i", "-", <<2, 1, 2>>)}
Kinds == IF Rich THEN KindsRich ELSE KindsBase
MaxRows == VSetMax(Rows)
\* three-field tables: one per multiset of kinds would still be many - take those with increasing "size"
KSize(k) == ATProd(k.shape) * 3 + (IF k.cls = "i" THEN 0 ELSE IF k.cls = "f" THEN 1 ELSE 2)
KindSeqOK(ks) == IF Len(ks) < 3 THEN TRUE ELSE (KSize(ks[1]) < KSize(ks[2]) /\ KSize(ks[2]) # KSize(ks[3]))

\* ---------------------------------------------------------------- symbolic keyword records
SKeys == {"typ", "fancy", "delim", "adelim", "bracket"}                       \* documented for the constructor: they stick
PKeys == {"hdr", "sel", "alt", "trailer", "title", "nlines", "fmt", "nfmt"}   \* per write
Keys == SKeys \cup PKeys
Alts(k) ==
    CASE k = "typ" -> {"fancy", "latex"} \cup (IF Rich THEN {"table"} ELSE {})
      [] k = "fancy" -> {"T"}
      [] k = "delim" -> {",", "; "}
      [] k = "adelim" -> {":"} \cup (IF Rich THEN {" "} ELSE {})
      [] k = "bracket" -> {"T"} \cup (IF Rich THEN {"F"} ELSE {})
      [] k = "hdr" -> {"T", "S"} \cup (IF Rich THEN {"F"} ELSE {})
      [] k = "sel" -> {"rev", "one", "bad", "idx"} \cup (IF Rich THEN {"dup", "badidx"} ELSE {})
      [] k = "alt" -> {"ok", "long", "short"}
      [] k = "trailer" -> {"S"}
      [] k = "title" -> {"S"}
      [] k = "nlines" -> {"0", "1", "big"} \cup (IF Rich THEN {"all"} ELSE {})
      [] k = "fmt" -> {"r8", "l6", "f3"}
      [] k = "nfmt" -> {"l5"}
Dflt == [k \in Keys |-> "-"]
RECURSIVE OptsOver(_)
OptsOver(S) == IF S = {} THEN {Dflt}
               ELSE LET k == CHOOSE x \in S : TRUE IN {[o EXCEPT ![k] = v] : o \in OptsOver(S \ {k}), v \in Alts(k)}
\* combinations about which the contract says nothing are not worth a case
Sensible(s) ==
    LET fancy == s.typ = "fancy" \/ s.fancy = "T" IN
    /\ s.title # "-" => fancy
    /\ s.typ = "latex" => (s.hdr = "-" /\ s.trailer = "-" /\ s.alt = "-" /\ s.nfmt = "-" /\ s.fancy = "-")
    /\ fancy => s.hdr \in {"-", "T"}
    /\ s.alt \in {"ok", "long"} => (fancy \/ s.hdr = "T")
    /\ s.nfmt # "-" => (s.hdr = "T" /\ ~fancy)
    /\ s.fmt = "f3" => ~fancy
Ball(KS, r) == {s \in UNION {OptsOver(S) : S \in {T \in SUBSET KS : Cardinality(T) <= r}} : Sensible(s)}
AprintBig == Ball(Keys, WDev)
AprintSmall == Ball(Keys, WDevSmall)
CtorOpts == Ball(SKeys, CDev)
FirstOpts == Ball(Keys, HDev)
LaterOpts == Ball(SKeys, 1) \cup {[Dflt EXCEPT !.hdr = "T"], [Dflt EXCEPT !.nlines = "1"]}

AltShort == <<"X", "Yy", "Zzz", "W">>
AltLong == <<"LongAltName_01", "LongerAltName_002", "TheLongestAltName_3", "AnotherLongName_04">>
NoFmt == [kind |-> "-", width |-> 0, left |-> FALSE]
FmtOf(v) == CASE v = "-" -> NoFmt
              [] v = "r8" -> [kind |-> "s", width |-> 8, left |-> FALSE]
              [] v = "l6" -> [kind |-> "s", width |-> 6, left |-> TRUE]
              [] v = "l5" -> [kind |-> "s", width |-> 5, left |-> TRUE]
              [] v = "f3" -> [kind |-> "f3", width |-> 10, left |-> FALSE]
Resolve(t, s) ==
    LET nf == Len(t.fields)
        rev == [j \in 1..nf |-> nf + 1 - j]
        sel == CASE s.sel = "-" -> [key |-> "-", form |-> "names", idx |-> <<>>]
                 [] s.sel = "rev" -> [key |-> "fields", form |-> "names", idx |-> rev]
                 [] s.sel = "one" -> [key |-> "columns", form |-> "names", idx |-> <<nf>>]
                 [] s.sel = "idx" -> [key |-> "fields", form |-> "index", idx |-> rev]
                 [] s.sel = "bad" -> [key |-> "fields", form |-> "names", idx |-> <<1, 0>>]
                 [] s.sel = "dup" -> [key |-> "columns", form |-> "names", idx |-> <<1, 1>>]
                 [] s.sel = "badidx" -> [key |-> "columns", form |-> "index", idx |-> <<nf + 1>>]
        nsel == IF s.sel = "-" THEN nf ELSE Len(sel.idx)
        alt == CASE s.alt = "-" -> [given |-> FALSE, names |-> <<>>]
                 [] s.alt = "ok" -> [given |-> TRUE, names |-> SubSeq(AltShort, 1, nsel)]
                 [] s.alt = "long" -> [given |-> TRUE, names |-> SubSeq(AltLong, 1, nsel)]
                 [] s.alt = "short" -> [given |-> TRUE, names |-> SubSeq(AltShort, 1, IF nsel > 1 THEN nsel - 1 ELSE 2)]
        nl == CASE s.nlines = "-" -> [given |-> FALSE, n |-> 0]
                [] s.nlines = "0" -> [given |-> TRUE, n |-> 0]
                [] s.nlines = "1" -> [given |-> TRUE, n |-> 1]
                [] s.nlines = "big" -> [given |-> TRUE, n |-> t.nrows + 1]
                [] s.nlines = "all" -> [given |-> TRUE, n |-> t.nrows]
    IN [typ |-> s.typ, fancy |-> s.fancy, delim |-> s.delim, adelim |-> s.adelim, bracket |-> s.bracket,
        hdr |-> s.hdr, hdrtext |-> "# col header 1", sel |-> sel, alt |-> alt,
        trailer |-> [given |-> s.trailer # "-", text |-> "# end of 2 table"],
        title |-> [given |-> s.title # "-", text |-> "My Data"],
        nlines |-> nl, fmt |-> FmtOf(s.fmt), nfmt |-> FmtOf(s.nfmt)]
OptFits(t, s) == s.fmt = "f3" => ATSelScalarFloat(t, Resolve(t, s))

\* ---------------------------------------------------------------- mechanism (ArrayWriter.set_defaults / set_keywords)
M0 == [delim |-> " ", adelim |-> " ", bracket |-> FALSE, typ |-> "table", fancy |-> FALSE, auser |-> "-"]
MSet(m, o) ==
    LET delim1 == IF ATGiven(o.delim) THEN o.delim ELSE m.delim
        typ1 == IF ATGiven(o.typ) THEN o.typ ELSE m.typ
        fancy1 == IF ATGiven(o.fancy) THEN o.fancy = "T" ELSE m.fancy
        typ2 == IF fancy1 THEN "fancy" ELSE typ1
        br == IF typ2 = "fancy" THEN TRUE ELSE IF ATGiven(o.bracket) THEN o.bracket = "T" ELSE m.bracket
        auser == IF ATGiven(o.adelim) THEN o.adelim ELSE m.auser
        derived == IF br THEN "," ELSE delim1
    IN [delim |-> IF typ2 = "latex" THEN " & " ELSE delim1,
        adelim |-> IF typ2 = "latex" THEN " "
                   ELSE IF ATGiven(o.adelim) THEN o.adelim
                   ELSE IF FixedSticky /\ ATGiven(auser) THEN auser ELSE derived,
        bracket |-> br, typ |-> typ2, fancy |-> fancy1, auser |-> auser]

\* ---------------------------------------------------------------- actions
NoTab == [nrows |-> 0, fields |-> <<>>, nf |-> 0]
NoH == [entry |-> "none", target |-> "obj", ctor |-> Resolve(NoTab, Dflt), calls |-> <<>>]
NoCase == [fn |-> "none"]
Init == ph = "start" /\ tab = NoTab /\ H = NoH /\ mech = M0 /\ bc = NoCase

PickShape == /\ ph = "start" /\ Parts \cap {"aprint", "writer"} # {}
             /\ \E nf \in 1..MaxF : \E nr \in Rows : tab' = [nrows |-> nr, fields |-> <<>>, nf |-> nf]
             /\ ph' = "shape" /\ UNCHANGED <<H, mech, bc>>
PickKinds == /\ ph = "shape"
             /\ \E ks \in [1..tab.nf -> Kinds] :
                   /\ KindSeqOK(ks)
                   /\ tab' = [nrows |-> tab.nrows, nf |-> tab.nf,
                              fields |-> [j \in 1..tab.nf |-> [nm |-> Names[j], cls |-> ks[j].cls, sk |-> ks[j].sk, shape |-> ks[j].shape]]]
             /\ ph' = "tab" /\ UNCHANGED <<H, mech, bc>>
HasArray(t) == \E j \in DOMAIN t.fields : t.fields[j].shape # <<>>
\* the tables on which writer histories are enumerated: the first HTables of this list (by their field kinds)
HistList == << <<K("s", "S", <<>>), K("i", "-", <<2>>)>>, <<K("f", "-", <<2, 2>>)>>, <<K("i", "-", <<2>>)>>, <<K("s", "S", <<>>), K("f", "-", <<2, 2>>)>> >>
KindsOf(t) == [j \in 1..Len(t.fields) |-> K(t.fields[j].cls, t.fields[j].sk, t.fields[j].shape)]
HistTable(t) == t.nrows = MaxRows /\ \E n \in 1..HTables : KindsOf(t) = HistList[n]
Call(s) == [tab |-> tab, o |-> Resolve(tab, s)]

Aprint == /\ ph = "tab" /\ "aprint" \in Parts
          /\ \E s \in (IF tab.nrows = MaxRows /\ tab.nf <= 2 THEN AprintBig ELSE AprintSmall) :
                /\ OptFits(tab, s)
                /\ H' = [entry |-> "aprint", target |-> "obj", ctor |-> Resolve(tab, s), calls |-> <<Call(s)>>]
                /\ mech' = MSet(MSet(M0, Resolve(tab, s)), Resolve(tab, s))
          /\ ph' = "closed" /\ UNCHANGED <<tab, bc>>
Open == /\ ph = "tab" /\ "writer" \in Parts /\ HistTable(tab)
        /\ \E s \in CtorOpts : H' = [entry |-> "writer", target |-> "obj", ctor |-> Resolve(tab, s), calls |-> <<>>] /\ mech' = MSet(M0, Resolve(tab, s))
        /\ ph' = "open" /\ UNCHANGED <<tab, bc>>
Write == /\ ph = "open" /\ Len(H.calls) < MaxWrites
         /\ \E s \in (IF H.calls = <<>> THEN FirstOpts ELSE LaterOpts) :
               /\ OptFits(tab, s)
               /\ H' = [H EXCEPT !.calls = Append(@, Call(s))]
               /\ mech' = MSet(mech, Resolve(tab, s))
         /\ UNCHANGED <<ph, tab, bc>>
Close == /\ ph = "open" /\ H.calls # <<>> /\ ph' = "closed" /\ UNCHANGED <<tab, H, mech, bc>>

\* ---------------------------------------------------------------- (b) cases on exact lattices
Q(n, d) == RNorm(n, d)
Fams == {"a2s", "cmp", "ahelp", "ridx", "randind", "srandu", "normal", "normalnd", "lognormal", "getdist", "cutgen"}
PickFam == /\ ph = "start" /\ "b" \in Parts /\ \E f \in Fams : bc' = [fn |-> f] /\ ph' = "fam" /\ UNCHANGED <<tab, H, mech>>
Emit(c) == bc' = c /\ ph' = "case" /\ UNCHANGED <<tab, H, mech>>
Fam(f) == ph = "fam" /\ bc.fn = f

A2sShapes == {<<1>>, <<2>>, <<3>>, <<1, 1>>, <<2, 2>>, <<2, 3>>, <<3, 1>>, <<2, 1, 2>>, <<2, 2, 2>>} \cup (IF Rich THEN {<<1, 3, 2>>, <<2, 2, 1, 2>>, <<>>} ELSE {<<>>})
ChooseA2s == Fam("a2s") /\ \E sh \in A2sShapes : \E d \in {"-", ",", " ", "; ", ":"} : \E b \in {"-", "T", "F"} : \E cl \in {"i", "f", "s"} :
                Emit([fn |-> "a2s", shape |-> sh, dkey |-> d, bkey |-> b, cls |-> cl,
                      delim |-> IF d = "-" THEN "," ELSE d, brackets |-> b = "T"])

\* compare_arrays: the second table is an edit of the first
CmpF(n, sh, vals) == [nm |-> n, shape |-> sh, vals |-> vals]
CmpBase == [nrows |-> 2, fields |-> <<CmpF("a", <<>>, <<1, 2>>), CmpF("bb", <<2>>, <<3, 4, 5, 6>>), CmpF("c3", <<>>, <<7, 8>>)>>]
CmpEdits == {"same", "value", "arrvalue", "drop", "add", "rename", "reorder", "shape", "rows", "drop_and_value", "onlyone", "disjoint"}
CmpEdit(e) ==
    LET f == CmpBase.fields IN
    CASE e = "same" -> CmpBase
      [] e = "value" -> [CmpBase EXCEPT !.fields[3].vals = <<7, 9>>]
      [] e = "arrvalue" -> [CmpBase EXCEPT !.fields[2].vals = <<3, 4, 5, 0>>]
      [] e = "drop" -> [CmpBase EXCEPT !.fields = <<f[1], f[2]>>]
      [] e = "add" -> [CmpBase EXCEPT !.fields = <<f[1], f[2], f[3], CmpF("d", <<>>, <<1, 1>>)>>]
      [] e = "rename" -> [CmpBase EXCEPT !.fields[3].nm = "cc"]
      [] e = "reorder" -> [CmpBase EXCEPT !.fields = <<f[3], f[1], f[2]>>]
      [] e = "shape" -> [CmpBase EXCEPT !.fields[2] = CmpF("bb", <<2, 2>>, <<3, 4, 5, 6, 3, 4, 5, 6>>)]
      [] e = "rows" -> [nrows |-> 1, fields |-> <<CmpF("a", <<>>, <<1>>), CmpF("bb", <<2>>, <<3, 4>>), CmpF("c3", <<>>, <<7>>)>>]
      [] e = "drop_and_value" -> [CmpBase EXCEPT !.fields = <<CmpF("a", <<>>, <<1, 0>>), f[2]>>]
      [] e = "onlyone" -> [CmpBase EXCEPT !.fields = <<f[2]>>]
      [] e = "disjoint" -> [CmpBase EXCEPT !.fields = <<CmpF("z", <<>>, <<1, 2>>)>>]
ChooseCmp == Fam("cmp") /\ \E e \in CmpEdits : \E v, im \in BOOLEAN : \E swap \in BOOLEAN :
                Emit([fn |-> "cmp", edit |-> e, a |-> IF swap THEN CmpEdit(e) ELSE CmpBase, b |-> IF swap THEN CmpBase ELSE CmpEdit(e),
                      verbose |-> v, ignore_missing |-> im])

LongName == "a_very_long_field_name"
ChooseAhelp == Fam("ahelp") /\ \E nf \in 1..3 : \E nr \in {0, 1, 3} : \E rot \in 0..5 : \E pretty \in BOOLEAN : \E long \in BOOLEAN :
                LET kinds == <<K("i", "-", <<>>), K("f", "-", <<3>>), K("s", "S", <<>>), K("f", "-", <<2, 3>>), K("s", "U", <<>>), K("i", "-", <<3, 1, 2>>)>>
                    kd(j) == kinds[((j + rot) % 6) + 1] IN
                Emit([fn |-> "ahelp", pretty |-> pretty,
                      tab |-> [nrows |-> nr, fields |-> [j \in 1..nf |-> [nm |-> IF long /\ j = nf THEN LongName ELSE Names[j],
                                                                         cls |-> kd(j).cls, sk |-> kd(j).sk, shape |-> kd(j).shape]]]])

ChooseRidx == Fam("ridx") /\ \E imax \in 0..4 : \E n \in 0..5 : \E u \in BOOLEAN : \E src \in {"seed", "rng"} :
                Emit([fn |-> "ridx", imax |-> imax, n |-> n, unique |-> u, src |-> src])
ChooseRandind == Fam("randind") /\ \/ \E nmax \in 1..8 : \E n \in {1, 2, 5} : \E long \in BOOLEAN :
                                        Emit([fn |-> "randind", nmax |-> nmax, n |-> n, big |-> FALSE, long |-> long /\ n > 1])
                                   \/ \E n \in {1, 3} : Emit([fn |-> "randind", nmax |-> 0, n |-> n, big |-> TRUE, long |-> FALSE])
ChooseSrandu == Fam("srandu") /\ \E n \in {0, 1, 3} :
                Emit([fn |-> "srandu", n |-> n, us |-> IF n = 0 THEN <<Q(1, 4)>> ELSE SubSeq(<<Q(0, 1), Q(63, 64), Q(1, 2)>>, 1, n)])
NMeans == {Q(0, 1), Q(-1, 1), Q(3, 2)}
NSigmas == {Q(1, 2), Q(1, 1), Q(2, 1), Q(3, 1), Q(3, 4)}
NXs == <<Q(-2, 1), Q(-1, 2), Q(0, 1), Q(1, 1), Q(3, 2), Q(5, 1)>>
NZs == <<Q(-1, 1), Q(0, 1), Q(1, 2), Q(2, 1)>>
ChooseNormal == Fam("normal") /\ \E m \in NMeans : \E s \in NSigmas : \E intpar \in BOOLEAN :
                (intpar => (m[2] = 1 /\ s[2] = 1)) /\ Emit([fn |-> "normal", mean |-> m, sigma |-> s, xs |-> NXs, zs |-> NZs, intpar |-> intpar])
NDPos == <<Q(0, 1), Q(1, 1), Q(-1, 2), Q(3, 1), Q(2, 1), Q(-3, 2)>>
ChooseNormalND == Fam("normalnd") /\ \E nd \in 1..3 : \E rot \in 0..2 : \E ns \in {1, 2} :
                LET ms == <<Q(0, 1), Q(1, 1), Q(-3, 2)>>  ss == <<Q(1, 1), Q(2, 1), Q(1, 2), Q(3, 1)>> IN
                Emit([fn |-> "normalnd", mean |-> [j \in 1..nd |-> ms[((j + rot) % 3) + 1]], sigma |-> [j \in 1..nd |-> ss[((j + rot) % 4) + 1]],
                      pos |-> [q \in 1..3 |-> [j \in 1..nd |-> NDPos[((q + j + rot) % 6) + 1]]], nsamp |-> ns,
                      zs |-> [q \in 1..(nd * (ns + 1)) |-> Q(2 * q - 3, 4)]])
ChooseLogNormal == Fam("lognormal") /\ \E m \in {Q(1, 1), Q(5, 1), Q(1, 2), Q(12, 1)} : \E ab \in {<<5, 4>>, <<5, 3>>, <<13, 12>>, <<17, 8>>, <<13, 5>>} :
                \* sigma/mean = sqrt(a^2 - b^2)/b with a^2 - b^2 a square: (5,4)->3/4 (5,3)->4/3 (13,12)->5/12 (17,8)->15/8 (13,5)->12/5
                LET k == CHOOSE q \in 1..20 : q * q = ab[1] * ab[1] - ab[2] * ab[2] IN
                Emit([fn |-> "lognormal", mean |-> m, sigma |-> RMul(m, Q(k, ab[2])), a |-> ab[1], b |-> ab[2], ts |-> <<Q(2, 1), Q(4, 1), Q(3, 2)>>])
ChooseGetDist == Fam("getdist") /\ \E nm \in {"normal", "Normal", "NORMAL", "lognormal", "LogNormal", "LOGNORMAL", "gauss", "", "normal "} :
                LET low == IF nm \in {"normal", "Normal", "NORMAL"} THEN "Normal" ELSE IF nm \in {"lognormal", "LogNormal", "LOGNORMAL"} THEN "LogNormal" ELSE "none" IN
                Emit([fn |-> "getdist", name |-> nm, known |-> low # "none", kind |-> low, documented |-> nm \in {"normal", "lognormal"},
                      mean |-> Q(3, 2), sigma |-> Q(1, 2)])
CutScripts == {<<5, 40, 20, 60, 33, 10, 50, 3>>, <<63, 0, 32, 31, 16, 48>>, <<1, 62, 30, 45, 12, 57, 22>>}
ChooseCut == Fam("cutgen") /\ \E np \in 1..3 : \E p \in [1..np -> 0..2] : \E extra \in {0, 1} : \E n \in {1, 3, 5} : \E us \in CutScripts : \E xmin \in {0, 3} :
                (\E j \in 1..np : p[j] > 0) /\
                Emit([fn |-> "cutgen", xmin |-> xmin, p |-> p, pmax |-> VSeqMax(p) + extra, n |-> n, us |-> us])
ChooseB == ChooseA2s \/ ChooseCmp \/ ChooseAhelp \/ ChooseRidx \/ ChooseRandind \/ ChooseSrandu \/ ChooseNormal
           \/ ChooseNormalND \/ ChooseLogNormal \/ ChooseGetDist \/ ChooseCut

Next == PickShape \/ PickKinds \/ Aprint \/ Open \/ Write \/ Close \/ PickFam \/ ChooseB

\* ---------------------------------------------------------------- invariants of part (a)
Wrote == ph \in {"open", "closed"} /\ H.calls # <<>>
MechRefines ==
    Wrote => LET i == Len(H.calls)
                 d == IF mech.typ = "fancy" THEN "|" ELSE mech.delim
             IN \E cd \in ATCands(H, i) : cd.typ = mech.typ /\ cd.B = mech.bracket /\ cd.A = mech.adelim /\ cd.D = d

\* the rendering of the last call with the mechanism's settings, as the harness would record it
SynText(r, f, k) == ATIdx(r) \o ATIdx(f) \o ATIdx(k) \o (IF (r + f + k) % 2 = 0 THEN "" ELSE "0")
SynHow(fd) == IF fd.cls = "i" THEN "int" ELSE IF fd.cls = "f" THEN "flt" ELSE IF fd.sk = "S" THEN "bstr" ELSE "str"
RECURSIVE SynWords(_, _, _, _)
SynWords(t, sel, r, j) ==
    IF j > Len(sel) THEN <<>>
    ELSE [k \in 1..ATProd(t.fields[sel[j]].shape) |-> [s |-> SynText(r, sel[j], k), r |-> r, f |-> sel[j], k |-> k, how |-> SynHow(t.fields[sel[j]])]]
         \o SynWords(t, sel, r, j + 1)
Plain(s) == [raw |-> s, core |-> ATStrip(s), strip |-> s, bars |-> <<>>, rule |-> FALSE, words |-> <<>>]
SynLines(i) ==
    LET t == H.calls[i].tab  w == H.calls[i].o  sel == ATSel(t, w)
        np == IF mech.typ = "latex" \/ ~w.nlines.given THEN t.nrows ELSE VMin2(w.nlines.n, t.nrows)
        bars == [j \in 1..(Len(sel) - 1) |-> 7 * j]
        wl(r) == [raw |-> "", core |-> "", strip |-> "", bars |-> bars, rule |-> FALSE, words |-> SynWords(t, sel, r, 1)]
        names(d, f) == ATJoin([j \in 1..Len(sel) |-> ATPad(f, ATName(t, w, j))], d)
        trl == IF w.trailer.given THEN <<Plain(w.trailer.text)>> ELSE <<>>
    IN IF mech.typ = "fancy"
       THEN (IF w.title.given THEN <<Plain(w.title.text)>> ELSE <<>>) \o
            <<[Plain(names(" | ", NoFmt)) EXCEPT !.bars = bars], [Plain("--") EXCEPT !.bars = bars, !.rule = TRUE]>> \o
            [r \in 1..np |-> LET s == ATRowStr(wl(r), t, sel, r, " | ", mech.adelim, TRUE, NoFmt) IN [wl(r) EXCEPT !.raw = s, !.core = ATStrip(s)]] \o trl
       ELSE IF mech.typ = "latex"
       THEN [r \in 1..np |-> [wl(r) EXCEPT !.raw = ATRowStr(wl(r), t, sel, r, mech.delim, mech.adelim, mech.bracket, w.fmt)
                                                  \o (IF r < np THEN " " \o ATBackslashes ELSE "")]]
       ELSE (IF w.hdr = "S" THEN <<Plain(w.hdrtext)>> ELSE IF w.hdr = "T" THEN <<Plain(names(mech.delim, w.fmt))>> ELSE <<>>) \o
            [r \in 1..np |-> [wl(r) EXCEPT !.raw = ATRowStr(wl(r), t, sel, r, mech.delim, mech.adelim, mech.bracket, w.fmt)]] \o trl
Renderable(i) == ~ATUnconstrained(H, i) /\ ~ATSelBad(H.calls[i].tab, H.calls[i].o) /\ (H.calls[i].o.alt.given => ATAltOK(H.calls[i].tab, H.calls[i].o))
WithLines(i, L) == [H EXCEPT !.calls[i] = [tab |-> H.calls[i].tab, o |-> H.calls[i].o, err |-> "none", lines |-> L, stray |-> FALSE]]
Deep(h) == DeepAll \/ h.entry = "aprint"
RefAccepted ==
    (Wrote /\ FixedSticky /\ Deep(H) /\ Renderable(Len(H.calls))) =>
        LET i == Len(H.calls) IN ATFailingCall(WithLines(i, SynLines(i)), i) = {}
\* non-vacuity of the matcher: a reference rendering with its first line dropped, a line added, two words of a line
\* swapped or a character added to a line is rejected
WordLines(L) == {q \in DOMAIN L : Len(L[q].words) >= 2 /\ L[q].words[1].s # L[q].words[2].s}
CorruptRejected ==
    (Wrote /\ FixedSticky /\ Deep(H) /\ Renderable(Len(H.calls))) =>
        LET i == Len(H.calls)  L == SynLines(i) IN
        /\ L # <<>> => ATFailingCall(WithLines(i, Tail(L)), i) # {}
        /\ ATFailingCall(WithLines(i, L \o <<Plain("x")>>), i) # {}
        /\ WordLines(L) # {} =>
              LET q == VSetMin(WordLines(L))  W == L[q].words
                  sw == [L EXCEPT ![q].words = [W EXCEPT ![1] = [W[1] EXCEPT !.s = W[2].s], ![2] = [W[2] EXCEPT !.s = W[1].s]]]
              IN ATFailingCall(WithLines(i, sw), i) # {}
        /\ {n \in DOMAIN L : L[n].words # <<>>} # {} =>
              LET z == VSetMax({n \in DOMAIN L : L[n].words # <<>>}) IN
              ATFailingCall(WithLines(i, [L EXCEPT ![z].raw = @ \o "#", ![z].core = @ \o "#"]), i) # {}

\* ---------------------------------------------------------------- laws of part (b)
IsCase == ph = "case"
BLaws ==
    IsCase =>
    CASE bc.fn = "normal" ->
            /\ \A j \in DOMAIN bc.xs : RLe(ATNormLnp(bc.mean, bc.sigma, bc.xs[j]), RInt(0))
            /\ REq(ATNormLnp(bc.mean, bc.sigma, bc.mean), RInt(0))
            /\ \A j \in DOMAIN bc.xs : REq(ATNormLnp(bc.mean, bc.sigma, bc.xs[j]),
                                           ATNormLnp(bc.mean, bc.sigma, RSub(RMul(RInt(2), bc.mean), bc.xs[j])))     \* symmetric about the mean
            /\ \A j \in DOMAIN bc.xs : REq(ATNormLnp(bc.mean, bc.sigma, bc.xs[j]),
                                           ATNormLnp(RInt(0), RInt(1), RDiv(RSub(bc.xs[j], bc.mean), bc.sigma)))      \* standardisation
      [] bc.fn = "normalnd" ->
            \A q \in DOMAIN bc.pos : REq(ATNDLnp(bc.mean, bc.sigma, bc.pos[q]),
                                         RSum([j \in DOMAIN bc.mean |-> ATNormLnp(bc.mean[j], bc.sigma[j], bc.pos[q][j])]))
      [] bc.fn = "lognormal" ->
            \* 1 + sigma^2/mean^2 = (a/b)^2
            REq(RAdd(RInt(1), RDiv(RSq(bc.sigma), RSq(bc.mean))), RSq(Q(bc.a, bc.b)))
      [] bc.fn = "cutgen" ->
            \* the round model of the docstring refines the contract: n points, each generated, each under a positive density
            LET out == ATCutRounds(bc, bc.n, 1, 12) IN
            /\ Len(out) <= bc.n
            /\ \A j \in DOMAIN out : out[j] \in VRange(bc.us) /\ bc.p[ATCutCell(bc, out[j])] > 0
      [] bc.fn = "cmp" ->
            /\ (bc.edit \in {"same", "reorder"}) => ATCmpExpected(bc)
            /\ (bc.edit \in {"value", "arrvalue", "shape", "rows", "drop_and_value"}) => ~ATCmpExpected(bc)
            /\ (bc.edit \in {"drop", "add", "rename", "onlyone", "disjoint"}) => (ATCmpExpected(bc) <=> bc.ignore_missing)
      [] OTHER -> TRUE

\* ---------------------------------------------------------------- export
Export ==
    /\ (DoExport /\ ph = "closed") => PrintT(<<"CASE", ToJson([entry |-> H.entry, ctor |-> H.ctor, calls |-> H.calls])>>)
    /\ (DoExport /\ IsCase) => PrintT(<<"BCASE", ToJson(bc)>>)
\* reference observations for the binding self-test of the trace module (independent of the real code)
ExportRef ==
    (DoExport /\ ph = "closed" /\ Len(H.calls) = 1 /\ Renderable(1)) =>
        PrintT(<<"REF", ToJson([entry |-> H.entry, ctor |-> H.ctor,
                                calls |-> <<[tab |-> H.calls[1].tab, o |-> H.calls[1].o, err |-> "none", lines |-> SynLines(1), stray |-> FALSE]>>])>>)
=============================================================================
