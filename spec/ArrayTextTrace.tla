------------------------------- MODULE ArrayTextTrace -------------------------------
(* Trace validation for extension X06: what the real code did is judged by the         *)
(* property-level spec ArrayText.tla.  One ndjson line per record:                       *)
(*   {"id": k, "kind": "hist", "H": <history>}     a replayed ArrayWriter / aprint        *)
(*        history: entry, target, ctor keywords, calls [{tab, o, err, lines, stray}],     *)
(*        close {err, chain}; lines are the lexed output lines of that call (raw text,    *)
(*        text without blanks, separator columns, the words with the table cell each      *)
(*        parses back to)                                                                 *)
(*   {"id": k, "kind": <family>, "c": <case>, "o": <observation>}    the other entry      *)
(*        points (arr2str, compare_arrays, ahelp, esutil.random helpers)                  *)
(* Rejected records are printed with the names of the failing clauses; a clause that      *)
(* starts with "nongating/" is a lead (documented-but-absent feature, or a model of the   *)
(* mechanism that the documentation does not promise), never a verdict.                   *)
EXTENDS ArrayText, Json, IOUtils

VARIABLES blk, tid
Traces == ndJsonDeserialize(IOEnv.TRACE_FILE)
NT == Len(Traces)
BlockSize == 256
NBlocks == (NT + BlockSize - 1) \div BlockSize

Init == blk = 0 /\ tid = 0
PickBlock == blk = 0 /\ tid = 0 /\ \E b \in 1..NBlocks : blk' = b /\ tid' = 0
PickTrace == blk > 0 /\ tid = 0
             /\ \E t \in ((blk - 1) * BlockSize + 1)..VMin2(blk * BlockSize, NT) : tid' = t /\ blk' = blk
Next == PickBlock \/ PickTrace

Lead(S) == {"nongating/" \o cl : cl \in S}
FailingRec(r) ==
    CASE r.kind = "hist" -> ATFailingHist(r.H)
      [] r.kind = "a2s" -> ATA2sFailing(r.c, r.o)
      [] r.kind = "cmp" -> ATCmpFailing(r.c, r.o)
      [] r.kind = "ahelp" -> ATAhelpFailing(r.c, r.o)
      [] r.kind = "ridx" -> ATIdxFailing(r.c, r.o)
      [] r.kind = "randind" -> ATRandindFailing(r.c, r.o)
      [] r.kind = "srandu" -> ATSranduFailing(r.c, r.o) \cup Lead(ATSranduLeads(r.c, r.o))
      [] r.kind = "normal" -> ATNormalFailing(r.c, r.o)
      [] r.kind = "normalnd" -> ATNormalNDFailing(r.c, r.o)
      [] r.kind = "lognormal" -> ATLogNormalFailing(r.c, r.o)
      [] r.kind = "getdist" -> ATGetDistFailing(r.c, r.o)
      [] r.kind = "cutgen" -> ATCutFailing(r.c, r.o) \cup Lead(ATCutLeads(r.c, r.o))

Check == tid > 0 =>
    LET r == Traces[tid]  f == FailingRec(r)
    IN f = {} \/ PrintT(<<"REJECT", ToJson([id |-> r.id, failing |-> f])>>)
=============================================================================
