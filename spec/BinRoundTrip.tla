------------------------------- MODULE BinRoundTrip -------------------------------
(* Property-level specification of C01: a structured array written to a binary       *)
(* record file - through any of the writing entry points, with or without a user      *)
(* header - is returned by every reading entry point with the same field names,       *)
(* per-field types, sub-array shapes and byte order and identical bytes in every row; *)
(* the header read back carries every user key with an equal value, the row count     *)
(* and a dtype description that reconstructs the dtype.                               *)
(*                                                                                    *)
(* Vocabulary (DESIGN 4.1, opaque tokens):                                            *)
(*   field  = [name : STRING, kind : STRING, size : Nat, shape : Seq(Nat), order]     *)
(*            kind is numpy's kind letter (i u f b c S), size the element size in     *)
(*            bytes, shape <<>> for a scalar, order "lt" | "gt" | "na" (no byte order)*)
(*   descr  = Seq(field)            row = an integer token (the harness maps byte      *)
(*            patterns to tokens and back; equal bytes <=> equal token)               *)
(*   table  = [descr, rows, n, block]: n rows; a token stands for `block` consecutive  *)
(*            rows (block = 1 for small tables; tables of 2^24 .. 2^25 bytes are       *)
(*            compared block-wise by digest), Len(rows) = ceil(n / block)              *)
(*   header = Seq([k, v, reserved]) key / value ids (the harness maps Python objects   *)
(*            to ids: a value read back gets the id of the written value it equals,   *)
(*            0 if it equals none); reserved = the key starts with an underscore      *)
(*            (the statement exempts the reserved underscore-prefixed names); a key    *)
(*            that merely LOOKS like a reserved one - delim, SIZE, Dtype, nrows ... -   *)
(*            is an ordinary user key                                                  *)
(*                                                                                    *)
(*   layout = how the written array lies in memory: "contig", "step2" (every second   *)
(*            row of a buffer), "reversed" (negative stride), "column2d" (a column of  *)
(*            a 2-d structured array), "zerod" (a 0-d array: one row), "table2d" (a 2-d *)
(*            structured array: its rows are its elements in C order).  The table is   *)
(*            the array AS INDEXED; the layout must not show in the file.              *)
(*   header values: a value read back gets the id of the written value iff it is equal *)
(*            to it (Python ==), a float nan being matched by a float nan (the         *)
(*            statement's "equal value" cannot hold for nan itself), also inside       *)
(*            lists / tuples / dicts.                                                  *)
(*                                                                                    *)
(* The file is a state: file = [st, descr, rows, user, hlen].  Write replaces it,      *)
(* Read returns it.  The entry points are parameters of the actions; that they all    *)
(* denote the same two functions IS the cross-entry agreement of the property.         *)
EXTENDS VU

HdrWriters  == {"SFile.write", "sfile.write", "sfile.write(data,file)", "io.write"}    \* write the self-describing header
RawWriters  == {"Recfile.write", "recfile.write"}                                     \* rows only
Writers     == HdrWriters \cup RawWriters
SelfReaders == {"SFile.read", "SFile[:]", "SFile.reopen", "sfile.read", "io.read"}    \* take everything from the header
GivenReaders == {"Recfile.read", "Recfile.read(nrows)", "Recfile[:]", "recfile.read", "io.read(dtype)"}
                                                                                       \* are given dtype and data offset
Readers     == SelfReaders \cup GivenReaders
Layouts     == {"contig", "step2", "reversed", "column2d", "zerod", "table2d"}

\* ---- dtypes --------------------------------------------------------------------------------
KindOK(k, sz) == CASE k \in {"i", "u"} -> sz \in {1, 2, 4, 8}
                   [] k = "f"          -> sz \in {4, 8}
                   [] k = "b"          -> sz = 1
                   [] k = "c"          -> sz \in {8, 16}
                   [] k = "S"          -> sz >= 1
                   [] OTHER            -> FALSE
HasOrder(k, sz) == k \in {"i", "u", "f", "c"} /\ sz > 1
FieldOK(f) == /\ KindOK(f.kind, f.size)
              /\ Len(f.shape) <= 3 /\ \A i \in DOMAIN f.shape : f.shape[i] >= 1
              /\ f.order \in (IF HasOrder(f.kind, f.size) THEN {"lt", "gt"} ELSE {"na"})
DescrOK(d) == /\ Len(d) >= 1
              /\ \A i \in DOMAIN d : FieldOK(d[i])
              /\ \A i, j \in DOMAIN d : i # j => d[i].name # d[j].name

RECURSIVE SProd(_)
SProd(s) == IF s = <<>> THEN 1 ELSE Head(s) * SProd(Tail(s))
FieldBytes(f) == f.size * SProd(f.shape)
ItemSize(d)   == VSum([i \in DOMAIN d |-> FieldBytes(d[i])])

FNames(d)  == [i \in DOMAIN d |-> d[i].name]
FTypes(d)  == [i \in DOMAIN d |-> <<d[i].kind, d[i].size>>]
FShapes(d) == [i \in DOMAIN d |-> d[i].shape]
FOrders(d) == [i \in DOMAIN d |-> d[i].order]

\* ---- the file as a state machine ---------------------------------------------------------------
VARIABLES file, res
brvars == <<file, res>>

NoFile == [st |-> "none", descr |-> <<>>, rows |-> <<>>, n |-> 0, block |-> 1, user |-> <<>>, hlen |-> 0]
NoHdr  == [present |-> FALSE, size |-> -1, dtype_ok |-> FALSE, descr |-> <<>>, ents |-> <<>>]
NoRes(o)  == [op |-> o, entry |-> "none", err |-> "none", descr |-> <<>>, rows |-> <<>>, n |-> 0, hdr |-> NoHdr]
AnyRes(o, e) == [NoRes(o) EXCEPT !.err = "any", !.entry = e]

BRInit == file = NoFile /\ res = NoRes("init")

\* number of bytes of the file, and the row count a reader that is not told derives from it
NBytes(f)     == f.hlen + f.n * ItemSize(f.descr)
RowsBySize(f) == (NBytes(f) - f.hlen) \div ItemSize(f.descr)

\* w(path, table, header=h): a non-append write replaces the file.  hl: the length of the header text
\* (any positive number - the statement does not fix the layout; 0 for the header-less writers)
TableOK(t) == t.n >= 1 /\ t.block >= 1 /\ Len(t.rows) = (t.n + t.block - 1) \div t.block

\* lay: the memory layout of the array argument - it does not occur on the right-hand side
Write(w, t, h, hl, lay) ==
    /\ w \in Writers /\ DescrOK(t.descr) /\ TableOK(t)
    /\ lay \in Layouts /\ (lay = "zerod" => t.n = 1)
    /\ (w \in RawWriters) => (h = <<>> /\ hl = 0)
    /\ (w \in HdrWriters) => hl > 0
    /\ file' = [st |-> IF w \in HdrWriters THEN "hdr" ELSE "raw", descr |-> t.descr, rows |-> t.rows,
                n |-> t.n, block |-> t.block, user |-> h, hlen |-> hl]
    /\ res' = [NoRes("write") EXCEPT !.entry = w]

\* what the header read back must show
HdrOf(f) == [present |-> TRUE, size |-> f.n, dtype_ok |-> TRUE, descr |-> f.descr,
             ents |-> [i \in DOMAIN f.user |-> [k |-> f.user[i].k, v |-> f.user[i].v]]]

\* r(path [, dtype = the written dtype, offset = hlen]): the whole table
Read(r) ==
    /\ r \in Readers
    /\ UNCHANGED file
    /\ res' = IF file.st \in {"none", "free"} THEN AnyRes("read", r)
              ELSE IF r \in SelfReaders
                   THEN IF file.st = "hdr"
                        THEN [op |-> "read", entry |-> r, err |-> "none", descr |-> file.descr, rows |-> file.rows,
                              n |-> file.n, hdr |-> HdrOf(file)]
                        ELSE AnyRes("read", r)              \* a header-less file is not self-describing
                   ELSE [op |-> "read", entry |-> r, err |-> "none", descr |-> file.descr,
                         rows |-> file.rows, n |-> RowsBySize(file), hdr |-> NoHdr]

\* ---- the history family  Write ; (Append | Reject)* ; Read  ------------------------------------------
\* sf.write(t) on a handle that already wrote / a reopened 'r+' handle / sfile.write(append=True) /
\* io.write(append=True) with rows of the file's own dtype: the table grows
AppendRows(e, t) ==
    /\ file.st = "hdr" /\ file.block = 1 /\ t.block = 1 /\ TableOK(t) /\ t.descr = file.descr
    /\ file' = [file EXCEPT !.rows = @ \o t.rows, !.n = @ + t.n]
    /\ res' = [NoRes("append") EXCEPT !.entry = e]
\* a call that raises (an append of another dtype is refused with ValueError) is a stutter step on the file:
\* the stored row count, the header and the rows are what they were
Reject(e) ==
    /\ UNCHANGED file
    /\ res' = [NoRes("reject") EXCEPT !.entry = e, !.err = "rejected"]
\* an append of another dtype that is NOT refused: this property does not say what the file holds then
\* (C03 decides whether it had to be refused)
AcceptOther(e) ==
    /\ file.st = "hdr"
    /\ file' = [file EXCEPT !.st = "free"]
    /\ res' = [NoRes("append") EXCEPT !.entry = e]

\* dtypes an append is tried with (kind of difference -> descr); every one differs from d
FlipKind(f) == CASE f.kind = "i" -> [f EXCEPT !.kind = "u"]
                 [] f.kind = "u" -> [f EXCEPT !.kind = "i"]
                 [] f.kind = "f" -> [f EXCEPT !.kind = "i"]
                 [] f.kind = "c" -> [f EXCEPT !.kind = "f", !.size = 8]
                 [] f.kind = "b" -> [f EXCEPT !.kind = "i"]
                 [] f.kind = "S" -> [f EXCEPT !.size = @ + 1]
Renamed(d)  == [d EXCEPT ![1].name = "zz_renamed"]
Variant(d, kind) ==
    CASE kind = "type"  -> [d EXCEPT ![1] = FlipKind(d[1])]
      [] kind = "order" -> IF \E i \in DOMAIN d : d[i].order # "na"
                           THEN LET i == CHOOSE i \in DOMAIN d : d[i].order # "na" /\ \A j \in 1..(i - 1) : d[j].order = "na"
                                IN [d EXCEPT ![i].order = IF d[i].order = "lt" THEN "gt" ELSE "lt"]
                           ELSE Renamed(d)
      [] kind = "name"  -> Renamed(d)
      [] kind = "shape" -> [d EXCEPT ![1].shape = IF Len(@) < 3 THEN @ \o <<1>> ELSE <<>>]
      [] kind = "fewer" -> IF Len(d) > 1 THEN SubSeq(d, 1, Len(d) - 1) ELSE Renamed(d)
BadKinds == {"type", "order", "name", "shape", "fewer"}

\* ---- theorems about the specification itself (checked by BinRoundTripMC) --------------------------
ReadInv == (res.op = "read" /\ res.err = "none") =>
              /\ res.descr = file.descr /\ res.rows = file.rows /\ res.n = file.n
              /\ res.hdr.present => (res.hdr.size = file.n /\ res.hdr.descr = file.descr)
SizeInv == file.st \in {"hdr", "raw"} => (RowsBySize(file) = file.n /\ DescrOK(file.descr) /\ TableOK(file))
ReadsArePure == [][res'.op = "read" => file' = file]_brvars
RejectIsStutter == [][res'.op = "reject" => file' = file]_brvars

\* =====================================================================================================
\* Acceptance of what the real code did (used by BinRoundTripTrace).  A record is
\*   c   = [writer, layout, descr, n, block, rows (of the array as indexed), hdr |-> [given : BOOLEAN, ents : Seq([k, v, reserved])]]
\*   w   = [err]                                                  the write call
\*   obs = Seq([readers, err, descr, n, rows, hdr |-> [present, size, dtype_ok, descr, ents : Seq([k, v])]])
\*         one element per distinct outcome; readers = the entry points that returned exactly it
\*   raw = [seen : BOOLEAN, n, rows]       the data region of the file, as row tokens
\*   c.steps = Seq([descr, k, rows, out])  the appends tried after the first write, in order: k rows of dtype
\*         descr, out = "ok" | "rejected" (what the call did); <<>> for a plain write / read-back cycle
\* Every clause is named; a failing clause is reported as <<entry point, clause>>.
\* the table the file holds after the history: a refused call is a stutter, an accepted append of the file's
\* dtype adds its rows, an accepted append of another dtype leaves the rest unconstrained (free)
RECURSIVE AfterSteps(_, _, _)
AfterSteps(c, k, acc) ==
    IF k > Len(c.steps) \/ acc.free THEN acc
    ELSE LET s == c.steps[k] IN
         AfterSteps(c, k + 1, IF s.out = "rejected" THEN acc
                              ELSE IF s.descr = c.descr THEN [acc EXCEPT !.rows = @ \o s.rows]
                              ELSE [acc EXCEPT !.free = TRUE])
Expected(c) == AfterSteps(c, 1, [free |-> FALSE, rows |-> c.rows])
StepsOK(c) == /\ c.steps # <<>> => (c.writer \in HdrWriters /\ c.block = 1)
              /\ \A i \in DOMAIN c.steps : LET s == c.steps[i] IN
                    /\ s.out \in {"ok", "rejected"} /\ s.k >= 1 /\ DescrOK(s.descr)
                    /\ (s.descr = c.descr) => Len(s.rows) = s.k

InScope(c) == /\ c.writer \in Writers /\ DescrOK(c.descr) /\ TableOK(c)
              /\ c.layout \in Layouts /\ (c.layout = "zerod" => c.n = 1)
              /\ (c.writer \in RawWriters) => (~c.hdr.given /\ c.hdr.ents = <<>>)
              /\ \A i, j \in DOMAIN c.hdr.ents : i # j => c.hdr.ents[i].k # c.hdr.ents[j].k
              /\ StepsOK(c)

ReadersFor(c) == IF c.writer \in HdrWriters THEN Readers ELSE GivenReaders

\* user keys the statement speaks about
UserEnts(c) == {i \in DOMAIN c.hdr.ents : ~c.hdr.ents[i].reserved}

HdrFailing(c, h) ==
    (IF h.size = c.n THEN {} ELSE {"hdr_row_count"})
    \cup (IF h.dtype_ok /\ h.descr = c.descr THEN {} ELSE {"hdr_dtype"})
    \cup (IF \A i \in UserEnts(c) : \E j \in DOMAIN h.ents : h.ents[j].k = c.hdr.ents[i].k THEN {} ELSE {"hdr_key_missing"})
    \cup (IF \A i \in UserEnts(c) : \A j \in DOMAIN h.ents :
                 h.ents[j].k = c.hdr.ents[i].k => h.ents[j].v = c.hdr.ents[i].v THEN {} ELSE {"hdr_value"})

TableFailing(c, o) ==
    (IF FNames(o.descr) = FNames(c.descr) THEN {} ELSE {"field_names"})
    \cup (IF FTypes(o.descr) = FTypes(c.descr) THEN {} ELSE {"field_types"})
    \cup (IF FShapes(o.descr) = FShapes(c.descr) THEN {} ELSE {"subarray_shapes"})
    \cup (IF FOrders(o.descr) = FOrders(c.descr) THEN {} ELSE {"byte_order"})
    \cup (IF o.n = c.n THEN (IF o.rows = c.rows THEN {} ELSE {"row_bytes"}) ELSE {"row_count"})

\* one observation stands for all the entry points that returned exactly this (o.readers)
ObsFailing(c, o) ==
    IF o.err # "none" THEN {"unexpected_error"}
    ELSE TableFailing(c, o) \cup (IF o.hdr.present THEN HdrFailing(c, o.hdr) ELSE {})   \* readers that return no header show none

\* a file written by any entry point reads identically through every other
Agree(o1, o2) == /\ o1.descr = o2.descr /\ o1.rows = o2.rows /\ o1.n = o2.n
                 /\ (o1.hdr.present /\ o2.hdr.present) => o1.hdr = o2.hdr

\* the entry points of an observation the specification constrains for this case
Constrained(c, o) == VRange(o.readers) \cap ReadersFor(c)

\* c0: the case as written first; the clauses are evaluated against the table after the history
Failing(c0, w, obs, raw) ==
    IF ~InScope(c0) THEN {<<"harness", "out_of_scope">>}
    ELSE IF w.err = "crashed" THEN {<<c0.writer, "process_crashed">>}       \* the interpreter died during the cycle
    ELSE IF w.err # "none" THEN {<<c0.writer, "write_rejected">>}
    ELSE IF Expected(c0).free THEN {}
    ELSE LET c == IF c0.steps = <<>> THEN c0
                  ELSE [c0 EXCEPT !.rows = Expected(c0).rows, !.n = Len(Expected(c0).rows)] IN
         UNION {{<<rd, cl>> : rd \in Constrained(c, obs[k]), cl \in ObsFailing(c, obs[k])} : k \in DOMAIN obs}
         \cup (IF raw.seen /\ (raw.rows # c.rows \/ raw.n # c.n) THEN {<<c.writer, "raw_rows">>} ELSE {})
         \cup (IF /\ c.writer \in HdrWriters /\ c.hdr.given
                  /\ \E k \in DOMAIN obs : obs[k].err = "none" /\ VRange(obs[k].readers) \cap SelfReaders # {}
                  /\ ~(\E k \in DOMAIN obs : obs[k].err = "none" /\ obs[k].hdr.present)
               THEN {<<"harness", "header_not_observed">>} ELSE {})
         \cup (IF ReadersFor(c) \subseteq UNION {VRange(obs[k].readers) : k \in DOMAIN obs} THEN {}
               ELSE {<<"harness", "reader_not_observed">>})
         \cup UNION {{<<rd, "cross_entry">> : rd \in Constrained(c, obs[k])} : k \in {k \in DOMAIN obs :
                   /\ Constrained(c, obs[k]) # {} /\ obs[k].err = "none"
                   /\ \E m \in 1..(k - 1) : Constrained(c, obs[m]) # {} /\ obs[m].err = "none" /\ ~Agree(obs[m], obs[k])}}
=============================================================================
