------------------------------- MODULE BinRoundTripMC -------------------------------
(* Bounded model of BinRoundTrip.tla.                                                   *)
(*  Enumeration (exported as JSON, every case is executed against the real code):        *)
(*   ChooseSingle        every one-field dtype: 15 element types x 5 shapes x byte orders *)
(*   ChooseFirst/Second  every two-field dtype over a 6-type sub-catalogue x 4 shapes     *)
(*                       x byte orders (mixed orders included)                            *)
(*   SimAddField/SimDone random 3..MaxFields-field dtypes (tlc -simulate)                 *)
(*   ChooseBig           tables just above 2^24 / 2^25 bytes with row sizes 3, 12, 20, 24  *)
(*                       (not dividing a power of two) and 8, 16 (dividing it)            *)
(*   ChooseIO / SimIO    writer entry point, row count in RowCounts, memory layout of the  *)
(*                       array argument (incl. a 2-d table, one dtype in three), header id (crossed when CrossIO - layouts for    *)
(*                       the one-field dtypes -, else chosen by a covering rule); a user   *)
(*                       header key that looks like a reserved name (delim, SIZE, Dtype,  *)
(*                       nrows, shape, has_fields, version x letter case x value kind)    *)
(*   ChooseHist / SimStep a history of appends and REFUSED appends (other field type, byte  *)
(*                       order, name, shape, fewer fields) after the first write, made     *)
(*                       through one handle / reopened r+ handles / sfile.write(append) /  *)
(*                       io.write(append); -simulate: up to MaxHist steps                  *)
(*  Behaviour (checked, not exported): DoWrite, DoStep (Append grows the file, Reject is a  *)
(*  stutter), then DoRead through every reading entry   *)
(*  point in turn, then Rewrite (another entry point overwrites the path with a different *)
(*  table) and DoRead again.  Invariants: ReadInv, SizeInv, CrossEntry, LastWriteWins.    *)
EXTENDS BinRoundTrip, Json

CONSTANTS BigItems,     \* row sizes (bytes) of the big tables: subset of {3, 8, 12, 16, 20, 24}
          BigExps,      \* their sizes: just above 2^e bytes, e in BigExps (subset of {24, 25})
          RowCounts,    \* e.g. {1, 2, 5}
          NHdr,         \* header ids 0..NHdr-1 (0 = no header argument); the harness owns the catalogue
          CrossIO,      \* TRUE: writer x row count crossed for every dtype
          MaxFields,    \* simulation: up to this many fields
          MaxHist,      \* simulation: histories of up to this many appends / refused appends
          HistEvery,    \* one small header-file case in HistEvery also gets a history from HistSeq
          DoExport

VARIABLES phase, src, d, c, gen, ridx, seen, last, hpos
mcvars == <<phase, src, d, c, gen, ridx, seen, last, hpos>>
vars == <<file, res, phase, src, d, c, gen, ridx, seen, last, hpos>>

K15 == << <<"i", 1>>, <<"u", 1>>, <<"i", 2>>, <<"u", 2>>, <<"i", 4>>, <<"u", 4>>, <<"i", 8>>, <<"u", 8>>,
          <<"f", 4>>, <<"f", 8>>, <<"b", 1>>, <<"c", 8>>, <<"c", 16>>, <<"S", 1>>, <<"S", 5>> >>
K6  == << <<"i", 2>>, <<"u", 8>>, <<"f", 8>>, <<"c", 8>>, <<"b", 1>>, <<"S", 3>> >>
Shapes == << <<>>, <<3>>, <<2, 3>>, <<2, 1, 2>>, <<1>> >>
NameSeq == <<"x", "END", "TREND", "SIZE_1", "_x", "ENDING", "END_", "aEND", "size", "SIZE">>
WriterSeq == <<"SFile.write", "sfile.write", "io.write", "Recfile.write", "recfile.write", "sfile.write(data,file)">>
ReaderSeq == <<"SFile.read", "Recfile.read", "sfile.read", "recfile.read", "io.read", "io.read(dtype)",
               "SFile[:]", "Recfile[:]", "Recfile.read(nrows)", "SFile.reopen">>
RowSeq == VSortSet(RowCounts)

OrdersOf(k) == IF HasOrder(k[1], k[2]) THEN {"lt", "gt"} ELSE {"na"}
Fld(nm, k, sh, o) == [name |-> nm, kind |-> k[1], size |-> k[2], shape |-> sh, order |-> o]
Pick(s, i) == s[(i % Len(s)) + 1]

LayoutSeq == <<"contig", "step2", "reversed", "column2d", "zerod", "table2d">>
\* user header keys that look like reserved names (the reserved name without its underscore, in any letter case);
\* they are ordinary user keys.  lc: lower / upper / capitalised; val: a value of the type the reserved entry has
\* ("plausible") or a short text.  "none": no such key.
UNames == <<"none", "delim", "size", "none", "dtype", "version", "none", "nrows", "shape", "has_fields">>
UCases == <<"lower", "upper", "cap">>
UVals  == <<"plausible", "text">>
NoUKey == [name |-> "none", lc |-> "lower", val |-> "text"]
UKey(u) == IF Pick(UNames, u) = "none" THEN NoUKey
           ELSE [name |-> Pick(UNames, u), lc |-> Pick(UCases, u \div 2), val |-> Pick(UVals, u \div 3)]

NoCase == [src |-> "none", writer |-> "none", layout |-> "contig", descr |-> <<>>, nrows |-> 0, n |-> 0, block |-> 1,
           hid |-> 0, ukey |-> NoUKey, hmode |-> "none", steps |-> <<>>]

\* ---- histories: appends tried after the first write.  A step is [kind, k, descr]: kind "good" (k rows of the
\* file's dtype) or one of BadKinds (k rows of Variant(d, kind), to be refused).  hmode: how the appends are made.
HModes == <<"handle", "reopen", "sfile.append", "io.append">>
G(k)  == [kind |-> "good", k |-> k, descr |-> d]
B(kd) == [kind |-> kd, k |-> 2, descr |-> Variant(d, kd)]
HistSeq == << <<B("type")>>, <<B("order")>>, <<B("name")>>, <<B("shape")>>, <<B("fewer")>>,
              <<B("type"), G(1)>>, <<G(2), B("type")>>, <<B("order"), G(1)>>, <<G(1), B("name"), G(2)>>,
              <<B("type"), B("type")>>, <<B("shape"), G(2), B("type")>>, <<G(1), G(1), B("order")>>,
              <<B("type"), G(3), B("fewer"), G(1)>>, <<G(2), B("fewer"), G(1)>>, <<G(1), G(2)>> >>
NoTable == [descr |-> <<>>, rows |-> <<>>, n |-> 0, block |-> 1]

Init == /\ BRInit
        /\ phase = "start" /\ src = "none" /\ d = <<>> /\ c = NoCase /\ gen = 0 /\ ridx = 0 /\ seen = {} /\ last = NoTable /\ hpos = 0

Keep == UNCHANGED <<file, res, c, gen, ridx, seen, last, hpos>>

ChooseSingle ==
    /\ phase = "start"
    /\ \E ki \in DOMAIN K15, si \in DOMAIN Shapes : \E o \in OrdersOf(K15[ki]) :
          d' = <<Fld(Pick(NameSeq, ki + 2 * si + (IF o = "gt" THEN 5 ELSE 0)), K15[ki], Shapes[si], o)>>
    /\ phase' = "descr" /\ src' = "single" /\ Keep

ChooseFirst ==
    /\ phase = "start"
    /\ \E ki \in DOMAIN K6, si \in 1..4 : \E o \in OrdersOf(K6[ki]) :
          d' = <<Fld(Pick(NameSeq, 3 * ki + si), K6[ki], Shapes[si], o)>>
    /\ phase' = "first" /\ src' = "pair" /\ Keep

ChooseSecond ==
    /\ phase = "first"
    /\ \E ki \in DOMAIN K6, si \in 1..4 : \E o \in OrdersOf(K6[ki]) :
          LET nm == CHOOSE n \in {Pick(NameSeq, ki + 2 * si + j) : j \in 0..1} : n # d[1].name
          IN d' = d \o <<Fld(nm, K6[ki], Shapes[si], o)>>
    /\ phase' = "descr" /\ UNCHANGED src /\ Keep

\* simulation: one more field of any catalogue type, any shape, the next name not used yet
SimAddField ==
    /\ phase \in {"start", "sim"} /\ Len(d) < MaxFields
    /\ \E ki \in DOMAIN K15, si \in DOMAIN Shapes : \E o \in OrdersOf(K15[ki]) :
          LET used == {d[i].name : i \in DOMAIN d}
              j    == CHOOSE j \in 0..Len(NameSeq) : Pick(NameSeq, ki + si + j) \notin used
                                                     /\ \A m \in 0..(j - 1) : Pick(NameSeq, ki + si + m) \in used
          IN d' = d \o <<Fld(Pick(NameSeq, ki + si + j), K15[ki], Shapes[si], o)>>
    /\ phase' = "sim" /\ src' = "sim" /\ Keep

SimDone ==
    /\ phase = "sim" /\ Len(d) >= 3
    /\ phase' = "descr" /\ UNCHANGED <<src, d>> /\ Keep

\* a number that depends on every feature of the dtype (for the covering rule)
Mix == VSum([i \in DOMAIN d |-> i * (d[i].size + 3 * Len(d[i].shape) + (IF d[i].order = "gt" THEN 7 ELSE 0)
                                    + (IF d[i].kind \in {"f", "c"} THEN 11 ELSE IF d[i].kind = "S" THEN 5 ELSE 0))])

\* a 0-d array has one row
Lay(n, l) == IF l = "zerod" /\ n # 1 THEN "contig" ELSE l
MkCase(w, n, h, l) == [src |-> src, writer |-> w, layout |-> Lay(n, l), descr |-> d, nrows |-> n, n |-> n, block |-> 1,
                       hid |-> IF w \in RawWriters THEN 0 ELSE h,
                       ukey |-> IF w \in RawWriters THEN NoUKey ELSE UKey(Mix + 3 * h + n), hmode |-> "none", steps |-> <<>>]

\* CrossIO: writer x row count crossed for every dtype, and x memory layout for the one-field dtypes
ChooseIO ==
    /\ phase = "descr" /\ src # "sim"
    /\ IF CrossIO
       THEN \E wi \in DOMAIN WriterSeq, ri \in DOMAIN RowSeq :
            \E li \in (IF src = "single" THEN DOMAIN LayoutSeq ELSE {((Mix + wi + 2 * ri) % 5) + 1} \cup (IF (Mix + wi) % 3 = 0 THEN {6} ELSE {})) :
               c' = MkCase(WriterSeq[wi], RowSeq[ri], (Mix + 5 * wi + 3 * ri) % NHdr, LayoutSeq[li])
       ELSE \E li \in {(Mix % 5) + 1, ((Mix \div 5 + Len(d)) % 5) + 1} \cup (IF Mix % 3 = 0 THEN {6} ELSE {}) :
               c' = MkCase(Pick(WriterSeq, Mix + li), Pick(RowSeq, Mix \div 2 + Len(d) + li), (Mix \div 3 + li) % NHdr, LayoutSeq[li])
    /\ phase' = "case" /\ UNCHANGED <<file, res, src, d, gen, ridx, seen, last, hpos>>

\* a history on top of a small header-file case (one in HistEvery by the covering number)
ChooseHist ==
    /\ phase = "case" /\ src \in {"single", "pair"} /\ c.steps = <<>> /\ c.writer \in HdrWriters
    /\ (Mix + c.nrows) % HistEvery = 0
    /\ LET m == Pick(HModes, Mix \div 2 + c.nrows)
       IN c' = [c EXCEPT !.src = "hist", !.hmode = m, !.steps = Pick(HistSeq, Mix \div 3 + c.nrows + c.hid),
                         !.writer = IF m = "handle" THEN "SFile.write" ELSE @]
    /\ src' = "hist" /\ UNCHANGED <<file, res, phase, d, gen, ridx, seen, last, hpos>>

\* simulation: long random histories (up to MaxHist steps)
SimStep ==
    /\ phase = "case" /\ src = "sim" /\ c.writer \in HdrWriters /\ Len(c.steps) < MaxHist
    /\ \E kd \in BadKinds \cup {"good"}, k \in 1..2 :
          c' = [c EXCEPT !.steps = @ \o <<IF kd = "good" THEN G(k) ELSE B(kd)>>,
                         !.hmode = IF @ = "none" THEN Pick(HModes, Mix + k) ELSE @,
                         !.writer = IF c.hmode = "none" /\ Pick(HModes, Mix + k) = "handle" THEN "SFile.write" ELSE @]
    /\ UNCHANGED <<file, res, phase, src, d, gen, ridx, seen, last, hpos>>

SimIO ==
    /\ phase = "descr" /\ src = "sim"
    /\ \E wi \in DOMAIN WriterSeq, ri \in DOMAIN RowSeq, h \in 0..(NHdr - 1), li \in DOMAIN LayoutSeq :
          c' = MkCase(WriterSeq[wi], RowSeq[ri], h, LayoutSeq[li])
    /\ phase' = "case" /\ UNCHANGED <<file, res, src, d, gen, ridx, seen, last, hpos>>

\* ---- big tables: rows x row size just above 2^24 / 2^25 bytes, row sizes that do and do not divide a power of two.
\* A row token stands for a block of rows (about 32 blocks per table).
RECURSIVE Pow2(_)
Pow2(k) == IF k = 0 THEN 1 ELSE 2 * Pow2(k - 1)
BigDescr(isz) ==
    CASE isz = 3  -> <<Fld("tag", <<"S", 3>>, <<>>, "na")>>
      [] isz = 8  -> <<Fld("x", <<"f", 8>>, <<>>, "lt")>>
      [] isz = 12 -> <<Fld("id", <<"i", 4>>, <<>>, "lt"), Fld("x", <<"f", 8>>, <<>>, "lt")>>
      [] isz = 16 -> <<Fld("z", <<"c", 16>>, <<>>, "gt")>>
      [] isz = 20 -> <<Fld("id", <<"i", 4>>, <<>>, "gt"), Fld("v", <<"f", 8>>, <<2>>, "lt")>>
      [] isz = 24 -> <<Fld("z", <<"c", 16>>, <<>>, "lt"), Fld("END", <<"f", 8>>, <<>>, "gt")>>
ChooseBig ==
    /\ phase = "start"
    /\ \E isz \in BigItems, e \in BigExps :
       \E wi \in (IF CrossIO THEN DOMAIN WriterSeq ELSE {((isz + e) % Len(WriterSeq)) + 1}) :
          LET n == (Pow2(e) \div isz) + 1000
              b == (n + 31) \div 32
              w == WriterSeq[wi]
          IN /\ d' = BigDescr(isz)
             /\ c' = [src |-> "big", writer |-> w, layout |-> "contig", descr |-> BigDescr(isz),
                      nrows |-> (n + b - 1) \div b, n |-> n, block |-> b,
                      hid |-> IF w \in RawWriters THEN 0 ELSE (isz + e + wi) % NHdr, ukey |-> NoUKey,
                      hmode |-> "none", steps |-> <<>>]
    /\ phase' = "case" /\ src' = "big" /\ UNCHANGED <<file, res, gen, ridx, seen, last, hpos>>

\* ---- the behaviour of one case -----------------------------------------------------------------------
Table(cc)  == [descr |-> cc.descr, rows |-> [i \in 1..cc.nrows |-> i], n |-> cc.n, block |-> cc.block]
HdrEnts(cc) == (IF cc.hid = 0 THEN <<>> ELSE <<[k |-> 1, v |-> cc.hid, reserved |-> FALSE]>>)
               \o (IF cc.ukey.name = "none" THEN <<>> ELSE <<[k |-> 2, v |-> 1, reserved |-> FALSE]>>)
HLen(cc)   == IF cc.writer \in RawWriters THEN 0 ELSE 97 + 3 * cc.hid

DoWrite ==
    /\ phase = "case"
    /\ Write(c.writer, Table(c), HdrEnts(c), HLen(c), c.layout)
    /\ phase' = "written" /\ gen' = 1 /\ ridx' = 0 /\ seen' = {} /\ last' = Table(c) /\ hpos' = 0
    /\ UNCHANGED <<src, d, c>>

DoRead ==
    /\ phase = "written" /\ ridx < Len(ReaderSeq) /\ (gen = 1 => hpos = Len(c.steps))
    /\ Read(ReaderSeq[ridx + 1])
    /\ ridx' = ridx + 1
    /\ seen' = IF res'.err = "none" THEN seen \cup {[descr |-> res'.descr, rows |-> res'.rows, n |-> res'.n, block |-> file.block]} ELSE seen
    /\ UNCHANGED <<phase, src, d, c, gen, last, hpos>>

\* the history of the case, step by step, before the reads: good appends grow the file, refused ones stutter
DoStep ==
    /\ phase = "written" /\ gen = 1 /\ ridx = 0 /\ hpos < Len(c.steps)
    /\ LET s == c.steps[hpos + 1] IN
       IF s.kind = "good"
       THEN LET t == [descr |-> s.descr, rows |-> [i \in 1..s.k |-> 100 + 10 * hpos + i], n |-> s.k, block |-> 1]
            IN AppendRows(c.hmode, t) /\ last' = [last EXCEPT !.rows = @ \o t.rows, !.n = @ + t.n]
       ELSE Reject(c.hmode) /\ UNCHANGED last
    /\ hpos' = hpos + 1
    /\ UNCHANGED <<phase, src, d, c, gen, ridx, seen>>

\* another entry point overwrites the same path with a different table (fields and rows reversed, no header)
Reversed(s) == [i \in DOMAIN s |-> s[Len(s) + 1 - i]]
Rewrite ==
    /\ phase = "written" /\ ridx = Len(ReaderSeq) /\ gen = 1
    /\ LET w == Pick(WriterSeq, Mix + c.nrows + 1)
           t == [descr |-> Reversed(c.descr), rows |-> Reversed(Table(c).rows) \o <<c.nrows + 1>>, n |-> c.nrows + 1, block |-> 1]
       IN /\ Write(w, t, <<>>, IF w \in RawWriters THEN 0 ELSE 61, Pick(<<"reversed", "step2", "column2d", "contig">>, Mix))
          /\ last' = t
    /\ gen' = 2 /\ ridx' = 0 /\ seen' = {}
    /\ UNCHANGED <<phase, src, d, c, hpos>>

Next == ChooseSingle \/ ChooseFirst \/ ChooseSecond \/ ChooseIO \/ ChooseBig \/ ChooseHist \/ DoWrite \/ DoStep \/ DoRead \/ Rewrite
NextExport == ChooseSingle \/ ChooseFirst \/ ChooseSecond \/ ChooseIO \/ ChooseBig \/ ChooseHist
\* simulation prints the case of the behaviour that was actually taken (a CONSTRAINT would see every candidate successor)
SimEmit ==
    /\ phase = "case" /\ src = "sim"
    /\ PrintT(<<"CASE", ToJson(c)>>)
    /\ phase' = "emitted" /\ UNCHANGED <<file, res, src, d, c, gen, ridx, seen, last, hpos>>
NextSim == SimAddField \/ SimDone \/ SimIO \/ SimStep \/ SimEmit

Spec == Init /\ [][Next]_vars

\* ---- theorems ---------------------------------------------------------------------------------------------
\* cross-entry agreement: whatever entry point wrote, every reader that is constrained returned the same table
CrossEntry == Cardinality(seen) <= 1 /\ (\A s \in seen : s = last)
LastWriteWins == phase = "written" => (file.descr = last.descr /\ file.rows = last.rows)
CasesInScope == phase = "case" => (/\ DescrOK(c.descr) /\ c.writer \in Writers /\ c.hid \in 0..(NHdr - 1)
                                   /\ TableOK(Table(c))
                                   /\ (c.src # "big") => (c.nrows \in RowCounts /\ c.n = c.nrows /\ c.block = 1)
                                   /\ (c.src = "big") => (\E e \in BigExps : /\ c.n * ItemSize(c.descr) > Pow2(e)
                                                                               /\ c.n * ItemSize(c.descr) < Pow2(e) + Pow2(16))
                                   /\ (c.writer \in RawWriters) => (c.hid = 0 /\ c.ukey = NoUKey)
                                   /\ c.layout \in Layouts /\ (c.layout = "zerod" => c.n = 1))
\* every step of a history is a well-formed dtype; the "bad" ones really differ from the file's
HistOK == phase = "case" => \A i \in DOMAIN c.steps :
             /\ DescrOK(c.steps[i].descr) /\ (c.steps[i].kind = "good") = (c.steps[i].descr = c.descr)
             /\ c.writer \in HdrWriters /\ c.hmode \in VRange(HModes) /\ (c.hmode = "handle" => c.writer = "SFile.write")
\* the file written does not depend on the memory layout of the array argument
LayoutIndependent == phase = "written" => (file.rows = last.rows /\ file.descr = last.descr /\ file.n = last.n)

\* ---- export -------------------------------------------------------------------------------------------------
Export == (DoExport /\ phase = "case") => PrintT(<<"CASE", ToJson(c)>>)
=============================================================================
