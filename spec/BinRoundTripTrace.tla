------------------------------- MODULE BinRoundTripTrace -------------------------------
(* Trace validation for C01: every recorded write / read-back cycle of the real code    *)
(* is judged by the property-level acceptance of BinRoundTrip.tla.  One ndjson line per  *)
(* record:                                                                                *)
(*   {"id": k, "c": <case>, "w": {"err": ..}, "raw": {"seen": bool, "rows": [...]},       *)
(*    "obs": [<one observation per distinct outcome, with the entry points that gave it>]} *)
(* Rejected records are printed with the failing <<entry point, clause>> pairs.           *)
EXTENDS BinRoundTrip, Json, IOUtils

VARIABLES blk, tid
Traces == ndJsonDeserialize(IOEnv.TRACE_FILE)
NT == Len(Traces)
BlockSize == 256
NBlocks == (NT + BlockSize - 1) \div BlockSize

Init == blk = 0 /\ tid = 0 /\ BRInit
PickBlock == blk = 0 /\ tid = 0 /\ \E b \in 1..NBlocks : blk' = b /\ tid' = 0 /\ UNCHANGED brvars
PickTrace == blk > 0 /\ tid = 0
             /\ \E t \in ((blk - 1) * BlockSize + 1)..VMin2(blk * BlockSize, NT) : tid' = t /\ blk' = blk
             /\ UNCHANGED brvars
Next == PickBlock \/ PickTrace

Check == tid > 0 =>
    LET r == Traces[tid]  f == Failing(r.c, r.w, r.obs, r.raw)
    IN f = {} \/ PrintT(<<"REJECT", ToJson([id |-> r.id, failing |-> f])>>)
=============================================================================
