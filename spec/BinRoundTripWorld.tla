------------------------------- MODULE BinRoundTripWorld -------------------------------
(* C01, world level: the outcome of a call on a record file depends on its arguments and on *)
(* the history of ITS file / ITS handle only - never on what was done to other files, by      *)
(* other entry points earlier in the process, nor on what the caller did to RESULTS it was     *)
(* handed (results are the caller's: a later call neither changes them nor sees the caller's   *)
(* changes).                                                                                   *)
(*                                                                                             *)
(* The world of a session (one process):                                                       *)
(*   path 1, 2  twin self-describing files: same dtype, same user header => byte-identical     *)
(*              header text, different row counts (2 and 3)                                    *)
(*   path 3     same column names, same row size, same user header, other column types         *)
(*   path 4     a header-less file of the dtype of path 1 (low-level Recfile entry points)      *)
(*   handles    two handle objects opened with mode 'r+' (SFile on 1..3, Recfile on 4)          *)
(*   held       the results the caller keeps (header dicts, tables with their header)           *)
(* A step is [op, p, h, e, shape, i]:                                                           *)
(*   RH  read the header of p through entry point e; the dict is kept                           *)
(*   RT  read the table of p through e (with its header where e returns one); kept              *)
(*   WR  overwrite p (writer e) with p + 2 new rows taken from the caller's buffer: the SAME        *)
(*       read-only view object every time, its writable base changed in between (MutateBase)    *)
(*   OP  open handle h on p ('r+')       CL  close it                                           *)
(*   AP  append through h a chunk of shape `shape` (1-d <<k>> or 2-d <<r, c>> = r*c rows)        *)
(*   HR  read through the (writing) handle h: e in read / [:] / read(header) / nrows            *)
(*   SC  Scribble: the caller overwrites kept result i (header: _SIZE, a user key changed, one  *)
(*       deleted; table: every byte)                                                            *)
(* An observation is one record for every kind of result:                                       *)
(*   [err, n, rows, tdok, size, user, dok]  n / rows / tdok: the table part (-1, <<>> if none;   *)
(*   tdok: its dtype is the file's); size / user /                                              *)
(*   dok: the header part (row count, 1 iff every user key is there with an equal value, dtype   *)
(*   reconstructs) (-9, -1, FALSE if none).  Row tokens as in BinRoundTrip.tla; 0 = no row that  *)
(*   was ever written.                                                                          *)
EXTENDS VU

Paths   == 1..4
Handles == 1..2
IsRaw(p) == p = 4
TextOf(p) == CASE p \in {1, 2} -> 1 [] p = 3 -> 2 [] OTHER -> 0       \* header text id; 0: no header
InitN(p) == IF p = 2 THEN 3 ELSE 2
InitRows(p) == [i \in 1..InitN(p) |-> 100 * p + i]
MaxHeld == 3
NWrite(p) == p + 2           \* rows an overwrite of path p writes: the twins stay different (3 and 4)

RHEntries  == <<"sfile.read_header", "io.read(header=only)", "io.read_header">>
RTEntries  == <<"sfile.read", "io.read", "SFile.read", "SFile[:]">>                 \* each with the header
RawRTEntries == <<"recfile.read", "Recfile.read", "io.read(dtype)", "Recfile[:]">>
WREntries  == <<"sfile.write", "SFile.write", "io.write", "sfile.write(data,file)">>
RawWREntries == <<"recfile.write", "Recfile.write">>
HREntries  == <<"read", "[:]", "read(header)", "nrows">>
RawHREntries == <<"read", "[:]", "nrows">>
Shapes == << <<1>>, <<2>>, <<1, 2>>, <<2, 1>>, <<2, 2>>, <<3, 1>> >>

RECURSIVE WProd(_)
WProd(s) == IF s = <<>> THEN 1 ELSE Head(s) * WProd(Tail(s))
ChunkRows(j, shape) == [i \in 1..WProd(shape) |-> 1000 + 10 * j + i]      \* j: the index of the step in the session
WriteRows(j, p) == [i \in 1..NWrite(p) |-> 2000 + 10 * j + i]

NoObs == [err |-> "none", n |-> -1, rows |-> <<>>, tdok |-> TRUE, size |-> -9, user |-> -1, dok |-> FALSE]
TabObs(rows)  == [NoObs EXCEPT !.n = Len(rows), !.rows = rows]
HdrObs(n)     == [NoObs EXCEPT !.size = n, !.user = 1, !.dok = TRUE]
FullObs(rows) == [TabObs(rows) EXCEPT !.size = Len(rows), !.user = 1, !.dok = TRUE]
CountObs(n)   == [NoObs EXCEPT !.size = n]
Scribbled(o)  == [o EXCEPT !.rows = [i \in DOMAIN @ |-> 0],
                           !.size = IF @ = -9 THEN -9 ELSE -5, !.user = IF @ = -1 THEN -1 ELSE 0]

NoStep == [op |-> "none", p |-> 0, h |-> 0, e |-> "", shape |-> <<>>, i |-> 0]

\* ---- the property-level world: pure functions -------------------------------------------------------
\* w = [files : path -> rows, hnd : handle -> path or 0, held : Seq(observation the kept result must show)]
W0 == [files |-> [p \in Paths |-> InitRows(p)], hnd |-> [h \in Handles |-> 0], held |-> <<>>, scr |-> {}]

OpenOn(w, p) == {h \in Handles : w.hnd[h] = p}
EntriesFor(s) == CASE s.op = "RH" -> VRange(RHEntries)
                   [] s.op = "RT" -> IF IsRaw(s.p) THEN VRange(RawRTEntries) ELSE VRange(RTEntries)
                   [] s.op = "WR" -> IF IsRaw(s.p) THEN VRange(RawWREntries) ELSE VRange(WREntries)
                   [] s.op = "HR" -> VRange(HREntries)
                   [] OTHER -> {""}

\* which steps the world admits (a file is read / replaced afresh only while no handle is open on it; one handle
\* per path; the statement says nothing about concurrent handles)
Admits(w, s) ==
    CASE s.op = "RH" -> s.p \in 1..3 /\ OpenOn(w, s.p) = {} /\ Len(w.held) < MaxHeld /\ s.e \in EntriesFor(s)
      [] s.op = "RT" -> s.p \in Paths /\ OpenOn(w, s.p) = {} /\ Len(w.held) < MaxHeld /\ s.e \in EntriesFor(s)
      [] s.op = "WR" -> s.p \in Paths /\ OpenOn(w, s.p) = {} /\ s.e \in EntriesFor(s)
      [] s.op = "OP" -> s.p \in Paths /\ s.h \in Handles /\ OpenOn(w, s.p) = {} /\ w.hnd[s.h] = 0
      [] s.op = "CL" -> s.h \in Handles /\ w.hnd[s.h] # 0
      [] s.op = "AP" -> s.h \in Handles /\ w.hnd[s.h] # 0 /\ s.shape \in VRange(Shapes)
      [] s.op = "HR" -> /\ s.h \in Handles /\ w.hnd[s.h] # 0
                        /\ s.e \in (IF IsRaw(w.hnd[s.h]) THEN VRange(RawHREntries) ELSE VRange(HREntries))
      [] s.op = "SC" -> s.i \in DOMAIN w.held /\ s.i \notin w.scr
      [] OTHER -> FALSE

\* what the call must return (j: index of the step in its session)
Expect(w, s, j) ==
    CASE s.op = "RH" -> HdrObs(Len(w.files[s.p]))
      [] s.op = "RT" -> IF IsRaw(s.p) THEN TabObs(w.files[s.p]) ELSE FullObs(w.files[s.p])
      [] s.op = "HR" -> LET rows == w.files[w.hnd[s.h]] IN
                        CASE s.e = "nrows" -> CountObs(Len(rows))
                          [] s.e = "read(header)" -> FullObs(rows)
                          [] OTHER -> TabObs(rows)
      [] OTHER -> NoObs

Apply(w, s, j) ==
    CASE s.op \in {"RH", "RT"} -> [w EXCEPT !.held = Append(@, Expect(w, s, j))]
      [] s.op = "WR" -> [w EXCEPT !.files[s.p] = WriteRows(j, s.p)]
      [] s.op = "OP" -> [w EXCEPT !.hnd[s.h] = s.p]
      [] s.op = "CL" -> [w EXCEPT !.hnd[s.h] = 0]
      [] s.op = "AP" -> [w EXCEPT !.files[w.hnd[s.h]] = @ \o ChunkRows(j, s.shape)]
      [] s.op = "SC" -> [w EXCEPT !.held[s.i] = Scribbled(@), !.scr = @ \cup {s.i}]
      [] OTHER -> w

\* ---- acceptance of a recorded session (BinRoundTripWorldTrace): steps = Seq([s, obs]), final = Seq(obs) --------
\* -> the set of <<step index, clause>> that fail; step index 0: a kept result changed behind the caller's back
ObsClauses(exp, got) ==
    IF got.err # "none" THEN {"unexpected_error"}
    ELSE (IF got.n = exp.n THEN (IF got.rows = exp.rows THEN {} ELSE {"row_bytes"}) ELSE {"row_count"})
         \cup (IF got.tdok = exp.tdok THEN {} ELSE {"field_types"})
         \cup (IF got.size = exp.size THEN {} ELSE {"hdr_row_count"})
         \cup (IF got.user = exp.user THEN {} ELSE {"hdr_value"})
         \cup (IF got.dok = exp.dok THEN {} ELSE {"hdr_dtype"})

RECURSIVE Replay(_, _, _, _)
Replay(steps, j, w, acc) ==
    IF j > Len(steps) THEN [w |-> w, failing |-> acc]
    ELSE LET s == steps[j].s IN
         IF ~Admits(w, s) THEN [w |-> w, failing |-> acc \cup {<<j, "harness", "step_not_admitted">>}]
         ELSE Replay(steps, j + 1, Apply(w, s, j),
                     acc \cup {<<j, s.op, cl>> : cl \in ObsClauses(Expect(w, s, j), steps[j].obs)})

SessionFailing(steps, final) ==
    LET r == Replay(steps, 1, W0, {}) IN
    r.failing \cup
    (IF Len(final) # Len(r.w.held) THEN {<<0, "harness", "kept_results_not_observed">>}
     ELSE UNION {{<<i, "kept_result", cl>> : cl \in ObsClauses(r.w.held[i], final[i])} : i \in DOMAIN final})
=============================================================================
