------------------------------- MODULE BinRoundTripWorldMC -------------------------------
(* The world machine of C01 checked against a MECHANISM: how header dicts are produced and    *)
(* how a writing handle counts its rows.                                                        *)
(*   Mech = "faithful"   every header read evaluates the file's own text into a new dict; the   *)
(*                       handle counts the rows of a chunk (its size)                          *)
(*          "memo_text"  the evaluated header is memoised per header TEXT and the memo hands    *)
(*                       out its own dict (the row count is written into it at every open)      *)
(*          "len_count"  the handle counts len(chunk): the first axis only                      *)
(* Invariants: CallInv (every call returns what the property-level world of                     *)
(* BinRoundTripWorld.tla says = what it would return in a fresh process), HeldInv (every kept    *)
(* result still shows what it showed when handed out, or what the caller wrote into it).         *)
(* The faithful mechanism satisfies them on every session of <= MaxSteps steps; the deviating    *)
(* ones must violate them (self-tests).  -simulate exports random sessions (SimEmit).           *)
EXTENDS BinRoundTripWorld, Json

CONSTANTS Mech, MaxSteps,
          FreeEntries      \* TRUE: entry points chosen freely (simulation / export); FALSE: by the step index

VARIABLES w, store, hrefs, tabs, href, cnt, res, nstep, log, variant
vars == <<w, store, hrefs, tabs, href, cnt, res, nstep, log, variant>>

\* store: ref -> header dict content [size, user, dok]; refs 1, 2: the memo's entries (by header text id);
\* 2 + j: the dict created at step j;  hrefs[i]: the dict kept result i points at (0: none); tabs[i]: its rows
\* (<<>>/-1: none);  href[h]: the dict handle h holds;  cnt[h]: the rows the handle believes the file has
Refs == 1..(2 + MaxSteps)
NilH == [size |-> -9, user |-> -1, dok |-> FALSE]
Parsed(p) == [size |-> Len(w.files[p]), user |-> 1, dok |-> TRUE]

Init == /\ w = W0 /\ store = [r \in Refs |-> NilH] /\ hrefs = <<>> /\ tabs = <<>>
        /\ href = [h \in Handles |-> 0] /\ cnt = [h \in Handles |-> 0]
        /\ res = [exp |-> NoObs, got |-> NoObs] /\ nstep = 0 /\ log = <<>>
        /\ variant \in (IF FreeEntries THEN 0..11 ELSE {0})

Pick(s, i) == s[(i % Len(s)) + 1]
\* the writer of an overwrite is always given by the step index (an overwrite is a heavy step: one successor per path)
EChoice(s) == IF s.op = "WR" THEN {IF IsRaw(s.p) THEN Pick(RawWREntries, nstep + s.p) ELSE Pick(WREntries, nstep + s.p)}
              ELSE IF FreeEntries THEN EntriesFor(s)
              ELSE CASE s.op = "RH" -> {Pick(RHEntries, nstep)}
                     [] s.op = "RT" -> {IF IsRaw(s.p) THEN Pick(RawRTEntries, nstep) ELSE Pick(RTEntries, nstep)}
                     [] OTHER -> EntriesFor(s)

\* evaluating the header of p: -> <<ref, store'>>   (copy: a private copy is handed out, as read(header=True) does)
Eval(p, st, copy) ==
    LET j == nstep + 1  t == TextOf(p) IN
    IF Mech = "memo_text"
    THEN LET content == IF st[t] = NilH THEN Parsed(p) ELSE [st[t] EXCEPT !.size = Len(w.files[p])]
             st1 == [st EXCEPT ![t] = content]
         IN IF copy THEN <<2 + j, [st1 EXCEPT ![2 + j] = content]>> ELSE <<t, st1>>
    ELSE <<2 + j, [st EXCEPT ![2 + j] = Parsed(p)]>>

ObsOf(rows, hd) == [err |-> "none", tdok |-> TRUE, n |-> IF rows = <<-1>> THEN -1 ELSE Len(rows), rows |-> IF rows = <<-1>> THEN <<>> ELSE rows,
                    size |-> hd.size, user |-> hd.user, dok |-> hd.dok]
Deref(i) == ObsOf(tabs[i], IF hrefs[i] = 0 THEN NilH ELSE store[hrefs[i]])

Do(s) ==
    /\ nstep < MaxSteps /\ Admits(w, s)
    /\ LET j == nstep + 1
           exp == Expect(w, s, j)
       IN
       /\ w' = Apply(w, s, j)
       /\ nstep' = j
       /\ log' = IF FreeEntries THEN Append(log, s) ELSE log
       /\ UNCHANGED variant
       /\ CASE s.op = "RH" ->
                 LET ev == Eval(s.p, store, FALSE) IN
                 /\ store' = ev[2] /\ hrefs' = Append(hrefs, ev[1]) /\ tabs' = Append(tabs, <<-1>>)
                 /\ res' = [exp |-> exp, got |-> ObsOf(<<-1>>, ev[2][ev[1]])]
                 /\ UNCHANGED <<href, cnt>>
            [] s.op = "RT" ->
                 IF IsRaw(s.p)
                 THEN /\ hrefs' = Append(hrefs, 0) /\ tabs' = Append(tabs, w.files[s.p])
                      /\ res' = [exp |-> exp, got |-> ObsOf(w.files[s.p], NilH)]
                      /\ UNCHANGED <<store, href, cnt>>
                 ELSE LET ev == Eval(s.p, store, s.e \in {"sfile.read", "SFile.read", "io.read"}) IN
                      /\ store' = ev[2] /\ hrefs' = Append(hrefs, ev[1]) /\ tabs' = Append(tabs, w.files[s.p])
                      /\ res' = [exp |-> exp, got |-> ObsOf(w.files[s.p], ev[2][ev[1]])]
                      /\ UNCHANGED <<href, cnt>>
            [] s.op = "OP" ->
                 /\ IF IsRaw(s.p) THEN store' = store /\ href' = [href EXCEPT ![s.h] = 0]
                    ELSE LET ev == Eval(s.p, store, FALSE) IN store' = ev[2] /\ href' = [href EXCEPT ![s.h] = ev[1]]
                 /\ cnt' = [cnt EXCEPT ![s.h] = Len(w.files[s.p])]
                 /\ res' = [exp |-> exp, got |-> NoObs]
                 /\ UNCHANGED <<hrefs, tabs>>
            [] s.op = "CL" ->
                 /\ href' = [href EXCEPT ![s.h] = 0] /\ cnt' = [cnt EXCEPT ![s.h] = 0]
                 /\ res' = [exp |-> exp, got |-> NoObs] /\ UNCHANGED <<store, hrefs, tabs>>
            [] s.op = "AP" ->
                 LET k == IF Mech = "len_count" THEN s.shape[1] ELSE WProd(s.shape) IN
                 /\ cnt' = [cnt EXCEPT ![s.h] = @ + k]
                 /\ store' = IF href[s.h] = 0 THEN store ELSE [store EXCEPT ![href[s.h]].size = @ + WProd(s.shape)]
                 /\ res' = [exp |-> exp, got |-> NoObs] /\ UNCHANGED <<hrefs, tabs, href>>
            [] s.op = "HR" ->
                 LET all == w.files[w.hnd[s.h]]
                     rows == SubSeq(all, 1, VMin2(cnt[s.h], Len(all)))
                     hd == IF href[s.h] = 0 THEN [NilH EXCEPT !.size = cnt[s.h]] ELSE store[href[s.h]]
                 IN /\ res' = [exp |-> exp,
                               got |-> CASE s.e = "nrows" -> ObsOf(<<-1>>, [NilH EXCEPT !.size = hd.size])
                                         [] s.e = "read(header)" -> ObsOf(rows, hd)
                                         [] OTHER -> ObsOf(rows, NilH)]
                    /\ UNCHANGED <<store, hrefs, tabs, href, cnt>>
            [] s.op = "WR" ->
                 /\ res' = [exp |-> exp, got |-> NoObs] /\ UNCHANGED <<store, hrefs, tabs, href, cnt>>
            [] s.op = "SC" ->
                 /\ store' = IF hrefs[s.i] = 0 THEN store ELSE [store EXCEPT ![hrefs[s.i]] = [@ EXCEPT !.size = -5, !.user = 0]]
                 /\ tabs' = [tabs EXCEPT ![s.i] = IF @ = <<-1>> THEN @ ELSE [k \in DOMAIN @ |-> 0]]
                 /\ res' = [exp |-> exp, got |-> NoObs] /\ UNCHANGED <<hrefs, href, cnt>>

Step(op, p, h, e, shape, i) == [op |-> op, p |-> p, h |-> h, e |-> e, shape |-> shape, i |-> i]
Candidates ==
    {Step("RH", p, 0, "", <<>>, 0) : p \in 1..3} \cup {Step("RT", p, 0, "", <<>>, 0) : p \in Paths}
    \cup {Step("WR", p, 0, "", <<>>, 0) : p \in Paths}
    \cup {Step("OP", p, h, "", <<>>, 0) : p \in Paths, h \in Handles} \cup {Step("CL", 0, h, "", <<>>, 0) : h \in Handles}
    \cup {Step("AP", 0, h, "", sh, 0) : h \in Handles, sh \in VRange(Shapes)}
    \cup {Step("HR", 0, h, "", <<>>, 0) : h \in Handles}
    \cup {Step("SC", 0, 0, "", <<>>, i) : i \in 1..MaxHeld}

\* simulation only: a caller that appended looks at what the handle shows next (or appends again) - the sessions
\* concentrate on reads through the writing handle; the exhaustive run is not restricted
Focus(c) == (FreeEntries /\ log # <<>> /\ log[Len(log)].op = "AP") => (c.op \in {"HR", "AP"} /\ c.h = log[Len(log)].h)
Next == \E c \in {x \in Candidates : Focus(x)} : \E e \in (IF c.op = "HR" /\ w.hnd[c.h] # 0
                                          THEN (IF IsRaw(w.hnd[c.h]) THEN VRange(RawHREntries) ELSE VRange(HREntries))
                                          ELSE EChoice(c)) : Do([c EXCEPT !.e = e])

\* simulation: the session actually taken is printed when it is complete
SimEmit == /\ nstep = MaxSteps
           /\ PrintT(<<"SESSION", ToJson([variant |-> variant, steps |-> log])>>)
           /\ nstep' = MaxSteps + 1 /\ UNCHANGED <<w, store, hrefs, tabs, href, cnt, res, log, variant>>
NextSim == Next \/ SimEmit

\* ---- theorems --------------------------------------------------------------------------------------------
CallInv == res.got = res.exp
HeldInv == \A i \in DOMAIN w.held : Deref(i) = w.held[i]
\* the handle's belief and the world agree (what makes reads through the writing handle complete)
CountInv == \A h \in Handles : w.hnd[h] # 0 => cnt[h] = Len(w.files[w.hnd[h]])
=============================================================================
