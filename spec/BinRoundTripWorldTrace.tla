------------------------------- MODULE BinRoundTripWorldTrace -------------------------------
(* Trace validation for the world level of C01: every recorded session (one process: calls on  *)
(* four files through module functions and two handle objects, with the caller scribbling over *)
(* results and re-using one read-only view whose base it changes) is replayed through the      *)
(* property-level world of BinRoundTripWorld.tla.  One ndjson line per session:                *)
(*   {"id": k, "steps": [{"s": <step>, "obs": <observation>}, ...], "final": [<observation of   *)
(*    every kept result at the end of the session>]}                                           *)
EXTENDS BinRoundTripWorld, Json, IOUtils

VARIABLES tid
Traces == ndJsonDeserialize(IOEnv.TRACE_FILE)
Init == tid = 0
Next == tid = 0 /\ \E t \in 1..Len(Traces) : tid' = t

Check == tid > 0 =>
    LET r == Traces[tid]  f == SessionFailing(r.steps, r.final)
    IN f = {} \/ PrintT(<<"REJECT", ToJson([id |-> r.id, failing |-> f])>>)
=============================================================================
