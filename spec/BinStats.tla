------------------------------- MODULE BinStats -------------------------------
(* Property-level specification of the per-bin quantities esutil.stat.Binner /    *)
(* esutil.stat.histogram(more=True | weights=) report with a histogram, and of     *)
(* equal-occupancy binning (nperbin, mergelast), over EXACT RATIONALS; plus the    *)
(* implementation-shaped pieces of the two little mechanisms involved              *)
(*   - Binner._hist_by_num / _merge_last (histogram of the sorted index, mapping   *)
(*     of the reverse indices back to the original frame, in-place merge of the    *)
(*     last bin),                                                                  *)
(*   - the statistics loop of Binner.calc_stats (one-member branch / general       *)
(*     branch).                                                                    *)
(*                                                                                 *)
(* Data, second variable and weights live on integer lattices (Hist.tla /          *)
(* Stats.tla); a case is a record                                                  *)
(*   [x, y, w : Seq(Int), mode : {"binsize","nbin","nperbin"}, b : Int (bin size | *)
(*    bin count | members per bin), merge : BOOLEAN, hasmin, hasmax : BOOLEAN,     *)
(*    min, max : Int,                                                              *)
(*    rep : [x, y, w : STRING] the REPRESENTATION in which each array argument is  *)
(*    handed to the code (element type, byte order, python list, strided / reversed*)
(*    / record-field view, scalar).  A representation never changes a value, so no *)
(*    operator of this module reads c.rep: every expectation is representation     *)
(*    independent - that is the specification of this dimension]                   *)
(* An observation (one call of the real code on the case) is                       *)
(*   [err : STRING, hasy, hasw : BOOLEAN (second variable / weights were passed),  *)
(*    wantrev : BOOLEAN (the call is documented to produce reverse indices),       *)
(*    stats : BOOLEAN (FALSE: observed after dohist(calc_stats=False) - only the   *)
(*    histogram is there yet),                                                     *)
(*    hist : Seq(Nat), hasrev : BOOLEAN, rev : Seq(Nat) (0-based, as returned),    *)
(*    low, high, center, mean, var, err2, med, ymean, yvar, yerr2, ymed,           *)
(*    whist, wmean, wvar, werri, werr2, wymean, wyvar, wyerri, wyerr2 :            *)
(*        Seq(observed real), one per bin (<<>> when the key is absent)]           *)
(* Observed reals are the records of Stats.tla ([k : "rat"|"off"|"nan"|"sent",     *)
(* n, d], extended below by "ivl"); deviations are recorded SQUARED (var = std^2, err2 = err^2,             *)
(* werri = werr^2 in units of 1/weight, werr2 = (werr2)^2).                        *)
(*                                                                                 *)
(* The statistics of a bin are judged against the members THE RETURNED REVERSE     *)
(* INDICES LIST for that bin - "computed directly from the members of each bin" -  *)
(* after the reverse indices themselves have been judged (Hist.tla for binsize /   *)
(* nbin, ByNumber below for nperbin).                                              *)
EXTENDS Hist, Stats

CONSTANT StrictOneMember   \* FALSE: the weighted error estimates of a ONE-member bin are unconstrained, like its
                           \* standard error (the reading adopted); TRUE: they must equal sqrt(1/w) and 0

CONSTANT JudgeErr2Extreme \* FALSE (adopted): at weight scales 2^wexp where w^2 itself leaves the binary64 range (|wexp| >= 450)
                           \* the estimate defined through sum(w^2 ...) is not judged; TRUE: it must be scale invariant there too

\* ---- round-4 dimensions of the case record -------------------------------------------------------------
\*  nan  : Seq(position) - the data handed to the code carry NaN (missing values) at these positions.  With BOTH limits
\*         given the bins are defined on the data within [min, max]: a NaN is in NO bin, every other datum is binned as
\*         if the NaN positions held any value outside the limits, and reverse indices still refer to the ORIGINAL
\*         array (NaN positions included).  BEff makes that the definition: the case is judged with max + 1 there.
\*         (Without both limits the range itself would be undefined: such cases are not generated and not judged.)
\*  wexp : the weights handed to the code are w * 2^wexp (exact powers of two keep the lattice exact).  The weighted
\*         mean, deviation and sum(w^2)-type error are INVARIANT under w -> s w, the summed weight is multiplied by s
\*         and 1/sum(w) divided by s (theorem WScaleLaw of BinStatsMC.tla): the observation is transported back by the
\*         refinement mapping (whist / 2^wexp, werr^2 * 2^wexp) and no operator below reads c.wexp - except BErr2Judged.
BEff(c) == IF "nan" \in DOMAIN c THEN [c EXCEPT !.x = [i \in DOMAIN c.x |-> IF i \in VRange(c.nan) THEN c.max + 1 ELSE c.x[i]]] ELSE c
BErr2Judged(c) == JudgeErr2Extreme \/ ~("wexp" \in DOMAIN c) \/ (c.wexp < 450 /\ c.wexp > -450)

BRat(q) == [k |-> "rat", n |-> q[1], d |-> q[2]]
BSent   == [k |-> "sent", n |-> 0, d |-> 1]
BZero   == <<0, 1>>

\* An observed real is either the snapped lattice rational of Stats.tla ("rat") or - on the
\* large-offset lattices, where the tolerance the statement grants ("to rounding", relative to
\* the magnitude of the operands, offset included) is wider than the gap between candidate
\* rationals - the INTERVAL [n/BIvlK, d/BIvlK] = observation -/+ tolerance, rounded outward
\* ("ivl"); the exact expectation must lie inside.
BIvlK == 256
BObsEq(r, e) == \/ SObsEq(r, e)
                \/ (r.k = "ivl" /\ r.n * e[2] <= e[1] * BIvlK /\ e[1] * BIvlK <= r.d * e[2])
BObsIn(r, E) == \E e \in E : BObsEq(r, e)

\* ---- equal-occupancy binning: the partition the statement describes ----------------
\* n data inside the limits, nper per bin: ceil(n/nper) bins of consecutive sorted data,
\* all full except possibly the last; a short last bin is merged into its predecessor
\* when asked (and when there is a predecessor).
BLimN(c)   == Cardinality(Limited(c))
BNb0(c)    == (BLimN(c) - 1) \div c.b + 1
BRem(c)    == BLimN(c) - (BNb0(c) - 1) * c.b                          \* 1..nper
BMerges(c) == c.merge /\ BRem(c) # c.b /\ BNb0(c) >= 2
BCounts(c) == IF BMerges(c)
              THEN [i \in 1..(BNb0(c) - 1) |-> IF i < BNb0(c) - 1 THEN c.b ELSE c.b + BRem(c)]
              ELSE [i \in 1..BNb0(c) |-> IF i < BNb0(c) THEN c.b ELSE BRem(c)]

BPtrOK(nb, o) ==
    /\ Len(o.rev) >= nb + 1
    /\ o.rev[1] = nb + 1
    /\ \A i \in 1..nb : o.rev[i] <= o.rev[i + 1]
    /\ o.rev[nb + 1] <= Len(o.rev)

\* all listed members, bin after bin (1-based data positions)
BConcat(nb, o) == [k \in 1..(o.rev[nb + 1] - o.rev[1]) |-> o.rev[o.rev[1] + k] + 1]

BShapeOK(nb, flds) == \A f \in flds : Len(f) = nb

\* ---- statistics of one bin, judged against its listed members P ---------------------
BVarPop(v, P)  == SVar(v, SOnes(Len(v)), P)
BVarSamp(v, P) == LET n == Cardinality(P)
                      A == SSumWX(v, SOnes(Len(v)), P)
                      B == SSumWXX(v, SOnes(Len(v)), P)
                  IN RNorm(n * B - A * A, n * (n - 1))                  \* n >= 2

\* unweighted quantities of variable v (clause names = pre \o dictionary key).
\*  - the deviation may follow either of the two conventions (divisor n or n-1), and so
\*    may the standard error derived from it: the statement names neither;
\*  - the standard error of a one-member bin is unconstrained (statement);
\*  - an empty bin: the mean is the documented sentinel; for the other quantities the
\*    sentinel or "not a number" (= the direct computation over no members) is accepted.
BPlainFailing(pre, v, P, m, va, e2, md) ==
    LET n == Cardinality(P)  ones == SOnes(Len(v))
    IN IF n = 0
       THEN (IF m.k = "sent" THEN {} ELSE {pre \o "mean_of_empty_bin_not_sentinel"}) \cup
            (IF \A r \in {va, e2, md} : r.k \in {"sent", "nan"} THEN {} ELSE {pre \o "stat_of_empty_bin"})
       ELSE (IF BObsEq(m, SMean(v, ones, P)) THEN {} ELSE {pre \o "mean"}) \cup
            (IF n = 1 THEN (IF BObsEq(va, BZero) \/ va.k = "nan" THEN {} ELSE {pre \o "std"})
             ELSE IF BObsIn(va, {BVarPop(v, P), BVarSamp(v, P)}) THEN {} ELSE {pre \o "std"}) \cup
            (IF BObsEq(md, SMedian(v, P)) THEN {} ELSE {pre \o "median"}) \cup
            (IF n = 1 THEN {}
             ELSE IF BObsIn(e2, {RDiv(BVarPop(v, P), RInt(n)), RDiv(BVarSamp(v, P), RInt(n))}) THEN {} ELSE {pre \o "err"})

\* weighted quantities of variable v with weights w, exactly as the docstrings of
\* histogram() / wmom() define them:
\*   mean = sum(w v)/sum(w);  deviation^2 = sum(w (v-mean)^2)/sum(w);
\*   err  = sqrt(1/sum(w));   err2 = sqrt(sum(w^2 (v-mean)^2))/sum(w)
BWtFailing(pre, v, w, P, m, va, ei, e2, je) ==
    LET n == Cardinality(P)
    IN IF n = 0
       THEN (IF \A r \in {m, va, ei, e2} : r.k \in {"sent", "nan"} THEN {} ELSE {pre \o "stat_of_empty_bin"})
       ELSE (IF BObsEq(m, SMean(v, w, P)) THEN {} ELSE {pre \o "mean"}) \cup
            (IF BObsEq(va, SVar(v, w, P)) THEN {} ELSE {pre \o "std"}) \cup
            (IF n = 1 /\ ~StrictOneMember THEN {}
             ELSE (IF BObsEq(ei, SErr2Inv(w, P)) THEN {} ELSE {pre \o "err"}) \cup
                  (IF ~je \/ BObsEq(e2, SErr2Calc(v, w, P, SMean(v, w, P))) THEN {} ELSE {pre \o "err2"}))

BWhistFailing(w, P, r) ==
    IF P = {} THEN (IF BObsEq(r, BZero) \/ r.k = "sent" THEN {} ELSE {"whist_of_empty_bin"})
    ELSE IF BObsEq(r, RInt(SSumW(w, P))) THEN {} ELSE {"whist"}

\* the statistics the observation must carry, given its flags
BStatFields(o) ==
    {o.mean, o.var, o.err2, o.med} \cup
    (IF o.hasy THEN {o.ymean, o.yvar, o.yerr2, o.ymed} ELSE {}) \cup
    (IF o.hasw THEN {o.whist, o.wmean, o.wvar, o.werri, o.werr2} ELSE {}) \cup
    (IF o.hasw /\ o.hasy THEN {o.wymean, o.wyvar, o.wyerri, o.wyerr2} ELSE {})

\* bin i (1-based) with listed members P; every clause name carries the class of the bin
BBinClass(P) == IF P = {} THEN "empty-bin" ELSE IF Cardinality(P) = 1 THEN "one-member-bin" ELSE "multi-member-bin"
BBinFailing(c, o, i, P) ==
    {f \o "|" \o BBinClass(P) : f \in
        BPlainFailing("", c.x, P, o.mean[i], o.var[i], o.err2[i], o.med[i]) \cup
        (IF o.hasy THEN BPlainFailing("y", c.y, P, o.ymean[i], o.yvar[i], o.yerr2[i], o.ymed[i]) ELSE {}) \cup
        (IF o.hasw THEN BWhistFailing(c.w, P, o.whist[i]) \cup
                        BWtFailing("w", c.x, c.w, P, o.wmean[i], o.wvar[i], o.werri[i], o.werr2[i], BErr2Judged(c)) ELSE {}) \cup
        (IF o.hasw /\ o.hasy THEN BWtFailing("wy", c.y, c.w, P, o.wymean[i], o.wyvar[i], o.wyerri[i], o.wyerr2[i], BErr2Judged(c)) ELSE {})}

\* requires valid reverse indices (pointers and members) for nb bins
BStatsFailing(c, o, nb) ==
    IF ~BShapeOK(nb, BStatFields(o)) THEN {"statistics_missing_or_misshapen"}
    ELSE UNION {BBinFailing(c, o, i, VRange(Slice(o, i - 1))) : i \in 1..nb}

\* ---- edges and centres (binsize / nbin) ---------------------------------------------------
BBinSize(c) == IF c.mode = "binsize" THEN RInt(c.b) ELSE RNorm(Hi(c) - Lo(c), c.b)
BLow(c, i)  == RAdd(RInt(Lo(c)), RMul(RInt(i), BBinSize(c)))                  \* i = 0, 1, ...
BEdgesFailing(c, o, nb) ==
    IF ~BShapeOK(nb, {o.low, o.high, o.center}) THEN {"edges_missing_or_misshapen"}
    ELSE (IF \A i \in 1..nb : BObsEq(o.low[i], BLow(c, i - 1)) THEN {} ELSE {"low"}) \cup
         (IF \A i \in 1..nb : BObsEq(o.high[i], BLow(c, i)) THEN {} ELSE {"high"}) \cup
         (IF \A i \in 1..nb : BObsEq(o.center[i], RAdd(BLow(c, i - 1), RDiv(BBinSize(c), RInt(2)))) THEN {} ELSE {"center"})

\* ---- equal-occupancy acceptance ---------------------------------------------------------------
\* "consecutive sorted data": the bins, read one after the other, list every datum inside
\* the limits exactly once in non-decreasing order of value (the order among equal values
\* is not prescribed); low/high are the smallest/largest listed member; a centre is not
\* defined by the statement for these bins and is not looked at.
BByNumStructFailing(c, o) ==
    LET cnt == BCounts(c)  nb == Len(cnt)
    IN IF Len(o.hist) # nb THEN {"nperbin_number_of_bins"}
       ELSE (IF \A i \in 1..nb : o.hist[i] = cnt[i] THEN {} ELSE {"nperbin_occupancy"}) \cup
            (IF ~o.hasrev THEN (IF o.wantrev THEN {"rev_missing"} ELSE {})
             ELSE IF ~BPtrOK(nb, o) THEN {"nperbin_rev_pointers"}
             ELSE LET all == BConcat(nb, o)
                      membersOK == /\ \A k \in DOMAIN all : all[k] \in Limited(c)
                                   /\ Cardinality(VRange(all)) = Len(all)
                                   /\ Len(all) = BLimN(c)
                  IN (IF \A i \in 1..nb : Len(Slice(o, i - 1)) = o.hist[i] THEN {} ELSE {"nperbin_slice_len_ne_hist"}) \cup
                     (IF ~membersOK THEN {"nperbin_rev_not_original_indices"}
                      ELSE (IF \A k \in 1..(Len(all) - 1) : c.x[all[k]] <= c.x[all[k + 1]] THEN {} ELSE {"nperbin_not_consecutive_sorted"}) \cup
                           (IF ~BShapeOK(nb, {o.low, o.high}) THEN {"edges_missing_or_misshapen"}
                            ELSE (IF \A i \in 1..nb : LET P == VRange(Slice(o, i - 1))
                                                      IN P = {} \/ BObsEq(o.low[i], RInt(SMinOf(c.x, P))) THEN {} ELSE {"nperbin_low"}) \cup
                                 (IF \A i \in 1..nb : LET P == VRange(Slice(o, i - 1))
                                                      IN P = {} \/ BObsEq(o.high[i], RInt(SMaxOf(c.x, P))) THEN {} ELSE {"nperbin_high"}))))

\* the statistics are judged once the bins themselves are in order
BByNumFailing(c, o) ==
    LET s == BByNumStructFailing(c, o)
    IN IF s # {} \/ ~o.hasrev THEN s ELSE BStatsFailing(c, o, Len(BCounts(c)))

\* ---- the whole observation ---------------------------------------------------------------------
BFailingE(c, o) ==
    IF o.err # "none" THEN (IF NoData(c) \/ (c.mode # "nperbin" /\ Degenerate(c)) THEN {} ELSE {"unexpected_error"})
    ELSE IF NoData(c) THEN {"nodata_not_rejected"}
    ELSE IF c.mode = "nperbin" THEN (IF o.stats THEN BByNumFailing(c, o) ELSE BByNumStructFailing(c, o))
    ELSE IF Degenerate(c) THEN {}
    ELSE LET hf == Failing(c, o) IN
         IF hf # {} THEN {"hist_" \o f : f \in hf}
         ELSE IF ~o.stats THEN {}                    \* dohist(calc_stats=False): only the histogram exists yet
         ELSE BEdgesFailing(c, o, NBin(c)) \cup
              (IF o.hasrev THEN BStatsFailing(c, o, NBin(c))
               ELSE IF o.wantrev THEN {"rev_missing"} ELSE {})

BFailing(c, o) == IF "nan" \in DOMAIN c /\ ~(c.hasmin /\ c.hasmax) THEN {} ELSE BFailingE(BEff(c), o)

BAccept(c, o) == BFailing(c, o) = {}

\* =====================================================================================
\* HISTORIES on one Binner: dohist / calc_stats calls, some of which are REJECTED
\* =====================================================================================
\* An event is [op : "dohist" | "calc", mode, b, merge, hasmin, min, hasmax, max (the bin specification),
\*              nokw : BOOLEAN (no binsize / nbin / nperbin given), cs : BOOLEAN (calc_stats flag),
\*              o : the observation after the call].
\* Abstract state: the specification of the last SUCCESSFUL dohist (has, last) and whether a later dohist was
\* rejected (cleared).  A rejected call is a stutter step on everything later calls read - or it drops the
\* results altogether (the statement is silent; the unchanged code drops them): after it, calc_stats either
\* raises or reports quantities that equal direct computation FOR THE LAST SUCCESSFUL specification.
\* Anything else - in particular a mixture of the results of one call with the range of another - is rejected.
BEvCase(c, ev) == [x |-> c.x, y |-> c.y, w |-> c.w, mode |-> ev.mode, b |-> ev.b, merge |-> ev.merge,
                   hasmin |-> ev.hasmin, min |-> ev.min, hasmax |-> ev.hasmax, max |-> ev.max]
BEvRejects(c, ev) == ev.nokw \/ NoData(BEvCase(c, ev))
BHist0 == [has |-> FALSE, last |-> 0, cleared |-> FALSE, unk |-> FALSE]       \* last = index of the event
BHistStep(c, evs, k, s) ==                                                       \* -> [f : failing clauses, s : next state]
    LET ev == evs[k]  o == ev.o
    IN IF ev.op = "dohist"
       THEN IF BEvRejects(c, ev)
            THEN IF o.err # "none" THEN [f |-> {}, s |-> [s EXCEPT !.cleared = TRUE]]
                 ELSE IF ev.nokw THEN [f |-> {}, s |-> [s EXCEPT !.unk = TRUE]]          \* not in the statement: nothing to judge by
                 ELSE [f |-> {"nodata_not_rejected"}, s |-> [s EXCEPT !.unk = TRUE]]
            ELSE IF o.err # "none" THEN [f |-> BFailing(BEvCase(c, ev), o), s |-> [s EXCEPT !.unk = TRUE]]
                 ELSE [f |-> BFailing(BEvCase(c, ev), o), s |-> [has |-> TRUE, last |-> k, cleared |-> FALSE, unk |-> FALSE]]
       ELSE [s |-> s,
             f |-> IF s.unk THEN {}
                   ELSE IF o.err # "none"
                        THEN (IF ~s.has \/ s.cleared THEN {} ELSE {"calc_stats_failed_after_successful_dohist"})
                        ELSE IF ~s.has THEN {"statistics_without_a_histogram"}
                        ELSE {"after_history_" \o g : g \in BFailing(BEvCase(c, evs[s.last]), o)}]
RECURSIVE BHistFrom(_, _, _, _)
BHistFrom(c, evs, k, s) ==
    IF k > Len(evs) THEN {}
    ELSE LET r == BHistStep(c, evs, k, s)
         IN {ToString(k) \o ":" \o g : g \in r.f} \cup BHistFrom(c, evs, k + 1, r.s)
BHistoryFailing(c, evs) == BHistFrom(c, evs, 1, BHist0)

\* =====================================================================================
\* SCALE: bins with hundreds to thousands of members, judged through the replication law
\* =====================================================================================
\* A scale case is a small PATTERN case c (binsize, or nperbin with distinct x and b | n; no limits) plus
\* sc = [K, NB, T]: the data handed to the code are NB blocks (block k shifted by k * BScStep(c) along x, so that it
\* falls into bins of its own) of K replicas of the pattern; replica r of pattern element p carries
\*     x = x[p] + blk * step,   y = y[p] * T + (r mod T),   weight w[p]
\* in a scrambled order.  The LAW (theorem ScaleLaw of BinStatsMC.tla, checked by explicit expansion on the small
\* scope): bin (blk, i0) holds exactly the K replicas of the members P of pattern bin i0, and its statistics follow
\* from those of P:  for a variable with sub-pattern period T (x: T = 1)
\*     mean = T mean_P + (T-1)/2,  variance = T^2 var_P + (T^2-1)/12,  median = that of the multiset
\*     {v[p] T + t : p in P, t < T} with every element counted K/T times,  summed weight = K W_P,
\*     werr^2 = 1/(K W_P),  werr2^2 = (T^2 E_P + (T^2-1)/12 * sum w^2 / W^2) / K      (E_P = SErr2Calc of P)
\* The observation is compressed: instead of the reverse indices, per bin the number of listed members per pattern
\* position in the right block (cnt), the number of other / out-of-range entries (foreign) and of repeated
\* entries (dups); the squared error-type outputs (err, werr, werr2) are recorded MULTIPLIED BY K, so that their
\* expectations keep small denominators.
BScPerBlock(c) == IF c.mode = "nperbin" THEN Len(c.x) \div c.b ELSE NBin(c)
BScStep(c)     == IF c.mode = "nperbin" THEN Hi(c) - Lo(c) + 1 ELSE NBin(c) * c.b
BScMembers(c, i0) ==                                    \* pattern positions of pattern bin i0 (0-based)
    IF c.mode = "nperbin" THEN LET s == SSortPos(c.x, DOMAIN c.x) IN {s[k] : k \in (i0 * c.b + 1)..((i0 + 1) * c.b)}
    ELSE VRange(Members(c, i0))
BScPatternOK(c) == /\ ~c.hasmin /\ ~c.hasmax
                   /\ (c.mode = "binsize" \/ (c.mode = "nperbin" /\ Cardinality(VRange(c.x)) = Len(c.x) /\ Len(c.x) % c.b = 0))

BLMean(v, wt, P, T) == RAdd(RMul(RInt(T), SMean(v, wt, P)), RNorm(T - 1, 2))
BLVar(v, wt, P, T)  == RAdd(RMul(RInt(T * T), SVar(v, wt, P)), RNorm(T * T - 1, 12))
BLMedian(v, P, T, R) ==
    LET vals     == {v[p] * T + t : p \in P, t \in 0..(T - 1)}
        cntOf(u) == R * Cardinality({pt \in P \X (0..(T - 1)) : v[pt[1]] * T + pt[2] = u})
        cum(u)   == VSumF(cntOf, {z \in vals : z <= u})
        kth(k)   == CHOOSE u \in vals : cum(u) >= k /\ cum(u) - cntOf(u) < k
        NN        == Cardinality(P) * T * R
    IN IF NN % 2 = 1 THEN RInt(kth((NN + 1) \div 2)) ELSE RNorm(kth(NN \div 2) + kth(NN \div 2 + 1), 2)
BLErr2Calc(v, w, P, T, K) ==
    LET W  == SSumW(w, P)
        W2 == VSumF(LAMBDA i : w[i] * w[i], P)
    IN RDiv(RAdd(RMul(RInt(T * T), SErr2Calc(v, w, P, SMean(v, w, P))), RMul(RNorm(W2, W * W), RNorm(T * T - 1, 12))), RInt(K))

\* unweighted quantities of a large bin (members: K replicas of P; shift: what the block adds to value-type quantities)
BScPlainFailing(pre, v, P, T, K, shift, m, va, e2, md) ==
    LET n == Cardinality(P)  NN == n * K  ones == SOnes(Len(v))
        pop == BLVar(v, ones, P, T)  samp == RMul(pop, RNorm(NN, NN - 1))
    IN IF n = 0 THEN BPlainFailing(pre, v, P, m, va, e2, md)
       ELSE (IF BObsEq(m, RAdd(BLMean(v, ones, P, T), RInt(shift))) THEN {} ELSE {pre \o "mean"}) \cup
            (IF BObsIn(va, {pop, samp}) THEN {} ELSE {pre \o "std"}) \cup
            (IF BObsEq(md, RAdd(BLMedian(v, P, T, K \div T), RInt(shift))) THEN {} ELSE {pre \o "median"}) \cup
            (IF BObsIn(e2, {RDiv(pop, RInt(n)), RDiv(samp, RInt(n))}) THEN {} ELSE {pre \o "err"})      \* K err^2 = var / n
BScWtFailing(pre, v, w, P, T, K, shift, m, va, ei, e2) ==
    IF P = {} THEN BWtFailing(pre, v, w, P, m, va, ei, e2, TRUE)
    ELSE (IF BObsEq(m, RAdd(BLMean(v, w, P, T), RInt(shift))) THEN {} ELSE {pre \o "mean"}) \cup
         (IF BObsEq(va, BLVar(v, w, P, T)) THEN {} ELSE {pre \o "std"}) \cup
         (IF BObsEq(ei, RNorm(1, SSumW(w, P))) THEN {} ELSE {pre \o "err"}) \cup                             \* K werr^2
         (IF BObsEq(e2, BLErr2Calc(v, w, P, T, 1)) THEN {} ELSE {pre \o "err2"})                            \* K werr2^2

BScBinFailing(c, sc, o, i) ==                           \* big bin i (1-based)
    LET per == BScPerBlock(c)  blk == (i - 1) \div per  i0 == (i - 1) % per
        P == BScMembers(c, i0)  K == sc.K  shift == blk * BScStep(c)
        cls == IF P = {} THEN "empty-bin" ELSE "large-bin"
        memb == /\ o.hist[i] = K * Cardinality(P) /\ o.comp.foreign[i] = 0 /\ o.comp.dups[i] = 0
                /\ \A p \in DOMAIN c.x : o.comp.cnt[i][p] = (IF p \in P THEN K ELSE 0)
        edges == IF c.mode = "nperbin"
                 THEN (IF BObsEq(o.low[i], RInt(SMinOf(c.x, P) + shift)) THEN {} ELSE {"nperbin_low"}) \cup
                      (IF BObsEq(o.high[i], RInt(SMaxOf(c.x, P) + shift)) THEN {} ELSE {"nperbin_high"})
                 ELSE (IF BObsEq(o.low[i], RAdd(BLow(c, i0), RInt(shift))) THEN {} ELSE {"low"}) \cup
                      (IF BObsEq(o.high[i], RAdd(BLow(c, i0 + 1), RInt(shift))) THEN {} ELSE {"high"}) \cup
                      (IF BObsEq(o.center[i], RAdd(RAdd(BLow(c, i0), RDiv(BBinSize(c), RInt(2))), RInt(shift))) THEN {} ELSE {"center"})
    IN IF ~memb THEN {"members_of_large_bin"}
       ELSE {f \o "|" \o cls : f \in
               edges \cup
               BScPlainFailing("", c.x, P, 1, K, shift, o.mean[i], o.var[i], o.err2[i], o.med[i]) \cup
               (IF o.hasy THEN BScPlainFailing("y", c.y, P, sc.T, K, 0, o.ymean[i], o.yvar[i], o.yerr2[i], o.ymed[i]) ELSE {}) \cup
               (IF o.hasw THEN (IF P = {} THEN BWhistFailing(c.w, P, o.whist[i])
                                ELSE IF BObsEq(o.whist[i], RInt(K * SSumW(c.w, P))) THEN {} ELSE {"whist"}) \cup
                               BScWtFailing("w", c.x, c.w, P, 1, K, shift, o.wmean[i], o.wvar[i], o.werri[i], o.werr2[i]) ELSE {}) \cup
               (IF o.hasw /\ o.hasy THEN BScWtFailing("wy", c.y, c.w, P, sc.T, K, 0, o.wymean[i], o.wyvar[i], o.wyerri[i], o.wyerr2[i]) ELSE {})}

BScaleFailing(c, sc, o) ==
    IF o.err # "none" THEN {"unexpected_error"}
    ELSE LET nb == sc.NB * BScPerBlock(c)
             edgeflds == IF c.mode = "nperbin" THEN {o.low, o.high} ELSE {o.low, o.high, o.center}
         IN IF Len(o.hist) # nb THEN {"number_of_bins_at_scale"}
            ELSE IF Len(o.comp.cnt) # nb \/ Len(o.comp.foreign) # nb \/ Len(o.comp.dups) # nb THEN {"rev_missing"}
            ELSE IF ~BShapeOK(nb, edgeflds) THEN {"edges_missing_or_misshapen"}
            ELSE IF ~BShapeOK(nb, BStatFields(o)) THEN {"statistics_missing_or_misshapen"}
            ELSE UNION {BScBinFailing(c, sc, o, i) : i \in 1..nb}

\* =====================================================================================
\* Implementation-shaped pieces (Binner._hist_by_num, _merge_last, calc_stats)
\* =====================================================================================
\* the histogram _hist_by_num takes: data = 0..n-1 (positions in the sorted, limited index),
\* bin size nperbin, minimum 0 - run through the pass of Hist.tla
BIndexCase(c) == [x |-> [k \in 1..BLimN(c) |-> k - 1], mode |-> "binsize", b |-> c.b,
                  hasmin |-> TRUE, min |-> 0, hasmax |-> FALSE, max |-> 0]

RECURSIVE BRunPass(_, _)
BRunPass(cc, st) == IF st.i <= Len(SortedLimited(cc)) THEN BRunPass(cc, PassStep(cc, st)) ELSE PassFill(cc, st, TRUE)
BPassResult(cc)  == BRunPass(cc, PassInit(cc))

\* "convert the indices in rev to the unlimited, unsorted frame", low/high = first/last member
BNumConvert(c, p) ==
    LET ws   == SortedLimited(c)
        nb   == Len(p.hist)
        rev2 == [k \in DOMAIN p.rev |-> IF k <= nb + 1 THEN p.rev[k] ELSE ws[p.rev[k] + 1] - 1]
    IN [hist |-> p.hist, rev |-> rev2,
        low  |-> [i \in 1..nb |-> IF p.rev[i] # p.rev[i + 1] THEN c.x[rev2[p.rev[i] + 1] + 1] ELSE 0],
        high |-> [i \in 1..nb |-> IF p.rev[i] # p.rev[i + 1] THEN c.x[rev2[p.rev[i + 1]] + 1] ELSE 0]]

\* _merge_last (array assignments as in the code); variant "nodec" forgets `r2[0:nbin] -= 1`
BNumMerge(p, variant) ==
    LET nb == Len(p.hist)
    IN IF nb < 2 THEN p
       ELSE [hist |-> [i \in 1..(nb - 1) |-> IF i < nb - 1 THEN p.hist[i] ELSE p.hist[nb - 1] + p.hist[nb]],
             low  |-> [i \in 1..(nb - 1) |-> p.low[i]],
             high |-> [i \in 1..(nb - 1) |-> IF i < nb - 1 THEN p.high[i] ELSE p.high[nb]],
             rev  |-> [k \in 1..(Len(p.rev) - 1) |->
                          LET v == IF k <= nb - 1 THEN p.rev[k] ELSE IF k = nb THEN p.rev[nb + 1] ELSE p.rev[k + 1]
                          IN IF k <= nb /\ variant # "nodec" THEN v - 1 ELSE v]]
BNumNeedsMerge(c, p) == p.hist[Len(p.hist)] # c.b /\ c.merge

\* calc_stats, one bin with members s (sequence of 1-based positions, in slice order)
\*   one member : mean = median = the datum, deviation 0, every error := the mean
\*                (whist = the weight; the pinned code had datum * weight: fixedWhist = FALSE)
\*   otherwise  : numpy mean / std (divisor n) / median, err = std/sqrt(n), wmom(...)
BMechPlain(v, s) ==
    LET P == VRange(s)  n == Len(s)
    IN IF n = 0 THEN [mean |-> BSent, var |-> BSent, err2 |-> BSent, med |-> BSent]
       ELSE IF n = 1 THEN [mean |-> BRat(RInt(v[s[1]])), var |-> BRat(BZero), err2 |-> BRat(RSq(RInt(v[s[1]]))),
                           med |-> BRat(RInt(v[s[1]]))]
       ELSE [mean |-> BRat(SMean(v, SOnes(Len(v)), P)), var |-> BRat(BVarPop(v, P)),
             err2 |-> BRat(RDiv(BVarPop(v, P), RInt(n))), med |-> BRat(SMedian(v, P))]
BMechWt(v, w, s) ==
    LET P == VRange(s)  n == Len(s)
    IN IF n = 0 THEN [mean |-> BSent, var |-> BSent, erri |-> BSent, err2 |-> BSent]
       ELSE IF n = 1 THEN [mean |-> BRat(RInt(v[s[1]])), var |-> BRat(BZero), erri |-> BRat(RSq(RInt(v[s[1]]))),
                           err2 |-> BRat(RSq(RInt(v[s[1]])))]
       ELSE [mean |-> BRat(SMean(v, w, P)), var |-> BRat(SVarAbout(v, w, P, SMean(v, w, P))),
             erri |-> BRat(SErr2Inv(w, P)), err2 |-> BRat(SErr2Calc(v, w, P, SMean(v, w, P)))]
BMechWhist(c, s, fixedWhist) ==
    IF Len(s) = 0 THEN BRat(BZero)
    ELSE IF Len(s) = 1 THEN BRat(RInt(IF fixedWhist THEN c.w[s[1]] ELSE c.x[s[1]] * c.w[s[1]]))
    ELSE BRat(RInt(SSumW(c.w, VRange(s))))

\* the statistics loop: one record per bin (for a call with y and weights)
BMechBins(c, p, fixedWhist) ==
    LET o0 == [rev |-> p.rev]
    IN [i \in 1..Len(p.hist) |->
          LET s == Slice(o0, i - 1)
          IN [px |-> BMechPlain(c.x, s), py |-> BMechPlain(c.y, s), wx |-> BMechWt(c.x, c.w, s), wy |-> BMechWt(c.y, c.w, s),
              wh |-> BMechWhist(c, s, fixedWhist)]]

\* the result dictionary the code builds from (hist, rev[, low, high]) and the per-bin records
BMechObs(c, p, bins) ==
    LET nb == Len(p.hist)
        byNum == c.mode = "nperbin"
    IN [err |-> "none", stats |-> TRUE, hasy |-> TRUE, hasw |-> TRUE, wantrev |-> TRUE, hist |-> p.hist, hasrev |-> TRUE, rev |-> p.rev,
        low    |-> IF byNum THEN [i \in 1..nb |-> BRat(RInt(p.low[i]))] ELSE [i \in 1..nb |-> BRat(BLow(c, i - 1))],
        high   |-> IF byNum THEN [i \in 1..nb |-> BRat(RInt(p.high[i]))] ELSE [i \in 1..nb |-> BRat(BLow(c, i))],
        center |-> IF byNum THEN <<>> ELSE [i \in 1..nb |-> BRat(RAdd(BLow(c, i - 1), RDiv(BBinSize(c), RInt(2))))],
        mean |-> [i \in 1..nb |-> bins[i].px.mean], var |-> [i \in 1..nb |-> bins[i].px.var],
        err2 |-> [i \in 1..nb |-> bins[i].px.err2], med |-> [i \in 1..nb |-> bins[i].px.med],
        ymean |-> [i \in 1..nb |-> bins[i].py.mean], yvar |-> [i \in 1..nb |-> bins[i].py.var],
        yerr2 |-> [i \in 1..nb |-> bins[i].py.err2], ymed |-> [i \in 1..nb |-> bins[i].py.med],
        whist |-> [i \in 1..nb |-> bins[i].wh],
        wmean |-> [i \in 1..nb |-> bins[i].wx.mean], wvar |-> [i \in 1..nb |-> bins[i].wx.var],
        werri |-> [i \in 1..nb |-> bins[i].wx.erri], werr2 |-> [i \in 1..nb |-> bins[i].wx.err2],
        wymean |-> [i \in 1..nb |-> bins[i].wy.mean], wyvar |-> [i \in 1..nb |-> bins[i].wy.var],
        wyerri |-> [i \in 1..nb |-> bins[i].wy.erri], wyerr2 |-> [i \in 1..nb |-> bins[i].wy.err2]]
=====================================================================================
\* Implementation-shaped pieces (Binner._hist_by_num, _merge_last, calc_stats)
\* =====================================================================================
\* the histogram _hist_by_num takes: data = 0..n-1 (positions in the sorted, limited index),
\* bin size nperbin, minimum 0 - run through the pass of Hist.tla
BIndexCase(c) == [x |-> [k \in 1..BLimN(c) |-> k - 1], mode |-> "binsize", b |-> c.b,
                  hasmin |-> TRUE, min |-> 0, hasmax |-> FALSE, max |-> 0]

RECURSIVE BRunPass(_, _)
BRunPass(cc, st) == IF st.i <= Len(SortedLimited(cc)) THEN BRunPass(cc, PassStep(cc, st)) ELSE PassFill(cc, st, TRUE)
BPassResult(cc)  == BRunPass(cc, PassInit(cc))

\* "convert the indices in rev to the unlimited, unsorted frame", low/high = first/last member
BNumConvert(c, p) ==
    LET ws   == SortedLimited(c)
        nb   == Len(p.hist)
        rev2 == [k \in DOMAIN p.rev |-> IF k <= nb + 1 THEN p.rev[k] ELSE ws[p.rev[k] + 1] - 1]
    IN [hist |-> p.hist, rev |-> rev2,
        low  |-> [i \in 1..nb |-> IF p.rev[i] # p.rev[i + 1] THEN c.x[rev2[p.rev[i] + 1] + 1] ELSE 0],
        high |-> [i \in 1..nb |-> IF p.rev[i] # p.rev[i + 1] THEN c.x[rev2[p.rev[i + 1]] + 1] ELSE 0]]

\* _merge_last (array assignments as in the code); variant "nodec" forgets `r2[0:nbin] -= 1`
BNumMerge(p, variant) ==
    LET nb == Len(p.hist)
    IN IF nb < 2 THEN p
       ELSE [hist |-> [i \in 1..(nb - 1) |-> IF i < nb - 1 THEN p.hist[i] ELSE p.hist[nb - 1] + p.hist[nb]],
             low  |-> [i \in 1..(nb - 1) |-> p.low[i]],
             high |-> [i \in 1..(nb - 1) |-> IF i < nb - 1 THEN p.high[i] ELSE p.high[nb]],
             rev  |-> [k \in 1..(Len(p.rev) - 1) |->
                          LET v == IF k <= nb - 1 THEN p.rev[k] ELSE IF k = nb THEN p.rev[nb + 1] ELSE p.rev[k + 1]
                          IN IF k <= nb /\ variant # "nodec" THEN v - 1 ELSE v]]
BNumNeedsMerge(c, p) == p.hist[Len(p.hist)] # c.b /\ c.merge

\* calc_stats, one bin with members s (sequence of 1-based positions, in slice order)
\*   one member : mean = median = the datum, deviation 0, every error := the mean
\*                (whist = the weight; the pinned code had datum * weight: fixedWhist = FALSE)
\*   otherwise  : numpy mean / std (divisor n) / median, err = std/sqrt(n), wmom(...)
BMechPlain(v, s) ==
    LET P == VRange(s)  n == Len(s)
    IN IF n = 0 THEN [mean |-> BSent, var |-> BSent, err2 |-> BSent, med |-> BSent]
       ELSE IF n = 1 THEN [mean |-> BRat(RInt(v[s[1]])), var |-> BRat(BZero), err2 |-> BRat(RSq(RInt(v[s[1]]))),
                           med |-> BRat(RInt(v[s[1]]))]
       ELSE [mean |-> BRat(SMean(v, SOnes(Len(v)), P)), var |-> BRat(BVarPop(v, P)),
             err2 |-> BRat(RDiv(BVarPop(v, P), RInt(n))), med |-> BRat(SMedian(v, P))]
BMechWt(v, w, s) ==
    LET P == VRange(s)  n == Len(s)
    IN IF n = 0 THEN [mean |-> BSent, var |-> BSent, erri |-> BSent, err2 |-> BSent]
       ELSE IF n = 1 THEN [mean |-> BRat(RInt(v[s[1]])), var |-> BRat(BZero), erri |-> BRat(RSq(RInt(v[s[1]]))),
                           err2 |-> BRat(RSq(RInt(v[s[1]])))]
       ELSE [mean |-> BRat(SMean(v, w, P)), var |-> BRat(SVarAbout(v, w, P, SMean(v, w, P))),
             erri |-> BRat(SErr2Inv(w, P)), err2 |-> BRat(SErr2Calc(v, w, P, SMean(v, w, P)))]
BMechWhist(c, s, fixedWhist) ==
    IF Len(s) = 0 THEN BRat(BZero)
    ELSE IF Len(s) = 1 THEN BRat(RInt(IF fixedWhist THEN c.w[s[1]] ELSE c.x[s[1]] * c.w[s[1]]))
    ELSE BRat(RInt(SSumW(c.w, VRange(s))))

\* the result dictionary the code builds from (hist, rev[, low, high]) for a call with y and weights
BMechObs(c, p, fixedWhist) ==
    LET nb == Len(p.hist)
        o0 == [rev |-> p.rev]
        sl(i) == Slice(o0, i - 1)
        pl(v) == [i \in 1..nb |-> BMechPlain(v, sl(i))]
        wt(v) == [i \in 1..nb |-> BMechWt(v, c.w, sl(i))]
        px == pl(c.x)  py == pl(c.y)  wx == wt(c.x)  wy == wt(c.y)
        byNum == c.mode = "nperbin"
    IN [err |-> "none", stats |-> TRUE, hasy |-> TRUE, hasw |-> TRUE, wantrev |-> TRUE, hist |-> p.hist, hasrev |-> TRUE, rev |-> p.rev,
        low    |-> IF byNum THEN [i \in 1..nb |-> BRat(RInt(p.low[i]))] ELSE [i \in 1..nb |-> BRat(BLow(c, i - 1))],
        high   |-> IF byNum THEN [i \in 1..nb |-> BRat(RInt(p.high[i]))] ELSE [i \in 1..nb |-> BRat(BLow(c, i))],
        center |-> IF byNum THEN <<>> ELSE [i \in 1..nb |-> BRat(RAdd(BLow(c, i - 1), RDiv(BBinSize(c), RInt(2))))],
        mean |-> [i \in 1..nb |-> px[i].mean], var |-> [i \in 1..nb |-> px[i].var],
        err2 |-> [i \in 1..nb |-> px[i].err2], med |-> [i \in 1..nb |-> px[i].med],
        ymean |-> [i \in 1..nb |-> py[i].mean], yvar |-> [i \in 1..nb |-> py[i].var],
        yerr2 |-> [i \in 1..nb |-> py[i].err2], ymed |-> [i \in 1..nb |-> py[i].med],
        whist |-> [i \in 1..nb |-> BMechWhist(c, sl(i), fixedWhist)],
        wmean |-> [i \in 1..nb |-> wx[i].mean], wvar |-> [i \in 1..nb |-> wx[i].var],
        werri |-> [i \in 1..nb |-> wx[i].erri], werr2 |-> [i \in 1..nb |-> wx[i].err2],
        wymean |-> [i \in 1..nb |-> wy[i].mean], wyvar |-> [i \in 1..nb |-> wy[i].var],
        wyerri |-> [i \in 1..nb |-> wy[i].erri], wyerr2 |-> [i \in 1..nb |-> wy[i].err2]]
=============================================================================
