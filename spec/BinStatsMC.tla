------------------------------- MODULE BinStatsMC -------------------------------
(* Exhaustive small-scope model for BinStats.tla.                                  *)
(*  - two families of cases are enumerated (and exported as JSON, then replayed    *)
(*    into the real code):                                                         *)
(*      "bins" : every data array x (length 1..MaxLen over Vals) x every bin       *)
(*               specification (binsize | nbin | nperbin x mergelast; min, max     *)
(*               absent or given) with a second variable and weights DERIVED from  *)
(*               x and the position (all bin structures: empty, one-member, ties,  *)
(*               short / merged last bins);                                        *)
(*      "stats": every (x, y, w) triple (length 1..TMaxLen over TVals x TYVals x   *)
(*               TWts) under a few bin specifications (all moment structures);     *)
(*      "reps" : a few data arrays x bin specifications x every REPRESENTATION     *)
(*               triple of the arguments (x, y, weights): element type, byte order,*)
(*               python list, strided / reversed / record-field view, scalar - the *)
(*               pairwise-covering design RepDesign, or the full product (RepFull);*)
(*    every case of the other two families also carries one triple of the design,  *)
(*    picked by RepIndex from the case itself, so that the design is spread over   *)
(*    every bin structure.  The representation never changes a VALUE: the          *)
(*    property-level spec ignores it (that IS the specification of this dimension);*)
(*      "hist" : HISTORIES of dohist / calc_stats calls on one Binner, including   *)
(*               REJECTED calls (no data in the range, no binning keyword); the    *)
(*               abstract state (last successful specification, cleared) and the   *)
(*               implementation's (dictionary + range attributes) evolve as        *)
(*               actions; exhaustive to depth HistLen, deeper with tlc -simulate;  *)
(*      "scale": pattern cases x sizes (K replicas x NB blocks, sub-pattern T):    *)
(*               bins with hundreds to thousands of members, judged through the    *)
(*               replication law, which is itself checked here by explicit         *)
(*               expansion on the small scope (ScaleLaw);                          *)
(*  - the mechanisms are run as ACTIONS, one per code step:                        *)
(*      HistPass                     the histogram pass (Hist.tla; binsize / nbin) *)
(*      NumPass, NumConvert, NumMerge / NumKeep   Binner._hist_by_num, _merge_last *)
(*      CalcStats, Assemble          the statistics loop of Binner.calc_stats      *)
(*    and the finished result dictionary is judged by the property-level spec      *)
(*    (MechRefines);                                                               *)
(*  - theorems about the property-level definitions themselves (ByNumSane,         *)
(*    MomentsSane);                                                                *)
(*  - running TLC over the whole space also shows that no 32-bit overflow occurs.  *)
EXTENDS BinStats, Json

CONSTANTS Kinds,                               \* subset of {"bins", "stats", "reps", "hist", "scale"}
          HistLen,                             \* family "hist": number of calls in a history
          RestoreOnFail,                       \* FALSE: a failing dohist leaves the dictionary cleared (the code); TRUE: a deviating
                                               \* variant that puts the old dictionary back but not the range attributes (self-test)
          ScaleBig,                            \* family "scale": TRUE - the larger set of sizes
          RepFull,                             \* family "reps": TRUE - full product of representations, FALSE - RepDesign
          MaxLen, Vals, BinSizes, NBinSet, NPerSet, MinVals, MaxVals,
          TMaxLen, TVals, TYVals, TWts,
          FixedWhist,                          \* TRUE: whist of a one-member bin is its weight (repaired code)
          MergeVariant,                        \* "code" | "nodec" (deviating variant for the self-test)
          DoExport,
          NanLen, NanVals,                     \* family "nan": data of length 1..NanLen over NanVals and NaN
          SortVariant                          \* "argsort" (the code) | "skip" (deviating: identity when no `<` descent is seen)

VARIABLES phase, c, st
vars == <<phase, c, st>>

Absent == 99
NoCase == [x |-> <<>>]
NoSt   == [k |-> 0]

Pow2(k) == IF k = 0 THEN 1 ELSE IF k = 1 THEN 2 ELSE 4
DeriveY(x) == [i \in DOMAIN x |-> (x[i] * x[i] + 2 * i) % 5]
DeriveW(x) == [i \in DOMAIN x |-> Pow2((x[i] + i) % 3)]

\* ---- representations of the array arguments ------------------------------------------------
\* (names are mapped to concrete numpy / python objects by the adapter; "be" = non-native byte order)
RepSeq == <<"f8", "f8be", "f4", "f4be", "i4", "i8", "i4be", "u1", "list", "strided", "reversed", "recfield", "scalar">>
NRep   == Len(RepSeq)
RepOf(t) == [x |-> RepSeq[t[1] + 1], y |-> RepSeq[t[2] + 1], w |-> RepSeq[t[3] + 1]]
\* orthogonal array of strength 2 (NRep is prime): every pair of representations of every two arguments occurs
RepDesign  == {<<a, b, (a + b) % NRep>> : a, b \in 0..(NRep - 1)}
RepProduct == {<<a, b, w>> : a, b, w \in 0..(NRep - 1)}
RepAt(h)   == LET a == (h % (NRep * NRep)) \div NRep  b == h % NRep IN <<a, b, (a + b) % NRep>>
\* the design triple a case of the families "bins" / "stats" is run with
RepIndex(cc) == VSumF(LAMBDA i : cc.x[i] * (2 * i + 1) + cc.y[i] * 3 + cc.w[i] * 5, DOMAIN cc.x) + 17 * cc.b
                + (IF cc.mode = "binsize" THEN 0 ELSE IF cc.mode = "nbin" THEN 29 ELSE 71) + (IF cc.merge THEN 37 ELSE 0)
                + (IF cc.hasmin THEN 41 + 7 * cc.min ELSE 0) + (IF cc.hasmax THEN 59 + 11 * cc.max ELSE 0)
\* the weight scale 2^wexp a case is run with (spread over the cases like the representations): mid-range scales where
\* every intermediate of any formula is representable, and extreme ones where w^2 is not
WExpSeq == <<0, -600, 400, 0, 600, -400, 0>>
WExpOf(cc) == WExpSeq[((RepIndex(cc) \div 3) % Len(WExpSeq)) + 1]
WithRep(cc) == [x |-> cc.x, y |-> cc.y, w |-> cc.w, mode |-> cc.mode, b |-> cc.b, merge |-> cc.merge,
                hasmin |-> cc.hasmin, min |-> cc.min, hasmax |-> cc.hasmax, max |-> cc.max,
                rep |-> RepOf(RepAt(RepIndex(cc))), wexp |-> WExpOf(cc)]

\* ---- family "reps" ---------------------------------------------------------------------------
RepData  == {<<1, 2, 2, 5>>, <<4, 1, 3, 1, 2>>, <<3>>, <<5, 5, 1>>}
RepModes == {<<"binsize", 2, FALSE, FALSE>>, <<"nbin", 2, FALSE, FALSE>>, <<"nperbin", 2, TRUE, TRUE>>}      \* mode, b, merge, min given
ChooseRepData ==
    /\ phase = "start" /\ "reps" \in Kinds
    /\ \E x \in RepData : c' = [x |-> x, y |-> DeriveY(x), w |-> DeriveW(x)]
    /\ phase' = "rdata" /\ UNCHANGED st
ChooseRep ==
    /\ phase = "rdata"
    /\ \E m \in RepModes : \E t \in (IF RepFull THEN RepProduct ELSE RepDesign) :
          c' = [x |-> c.x, y |-> c.y, w |-> c.w, mode |-> m[1], b |-> m[2], merge |-> m[3],
                hasmin |-> m[4], min |-> IF m[4] THEN 2 ELSE 0, hasmax |-> FALSE, max |-> 0, rep |-> RepOf(t)]
    /\ phase' = "case" /\ UNCHANGED st

Init == phase = "start" /\ c = NoCase /\ st = NoSt

\* ---- family "bins" ----------------------------------------------------------------------
ChooseData ==
    /\ phase = "start" /\ "bins" \in Kinds
    /\ \E n \in 1..MaxLen : \E x \in [1..n -> Vals] : c' = [x |-> x, y |-> DeriveY(x), w |-> DeriveW(x)]
    /\ phase' = "data" /\ UNCHANGED st

Modes == {<<"binsize", b, FALSE>> : b \in BinSizes} \cup {<<"nbin", b, FALSE>> : b \in NBinSet} \cup
         {<<"nperbin", b, m>> : b \in NPerSet, m \in BOOLEAN}

ChooseSpec ==
    /\ phase = "data"
    /\ \E m \in Modes : \E mn \in MinVals \cup {Absent} : \E mx \in MaxVals \cup {Absent} :
          c' = WithRep([x |-> c.x, y |-> c.y, w |-> c.w, mode |-> m[1], b |-> m[2], merge |-> m[3],
                        hasmin |-> mn # Absent, min |-> IF mn = Absent THEN 0 ELSE mn,
                        hasmax |-> mx # Absent, max |-> IF mx = Absent THEN 0 ELSE mx])
    /\ phase' = "case" /\ UNCHANGED st

\* ---- family "stats" ---------------------------------------------------------------------
ChooseX ==
    /\ phase = "start" /\ "stats" \in Kinds
    /\ \E n \in 1..TMaxLen : \E x \in [1..n -> TVals] : c' = [x |-> x]
    /\ phase' = "sx" /\ UNCHANGED st

TModes == {<<"binsize", 2, FALSE>>, <<"nbin", 2, FALSE>>, <<"nperbin", 2, TRUE>>, <<"nperbin", 2, FALSE>>}

ChooseYW ==
    /\ phase = "sx"
    /\ \E y \in [1..Len(c.x) -> TYVals] : \E w \in [1..Len(c.x) -> TWts] : \E m \in TModes :
          c' = WithRep([x |-> c.x, y |-> y, w |-> w, mode |-> m[1], b |-> m[2], merge |-> m[3],
                        hasmin |-> FALSE, min |-> 0, hasmax |-> FALSE, max |-> 0])
    /\ phase' = "case" /\ UNCHANGED st

\* ---- family "nan": NaN inside the data, both limits given ----------------------------------------------
\* every arrangement of finite values and NaN (ascending runs separated by NaN, descents hidden across a NaN, NaN first /
\* last / adjacent, only NaN in range ...); the exported x carries max + 1 at the NaN positions (= BEff), `nan` lists them
NanMark == 0
NanModes == {<<"binsize", 2, FALSE>>, <<"nbin", 2, FALSE>>, <<"nperbin", 2, TRUE>>, <<"nperbin", 1, FALSE>>}
NanLims  == {<<0, 5>>, <<2, 6>>}
ChooseNanData ==
    /\ phase = "start" /\ "nan" \in Kinds
    /\ \E n \in 1..NanLen : \E x \in [1..n -> NanVals \cup {NanMark}] :
          /\ \E i \in 1..n : x[i] = NanMark
          /\ c' = [x |-> x]
    /\ phase' = "ndata" /\ UNCHANGED st
ChooseNanSpec ==
    /\ phase = "ndata"
    /\ \E m \in NanModes : \E lim \in NanLims :
         LET x  == [i \in DOMAIN c.x |-> IF c.x[i] = NanMark THEN lim[2] + 1 ELSE c.x[i]]
             wr == WithRep([x |-> x, y |-> DeriveY(x), w |-> DeriveW(x), mode |-> m[1], b |-> m[2], merge |-> m[3],
                            hasmin |-> TRUE, min |-> lim[1], hasmax |-> TRUE, max |-> lim[2]])
         IN c' = [x |-> wr.x, y |-> wr.y, w |-> wr.w, mode |-> wr.mode, b |-> wr.b, merge |-> wr.merge,
                  hasmin |-> TRUE, min |-> wr.min, hasmax |-> TRUE, max |-> wr.max, rep |-> wr.rep, wexp |-> wr.wexp,
                  nan |-> SelectSeq([i \in DOMAIN c.x |-> i], LAMBDA i : c.x[i] = NanMark)]
    /\ phase' = "nancase" /\ UNCHANGED st
\* the mechanism: Binner._get_sort_index + the limit filter of _get_minmax_and_indices.  Every comparison with NaN is
\* FALSE; numpy's stable argsort puts NaN last.
NanIs(cc, i)    == i \in VRange(cc.nan)
NanLt(cc, i, j) == ~NanIs(cc, i) /\ ~NanIs(cc, j) /\ cc.x[i] < cc.x[j]
NanSortIdx(cc, variant) ==
    IF variant = "skip" /\ \A k \in 1..(Len(cc.x) - 1) : ~NanLt(cc, k + 1, k) THEN [i \in DOMAIN cc.x |-> i]
    ELSE VStableArgsort([i \in DOMAIN cc.x |-> IF NanIs(cc, i) THEN 1000 ELSE cc.x[i]])
NanWsort(cc, variant) == SelectSeq(NanSortIdx(cc, variant), LAMBDA j : ~NanIs(cc, j) /\ cc.min <= cc.x[j] /\ cc.x[j] <= cc.max)
NanSortIndex ==
    /\ phase = "nancase"
    /\ st' = [wsort |-> NanWsort(c, SortVariant)] /\ phase' = "case" /\ UNCHANGED c

\* ---- family "hist": call histories with rejected calls --------------------------------------------
HData == {<<1, 2, 2, 5>>, <<4, 1, 3>>}
HEv(op, mode, b, merge, hasmin, mn, hasmax, mx, nokw, cs) ==
    [op |-> op, mode |-> mode, b |-> b, merge |-> merge, hasmin |-> hasmin, min |-> mn, hasmax |-> hasmax, max |-> mx,
     nokw |-> nokw, cs |-> cs]
HEvents == {HEv("dohist", "binsize", 2, FALSE, FALSE, 0, FALSE, 0, FALSE, TRUE),
            HEv("dohist", "binsize", 2, FALSE, FALSE, 0, FALSE, 0, FALSE, FALSE),
            HEv("dohist", "binsize", 1, FALSE, TRUE, 2, FALSE, 0, FALSE, TRUE),
            HEv("dohist", "binsize", 2, FALSE, TRUE, 0, FALSE, 0, FALSE, FALSE),
            HEv("dohist", "nbin", 2, FALSE, FALSE, 0, TRUE, 4, FALSE, TRUE),
            HEv("dohist", "nperbin", 2, TRUE, FALSE, 0, FALSE, 0, FALSE, TRUE),
            HEv("dohist", "nperbin", 2, TRUE, TRUE, 2, FALSE, 0, FALSE, FALSE),
            HEv("dohist", "binsize", 2, FALSE, TRUE, 9, FALSE, 0, FALSE, TRUE),          \* no data: rejected
            HEv("dohist", "binsize", 1, FALSE, TRUE, 0, TRUE, 0, FALSE, TRUE),           \* no data: rejected
            HEv("dohist", "binsize", 1, FALSE, TRUE, 3, FALSE, 0, TRUE, TRUE),           \* no binning keyword: rejected
            HEv("dohist", "binsize", 1, FALSE, FALSE, 0, FALSE, 0, TRUE, TRUE),          \* no binning keyword: rejected
            HEv("calc", "binsize", 1, FALSE, FALSE, 0, FALSE, 0, FALSE, TRUE)}
HSt0 == [s |-> [has |-> FALSE, last |-> 0, cleared |-> FALSE], m |-> [hashist |-> FALSE, spec |-> 0, dmin |-> 0]]
HChooseData ==
    /\ phase = "start" /\ "hist" \in Kinds
    /\ \E x \in HData : c' = [x |-> x, y |-> DeriveY(x), w |-> DeriveW(x), h |-> <<>>]
    /\ st' = HSt0 /\ phase' = "hist"
\* one call: the abstract step (rejected call = stutter or drop) and the code's step (Binner.dohist clears the
\* dictionary, stores the requested range in attributes, THEN may raise; calc_stats reads both)
HEvent ==
    /\ phase = "hist" /\ Len(c.h) < HistLen
    /\ \E ev \in HEvents :
         LET k == Len(c.h) + 1  cc == BEvCase(c, ev)  rej == BEvRejects(c, ev)
         IN /\ c' = [c EXCEPT !.h = Append(@, ev)]
            /\ st' = IF ev.op = "calc" THEN st
                     ELSE IF rej THEN [s |-> [st.s EXCEPT !.cleared = TRUE],
                                       m |-> IF RestoreOnFail THEN [st.m EXCEPT !.dmin = Lo(cc)]
                                             ELSE [hashist |-> FALSE, spec |-> 0, dmin |-> Lo(cc)]]
                     ELSE [s |-> [has |-> TRUE, last |-> k, cleared |-> FALSE], m |-> [hashist |-> TRUE, spec |-> k, dmin |-> Lo(cc)]]
    /\ UNCHANGED phase

\* ---- family "scale" ----------------------------------------------------------------------------------
ScalePatterns == {[x |-> <<1, 2, 4, 5>>, y |-> <<3, 0, 1, 4>>, w |-> <<1, 2, 1, 1>>],
                  [x |-> <<3, 1, 1, 2>>, y |-> <<0, 3, 1, 3>>, w |-> <<2, 1, 1, 2>>],
                  [x |-> <<2, 5>>, y |-> <<4, 0>>, w |-> <<1, 2>>]}
ScaleModes == {<<"binsize", 2>>, <<"binsize", 4>>, <<"nperbin", 1>>, <<"nperbin", 2>>}
\* <<K, NB, T>>: bins of K * (members of the pattern bin) data; sizes across and at the 256 boundary, even and odd
ScaleSets == {<<128, 4, 1>>, <<129, 6, 1>>, <<150, 10, 1>>, <<257, 8, 1>>, <<304, 10, 8>>, <<512, 6, 8>>, <<1000, 4, 8>>, <<4097, 2, 1>>}
             \cup (IF ScaleBig THEN {<<200, 60, 8>>, <<500, 40, 1>>, <<2048, 8, 8>>, <<131, 80, 1>>, <<1001, 12, 1>>} ELSE {})
ChooseScalePattern ==
    /\ phase = "start" /\ "scale" \in Kinds
    /\ \E pt \in ScalePatterns : c' = pt
    /\ phase' = "spat" /\ UNCHANGED st
ChooseScale ==
    /\ phase = "spat"
    /\ \E m \in ScaleModes : \E sc \in ScaleSets :
         LET cc == [x |-> c.x, y |-> c.y, w |-> c.w, mode |-> m[1], b |-> m[2], merge |-> FALSE,
                    hasmin |-> FALSE, min |-> 0, hasmax |-> FALSE, max |-> 0, scale |-> [K |-> sc[1], NB |-> sc[2], T |-> sc[3]]]
         IN BScPatternOK(cc) /\ c' = cc
    /\ phase' = "scase" /\ UNCHANGED st

\* ---- the mechanisms -----------------------------------------------------------------------
Runnable(cc) == ~NoData(cc) /\ (cc.mode = "nperbin" \/ (~Degenerate(cc) /\ Unambiguous(cc)))

HistPass ==
    /\ phase = "case" /\ Runnable(c) /\ c.mode # "nperbin"
    /\ LET r == BPassResult(c) IN st' = [hist |-> r.hist, rev |-> r.rev]
    /\ phase' = "binned" /\ UNCHANGED c

NumPass ==
    /\ phase = "case" /\ Runnable(c) /\ c.mode = "nperbin"
    /\ LET r == BPassResult(BIndexCase(c)) IN st' = [hist |-> r.hist, rev |-> r.rev]
    /\ phase' = "numpass" /\ UNCHANGED c

NumConvert ==
    /\ phase = "numpass"
    /\ st' = BNumConvert(c, st) /\ phase' = "numconv" /\ UNCHANGED c

NumMerge ==
    /\ phase = "numconv" /\ BNumNeedsMerge(c, st)
    /\ st' = BNumMerge(st, MergeVariant) /\ phase' = "binned" /\ UNCHANGED c

NumKeep ==
    /\ phase = "numconv" /\ ~BNumNeedsMerge(c, st)
    /\ phase' = "binned" /\ UNCHANGED <<c, st>>

CalcStats ==
    /\ phase = "binned"
    /\ st' = [p |-> st, bins |-> BMechBins(c, st, FixedWhist)] /\ phase' = "stats" /\ UNCHANGED c

Assemble ==
    /\ phase = "stats"
    /\ st' = BMechObs(c, st.p, st.bins) /\ phase' = "done" /\ UNCHANGED c

NextExport == ChooseData \/ ChooseSpec \/ ChooseX \/ ChooseYW \/ ChooseRepData \/ ChooseRep \/ ChooseNanData \/ ChooseNanSpec
              \/ HChooseData \/ HEvent \/ ChooseScalePattern \/ ChooseScale
Next == NextExport \/ NanSortIndex \/ HistPass \/ NumPass \/ NumConvert \/ NumMerge \/ NumKeep \/ CalcStats \/ Assemble

NextNoStats == NextExport \/ NumPass \/ NumConvert \/ NumMerge \/ NumKeep      \* self-test of MergeRefines
Spec == Init /\ [][Next]_vars

\* ---- properties ------------------------------------------------------------------------------
\* the result dictionary the mechanisms build is accepted by the property-level spec
MechRefines == phase = "done" => BAccept(c, st)

\* the equal-occupancy bins the mechanism builds (before any statistic) are the ones the
\* statement describes
MergeRefines == (phase = "binned" /\ c.mode = "nperbin") =>
    BByNumStructFailing(c, [err |-> "none", hist |-> st.hist, hasrev |-> TRUE, rev |-> st.rev,
                            low |-> [i \in DOMAIN st.low |-> BRat(RInt(st.low[i]))],
                            high |-> [i \in DOMAIN st.high |-> BRat(RInt(st.high[i]))]]) = {}

\* the merge keeps the reverse-index array well formed and loses no datum
MergeSafe == (phase = "binned" /\ c.mode = "nperbin") =>
    /\ Len(st.rev) = BLimN(c) + Len(st.hist) + 1
    /\ VSum(st.hist) = BLimN(c)
    /\ \A k \in DOMAIN st.rev : st.rev[k] >= 0 /\ st.rev[k] <= Len(st.rev)

\* the partition the statement describes: every datum in exactly one bin, every bin holds
\* nperbin data except the last, which is short (1..nperbin) or, merged, long (nperbin+1..2 nperbin-1)
ByNumSane == (phase = "case" /\ c.mode = "nperbin" /\ ~NoData(c)) =>
    LET cnt == BCounts(c)  nb == Len(cnt)
    IN /\ nb >= 1 /\ VSum(cnt) = BLimN(c)
       /\ \A i \in 1..(nb - 1) : cnt[i] = c.b
       /\ IF BMerges(c) THEN cnt[nb] > c.b /\ cnt[nb] < 2 * c.b ELSE cnt[nb] >= 1 /\ cnt[nb] <= c.b
       /\ (~c.merge => nb = (BLimN(c) + c.b - 1) \div c.b)
       /\ (c.merge /\ nb >= 2 => cnt[nb] >= c.b)

\* sanity of the per-bin definitions on the whole array as one bin
MomentsSane == (phase = "case") =>
    LET x == c.x  P == DOMAIN x  n == Len(x)  ones == SOnes(n)
        m == SMean(x, ones, P)  wm == SMean(x, c.w, P)
    IN /\ RLe(RInt(SMinOf(x, P)), m) /\ RLe(m, RInt(SMaxOf(x, P)))
       /\ RLe(RInt(SMinOf(x, P)), wm) /\ RLe(wm, RInt(SMaxOf(x, P)))
       /\ RLe(RInt(SMinOf(x, P)), SMedian(x, P)) /\ RLe(SMedian(x, P), RInt(SMaxOf(x, P)))
       /\ BVarPop(x, P)[1] >= 0 /\ (BVarPop(x, P)[1] = 0 <=> Cardinality(VRange(x)) = 1)
       /\ SVar(x, c.w, P) = SVarAbout(x, c.w, P, wm)
       /\ (n >= 2 => BVarSamp(x, P) = RMul(BVarPop(x, P), RNorm(n, n - 1)))
       /\ SMean(x, [i \in 1..n |-> 4], P) = m                             \* equal weights: the plain mean
       /\ SVar(x, [i \in 1..n |-> 4], P) = BVarPop(x, P)
       /\ SErr2Calc(x, ones, P, m) = RDiv(BVarPop(x, P), RInt(n))         \* unit weights: err2 = err

\* the representation design is pairwise covering: every pair of representations of every two of the three
\* arguments occurs in some triple; RepAt enumerates exactly the design
RepDesignCovers == phase = "start" =>
    /\ \A p, q \in 1..3 : p < q => \A a, b \in 0..(NRep - 1) : \E t \in RepDesign : t[p] = a /\ t[q] = b
    /\ {RepAt(h) : h \in 0..(NRep * NRep - 1)} = RepDesign
    /\ Cardinality(VRange(RepSeq)) = NRep
\* the representation carries no value: the judgement of any observation is the same for every representation
RepCarriesNoValue == (phase = "done" /\ c.x \in RepData) =>
    \A t \in {<<1, 3, 6>>} :
        BFailing([c EXCEPT !.rep = RepOf(t)], st) = BFailing(c, st)

\* histories: what the code keeps (dictionary + range attribute) matches the abstract state - a dictionary that
\* is there holds the results of the last successful call AND the range attribute calc_stats reads is that call's
HistMechRefines == phase = "hist" =>
    /\ st.m.hashist => /\ st.s.has /\ st.m.spec = st.s.last
                       /\ st.m.dmin = Lo(BEvCase(c, c.h[st.m.spec]))
    /\ ~st.m.hashist => (~st.s.has \/ st.s.cleared)

\* the replication law, by explicit expansion on the small scope
LawSets == {<<2, 2, 1>>, <<2, 2, 2>>, <<4, 1, 2>>, <<3, 1, 1>>}
ScaleLawFor(cc, K, NB, T) ==
    LET n0   == Len(cc.x)  per == BScPerBlock(cc)  step == BScStep(cc)
        pOf(j)   == ((j - 1) % n0) + 1
        rOf(j)   == ((j - 1) \div n0) % K
        blkOf(j) == (j - 1) \div (n0 * K)
        J    == 1..(NB * K * n0)
        xb   == [j \in J |-> cc.x[pOf(j)] + blkOf(j) * step]
        yb   == [j \in J |-> cc.y[pOf(j)] * T + (rOf(j) % T)]
        wb   == [j \in J |-> cc.w[pOf(j)]]
        cb   == [x |-> xb, y |-> yb, w |-> wb, mode |-> cc.mode, b |-> IF cc.mode = "nperbin" THEN cc.b * K ELSE cc.b,
                 merge |-> FALSE, hasmin |-> FALSE, min |-> 0, hasmax |-> FALSE, max |-> 0]
        ones == SOnes(NB * K * n0)
        Pb(i) == IF cc.mode = "nperbin" THEN LET sp == SSortPos(xb, J) IN {sp[k] : k \in ((i - 1) * cb.b + 1)..(i * cb.b)}
                 ELSE VRange(Members(cb, i - 1))
    IN /\ (IF cc.mode = "nperbin" THEN Len(BCounts(cb)) ELSE NBin(cb)) = NB * per
       /\ \A i \in 1..(NB * per) :
            LET blk == (i - 1) \div per  P == BScMembers(cc, (i - 1) % per)  B == Pb(i)  shift == blk * step
            IN /\ B = {j \in J : blkOf(j) = blk /\ pOf(j) \in P}
               /\ P # {} =>
                    /\ SMean(xb, ones, B) = RAdd(BLMean(cc.x, SOnes(n0), P, 1), RInt(shift))
                    /\ SMedian(xb, B) = RAdd(BLMedian(cc.x, P, 1, K), RInt(shift))
                    /\ BVarPop(xb, B) = BLVar(cc.x, SOnes(n0), P, 1)
                    /\ SMean(yb, ones, B) = BLMean(cc.y, SOnes(n0), P, T)
                    /\ SMedian(yb, B) = BLMedian(cc.y, P, T, K \div T)
                    /\ BVarPop(yb, B) = BLVar(cc.y, SOnes(n0), P, T)
                    /\ SSumW(wb, B) = K * SSumW(cc.w, P)
                    /\ SMean(yb, wb, B) = BLMean(cc.y, cc.w, P, T)
                    /\ SVar(yb, wb, B) = BLVar(cc.y, cc.w, P, T)
                    /\ SErr2Calc(yb, wb, B, SMean(yb, wb, B)) = BLErr2Calc(cc.y, cc.w, P, T, K)
                    /\ SErr2Calc(xb, wb, B, SMean(xb, wb, B)) = BLErr2Calc(cc.x, cc.w, P, 1, K)
ScaleLaw == phase = "scase" => \A ls \in LawSets : ScaleLawFor(c, ls[1], ls[2], ls[3])
\* the law formulas at the exported sizes stay inside TLC's integers (an overflow is a TLC error, here rather than
\* while judging) and are sane
ScaleFormulasDefined == phase = "scase" =>
    \A i0 \in 0..(BScPerBlock(c) - 1) :
        LET P == BScMembers(c, i0)  K == c.scale.K  T == c.scale.T  NN == Cardinality(P) * K  n0 == Len(c.x)
        IN P # {} =>
             /\ K % T = 0
             /\ BLVar(c.y, SOnes(n0), P, T)[1] >= 0 /\ RMul(BLVar(c.y, SOnes(n0), P, T), RNorm(NN, NN - 1))[1] >= 0
             /\ RDiv(RMul(BLVar(c.y, SOnes(n0), P, T), RNorm(NN, NN - 1)), RInt(NN))[2] > 0
             /\ RDiv(RMul(BLVar(c.x, SOnes(n0), P, 1), RNorm(NN, NN - 1)), RInt(NN))[2] > 0
             /\ BLErr2Calc(c.y, c.w, P, T, K)[1] >= 0 /\ BLErr2Calc(c.x, c.w, P, 1, K)[1] >= 0
             /\ BLMedian(c.y, P, T, K \div T)[2] \in {1, 2}
             /\ RAdd(BLMean(c.x, c.w, P, 1), RInt((c.scale.NB - 1) * BScStep(c)))[2] > 0

\* NaN data: the sorted, limited index the passes are run on is the one the statement implies (the stable order of the
\* data inside the limits, NaN in no bin); the deviating shortcut violates this
NanSortRefines == (phase = "case" /\ "nan" \in DOMAIN c) => st.wsort = SortedLimited(BEff(c))

\* scale covariance in the weights (the law that transports every weighted case to the scales 2^wexp)
WScaleLawOn(v, w, P, s) ==
    LET sw == [i \in DOMAIN w |-> s * w[i]]
    IN /\ SMean(v, sw, P) = SMean(v, w, P)
       /\ SVar(v, sw, P) = SVar(v, w, P)
       /\ SSumW(sw, P) = s * SSumW(w, P)
       /\ SErr2Inv(sw, P) = RDiv(SErr2Inv(w, P), RInt(s))
       /\ SErr2Calc(v, sw, P, SMean(v, sw, P)) = SErr2Calc(v, w, P, SMean(v, w, P))
\* (the law does not involve the bin specification: checked once per data triple, for every subset P as the members of a bin)
WScaleLaw == (phase = "case" /\ c.mode = "binsize" /\ c.b = 2 /\ ~c.hasmin /\ ~c.hasmax /\ Len(c.w) > 0) =>
    \A s \in {2, 4} : \A P \in (SUBSET DOMAIN c.x) \ {{}} : WScaleLawOn(c.x, c.w, P, s) /\ WScaleLawOn(c.y, c.w, P, s)

\* ---- export -------------------------------------------------------------------------------------
Export == (DoExport /\ (phase \in {"case", "scase", "nancase"} \/ (phase = "hist" /\ Len(c.h) = HistLen))) => PrintT(<<"CASE", ToJson(c)>>)
=============================================================================
