------------------------------- MODULE BinStatsTrace -------------------------------
(* Trace validation for per-bin statistics and equal-occupancy binning: every       *)
(* recorded call of the real code (esutil.stat.histogram / Binner) is judged by the *)
(* property-level spec of BinStats.tla.  One ndjson line per record:                *)
(*   {"id": k, "kind": ..., "c": <case>, "obs" | "evs": [...]}   (kinds: see below) *)
(* A failing clause of observation / event k is reported as "<k>:<clause>".         *)
EXTENDS BinStats, Json, IOUtils

VARIABLES blk, tid
Traces == ndJsonDeserialize(IOEnv.TRACE_FILE)
NT == Len(Traces)
BlockSize == 256
NBlocks == (NT + BlockSize - 1) \div BlockSize

Init == blk = 0 /\ tid = 0
PickBlock == blk = 0 /\ tid = 0 /\ \E b \in 1..NBlocks : blk' = b /\ tid' = 0
PickTrace == blk > 0 /\ tid = 0
             /\ \E t \in ((blk - 1) * BlockSize + 1)..VMin2(blk * BlockSize, NT) : tid' = t /\ blk' = blk
Next == PickBlock \/ PickTrace

\* kinds of records:  "case"    {c, obs: [observation of one call variant, ...]}
\*                    "scale"   {c (pattern case with c.scale), obs: [compressed observation, ...]}
\*                    "history" {c (data), evs: [event with its observation, ...]} - one Binner, calls in order
FailingRec(r) ==
    IF r.kind = "history" THEN BHistoryFailing(r.c, r.evs)
    ELSE IF r.kind = "scale" THEN UNION {{ToString(k) \o ":" \o f : f \in BScaleFailing(r.c, r.c.scale, r.obs[k])} : k \in DOMAIN r.obs}
    ELSE UNION {{ToString(k) \o ":" \o f : f \in BFailing(r.c, r.obs[k])} : k \in DOMAIN r.obs}

Check == tid > 0 =>
    LET r == Traces[tid]  f == FailingRec(r)
    IN f = {} \/ PrintT(<<"REJECT", ToJson([id |-> r.id, failing |-> f])>>)
=============================================================================
