------------------------------- MODULE ByteOrder -------------------------------
(* Property-level specification of the byte-order conversions of esutil            *)
(*   numpy_util.to_native / to_big_endian / to_little_endian / byteswap            *)
(*   (x inplace x keep_dtype), recfile.Util.to_native_inplace,                     *)
(*   the predicates is_big_endian / is_little_endian (numpy_util and recfile.Util) *)
(*   and the descriptor strippers descr_to_native / remove_dtype_byteorder,        *)
(* plus an implementation-shaped model of the code's swap decision.                *)
(*                                                                                 *)
(* An array is seen through three things only:                                     *)
(*   decl[i]  the byte-order character its dtype declares for field i              *)
(*            ("<" little, ">" big, "=" machine order, "|" not applicable);        *)
(*   phys[i]  the order in which the bytes of field i actually store the array's   *)
(*            known logical values: "<" or ">" for a multi-byte field, "|" for a    *)
(*            single-byte / byte-string field whose bytes are the original ones    *)
(*            (the harness reports "corrupt" / "changed" otherwise);               *)
(*   grp      the identity of its buffer (smallest index among the arrays alive    *)
(*            that share memory with it), sig = its field structure (names, kinds, *)
(*            item sizes, sub-array and array shapes) as an opaque token,          *)
(*            hash = a digest of its raw bytes (opaque token).                     *)
(* A plain array has exactly one field.  kinds[i] is "M" (multi-byte numeric),     *)
(* "B" (single-byte numeric), "S" (byte string) or "N" (a nested record holding a   *)
(* multi-byte member and a byte-string member: decl / phys are those of the          *)
(* multi-byte member, phys is "corrupt" when the string member changed) or "U" (a    *)
(* unicode string: numpy stores 4-byte code points, so unlike a byte string it HAS a  *)
(* byte order and is converted like any multi-byte field).                            *)
(* An element of field i has its logical value  <=>  Resolve(decl[i]) = phys[i].   *)
(*                                                                                 *)
(* MEMORY LAYOUT.  The array handed to a conversion need not own a C-contiguous     *)
(* buffer: it may be a window onto a larger PARENT buffer.  layout is one of        *)
(*   "contig"   owns its C-contiguous buffer            "slice"  contiguous window  *)
(*   "strided"  every k-th element (a[1::k])            "reversed" negative stride  *)
(*   "column"   one column of an array one dimension up "fortran" 2-d, F-ordered    *)
(*   "zerod"    0-d window                              "recview" field(s) of a     *)
(*                                                        larger record (t['x'],    *)
(*                                                        t[['a','c']])             *)
(* The statement does not mention the layout: every clause holds for every layout,  *)
(* and "the conversion happens in the caller's buffer" is read with its frame: the  *)
(* bytes of the parent buffer that are NOT elements of the array (and the parent's   *)
(* dtype) stay as they were.  A state carries  rest = "intact" | "changed"  for      *)
(* that, and  lay = [cc, fc, owns, neg, nd]  (numpy's contiguity flags, OWNDATA,     *)
(* a negative stride, the number of dimensions) of the initial array, so that TLC    *)
(* checks the harness really built the layout the case asks for.                     *)
(*                                                                                 *)
(* A system state is [res : index of the current array (the last result),          *)
(*                    arrs : Seq(array)] - every array object seen so far.         *)
(*                                                                                 *)
(* WRITEABILITY AND HISTORIES.  Every array also carries  w  (numpy's WRITEABLE     *)
(* flag) and  lin  (its lineage: the index of the table built by the caller from    *)
(* which it derives through conversions).  The initial array is writable ("w"),     *)
(* locked with setflags ("ro"), a read-only view of a writable array ("roview") or  *)
(* built over immutable memory ("frombuf": np.frombuffer over bytes, a mode='r'     *)
(* memmap).  A conversion may be REJECTED (raise) only when it is asked to work in  *)
(* place on a non-writable array; a rejected call is a STUTTER step: every array    *)
(* keeps its bytes, dtype, flags and buffer.  Between conversions the CALLER may    *)
(* build another table of the same dtype ("fresh"), rename the fields of the        *)
(* current array in place ("mut_names": x.dtype.names = ...), change its shape      *)
(* ("mut_shape") or lock it ("mut_lock").  numpy lets an array and its copies /     *)
(* views share one dtype object, so a rename may show on arrays of the SAME lineage; *)
(* it must never show on an array of another lineage, and a conversion always       *)
(* returns the field structure of ITS argument.                                     *)
(*                                                                                 *)
(* SESSIONS (the world).  A process executes a SEQUENCE of chains, a session; the    *)
(* module-level state of the library is part of the world a call runs in.  The       *)
(* statement gives no conversion a memory: what a step may return is a function of   *)
(* the arrays alive in ITS chain alone, so every chain of a session is judged by the *)
(* same history-free clauses as a chain run in a fresh process,                      *)
(* and an outcome that is allowed in a fresh process but not reached after earlier    *)
(* chains (or the other way round) is a violation located in the SESSION.            *)
(* BOMemo* is an implementation-shaped deviating mechanism for that dimension: a      *)
(* module-level memo of what was found out about a dtype, keyed by the dtype OBJECT   *)
(* (hash taken when it is filed), bounded (oldest evicted), which the caller's        *)
(* in-place rename poisons.                                                           *)
EXTENDS VU

CONSTANT MachineLE          \* TRUE on a little-endian machine

BOKinds  == {"M", "B", "S", "N", "U"}
BOLayouts == {"contig", "slice", "strided", "reversed", "column", "fortran", "zerod", "recview"}
BOSpells == {"<", ">", "=", "|"}
BOFns    == {"native", "big", "little", "swap", "rnative"}   \* rnative = recfile.Util.to_native_inplace
BOCallerFns == {"fresh", "mut_names", "mut_shape", "mut_lock"}   \* steps of the caller between conversions
BOWrites == {"w", "ro", "roview", "frombuf"}

BONative      == IF MachineLE THEN "<" ELSE ">"
BOResolve(ch) == IF ch = "=" THEN BONative ELSE ch            \* "<" ">" "|" stand for themselves
BOFlip(p)     == IF p = "<" THEN ">" ELSE IF p = ">" THEN "<" ELSE p

\* what a dtype built with order character sp declares for a field of kind k
\* ("|" on a multi-byte type means "machine order"; any character on a one-byte type means "|")
BOMultiKinds == {"M", "N", "U"}
BODeclOf(k, sp) == IF k \notin BOMultiKinds THEN "|" ELSE IF sp = "|" THEN BONative ELSE BOResolve(sp)

BOIsMulti(kinds, i) == kinds[i] \in BOMultiKinds
BOMultis(kinds)     == {i \in DOMAIN kinds : kinds[i] \in BOMultiKinds}

\* ---- memory layouts -----------------------------------------------------------------
\* numpy reports the array C- or F-contiguous (what an implementation may be tempted to branch on)
BOLayContiguous(layout, plain) == layout \in {"contig", "slice", "fortran", "zerod"} \/ (layout = "recview" /\ ~plain)
\* the array is a window onto a parent buffer that has other bytes
BOLayWindow(layout) == layout \notin {"contig", "fortran"}
\* what the initial array of a case must look like (lay = observed flags)
BOLayoutBuilt(layout, plain, wr, lay) ==
    CASE layout = "contig"   -> (lay.owns \/ wr \in {"roview", "frombuf"}) /\ lay.cc
      [] layout = "slice"    -> ~lay.owns /\ lay.cc /\ lay.nd >= 1
      [] layout = "strided"  -> ~lay.owns /\ ~lay.cc /\ ~lay.fc /\ ~lay.neg
      [] layout = "reversed" -> ~lay.owns /\ ~lay.cc /\ ~lay.fc /\ lay.neg
      [] layout = "column"   -> ~lay.owns /\ ~lay.cc /\ ~lay.fc /\ ~lay.neg /\ lay.nd >= 1
      [] layout = "fortran"  -> lay.fc /\ ~lay.cc /\ lay.nd = 2
      [] layout = "zerod"    -> ~lay.owns /\ lay.nd = 0
      [] layout = "recview"  -> ~lay.owns
      [] OTHER -> FALSE

\* ---- the predicates --------------------------------------------------------------
BOIsBig(ch)    == BOResolve(ch) = ">"
BOIsLittle(ch) == BOResolve(ch) = "<"

\* ---- conversion of one array view v = [decl, phys] --------------------------------
BORequested(fn, d) == IF fn \in {"native", "rnative"} THEN BONative
                      ELSE IF fn = "big" THEN ">"
                      ELSE IF fn = "little" THEN "<"
                      ELSE BOFlip(BOResolve(d))                           \* swap: the other order

BOMustSwap(kinds, v, fn, i) == BOIsMulti(kinds, i) /\ BOResolve(v.decl[i]) # BORequested(fn, v.decl[i])

BOPhysAfter(kinds, v, fn) ==
    [i \in DOMAIN kinds |-> IF BOMustSwap(kinds, v, fn, i) THEN BOFlip(v.phys[i]) ELSE v.phys[i]]
BODeclAfter(kinds, v, fn, keep) ==
    [i \in DOMAIN kinds |-> IF keep \/ ~BOIsMulti(kinds, i) THEN BOResolve(v.decl[i]) ELSE BORequested(fn, v.decl[i])]
BOConvert(kinds, v, fn, keep) == [decl |-> BODeclAfter(kinds, v, fn, keep), phys |-> BOPhysAfter(kinds, v, fn)]

BOValueCorrect(kinds, v, i) == BOResolve(v.decl[i]) = v.phys[i]
BOUniform(kinds, v) == \A i, j \in BOMultis(kinds) : BOResolve(v.decl[i]) = BOResolve(v.decl[j]) /\ v.phys[i] = v.phys[j]

\* descr_to_native / remove_dtype_byteorder: the dtype built from the stripped descriptor
BODescrNative(kinds) == [i \in DOMAIN kinds |-> IF BOIsMulti(kinds, i) THEN BONative ELSE "|"]

\* ---------------------------------------------------------------------------------
\* Acceptance of one observed step  pre --op--> post  (clauses named after the
\* statement).  op = [fn, inplace, keep];  an observed array is
\* [decl, phys, sig, shp, grp, hash, w, lin].   Used by the trace module on the real code and by
\* the model checker on the constructive model below (SpecAccepted).
BOStepFailing(kinds, pre, op, post) ==
    LET n   == Len(pre.arrs)
        a   == pre.arrs[pre.res]
        r   == post.arrs[post.res]
        nf  == Len(kinds)
        fieldsOK == Len(r.decl) = nf /\ Len(r.phys) = nf
        M   == BOMultis(kinds)
        same == post.res = pre.res                         \* the result IS the argument
    IN
    IF post.err # "none"
    THEN \* a call may be refused only when asked to work in place on a non-writable array ...
         (IF op.inplace /\ ~a.w THEN {} ELSE {"unexpected_error"}) \cup
         \* ... and a refused call is a stutter step: bytes, dtypes, flags, buffers of all arrays as before
         (IF post.res = pre.res /\ post.arrs = pre.arrs /\ post.rest = pre.rest THEN {} ELSE {"rejected_call_changes_nothing"})
    ELSE
      \* object / buffer identity
      (IF op.inplace
         THEN (IF same /\ Len(post.arrs) = n THEN {} ELSE {"inplace_returns_argument"}) \cup
              (IF r.grp = a.grp THEN {} ELSE {"inplace_same_buffer"})
         ELSE (IF post.res = n + 1 /\ Len(post.arrs) = n + 1 THEN {} ELSE {"copy_is_new_object"}) \cup
              (IF r.grp = post.res THEN {} ELSE {"copy_independent"})) \cup
      \* nothing else moves: every other array alive keeps dtype, bytes and buffer
      (IF \A j \in 1..n : (j # pre.res /\ j \in DOMAIN post.arrs) => post.arrs[j] = pre.arrs[j]
         THEN {} ELSE {"other_array_modified"}) \cup
      (IF op.inplace \/ (pre.res \in DOMAIN post.arrs /\ post.arrs[pre.res] = pre.arrs[pre.res])
         THEN {} ELSE {"argument_modified"}) \cup
      \* frame: the parent buffer's bytes outside the array, and the parent's dtype, stay as they were
      (IF post.rest = pre.rest THEN {} ELSE {"parent_buffer_rest_untouched"}) \cup
      \* field structure
      (IF r.sig = a.sig /\ r.shp = a.shp /\ fieldsOK THEN {} ELSE {"field_structure"}) \cup
      (IF ~fieldsOK THEN {}
       ELSE
        (IF op.keep
           THEN (IF \A i \in 1..nf : BOResolve(r.decl[i]) = BOResolve(a.decl[i]) THEN {} ELSE {"dtype_kept"}) \cup
                (IF \A i \in M : r.phys[i] = BOPhysAfter(kinds, a, op.fn)[i] THEN {} ELSE {"bytes_converted"})
           ELSE (IF \A i \in M : BOResolve(r.decl[i]) = BORequested(op.fn, a.decl[i]) THEN {} ELSE {"declared_order"}) \cup
                (IF \A i \in M : /\ r.phys[i] \in {"<", ">"}
                                 /\ BOValueCorrect(kinds, r, i) = BOValueCorrect(kinds, a, i)
                   THEN {} ELSE {"value_preserved"})) \cup
        (IF \A i \in (1..nf) \ M : r.phys[i] = "|" /\ BOResolve(r.decl[i]) = "|"
           THEN {} ELSE {"nobyteorder_field_untouched"}))

\* a step of the CALLER (op.fn \in BOCallerFns) seen on the real arrays
BOCallerFailing(kinds, spell, pre, op, post) ==
    LET n == Len(pre.arrs) IN
    IF post.err # "none" THEN {"init_mismatch"}                                  \* the harness could not do it
    ELSE IF op.fn = "fresh" THEN
        IF /\ Len(post.arrs) = n + 1 /\ post.res = n + 1 /\ post.rest = pre.rest
           /\ \A j \in 1..n : post.arrs[j] = pre.arrs[j]
           /\ LET f == post.arrs[n + 1] IN
                /\ f.grp = n + 1 /\ f.lin = n + 1 /\ Len(f.decl) = Len(kinds) /\ Len(f.phys) = Len(kinds)
                /\ \A i \in DOMAIN kinds : BOResolve(f.decl[i]) = BODeclOf(kinds[i], spell) /\ f.phys[i] = BODeclOf(kinds[i], spell)
        THEN {} ELSE {"init_mismatch"}
    ELSE IF ~(post.res = pre.res /\ Len(post.arrs) = n /\ post.rest = pre.rest) THEN {"init_mismatch"}
    ELSE LET c == pre.arrs[pre.res] IN
         \* renaming / reshaping / locking ONE array never shows on an array derived from another table ...
         (IF \A j \in 1..n : (j # pre.res /\ pre.arrs[j].lin # c.lin) => post.arrs[j] = pre.arrs[j]
            THEN {} ELSE {"caller_mutation_reaches_unrelated_array"}) \cup
         \* ... and on its own relatives (which numpy lets share the dtype object) at most as a rename
         (IF \A j \in 1..n : (j # pre.res /\ pre.arrs[j].lin = c.lin) => [post.arrs[j] EXCEPT !.sig = pre.arrs[j].sig] = pre.arrs[j]
            THEN {} ELSE {"caller_mutation_changes_more_than_names"})

BOAnyStepFailing(kinds, spell, pre, op, post) ==
    IF op.fn \in BOFns THEN BOStepFailing(kinds, pre, op, post) ELSE BOCallerFailing(kinds, spell, pre, op, post)

\* statement clauses that relate two consecutive steps; evaluated on the raw-byte digests
\* (they follow from the step clauses on the abstraction - IdempotentThm, SwapTwiceThm in
\* ByteOrderMC - so this also cross-checks that the abstraction loses nothing)
BOSameFn(f, g) == f = g \/ {f, g} = {"native", "rnative"}
BOPairFailing(kinds, s0, op1, s1, op2, s2) ==
    LET a0 == s0.arrs[s0.res]   r1 == s1.arrs[s1.res]   r2 == s2.arrs[s2.res] IN
    IF ~(op1.fn \in BOFns /\ op2.fn \in BOFns /\ s1.err = "none" /\ s2.err = "none") THEN {}    \* two conversions that happened
    ELSE
    (IF op1.fn = "swap" /\ op2.fn = "swap" /\ r2.hash # a0.hash THEN {"swap_twice_restores_bytes"} ELSE {}) \cup
    (IF op1.fn # "swap" /\ BOSameFn(op1.fn, op2.fn) /\ ~op1.keep /\ ~op2.keep
        /\ (r2.hash # r1.hash \/ [i \in DOMAIN r2.decl |-> BOResolve(r2.decl[i])] # [i \in DOMAIN r1.decl |-> BOResolve(r1.decl[i])])
     THEN {"idempotent"} ELSE {})

\* the initial array built by the harness must be what the case says (else the harness is wrong)
BOInitFailing(kinds, spell, layout, plain, wr, s0) ==
    IF /\ s0.res = 1 /\ Len(s0.arrs) = 1 /\ s0.err = "none"
       /\ Len(s0.arrs[1].decl) = Len(kinds) /\ Len(s0.arrs[1].phys) = Len(kinds)
       /\ \A i \in DOMAIN kinds : /\ BOResolve(s0.arrs[1].decl[i]) = BODeclOf(kinds[i], spell)
                                  /\ s0.arrs[1].phys[i] = BODeclOf(kinds[i], spell)
       /\ s0.arrs[1].grp = 1 /\ s0.arrs[1].lin = 1
       /\ s0.rest = "intact"
       /\ wr \in BOWrites /\ s0.arrs[1].w = (wr = "w")
       /\ layout \in BOLayouts /\ BOLayoutBuilt(layout, plain, wr, s0.lay)
       /\ (plain => Len(kinds) = 1 /\ kinds[1] # "N")
    THEN {} ELSE {"init_mismatch"}

\* predicates and descriptor stripping observed on the current array of a state
\*   pred = [err, big : Seq(BOOLEAN), little : Seq(BOOLEAN), rlittle : Seq(BOOLEAN)] one entry per field view
\*   dn   = Seq([fn, err, decl : Seq(char), sig])  for structured arrays
BOPredFailing(kinds, s) ==
    LET r == s.arrs[s.res]  p == s.pred IN
    IF p.err # "none" THEN {"predicate_error"}
    ELSE IF Len(p.big) # Len(r.decl) \/ Len(p.little) # Len(r.decl) \/ Len(p.rlittle) # Len(r.decl) THEN {"predicate_error"}
    ELSE (IF \A i \in DOMAIN r.decl : p.big[i] = BOIsBig(r.decl[i]) THEN {} ELSE {"is_big_endian"}) \cup
         (IF \A i \in DOMAIN r.decl : p.little[i] = BOIsLittle(r.decl[i]) THEN {} ELSE {"is_little_endian"}) \cup
         (IF \A i \in DOMAIN r.decl : p.rlittle[i] = BOIsLittle(r.decl[i]) THEN {} ELSE {"recfile_is_little_endian"})

BODescrFailing(kinds, s) ==
    LET r == s.arrs[s.res] IN
    UNION {LET d == s.dn[k] IN
           IF d.err # "none" THEN {d.fn \o ":descr_unusable"}
           ELSE IF d.sig # r.sig \/ Len(d.decl) # Len(kinds) THEN {d.fn \o ":descr_structure"}
           ELSE IF \A i \in DOMAIN kinds : BOResolve(d.decl[i]) = BODescrNative(kinds)[i] THEN {}
           ELSE {d.fn \o ":descr_native"}
           : k \in DOMAIN s.dn}

\* ---------------------------------------------------------------------------------
\* Implementation-shaped model of the code (numpy_util.py:1232-1261, 1308-1328, 1355-1375,
\* 1378-1408; recfile/Util.py:988-1012): look for ONE decisive top-level field, then swap the
\* whole array with ndarray.byteswap(inplace) and flip the whole dtype by assigning
\* dtype.newbyteorder() to the .dtype of what byteswap returned.
\*   FixedDetect = FALSE : the pinned code - for to_big / to_little a field without byte
\*                         order ("|": i1, S) counts as "not big" / "not little";
\*   FixedDetect = TRUE  : fields without byte order are skipped.
\*   NestedDetect = FALSE: a nested record reports "|" (numpy's byteorder of a void type), so its
\*                         members' order is never seen by the detection;
\*   NestedDetect = TRUE : the detection descends into nested records.
\*   UnicodeDetect = FALSE: a deviating variant whose detection takes every string field, unicode too, for
\*                         a field without byte order;   UnicodeDetect = TRUE : unicode fields count (the code as it is).
\*   RetypeAlways = TRUE : the new dtype is assigned to the swapped object whatever its layout
\*                         (the code as it is);
\*   RetypeAlways = FALSE: a deviating variant that assigns .dtype only to C-/F-contiguous arrays and
\*                         otherwise returns  outdata.view(newdtype)  - another object, the caller's
\*                         array keeping the old dtype over swapped bytes.
\*   SwapFirst = TRUE    : the bytes are swapped first and the dtype assigned afterwards (the code as it
\*                         is): ndarray.byteswap(True) raises for a non-writable array before anything
\*                         has changed;
\*   SwapFirst = FALSE   : a deviating variant of numpy_util.byteswap that, in place, assigns the dtype
\*                         first: the refused swap leaves the new dtype over unswapped bytes.
BOMechDoSwap(kinds, v, fn, FixedDetect, NestedDetect, UnicodeDetect) ==
    LET D(i) == IF (kinds[i] = "N" /\ ~NestedDetect) \/ (kinds[i] = "U" /\ ~UnicodeDetect) THEN "|" ELSE BOResolve(v.decl[i])
        F    == IF FixedDetect THEN {i \in DOMAIN kinds : D(i) # "|"} ELSE DOMAIN kinds
    IN IF fn \in {"native", "rnative"}
         THEN LET dataLittle == \E i \in DOMAIN kinds : D(i) = "<" IN MachineLE # dataLittle
       ELSE IF fn = "big"    THEN \E i \in F : D(i) # ">"
       ELSE IF fn = "little" THEN \E i \in F : D(i) # "<"
       ELSE TRUE

BOMechConvert(kinds, v, fn, keep, FixedDetect, NestedDetect, UnicodeDetect) ==
    IF BOMechDoSwap(kinds, v, fn, FixedDetect, NestedDetect, UnicodeDetect)
    THEN [decl |-> [i \in DOMAIN kinds |-> IF keep THEN BOResolve(v.decl[i]) ELSE BOFlip(BOResolve(v.decl[i]))],   \* newbyteorder(): "|" stays
          phys |-> [i \in DOMAIN kinds |-> BOFlip(v.phys[i])]]                                                    \* byteswap(): "|" stays
    ELSE [decl |-> [i \in DOMAIN kinds |-> BOResolve(v.decl[i])], phys |-> v.phys]

\* one call seen as objects: what is returned (decl, phys), whether it IS the argument, and the
\* dtype the argument object has afterwards
BOMechStep(kinds, contiguous, writable, v, op, FixedDetect, NestedDetect, UnicodeDetect, RetypeAlways, SwapFirst) ==
    LET sw     == BOMechDoSwap(kinds, v, op.fn, FixedDetect, NestedDetect, UnicodeDetect)
        c      == BOMechConvert(kinds, v, op.fn, op.keep, FixedDetect, NestedDetect, UnicodeDetect)
        viewed == sw /\ op.inplace /\ ~op.keep /\ ~RetypeAlways /\ ~contiguous /\ op.fn # "rnative"
        old    == [i \in DOMAIN kinds |-> BOResolve(v.decl[i])]
        refused == sw /\ op.inplace /\ ~writable                        \* ndarray.byteswap(True) raises
        early  == ~SwapFirst /\ ~op.keep /\ op.fn # "rnative"             \* dtype already assigned by then
    IN IF refused
       THEN [rejected |-> TRUE, decl |-> IF early THEN c.decl ELSE old, phys |-> v.phys, same |-> TRUE,
             argdecl |-> IF early THEN c.decl ELSE old]
       ELSE [rejected |-> FALSE, decl |-> c.decl, phys |-> c.phys,
             same |-> op.inplace /\ ~viewed,
             argdecl |-> IF op.inplace /\ ~viewed THEN c.decl ELSE old]

\* ---------------------------------------------------------------------------------
\* SESSIONS.  The clauses above judge a chain from its own states only; the chains one process executed one after
\* the other are therefore judged one by one, each exactly as if it had run in a fresh process.  A chain that is
\* rejected in its session but accepted when executed alone in a fresh process shows module-level state at work:
\* the harness then reports the session (the earlier chains are part of the case).

\* A deviating mechanism with module-level state (the faithful code keeps none):
\*     known = {}                      # dtype object -> what the scan of its fields found
\*     def orders(dtype):
\*         if dtype not in known:
\*             if len(known) >= KEEP: del known[next(iter(known))]      # forget the oldest
\*             known[dtype] = scan(dtype)
\*         return known[dtype]
\* The memo M is the dictionary in insertion order, one entry [id, h, now] per key: id = the dtype OBJECT,
\* h = its content when it was filed (its hash), now = its content today (x.dtype.names = ... changes it
\* behind the dictionary's back).  A look-up of content c finds an entry filed under c that still equals c.
\* Deleting the oldest key looks IT up under the hash it has now: when the caller renamed it after it was
\* filed there is no such entry - KeyError, the conversion raises.
BOMemoFind(M, c) == {i \in DOMAIN M : M[i].h = c /\ M[i].now = c}
BOMemoRemove(M, i) == SubSeq(M, 1, i - 1) \o SubSeq(M, i + 1, Len(M))
\* one consultation on behalf of dtype object id whose content is c:  [memo, raised]
BOMemoLook(M, id, c, Keep) ==
    LET new == [id |-> id, h |-> c, now |-> c] IN
    IF BOMemoFind(M, c) # {} THEN [memo |-> M, raised |-> FALSE]
    ELSE IF Len(M) < Keep THEN [memo |-> Append(M, new), raised |-> FALSE]
    ELSE LET hit == BOMemoFind(M, M[1].now) IN
         IF hit = {} THEN [memo |-> M, raised |-> TRUE]
         ELSE [memo |-> Append(BOMemoRemove(M, VSetMin(hit)), new), raised |-> FALSE]
\* the caller renames dtype object id in place (content = [kinds, decl, names, tag])
BOMemoRename(M, id, names) == [i \in DOMAIN M |-> IF M[i].id = id THEN [M[i] EXCEPT !.now.names = names] ELSE M[i]]
=============================================================================
