------------------------------- MODULE ByteOrderMC -------------------------------
(* Exhaustive small-scope model of byte-order conversion histories.                 *)
(*  - ChooseKinds / ChooseSpell / ChooseLayout enumerate every abstract array of the *)
(*    bounded space (plain or structured, every sequence of field kinds incl. nested *)
(*    records, every order spelling, every memory layout, every writeability);       *)
(*  - ToNative / ToBig / ToLittle / Swap (x inplace x keep_dtype) and                *)
(*    RecfileNativeInplace extend a history: each conversion is applied to the       *)
(*    current array (the result of the previous one), so buffers may or may not be   *)
(*    shared (aliasing);  Reject is the same call refused because it would have to    *)
(*    swap a non-writable array in place - a stutter step on every array;            *)
(*  - Fresh / MutNames / MutShape / MutLock are steps of the CALLER between           *)
(*    conversions: build another table of the same dtype, rename the fields of the   *)
(*    current array in place, change its shape, lock it.  dtype OBJECTS are modelled  *)
(*    (dtos): numpy lets an array, its views and its copies share one, a really       *)
(*    swapped result gets a new one - so a rename shows on relatives only;            *)
(*  - every behaviour of length MaxDepth is exported (model checking or -simulate)   *)
(*    and replayed on real arrays;                                                   *)
(*  - the theorems below are checked on every behaviour, and MechRefines checks the  *)
(*    implementation-shaped step (swap decision, ndarray.byteswap, dtype assignment:  *)
(*    result, object identity, dtype left on the argument, refusal) against the       *)
(*    property-level conversion, for every layout;                                    *)
(*  - THE WORLD: a process executes a session, a sequence of chains (NewChain ends a  *)
(*    chain and starts the next in the same process; Fill(k) stands for k one-step    *)
(*    chains on k tables of k new, distinct dtypes in between).  The property-level   *)
(*    part of a chain (snaps) never reads what went before: SessionFreshThm.  The      *)
(*    mechanism's module-level state is carried along in `world`, and next to it the   *)
(*    state the same mechanism would have had the process started with this chain      *)
(*    (`fworld`): SessionThm says a call raises in the session iff it does in a fresh   *)
(*    process.  The faithful mechanism keeps no such state (Memo = FALSE); the          *)
(*    deviating variant Memo = TRUE (a bounded memo keyed by dtype objects,             *)
(*    ByteOrder.tla) violates SessionThm once the caller renames a filed dtype.         *)
EXTENDS ByteOrder, Json

CONSTANTS MinFields, MaxFields,   \* structured arrays of MinFields..MaxFields fields
          WithPlain,              \* TRUE: plain arrays too (when MinFields = 1)
          Kinds,                  \* field kinds used (subset of BOKinds)
          Need,                   \* kinds that must occur among the fields (subset of Kinds; {} = no restriction)
          AloneWithOrderless,     \* TRUE: only tables with exactly ONE field that has a byte order (in every position)
          Spells,                 \* order characters the initial dtype is spelled with
          Layouts,                \* memory layouts of the initial array (subset of BOLayouts)
          Writes,                 \* writeability of the initial array (subset of BOWrites)
          Fns,                    \* conversions used (subset of BOFns)
          CallerOps,              \* caller steps used (subset of BOCallerFns)
          InplaceFirst,           \* TRUE: only histories whose conversions before the last step are in place (the
                                  \*       current array stays the initial window; thins deep runs)
          MaxDepth,               \* history length
          FixedDetect,            \* mechanism variants, see ByteOrder.tla
          NestedDetect,
          UnicodeDetect,
          RetypeAlways,
          SwapFirst,
          CacheDtype,             \* TRUE: a deviating MODEL variant in which the swapped dtype object is memoised
                                  \*       per source dtype (self-test: lineages then share dtype objects)
          MaxChains,              \* chains per session (1: every process runs one chain)
          ProbeDepth,             \* history length of the chains after the first of a session
          Fills,                  \* numbers of filler chains (new distinct dtypes, one conversion each) between two
                                  \* chains of a session; {} = none.  Otherwise exactly one Fill(k) between two chains
          Memo,                   \* TRUE: the deviating mechanism with a module-level memo keyed by dtype objects
          MemoKeep,               \* its bound
          DoExport

VARIABLES phase, init, ops, snaps, arrs, bufs, dtos, cur,
          sess, world, fworld, werr
vars == <<phase, init, ops, snaps, arrs, bufs, dtos, cur, sess, world, fworld, werr>>
wvars == <<sess, world, fworld, werr>>

\* arrs : Seq([decl, buf : index into bufs, lay : layout, lin : lineage, dto : index into dtos, w : writable, shp])
\* bufs : Seq(Seq(order))  - physical order of each field in each buffer
\* dtos : Seq([names : "orig" | "ren", key])  - dtype objects: their field names; key = the source dtype a
\*        memoising variant would have filed it under
\* cur  : the current array (argument of the next conversion)
\* snaps: the observable state after each step (snaps[1] = initial), ops: the steps taken
\* sess : what the process did before the current chain: Seq([kind : "chain" | "fill", init, ops, k])
\* world: the mechanism's module-level state (the memo, ByteOrder.tla) as the session left it;
\* fworld: the same had the process started with the current chain;  werr = [cur, fresh]: did the mechanism's
\*        last call raise on account of that state, in the session / in a fresh process

NoInit == [plain |-> FALSE, kinds |-> <<>>, spell |-> "=", layout |-> "contig", wr |-> "w"]
NoKey == <<>>

NoErr == [cur |-> FALSE, fresh |-> FALSE]

Init == /\ phase = "start" /\ init = NoInit /\ ops = <<>> /\ snaps = <<>>
        /\ arrs = <<>> /\ bufs = <<>> /\ dtos = <<>> /\ cur = 0
        /\ sess = <<>> /\ world = <<>> /\ fworld = <<>> /\ werr = NoErr

ChainNo == Len(sess) + 1
NChains == Cardinality({i \in DOMAIN sess : sess[i].kind = "chain"}) + 1
\* the content of a dtype (what its hash and == look at) and the identity of a dtype object of this chain
Content(ks, decl, names, tag) == [kinds |-> ks, decl |-> decl, names |-> names, tag |-> tag]
DtoId(d) == <<ChainNo, d>>
\* the mechanism consults its module-level state for the dtype object d of an array declared decl
Consult(d, decl) ==
    LET c  == Content(init.kinds, decl, dtos[d].names, 0)
        lw == BOMemoLook(world, DtoId(d), c, MemoKeep)
        lf == BOMemoLook(fworld, DtoId(d), c, MemoKeep)
    IN IF Memo THEN /\ world' = lw.memo /\ fworld' = lf.memo /\ werr' = [cur |-> lw.raised, fresh |-> lf.raised]
       ELSE /\ werr' = NoErr /\ UNCHANGED <<world, fworld>>

SnapOf(A, B, D, c, e) ==
    [res |-> c, err |-> e, rest |-> "intact",     \* no conversion ever writes outside its array
     arrs |-> [j \in 1..Len(A) |->
                 [decl |-> A[j].decl, phys |-> B[A[j].buf], sig |-> D[A[j].dto].names, shp |-> A[j].shp,
                  grp |-> VSetMin({i \in 1..Len(A) : A[i].buf = A[j].buf}),
                  hash |-> B[A[j].buf],            \* raw bytes are a function of the physical orders
                  w |-> A[j].w, lin |-> A[j].lin]]]

ChooseKinds ==
    /\ phase = "start"
    /\ (Len(sess) >= 1 /\ Fills # {}) => sess[Len(sess)].kind = "fill"
    /\ \E n \in MinFields..MaxFields : \E ks \in [1..n -> Kinds] :
       \E pl \in (IF n = 1 /\ WithPlain /\ ks[1] # "N" THEN BOOLEAN ELSE {FALSE}) :
          /\ Need \subseteq {ks[i] : i \in 1..n}
          /\ (AloneWithOrderless => Cardinality({i \in 1..n : ks[i] \in BOMultiKinds}) = 1)
          /\ init' = [NoInit EXCEPT !.plain = pl, !.kinds = ks]
    /\ phase' = "kinds" /\ UNCHANGED <<ops, snaps, arrs, bufs, dtos, cur>> /\ UNCHANGED wvars

ChooseSpell ==
    /\ phase = "kinds"
    /\ \E sp \in Spells : init' = [init EXCEPT !.spell = sp]
    /\ phase' = "spell" /\ UNCHANGED <<ops, snaps, arrs, bufs, dtos, cur>> /\ UNCHANGED wvars

InitDecl == [i \in DOMAIN init.kinds |-> BODeclOf(init.kinds[i], init.spell)]
Table(l, wr, b, d, lin) == [decl |-> InitDecl, buf |-> b, lay |-> l, lin |-> lin, dto |-> d, w |-> (wr = "w"), shp |-> "h"]
OrigDto == [names |-> "orig", key |-> NoKey]

ChooseLayout ==
    /\ phase = "spell"
    /\ \E l \in Layouts, wr \in Writes :
         LET A == <<Table(l, wr, 1, 1, 1)>>
             B == <<InitDecl>>                       \* the initial array holds its logical values
             D == <<OrigDto>>
         IN /\ init' = [init EXCEPT !.layout = l, !.wr = wr]
            /\ arrs' = A /\ bufs' = B /\ dtos' = D /\ cur' = 1 /\ snaps' = <<SnapOf(A, B, D, 1, "none")>>
    /\ phase' = "run" /\ UNCHANGED ops /\ UNCHANGED wvars

View(a) == [decl |-> a.decl, phys |-> bufs[a.buf]]
MustSwap(a, fn) == \E i \in DOMAIN init.kinds : BOMustSwap(init.kinds, View(a), fn, i)
\* in-place work on a non-writable array: must be refused when bytes have to change (numpy: "array to be
\* byte-swapped is read-only"); may be refused or carried out (nothing to write) otherwise - the statement is silent
MayRefuse(a, ip)    == ip /\ ~a.w
Refused(a, fn, ip)  == MayRefuse(a, ip) /\ MustSwap(a, fn)
DepthNow == IF Len(sess) = 0 THEN MaxDepth ELSE ProbeDepth
CanStep == phase = "run" /\ Len(ops) < DepthNow
Op(fn, ip, keep) == [fn |-> fn, inplace |-> ip, keep |-> keep]

Conv(fn, ip, keep) ==
    /\ CanStep /\ fn \in Fns
    /\ (InplaceFirst /\ Len(ops) < MaxDepth - 1) => ip
    /\ ~Refused(arrs[cur], fn, ip)
    /\ LET a == arrs[cur]
           v == View(a)
           w == BOConvert(init.kinds, v, fn, keep)
           \* dtype object of the result: the argument's own unless a swapped dtype is assigned
           \* (dtype.newbyteorder() makes a new object every time)
           retype == MustSwap(a, fn) /\ ~keep
           key == <<a.decl, dtos[a.dto].names>>
           hit == {d \in DOMAIN dtos : dtos[d].key = key}
           d  == IF ~retype THEN a.dto ELSE IF CacheDtype /\ hit # {} THEN VSetMin(hit) ELSE Len(dtos) + 1
           D  == IF d = Len(dtos) + 1 THEN Append(dtos, [names |-> dtos[a.dto].names, key |-> key]) ELSE dtos
           A == IF ip THEN [arrs EXCEPT ![cur] = [a EXCEPT !.decl = w.decl, !.dto = d]]
                      ELSE Append(arrs, [decl |-> w.decl, buf |-> Len(bufs) + 1, lay |-> "contig",     \* a copy owns its buffer,
                                         lin |-> a.lin, dto |-> d, w |-> TRUE, shp |-> a.shp])         \* is writable
           B == IF ip THEN [bufs EXCEPT ![a.buf] = w.phys] ELSE Append(bufs, w.phys)
           c == IF ip THEN cur ELSE Len(arrs) + 1
       IN /\ arrs' = A /\ bufs' = B /\ dtos' = D /\ cur' = c
          /\ snaps' = Append(snaps, SnapOf(A, B, D, c, "none"))
          /\ ops' = Append(ops, Op(fn, ip, keep))
          /\ Consult(a.dto, a.decl)
    /\ UNCHANGED <<phase, init, sess>>

ToNative  == CanStep /\ \E ip, k \in BOOLEAN : Conv("native", ip, k)
ToBig     == CanStep /\ \E ip, k \in BOOLEAN : Conv("big", ip, k)
ToLittle  == CanStep /\ \E ip, k \in BOOLEAN : Conv("little", ip, k)
Swap      == CanStep /\ \E ip, k \in BOOLEAN : Conv("swap", ip, k)
RecfileNativeInplace == CanStep /\ Conv("rnative", TRUE, FALSE)

\* the call is refused: nothing changes
Reject ==
    /\ CanStep
    /\ \E fn \in Fns, keep \in BOOLEAN :
         /\ MayRefuse(arrs[cur], TRUE)
         /\ fn = "rnative" => ~keep
         /\ snaps' = Append(snaps, SnapOf(arrs, bufs, dtos, cur, "rejected"))
         /\ ops' = Append(ops, Op(fn, TRUE, keep))
    /\ Consult(arrs[cur].dto, arrs[cur].decl)          \* the dtype is looked at before the swap is refused
    /\ UNCHANGED <<phase, init, arrs, bufs, dtos, cur, sess>>

\* ---- the caller, between conversions -------------------------------------------------
CallerStep(fn, A, B, D, c) ==
    /\ arrs' = A /\ bufs' = B /\ dtos' = D /\ cur' = c
    /\ snaps' = Append(snaps, SnapOf(A, B, D, c, "none"))
    /\ ops' = Append(ops, Op(fn, FALSE, FALSE))
    /\ UNCHANGED <<phase, init, sess>>

Fresh ==        \* another table of the same dtype (its own dtype object, its own buffer)
    /\ CanStep /\ "fresh" \in CallerOps
    /\ Cardinality({j \in DOMAIN arrs : arrs[j].lin = j}) < 3
    /\ LET n == Len(arrs) + 1 IN
       CallerStep("fresh", Append(arrs, Table(init.layout, init.wr, Len(bufs) + 1, Len(dtos) + 1, n)),
                  Append(bufs, InitDecl), Append(dtos, OrigDto), n)
    /\ werr' = NoErr /\ UNCHANGED <<world, fworld>>

MutNames ==     \* x.dtype.names = (...): renames the dtype OBJECT, for every array that holds it
    /\ CanStep /\ "mut_names" \in CallerOps /\ ~init.plain
    /\ dtos[arrs[cur].dto].names = "orig"
    /\ CallerStep("mut_names", arrs, bufs, [dtos EXCEPT ![arrs[cur].dto].names = "ren"], cur)
    \* a memo that holds this object as a key now holds a key whose content is no longer what it was filed under
    /\ world' = BOMemoRename(world, DtoId(arrs[cur].dto), "ren") /\ fworld' = BOMemoRename(fworld, DtoId(arrs[cur].dto), "ren")
    /\ werr' = NoErr

MutShape ==     \* x.shape = (...)
    /\ CanStep /\ "mut_shape" \in CallerOps /\ arrs[cur].shp = "h"
    /\ CallerStep("mut_shape", [arrs EXCEPT ![cur].shp = "h2"], bufs, dtos, cur)
    /\ werr' = NoErr /\ UNCHANGED <<world, fworld>>

MutLock ==      \* x.setflags(write=False)
    /\ CanStep /\ "mut_lock" \in CallerOps /\ arrs[cur].w
    /\ CallerStep("mut_lock", [arrs EXCEPT ![cur].w = FALSE], bufs, dtos, cur)
    /\ werr' = NoErr /\ UNCHANGED <<world, fworld>>

\* ---- the world: the same process goes on to another chain ------------------------------
Touched == \E k \in 1..Len(ops) : ops[k].fn \in {"mut_names", "mut_shape", "mut_lock"} \/ snaps[k + 1].err # "none"
NewChain ==     \* the arrays of the finished chain are dropped; what the library keeps at module level stays
    /\ phase = "run" /\ Len(ops) = DepthNow /\ NChains < MaxChains
    /\ Fills # {} => Touched       \* (sessions with fillers: only after chains in which the caller stepped in or a call was refused)
    /\ sess' = Append(sess, [kind |-> "chain", init |-> init, ops |-> ops, k |-> 0])
    /\ phase' = "start" /\ init' = NoInit /\ ops' = <<>> /\ snaps' = <<>>
    /\ arrs' = <<>> /\ bufs' = <<>> /\ dtos' = <<>> /\ cur' = 0
    /\ fworld' = <<>> /\ werr' = NoErr /\ UNCHANGED world

\* k one-step chains on k tables of k new, distinct dtypes (nobody touches them afterwards)
RECURSIVE FillMemo(_, _, _)
FillMemo(M, j, k) ==
    IF j > k THEN [memo |-> M, raised |-> FALSE]
    ELSE LET r == BOMemoLook(M, <<ChainNo, j>>, Content(<<>>, <<>>, "orig", 1000 * ChainNo + j), MemoKeep)
             t == FillMemo(r.memo, j + 1, k)
         IN [memo |-> t.memo, raised |-> r.raised \/ t.raised]
Fill ==
    /\ phase = "start" /\ Len(sess) >= 1 /\ sess[Len(sess)].kind = "chain"
    /\ \E k \in Fills :
         /\ sess' = Append(sess, [kind |-> "fill", init |-> NoInit, ops |-> <<>>, k |-> k])
         /\ IF Memo THEN LET r == FillMemo(world, 1, k) IN
                          world' = r.memo /\ werr' = [cur |-> r.raised, fresh |-> FALSE]   \* (a fresh process: k distinct keys, none renamed)
            ELSE world' = world /\ werr' = NoErr
    /\ UNCHANGED <<phase, init, ops, snaps, arrs, bufs, dtos, cur, fworld>>

Next == ChooseKinds \/ ChooseSpell \/ ChooseLayout \/ ToNative \/ ToBig \/ ToLittle \/ Swap \/ RecfileNativeInplace
        \/ Reject \/ Fresh \/ MutNames \/ MutShape \/ MutLock \/ NewChain \/ Fill
Spec == Init /\ [][Next]_vars

\* ---- theorems about the specification, checked on every behaviour ---------------------
N == Len(ops)
Cur(k) == snaps[k].arrs[snaps[k].res]           \* current array in snapshot k (1 = initial)
MustSwapIn(x, fn) == \E i \in DOMAIN init.kinds : BOMustSwap(init.kinds, x, fn, i)     \* x: an observed array
IsConv(k) == ops[k].fn \in BOFns
ConvOK(k) == IsConv(k) /\ snaps[k + 1].err = "none"       \* a conversion that happened

\* the constructive model is accepted by the clause-wise acceptor used on the real code
SpecAccepted == N >= 1 =>
    /\ BOAnyStepFailing(init.kinds, init.spell, snaps[N], ops[N], snaps[N + 1]) = {}
    /\ N >= 2 => BOPairFailing(init.kinds, snaps[N - 1], ops[N - 1], snaps[N], ops[N], snaps[N + 1]) = {}

\* flags numpy shows for a layout (any witness will do: the acceptor must admit the layout's own flags)
LayFlags(l, plain, wr) ==
    [cc |-> l \in {"contig", "slice", "zerod"} \/ (l = "recview" /\ ~plain), fc |-> l \in {"fortran", "zerod"},
     owns |-> l \in {"contig", "fortran"} /\ wr \in {"w", "ro"}, neg |-> l = "reversed",
     nd |-> IF l = "zerod" THEN 0 ELSE IF l = "fortran" THEN 2 ELSE 1]
InitAccepted == phase = "run" =>
    BOInitFailing(init.kinds, init.spell, init.layout, init.plain, init.wr,
                  ("lay" :> LayFlags(init.layout, init.plain, init.wr)) @@ snaps[1]) = {}

\* values: with the dtype updated every element keeps its (possibly already wrong) value;
\* an array that held its logical values keeps them through any history of such steps
ValuePreservedThm == N >= 1 /\ ConvOK(N) /\ ~ops[N].keep =>
    \A i \in BOMultis(init.kinds) :
        BOValueCorrect(init.kinds, Cur(N + 1), i) = BOValueCorrect(init.kinds, Cur(N), i)
ValueCorrectThm == (phase = "run" /\ \A k \in 1..N : ~ops[k].keep) =>
    \A j \in DOMAIN snaps[N + 1].arrs : \A i \in BOMultis(init.kinds) : BOValueCorrect(init.kinds, snaps[N + 1].arrs[j], i)

DeclaredThm == N >= 1 /\ ConvOK(N) /\ ~ops[N].keep /\ ops[N].fn # "swap" =>
    \A i \in BOMultis(init.kinds) : Cur(N + 1).decl[i] = BORequested(ops[N].fn, "=")

IdempotentThm == (N >= 2 /\ ConvOK(N) /\ ConvOK(N - 1) /\ ops[N].fn # "swap" /\ BOSameFn(ops[N].fn, ops[N - 1].fn)
                  /\ ~ops[N].keep /\ ~ops[N - 1].keep) =>
    /\ Cur(N + 1).decl = Cur(N).decl /\ Cur(N + 1).phys = Cur(N).phys

SwapTwiceThm == (N >= 2 /\ ConvOK(N) /\ ConvOK(N - 1) /\ ops[N].fn = "swap" /\ ops[N - 1].fn = "swap") =>
    /\ Cur(N + 1).phys = Cur(N - 1).phys
    /\ (ops[N].keep = ops[N - 1].keep) => Cur(N + 1).decl = Cur(N - 1).decl

AliasThm == N >= 1 /\ ConvOK(N) =>
    IF ops[N].inplace THEN snaps[N + 1].res = snaps[N].res /\ Len(snaps[N + 1].arrs) = Len(snaps[N].arrs)
    ELSE /\ snaps[N + 1].res = Len(snaps[N].arrs) + 1
         /\ Cur(N + 1).grp = snaps[N + 1].res
         /\ \A j \in 1..Len(snaps[N].arrs) : snaps[N + 1].arrs[j] = snaps[N].arrs[j]

\* a refused call is a stutter step, and calls are refused only for in-place work on non-writable arrays
RejectThm == N >= 1 /\ IsConv(N) /\ snaps[N + 1].err # "none" =>
    /\ snaps[N + 1].arrs = snaps[N].arrs /\ snaps[N + 1].res = snaps[N].res /\ snaps[N + 1].rest = snaps[N].rest
    /\ ops[N].inplace /\ ~Cur(N).w

\* tables built separately never come to share a dtype object, so what the caller does to one array's
\* metadata never shows on the results obtained from another table; and a conversion returns the field
\* names and shape of its own argument
LineageThm == phase = "run" =>
    \A i, j \in DOMAIN arrs : arrs[i].lin # arrs[j].lin => arrs[i].dto # arrs[j].dto /\ arrs[i].buf # arrs[j].buf
StructureThm == N >= 1 /\ ConvOK(N) => Cur(N + 1).sig = Cur(N).sig /\ Cur(N + 1).shp = Cur(N).shp

UniformInv == phase = "run" => \A j \in DOMAIN snaps[N + 1].arrs : BOUniform(init.kinds, snaps[N + 1].arrs[j])

UntouchedThm == phase = "run" =>
    \A j \in DOMAIN snaps[N + 1].arrs : \A i \in DOMAIN init.kinds :
        ~BOIsMulti(init.kinds, i) => snaps[N + 1].arrs[j].phys[i] = "|" /\ snaps[N + 1].arrs[j].decl[i] = "|"

\* the frame: nothing outside the arrays is ever written
RestThm == phase = "run" => \A k \in 1..(N + 1) : snaps[k].rest = "intact"

\* the code's mechanism (order detection from one decisive field, ndarray.byteswap, dtype assignment)
\* refines the property: same result, same object identity, same dtype left on the argument, same refusals
MechRefines == N >= 1 /\ IsConv(N) =>
    LET pre == snaps[N]
        lay == arrs[pre.res].lay          \* layouts never change once an object exists
        m == BOMechStep(init.kinds, BOLayContiguous(lay, init.plain), Cur(N).w, Cur(N), ops[N],
                        FixedDetect, NestedDetect, UnicodeDetect, RetypeAlways, SwapFirst)
        refused == snaps[N + 1].err # "none"
        silent == MayRefuse(Cur(N), ops[N].inplace) /\ ~MustSwapIn(Cur(N), ops[N].fn)   \* both outcomes allowed: the code's is one
    IN /\ silent \/ m.rejected = refused
       /\ m.rejected = refused =>
            /\ m.decl = Cur(N + 1).decl /\ m.phys = Cur(N + 1).phys
            /\ m.same = (snaps[N + 1].res = pre.res)
            /\ m.argdecl = snaps[N + 1].arrs[pre.res].decl

\* ---- the world -----------------------------------------------------------------------------
\* what a chain may do and return never reads the session: the property-level state of a chain that runs after
\* others is a state the same chain has in a fresh process (same initial array, every snapshot a function of the
\* chain's own steps: Conv / Reject / the caller steps read  init, arrs, bufs, dtos, cur  only, and NewChain resets them)
SessionFreshThm == (phase = "run" /\ N = 0) =>
    /\ Len(arrs) = 1 /\ Len(bufs) = 1 /\ Len(dtos) = 1 /\ cur = 1
    /\ snaps = <<SnapOf(<<Table(init.layout, init.wr, 1, 1, 1)>>, <<InitDecl>>, <<OrigDto>>, 1, "none")>>
\* the mechanism's module-level state never decides a call: a call raises on its account in the session iff it
\* does in a fresh process - and (MemoSilent) it never does
SessionThm == werr.cur = werr.fresh
MemoSilent == ~werr.cur /\ ~werr.fresh

\* ---- export ------------------------------------------------------------------------------
Export == (DoExport /\ phase = "run" /\ N = MaxDepth) =>
    PrintT(<<"CASE", ToJson([init |-> init, ops |-> ops,
                             exp |-> [k \in 1..N |-> [decl |-> Cur(k + 1).decl, phys |-> Cur(k + 1).phys, err |-> snaps[k + 1].err,
                                                      res |-> snaps[k + 1].res, grp |-> Cur(k + 1).grp]]])>>)
\* sessions  <first chain> ; Fill(k) ; <probe chain>
ExportSession == (DoExport /\ phase = "run" /\ NChains = MaxChains /\ N = DepthNow) =>
    PrintT(<<"CASE", ToJson([sess |-> sess, init |-> init, ops |-> ops,
                             refused |-> [k \in 1..N |-> snaps[k + 1].err # "none"]])>>)
=============================================================================
