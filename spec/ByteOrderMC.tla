------------------------------- MODULE ByteOrderMC -------------------------------
(* Exhaustive small-scope model of byte-order conversion chains.                    *)
(*  - ChooseKinds / ChooseSpell / ChooseLayout enumerate every abstract array of the *)
(*    bounded space (plain or structured, every sequence of field kinds incl. nested *)
(*    records, every order spelling, every memory layout);                           *)
(*  - ToNative / ToBig / ToLittle / Swap (x inplace x keep_dtype) and                *)
(*    RecfileNativeInplace extend a chain: each conversion is applied to the result  *)
(*    of the previous one, so buffers may or may not be shared (aliasing);           *)
(*  - every behaviour of length MaxDepth is exported and replayed on real arrays;    *)
(*  - the theorems below are checked on every behaviour, and MechRefines checks the  *)
(*    implementation-shaped step (swap decision, ndarray.byteswap, dtype assignment:  *)
(*    result, object identity, dtype left on the argument) against the property-level *)
(*    conversion, for every layout.                                                   *)
EXTENDS ByteOrder, Json

CONSTANTS MinFields, MaxFields,   \* structured arrays of MinFields..MaxFields fields
          WithPlain,              \* TRUE: plain arrays too (when MinFields = 1)
          Kinds,                  \* field kinds used (subset of BOKinds)
          Need,                   \* kinds that must occur among the fields (subset of Kinds; {} = no restriction)
          Spells,                 \* order characters the initial dtype is spelled with
          Layouts,                \* memory layouts of the initial array (subset of BOLayouts)
          InplaceFirst,           \* TRUE: only chains whose steps before the last are in place (the
                                  \*       current array stays the initial window; thins deep runs)
          MaxDepth,               \* chain length
          FixedDetect,            \* mechanism variants, see ByteOrder.tla
          NestedDetect,
          RetypeAlways,
          DoExport

VARIABLES phase, init, ops, snaps, arrs, bufs, cur
vars == <<phase, init, ops, snaps, arrs, bufs, cur>>

\* arrs : Seq([decl : Seq(order), buf : index into bufs, lay : layout]) - every array object created so far
\* bufs : Seq(Seq(order))  - physical order of each field in each buffer
\* cur  : the current array (argument of the next conversion)
\* snaps: the observable state after each step (snaps[1] = initial), ops: the steps taken

NoInit == [plain |-> FALSE, kinds |-> <<>>, spell |-> "=", layout |-> "contig"]

Init == /\ phase = "start" /\ init = NoInit /\ ops = <<>> /\ snaps = <<>>
        /\ arrs = <<>> /\ bufs = <<>> /\ cur = 0

SnapOf(A, B, c) ==
    [res |-> c, err |-> "none", rest |-> "intact",     \* no conversion ever writes outside its array
     arrs |-> [j \in 1..Len(A) |->
                 [decl |-> A[j].decl, phys |-> B[A[j].buf], sig |-> "s", shp |-> "h",
                  grp |-> VSetMin({i \in 1..Len(A) : A[i].buf = A[j].buf}),
                  hash |-> B[A[j].buf]]]]          \* raw bytes are a function of the physical orders

ChooseKinds ==
    /\ phase = "start"
    /\ \E n \in MinFields..MaxFields : \E ks \in [1..n -> Kinds] :
       \E pl \in (IF n = 1 /\ WithPlain /\ ks[1] # "N" THEN BOOLEAN ELSE {FALSE}) :
          /\ Need \subseteq {ks[i] : i \in 1..n}
          /\ init' = [plain |-> pl, kinds |-> ks, spell |-> "=", layout |-> "contig"]
    /\ phase' = "kinds" /\ UNCHANGED <<ops, snaps, arrs, bufs, cur>>

ChooseSpell ==
    /\ phase = "kinds"
    /\ \E sp \in Spells : init' = [init EXCEPT !.spell = sp]
    /\ phase' = "spell" /\ UNCHANGED <<ops, snaps, arrs, bufs, cur>>

ChooseLayout ==
    /\ phase = "spell"
    /\ \E l \in Layouts :
         LET d == [i \in DOMAIN init.kinds |-> BODeclOf(init.kinds[i], init.spell)]
             A == <<[decl |-> d, buf |-> 1, lay |-> l]>>
             B == <<d>>                              \* the initial array holds its logical values
         IN /\ init' = [init EXCEPT !.layout = l]
            /\ arrs' = A /\ bufs' = B /\ cur' = 1 /\ snaps' = <<SnapOf(A, B, 1)>>
    /\ phase' = "run" /\ UNCHANGED ops

Conv(fn, ip, keep) ==
    /\ phase = "run" /\ Len(ops) < MaxDepth
    /\ (InplaceFirst /\ Len(ops) < MaxDepth - 1) => ip
    /\ LET a == arrs[cur]
           v == [decl |-> a.decl, phys |-> bufs[a.buf]]
           w == BOConvert(init.kinds, v, fn, keep)
           A == IF ip THEN [arrs EXCEPT ![cur] = [decl |-> w.decl, buf |-> a.buf, lay |-> a.lay]]
                      ELSE Append(arrs, [decl |-> w.decl, buf |-> Len(bufs) + 1, lay |-> "contig"])   \* a copy owns its buffer
           B == IF ip THEN [bufs EXCEPT ![a.buf] = w.phys] ELSE Append(bufs, w.phys)
           c == IF ip THEN cur ELSE Len(arrs) + 1
       IN /\ arrs' = A /\ bufs' = B /\ cur' = c
          /\ snaps' = Append(snaps, SnapOf(A, B, c))
          /\ ops' = Append(ops, [fn |-> fn, inplace |-> ip, keep |-> keep])
    /\ UNCHANGED <<phase, init>>

ToNative  == phase = "run" /\ \E ip, k \in BOOLEAN : Conv("native", ip, k)
ToBig     == phase = "run" /\ \E ip, k \in BOOLEAN : Conv("big", ip, k)
ToLittle  == phase = "run" /\ \E ip, k \in BOOLEAN : Conv("little", ip, k)
Swap      == phase = "run" /\ \E ip, k \in BOOLEAN : Conv("swap", ip, k)
RecfileNativeInplace == phase = "run" /\ Conv("rnative", TRUE, FALSE)

Next == ChooseKinds \/ ChooseSpell \/ ChooseLayout \/ ToNative \/ ToBig \/ ToLittle \/ Swap \/ RecfileNativeInplace
Spec == Init /\ [][Next]_vars

\* ---- theorems about the specification, checked on every behaviour ---------------------
N == Len(ops)
Cur(k) == snaps[k].arrs[snaps[k].res]           \* current array in snapshot k (1 = initial)

\* the constructive model is accepted by the clause-wise acceptor used on the real code
SpecAccepted == N >= 1 =>
    /\ BOStepFailing(init.kinds, snaps[N], ops[N], snaps[N + 1]) = {}
    /\ N >= 2 => BOPairFailing(init.kinds, snaps[N - 1], ops[N - 1], snaps[N], ops[N], snaps[N + 1]) = {}

\* flags numpy shows for a layout (any witness will do: the acceptor must admit the layout's own flags)
LayFlags(l, plain) == [cc |-> l \in {"contig", "slice", "zerod"} \/ (l = "recview" /\ ~plain), fc |-> l \in {"fortran", "zerod"},
                       owns |-> l \in {"contig", "fortran"}, neg |-> l = "reversed",
                       nd |-> IF l = "zerod" THEN 0 ELSE IF l = "fortran" THEN 2 ELSE 1]
InitAccepted == phase = "run" =>
    BOInitFailing(init.kinds, init.spell, init.layout, init.plain, ("lay" :> LayFlags(init.layout, init.plain)) @@ snaps[1]) = {}

\* values: with the dtype updated every element keeps its (possibly already wrong) value;
\* an array that held its logical values keeps them through any chain of such steps
ValuePreservedThm == N >= 1 /\ ~ops[N].keep =>
    \A i \in BOMultis(init.kinds) :
        BOValueCorrect(init.kinds, Cur(N + 1), i) = BOValueCorrect(init.kinds, Cur(N), i)
ValueCorrectThm == (phase = "run" /\ \A k \in 1..N : ~ops[k].keep) =>
    \A i \in BOMultis(init.kinds) : BOValueCorrect(init.kinds, Cur(N + 1), i)

DeclaredThm == N >= 1 /\ ~ops[N].keep /\ ops[N].fn # "swap" =>
    \A i \in BOMultis(init.kinds) : Cur(N + 1).decl[i] = BORequested(ops[N].fn, "=")

IdempotentThm == (N >= 2 /\ ops[N].fn # "swap" /\ BOSameFn(ops[N].fn, ops[N - 1].fn) /\ ~ops[N].keep /\ ~ops[N - 1].keep) =>
    /\ Cur(N + 1).decl = Cur(N).decl /\ Cur(N + 1).phys = Cur(N).phys

SwapTwiceThm == (N >= 2 /\ ops[N].fn = "swap" /\ ops[N - 1].fn = "swap") =>
    /\ Cur(N + 1).phys = Cur(N - 1).phys
    /\ (ops[N].keep = ops[N - 1].keep) => Cur(N + 1).decl = Cur(N - 1).decl

AliasThm == N >= 1 =>
    IF ops[N].inplace THEN snaps[N + 1].res = snaps[N].res /\ Len(snaps[N + 1].arrs) = Len(snaps[N].arrs)
    ELSE /\ snaps[N + 1].res = Len(snaps[N].arrs) + 1
         /\ Cur(N + 1).grp = snaps[N + 1].res
         /\ \A j \in 1..Len(snaps[N].arrs) : snaps[N + 1].arrs[j] = snaps[N].arrs[j]

UniformInv == phase = "run" => \A j \in DOMAIN snaps[N + 1].arrs : BOUniform(init.kinds, snaps[N + 1].arrs[j])

UntouchedThm == phase = "run" =>
    \A j \in DOMAIN snaps[N + 1].arrs : \A i \in DOMAIN init.kinds :
        ~BOIsMulti(init.kinds, i) => snaps[N + 1].arrs[j].phys[i] = "|" /\ snaps[N + 1].arrs[j].decl[i] = "|"

\* the frame: nothing outside the arrays is ever written
RestThm == phase = "run" => \A k \in 1..(N + 1) : snaps[k].rest = "intact"

\* the code's mechanism (order detection from one decisive field, ndarray.byteswap, dtype assignment)
\* refines the property: same result, same object identity, same dtype left on the argument
MechRefines == N >= 1 =>
    LET pre == snaps[N]
        lay == arrs[pre.res].lay          \* layouts never change once an object exists
        m == BOMechStep(init.kinds, BOLayContiguous(lay, init.plain), Cur(N), ops[N], FixedDetect, NestedDetect, RetypeAlways)
    IN /\ m.decl = Cur(N + 1).decl /\ m.phys = Cur(N + 1).phys
       /\ m.same = (snaps[N + 1].res = pre.res)
       /\ m.argdecl = snaps[N + 1].arrs[pre.res].decl

\* ---- export ------------------------------------------------------------------------------
Export == (DoExport /\ phase = "run" /\ N = MaxDepth) =>
    PrintT(<<"CASE", ToJson([init |-> init, ops |-> ops,
                             exp |-> [k \in 1..N |-> [decl |-> Cur(k + 1).decl, phys |-> Cur(k + 1).phys,
                                                      res |-> snaps[k + 1].res, grp |-> Cur(k + 1).grp]]])>>)
=============================================================================
