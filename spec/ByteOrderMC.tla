------------------------------- MODULE ByteOrderMC -------------------------------
(* Exhaustive small-scope model of byte-order conversion chains.                    *)
(*  - ChooseKinds / ChooseSpell enumerate every abstract array of the bounded space  *)
(*    (plain or structured, every sequence of field kinds, every order spelling);    *)
(*  - ToNative / ToBig / ToLittle / Swap (x inplace x keep_dtype) and                *)
(*    RecfileNativeInplace extend a chain: each conversion is applied to the result  *)
(*    of the previous one, so buffers may or may not be shared (aliasing);           *)
(*  - every behaviour of length MaxDepth is exported and replayed on real arrays;    *)
(*  - the theorems below are checked on every behaviour, and MechRefines checks the  *)
(*    implementation-shaped swap decision against the property-level conversion.     *)
EXTENDS ByteOrder, Json

CONSTANTS MinFields, MaxFields,   \* structured arrays of MinFields..MaxFields fields
          WithPlain,              \* TRUE: plain arrays too (when MinFields = 1)
          Spells,                 \* order characters the initial dtype is spelled with
          MaxDepth,               \* chain length
          FixedDetect,            \* mechanism variant, see ByteOrder.tla
          DoExport

VARIABLES phase, init, ops, snaps, arrs, bufs, cur
vars == <<phase, init, ops, snaps, arrs, bufs, cur>>

\* arrs : Seq([decl : Seq(order), buf : index into bufs]) - every array object created so far
\* bufs : Seq(Seq(order))  - physical order of each field in each buffer
\* cur  : the current array (argument of the next conversion)
\* snaps: the observable state after each step (snaps[1] = initial), ops: the steps taken

NoInit == [plain |-> FALSE, kinds |-> <<>>, spell |-> "="]

Init == /\ phase = "start" /\ init = NoInit /\ ops = <<>> /\ snaps = <<>>
        /\ arrs = <<>> /\ bufs = <<>> /\ cur = 0

SnapOf(A, B, c) ==
    [res |-> c, err |-> "none",
     arrs |-> [j \in 1..Len(A) |->
                 [decl |-> A[j].decl, phys |-> B[A[j].buf], sig |-> "s", shp |-> "h",
                  grp |-> VSetMin({i \in 1..Len(A) : A[i].buf = A[j].buf}),
                  hash |-> B[A[j].buf]]]]          \* raw bytes are a function of the physical orders

ChooseKinds ==
    /\ phase = "start"
    /\ \E n \in MinFields..MaxFields : \E ks \in [1..n -> BOKinds] :
       \E pl \in (IF n = 1 /\ WithPlain THEN BOOLEAN ELSE {FALSE}) :
          init' = [plain |-> pl, kinds |-> ks, spell |-> "="]
    /\ phase' = "kinds" /\ UNCHANGED <<ops, snaps, arrs, bufs, cur>>

ChooseSpell ==
    /\ phase = "kinds"
    /\ \E sp \in Spells :
         LET d == [i \in DOMAIN init.kinds |-> BODeclOf(init.kinds[i], sp)]
             A == <<[decl |-> d, buf |-> 1]>>
             B == <<d>>                              \* the initial array holds its logical values
         IN /\ init' = [init EXCEPT !.spell = sp]
            /\ arrs' = A /\ bufs' = B /\ cur' = 1 /\ snaps' = <<SnapOf(A, B, 1)>>
    /\ phase' = "run" /\ UNCHANGED ops

Conv(fn, ip, keep) ==
    /\ phase = "run" /\ Len(ops) < MaxDepth
    /\ LET a == arrs[cur]
           v == [decl |-> a.decl, phys |-> bufs[a.buf]]
           w == BOConvert(init.kinds, v, fn, keep)
           A == IF ip THEN [arrs EXCEPT ![cur] = [decl |-> w.decl, buf |-> a.buf]]
                      ELSE Append(arrs, [decl |-> w.decl, buf |-> Len(bufs) + 1])
           B == IF ip THEN [bufs EXCEPT ![a.buf] = w.phys] ELSE Append(bufs, w.phys)
           c == IF ip THEN cur ELSE Len(arrs) + 1
       IN /\ arrs' = A /\ bufs' = B /\ cur' = c
          /\ snaps' = Append(snaps, SnapOf(A, B, c))
          /\ ops' = Append(ops, [fn |-> fn, inplace |-> ip, keep |-> keep])
    /\ UNCHANGED <<phase, init>>

ToNative  == phase = "run" /\ \E ip, k \in BOOLEAN : Conv("native", ip, k)
ToBig     == phase = "run" /\ \E ip, k \in BOOLEAN : Conv("big", ip, k)
ToLittle  == phase = "run" /\ \E ip, k \in BOOLEAN : Conv("little", ip, k)
Swap      == phase = "run" /\ \E ip, k \in BOOLEAN : Conv("swap", ip, k)
RecfileNativeInplace == phase = "run" /\ Conv("rnative", TRUE, FALSE)

Next == ChooseKinds \/ ChooseSpell \/ ToNative \/ ToBig \/ ToLittle \/ Swap \/ RecfileNativeInplace
Spec == Init /\ [][Next]_vars

\* ---- theorems about the specification, checked on every behaviour ---------------------
N == Len(ops)
Cur(k) == snaps[k].arrs[snaps[k].res]           \* current array in snapshot k (1 = initial)

\* the constructive model is accepted by the clause-wise acceptor used on the real code
SpecAccepted == N >= 1 =>
    /\ BOStepFailing(init.kinds, snaps[N], ops[N], snaps[N + 1]) = {}
    /\ N >= 2 => BOPairFailing(init.kinds, snaps[N - 1], ops[N - 1], snaps[N], ops[N], snaps[N + 1]) = {}

InitAccepted == phase = "run" => BOInitFailing(init.kinds, init.spell, snaps[1]) = {}

\* values: with the dtype updated every element keeps its (possibly already wrong) value;
\* an array that held its logical values keeps them through any chain of such steps
ValuePreservedThm == N >= 1 /\ ~ops[N].keep =>
    \A i \in BOMultis(init.kinds) :
        BOValueCorrect(init.kinds, Cur(N + 1), i) = BOValueCorrect(init.kinds, Cur(N), i)
ValueCorrectThm == (phase = "run" /\ \A k \in 1..N : ~ops[k].keep) =>
    \A i \in BOMultis(init.kinds) : BOValueCorrect(init.kinds, Cur(N + 1), i)

DeclaredThm == N >= 1 /\ ~ops[N].keep /\ ops[N].fn # "swap" =>
    \A i \in BOMultis(init.kinds) : Cur(N + 1).decl[i] = BORequested(ops[N].fn, "=")

IdempotentThm == (N >= 2 /\ ops[N].fn # "swap" /\ BOSameFn(ops[N].fn, ops[N - 1].fn) /\ ~ops[N].keep /\ ~ops[N - 1].keep) =>
    /\ Cur(N + 1).decl = Cur(N).decl /\ Cur(N + 1).phys = Cur(N).phys

SwapTwiceThm == (N >= 2 /\ ops[N].fn = "swap" /\ ops[N - 1].fn = "swap") =>
    /\ Cur(N + 1).phys = Cur(N - 1).phys
    /\ (ops[N].keep = ops[N - 1].keep) => Cur(N + 1).decl = Cur(N - 1).decl

AliasThm == N >= 1 =>
    IF ops[N].inplace THEN snaps[N + 1].res = snaps[N].res /\ Len(snaps[N + 1].arrs) = Len(snaps[N].arrs)
    ELSE /\ snaps[N + 1].res = Len(snaps[N].arrs) + 1
         /\ Cur(N + 1).grp = snaps[N + 1].res
         /\ \A j \in 1..Len(snaps[N].arrs) : snaps[N + 1].arrs[j] = snaps[N].arrs[j]

UniformInv == phase = "run" => \A j \in DOMAIN snaps[N + 1].arrs : BOUniform(init.kinds, snaps[N + 1].arrs[j])

UntouchedThm == phase = "run" =>
    \A j \in DOMAIN snaps[N + 1].arrs : \A i \in DOMAIN init.kinds :
        init.kinds[i] # "M" => snaps[N + 1].arrs[j].phys[i] = "|" /\ snaps[N + 1].arrs[j].decl[i] = "|"

\* the code's swap decision (order detection from one decisive field) refines the property
MechRefines == N >= 1 =>
    LET m == BOMechConvert(init.kinds, Cur(N), ops[N].fn, ops[N].keep, FixedDetect)
    IN m.decl = Cur(N + 1).decl /\ m.phys = Cur(N + 1).phys

\* ---- export ------------------------------------------------------------------------------
Export == (DoExport /\ phase = "run" /\ N = MaxDepth) =>
    PrintT(<<"CASE", ToJson([init |-> init, ops |-> ops,
                             exp |-> [k \in 1..N |-> [decl |-> Cur(k + 1).decl, phys |-> Cur(k + 1).phys,
                                                      res |-> snaps[k + 1].res, grp |-> Cur(k + 1).grp]]])>>)
=============================================================================
