---- MODULE ByteOrderMC_TTrace_1790824031 ----
EXTENDS Sequences, TLCExt, Toolbox, ByteOrderMC, Naturals, TLC

_expression ==
    LET ByteOrderMC_TEExpression == INSTANCE ByteOrderMC_TEExpression
    IN ByteOrderMC_TEExpression!expression
----

_trace ==
    LET ByteOrderMC_TETrace == INSTANCE ByteOrderMC_TETrace
    IN ByteOrderMC_TETrace!trace
----

_inv ==
    ~(
        TLCGet("level") = Len(_TETrace)
        /\
        phase = ("run")
        /\
        init = ([plain |-> FALSE, kinds |-> <<"S">>, spell |-> ">", layout |-> "contig", wr |-> "ro"])
        /\
        cur = (1)
        /\
        snaps = (<<[arrs |-> <<[w |-> FALSE, decl |-> <<"|">>, phys |-> <<"|">>, sig |-> "orig", shp |-> "h", grp |-> 1, hash |-> <<"|">>, lin |-> 1]>>, res |-> 1, err |-> "none", rest |-> "intact"], [arrs |-> <<[w |-> FALSE, decl |-> <<"|">>, phys |-> <<"|">>, sig |-> "orig", shp |-> "h", grp |-> 1, hash |-> <<"|">>, lin |-> 1]>>, res |-> 1, err |-> "none", rest |-> "intact"]>>)
        /\
        ops = (<<[fn |-> "native", keep |-> FALSE, inplace |-> TRUE]>>)
        /\
        dtos = (<<[names |-> "orig", key |-> <<>>]>>)
        /\
        bufs = (<<<<"|">>>>)
        /\
        arrs = (<<[w |-> FALSE, decl |-> <<"|">>, buf |-> 1, dto |-> 1, shp |-> "h", lin |-> 1, lay |-> "contig"]>>)
    )
----

_init ==
    /\ phase = _TETrace[1].phase
    /\ init = _TETrace[1].init
    /\ cur = _TETrace[1].cur
    /\ snaps = _TETrace[1].snaps
    /\ arrs = _TETrace[1].arrs
    /\ dtos = _TETrace[1].dtos
    /\ ops = _TETrace[1].ops
    /\ bufs = _TETrace[1].bufs
----

_next ==
    /\ \E i,j \in DOMAIN _TETrace:
        /\ \/ /\ j = i + 1
              /\ i = TLCGet("level")
        /\ phase  = _TETrace[i].phase
        /\ phase' = _TETrace[j].phase
        /\ init  = _TETrace[i].init
        /\ init' = _TETrace[j].init
        /\ cur  = _TETrace[i].cur
        /\ cur' = _TETrace[j].cur
        /\ snaps  = _TETrace[i].snaps
        /\ snaps' = _TETrace[j].snaps
        /\ arrs  = _TETrace[i].arrs
        /\ arrs' = _TETrace[j].arrs
        /\ dtos  = _TETrace[i].dtos
        /\ dtos' = _TETrace[j].dtos
        /\ ops  = _TETrace[i].ops
        /\ ops' = _TETrace[j].ops
        /\ bufs  = _TETrace[i].bufs
        /\ bufs' = _TETrace[j].bufs

\* Uncomment the ASSUME below to write the states of the error trace
\* to the given file in Json format. Note that you can pass any tuple
\* to `JsonSerialize`. For example, a sub-sequence of _TETrace.
    \* ASSUME
    \*     LET J == INSTANCE Json
    \*         IN J!JsonSerialize("ByteOrderMC_TTrace_1790824031.json", _TETrace)

=============================================================================

 Note that you can extract this module `ByteOrderMC_TEExpression`
  to a dedicated file to reuse `expression` (the module in the 
  dedicated `ByteOrderMC_TEExpression.tla` file takes precedence 
  over the module `ByteOrderMC_TEExpression` below).

---- MODULE ByteOrderMC_TEExpression ----
EXTENDS Sequences, TLCExt, Toolbox, ByteOrderMC, Naturals, TLC

expression == 
    [
        \* To hide variables of the `ByteOrderMC` spec from the error trace,
        \* remove the variables below.  The trace will be written in the order
        \* of the fields of this record.
        phase |-> phase
        ,init |-> init
        ,cur |-> cur
        ,snaps |-> snaps
        ,arrs |-> arrs
        ,dtos |-> dtos
        ,ops |-> ops
        ,bufs |-> bufs
        
        \* Put additional constant-, state-, and action-level expressions here:
        \* ,_stateNumber |-> _TEPosition
        \* ,_phaseUnchanged |-> phase = phase'
        
        \* Format the `phase` variable as Json value.
        \* ,_phaseJson |->
        \*     LET J == INSTANCE Json
        \*     IN J!ToJson(phase)
        
        \* Lastly, you may build expressions over arbitrary sets of states by
        \* leveraging the _TETrace operator.  For example, this is how to
        \* count the number of times a spec variable changed up to the current
        \* state in the trace.
        \* ,_phaseModCount |->
        \*     LET F[s \in DOMAIN _TETrace] ==
        \*         IF s = 1 THEN 0
        \*         ELSE IF _TETrace[s].phase # _TETrace[s-1].phase
        \*             THEN 1 + F[s-1] ELSE F[s-1]
        \*     IN F[_TEPosition - 1]
    ]

=============================================================================



Parsing and semantic processing can take forever if the trace below is long.
 In this case, it is advised to uncomment the module below to deserialize the
 trace from a generated binary file.

\*
\*---- MODULE ByteOrderMC_TETrace ----
\*EXTENDS IOUtils, ByteOrderMC, TLC
\*
\*trace == IODeserialize("ByteOrderMC_TTrace_1790824031.bin", TRUE)
\*
\*=============================================================================
\*

---- MODULE ByteOrderMC_TETrace ----
EXTENDS ByteOrderMC, TLC

trace == 
    <<
    ([phase |-> "start",init |-> [plain |-> FALSE, kinds |-> <<>>, spell |-> "=", layout |-> "contig", wr |-> "w"],cur |-> 0,snaps |-> <<>>,ops |-> <<>>,dtos |-> <<>>,bufs |-> <<>>,arrs |-> <<>>]),
    ([phase |-> "kinds",init |-> [plain |-> FALSE, kinds |-> <<"S">>, spell |-> "=", layout |-> "contig", wr |-> "w"],cur |-> 0,snaps |-> <<>>,ops |-> <<>>,dtos |-> <<>>,bufs |-> <<>>,arrs |-> <<>>]),
    ([phase |-> "spell",init |-> [plain |-> FALSE, kinds |-> <<"S">>, spell |-> ">", layout |-> "contig", wr |-> "w"],cur |-> 0,snaps |-> <<>>,ops |-> <<>>,dtos |-> <<>>,bufs |-> <<>>,arrs |-> <<>>]),
    ([phase |-> "run",init |-> [plain |-> FALSE, kinds |-> <<"S">>, spell |-> ">", layout |-> "contig", wr |-> "ro"],cur |-> 1,snaps |-> <<[arrs |-> <<[w |-> FALSE, decl |-> <<"|">>, phys |-> <<"|">>, sig |-> "orig", shp |-> "h", grp |-> 1, hash |-> <<"|">>, lin |-> 1]>>, res |-> 1, err |-> "none", rest |-> "intact"]>>,ops |-> <<>>,dtos |-> <<[names |-> "orig", key |-> <<>>]>>,bufs |-> <<<<"|">>>>,arrs |-> <<[w |-> FALSE, decl |-> <<"|">>, buf |-> 1, dto |-> 1, shp |-> "h", lin |-> 1, lay |-> "contig"]>>]),
    ([phase |-> "run",init |-> [plain |-> FALSE, kinds |-> <<"S">>, spell |-> ">", layout |-> "contig", wr |-> "ro"],cur |-> 1,snaps |-> <<[arrs |-> <<[w |-> FALSE, decl |-> <<"|">>, phys |-> <<"|">>, sig |-> "orig", shp |-> "h", grp |-> 1, hash |-> <<"|">>, lin |-> 1]>>, res |-> 1, err |-> "none", rest |-> "intact"], [arrs |-> <<[w |-> FALSE, decl |-> <<"|">>, phys |-> <<"|">>, sig |-> "orig", shp |-> "h", grp |-> 1, hash |-> <<"|">>, lin |-> 1]>>, res |-> 1, err |-> "none", rest |-> "intact"]>>,ops |-> <<[fn |-> "native", keep |-> FALSE, inplace |-> TRUE]>>,dtos |-> <<[names |-> "orig", key |-> <<>>]>>,bufs |-> <<<<"|">>>>,arrs |-> <<[w |-> FALSE, decl |-> <<"|">>, buf |-> 1, dto |-> 1, shp |-> "h", lin |-> 1, lay |-> "contig"]>>])
    >>
----


=============================================================================

---- CONFIG ByteOrderMC_TTrace_1790824031 ----
CONSTANTS
    MinFields = 1
    MaxFields = 1
    WithPlain = TRUE
    Kinds = { "M" , "S" }
    Need = { }
    Spells = { ">" }
    Layouts = { "contig" }
    Writes = { "w" , "ro" }
    Fns = { "native" , "big" , "little" , "swap" , "rnative" }
    CallerOps = { }
    InplaceFirst = FALSE
    MaxDepth = 1
    FixedDetect = TRUE
    NestedDetect = TRUE
    RetypeAlways = TRUE
    SwapFirst = TRUE
    CacheDtype = FALSE
    DoExport = FALSE
    MachineLE = TRUE

INVARIANT
    _inv

CHECK_DEADLOCK
    \* CHECK_DEADLOCK off because of PROPERTY or INVARIANT above.
    FALSE

INIT
    _init

NEXT
    _next

CONSTANT
    _TETrace <- _trace

ALIAS
    _expression
=============================================================================
\* Generated on Thu Oct 01 03:07:13 UTC 2026