------------------------------- MODULE ByteOrderTrace -------------------------------
(* Trace validation for byte-order conversion: every recorded chain of conversions   *)
(* executed on real numpy arrays is judged step by step by the property-level        *)
(* clauses of ByteOrder.tla.  One ndjson line per chain:                              *)
(*   {"id": k, "kinds": [...], "spell": "<", "layout": "strided", "wr": "ro",         *)
(*    "plain": false,                                                                 *)
(*    "ops": [{"fn","inplace","keep"}, ...], "st": [state_0, ..., state_n]}           *)
(*   state = {"res": i, "err": "none"|class, "arrs": [{"decl","phys","sig","shp",     *)
(*            "grp","hash","w","lin"}, ...], "rest": "intact"|"changed", "pred": {...},         *)
(*            "dn": [...]}  (state_0 also has "lay": the observed layout flags)       *)
(* state_k is the projection of the real arrays after step k; a step is judged        *)
(* against the OBSERVED previous state, so one wrong step yields one rejection.       *)
(* ops may be conversions (also refused ones: err # "none", judged as stutter steps)  *)
(* or steps of the caller ("fresh", "mut_names", "mut_shape", "mut_lock").            *)
(* Failing clauses are printed as "<step>:<clause>" (step 0 = the initial array).     *)
(* SESSIONS: a record is judged from its own states only, whatever the process that   *)
(* executed it had executed before - i.e. as if it had run in a fresh process         *)
(* (ByteOrder.tla, SESSIONS; SessionFreshThm / SessionThm in ByteOrderMC).  The        *)
(* harness keeps, per process, the order in which it executed its chains; when a step  *)
(* rejected here is accepted for the same chain executed alone in a fresh process,     *)
(* the case it reports and replays is the session, judged here on its last chain.      *)
EXTENDS ByteOrder, Json, IOUtils

VARIABLES blk, tid
Traces == ndJsonDeserialize(IOEnv.TRACE_FILE)
NT == Len(Traces)
BlockSize == 256
NBlocks == (NT + BlockSize - 1) \div BlockSize

Init == blk = 0 /\ tid = 0
PickBlock == blk = 0 /\ tid = 0 /\ \E b \in 1..NBlocks : blk' = b /\ tid' = 0
PickTrace == blk > 0 /\ tid = 0
             /\ \E t \in ((blk - 1) * BlockSize + 1)..VMin2(blk * BlockSize, NT) : tid' = t /\ blk' = blk
Next == PickBlock \/ PickTrace

Tag(k, S) == {ToString(k) \o ":" \o c : c \in S}

ObsFailing(K, s) == IF s.err # "none" THEN {} ELSE BOPredFailing(K, s) \cup BODescrFailing(K, s)

FailingRec(r) ==
    LET K == r.kinds
        n == Len(r.ops)
        StepF(k) == BOAnyStepFailing(K, r.spell, r.st[k], r.ops[k], r.st[k + 1])
    IN Tag(0, BOInitFailing(K, r.spell, r.layout, r.plain, r.wr, r.st[1]) \cup ObsFailing(K, r.st[1])) \cup
       UNION {Tag(k, StepF(k) \cup ObsFailing(K, r.st[k + 1]) \cup
                     (IF k >= 2 /\ StepF(k) = {} /\ StepF(k - 1) = {}
                      THEN BOPairFailing(K, r.st[k - 1], r.ops[k - 1], r.st[k], r.ops[k], r.st[k + 1])
                      ELSE {}))
              : k \in 1..n}

Check == tid > 0 =>
    LET r == Traces[tid]  f == FailingRec(r)
    IN f = {} \/ PrintT(<<"REJECT", ToJson([id |-> r.id, failing |-> f])>>)
=============================================================================
