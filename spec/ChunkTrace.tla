------------------------------- MODULE ChunkTrace -------------------------------
(* Trace validation for esutil.algorithm.isplit and esutil.numpy_util.splitarray:  *)
(* every recorded call of the real code is judged by the property-level            *)
(* definitions of Algo.tla.  One ndjson line per record:                           *)
(*   {"id": k, "c": {"fn": "isplit", "num": .., "nchunks": ..},                    *)
(*             "obs": [{"err": .., "starts": [..], "ends": [..]}, ...]}            *)
(*   {"id": k, "c": {"fn": "splitarray", "nper": .., "a": [..]},                   *)
(*             "obs": [{"err": .., "chunks": [[..], ..]}, ...]}                    *)
(* (several observations = the same abstract case through several concrete input   *)
(* types).  Rejected records are printed with <<observation index, clause>> pairs. *)
EXTENDS Algo, Json, IOUtils

VARIABLES blk, tid
Traces == ndJsonDeserialize(IOEnv.TRACE_FILE)
NT == Len(Traces)
BlockSize == 256
NBlocks == (NT + BlockSize - 1) \div BlockSize

Init == blk = 0 /\ tid = 0
PickBlock == blk = 0 /\ tid = 0 /\ \E b \in 1..NBlocks : blk' = b /\ tid' = 0
PickTrace == blk > 0 /\ tid = 0
             /\ \E t \in ((blk - 1) * BlockSize + 1)..VMin2(blk * BlockSize, NT) : tid' = t /\ blk' = blk
Next == PickBlock \/ PickTrace

FailingObs(c, o) == IF c.fn = "isplit" THEN IsplitFailing(c, o) ELSE SplitFailing(c, o)
FailingRec(r) == UNION {{<<k, f>> : f \in FailingObs(r.c, r.obs[k])} : k \in DOMAIN r.obs}

Check == tid > 0 =>
    LET r == Traces[tid]  f == FailingRec(r)
    IN f = {} \/ PrintT(<<"REJECT", ToJson([id |-> r.id, failing |-> f])>>)
=============================================================================
