------------------------------- MODULE Cosmo -------------------------------
(* Property-level specification of esutil.cosmology.Cosmo (property C11).          *)
(*                                                                                *)
(* The numeric claim "every distance equals its Hogg (1999) definition up to the  *)
(* truncation error of the documented fixed-order Gauss-Legendre rule" is stated  *)
(* as a chain of links, each of which is exact or algebraic:                      *)
(*   1. CNormalise   constructor arguments -> the reported parameters allowed     *)
(*   2. CE2          E^2(z) as an exact rational; 1/Ez_inverse(z)^2 = E^2(z)      *)
(*   3. gl5 / gl10   the integral IS the documented n-point Gauss-Legendre sum of *)
(*                   the exact integrand (so its error is the truncation error,   *)
(*                   by definition): 1/E from the exact rational parameters for   *)
(*                   the 5-point sums; for the volume the object's own dV (pinned *)
(*                   by "dv") and, independently, DH Dm(0,z)^2/E(z) rebuilt from  *)
(*                   the exact 1/E by nested 5-point sums.  "The documented rule" *)
(*                   is the one esutil exposes (esutil.integrate.gauleg, C17);    *)
(*                   the mathematically exact rule is accepted as well, and       *)
(*                   agreement with it is demanded to C17's tolerance (1e-9).     *)
(*   4. CCatalogue   the identities Dc = DH*I, Dm (flat / sinh / sin, Hogg's      *)
(*                   addition formula), Da, Dl, antisymmetry, dV, V, Sigma_crit,  *)
(*                   distmod as equations between recorded quantities             *)
(*   5. CEds         Einstein-de Sitter rational anchors (absolute scale)         *)
(*   6. CDispatchSet argument-representation dispatch of the vectorised entry     *)
(*                   points (python / numpy scalars, sequences, ndarrays of every *)
(*                   element type, byte order and layout)                         *)
(*   7. CFailCopy    copy / copy.copy / deepcopy / pickle chains                  *)
(*                                                                                *)
(* Identities are DATA (expression trees over calls of the object under test).    *)
(* The harness owns only a generic exact evaluator of such trees; it records, for *)
(* every identity, the residual |lhs - rhs| as an integer number of units         *)
(* (ulp = 2^-52 * scale, ppb = 1e-9 * scale, rounded up) and the sign of          *)
(* lhs - rhs.  Which identities apply to a case and how large the residual may    *)
(* be is decided here (CTol), and judged by TLC (CosmoTrace.tla).                 *)
EXTENDS VU

\* ---------------------------------------------------------------------------------
\* rationals with an "absent" value
CNone      == <<0, 0>>                 \* Python None / keyword not passed / "off the lattice"
CIsNone(r) == r[2] = 0
CZero      == <<0, 1>>
COne       == <<1, 1>>
CRAbs(r)   == <<VAbs(r[1]), r[2]>>

\* ---------------------------------------------------------------------------------
\* overflow-aware rational arithmetic (TLC integers are 32-bit, overflow is an error):
\* sums over the lcm of the denominators, products cross-cancelled before multiplying,
\* comparisons by the continued-fraction (Euclid) scheme instead of cross-multiplication.
\* Operands are normalised <<n, d>> with d > 0; results are normalised.
CRAdd(a, b) == LET g == VGcd(a[2], b[2]) IN RNorm(a[1] * (b[2] \div g) + b[1] * (a[2] \div g), (a[2] \div g) * b[2])
CRNeg(a)    == <<-a[1], a[2]>>
CRSub(a, b) == CRAdd(a, CRNeg(b))
CRMul(a, b) == LET g1 == VGcd(a[1], b[2])
                   g2 == VGcd(b[1], a[2])
               IN RNorm((a[1] \div g1) * (b[1] \div g2), (a[2] \div g2) * (b[2] \div g1))
CRInv(a)    == IF a[1] < 0 THEN <<-a[2], -a[1]>> ELSE <<a[2], a[1]>>          \* a # 0
CRDiv(a, b) == CRMul(a, CRInv(b))
RECURSIVE CRLt(_, _)
CRLt(a, b) ==
    LET fa == a[1] \div a[2]                \* floors (\div floors for either sign)
        fb == b[1] \div b[2]
        ra == a[1] - fa * a[2]              \* 0 <= ra < a[2]
        rb == b[1] - fb * b[2]
    IN IF fa # fb THEN fa < fb
       ELSE IF rb = 0 THEN FALSE
       ELSE IF ra = 0 THEN TRUE
       ELSE CRLt(<<b[2], rb>>, <<a[2], ra>>)   \* ra/a2 < rb/b2  <=>  b2/rb < a2/ra
CRLe(a, b) == ~CRLt(b, a)
CRMin2(a, b) == IF CRLe(a, b) THEN a ELSE b
CRMax2(a, b) == IF CRLe(a, b) THEN b ELSE a

\* c in km/s = 2.99792458e5 (cosmology.py _CLIGHT); H0 values are integers on the
\* lattice so that c / H0 stays inside 32-bit arithmetic
CCLight == <<149896229, 500>>      \* 299792.458, normalised
CDefOm  == <<3, 10>>                   \* documented defaults
CDefOl  == <<7, 10>>
CDefH0  == <<100, 1>>

\* ---------------------------------------------------------------------------------
\* 1. parameter normalisation
\* args = [H0, h, ok : rational | CNone, om, ol : rational | CNone (default), flat : BOOLEAN]
COm(a) == IF CIsNone(a.om) THEN CDefOm ELSE a.om
COl(a) == IF CIsNone(a.ol) THEN CDefOl ELSE a.ol
CH0(a) == IF ~CIsNone(a.h) THEN CRMul(<<100, 1>>, a.h)          \* h overrides H0
          ELSE IF CIsNone(a.H0) THEN CDefH0 ELSE a.H0

CParams(a, flat, ol, ok) ==
    [H0 |-> CH0(a), DH |-> CRDiv(CCLight, CH0(a)), flat |-> flat, om |-> COm(a), ol |-> ol, ok |-> ok]

CFlatOut(a) == CParams(a, TRUE, CRSub(COne, COm(a)), CZero)      \* flat forces ok = 0, ol = 1 - om
CCurvOut(a) == CParams(a, FALSE, COl(a), IF CIsNone(a.ok) THEN CZero ELSE a.ok)

COkZero(a) == CIsNone(a.ok) \/ a.ok[1] = 0

\* the reported parameter sets the statement allows (a sequence: index = reading)
CNormalise(a) ==
    IF a.flat /\ COkZero(a) THEN <<CFlatOut(a)>>                \* the documented rule
    ELSE IF ~a.flat /\ ~COkZero(a) THEN <<CCurvOut(a)>>         \* the curved cosmology that was asked for
    ELSE <<CFlatOut(a), CCurvOut(a)>>   \* statement silent: flat=True with omega_k # 0; flat=False without curvature

CNormInv(p) == p.flat => (p.ok = CZero /\ p.ol = CRSub(COne, p.om))

\* ---------------------------------------------------------------------------------
\* 2. the integrand, exactly
CCube(u) == CRMul(u, CRMul(u, u))
CE2Terms(p, z) == LET u == CRAdd(COne, z) IN <<CRMul(p.om, CCube(u)), CRMul(p.ok, CRMul(u, u)), p.ol>>
CE2(p, z)    == LET t == CE2Terms(p, z) IN CRAdd(CRAdd(t[1], t[2]), t[3])
\* operand scale of that sum (rounding is relative to it, not to a cancelled result)
CE2Scale(p, z) == LET t == CE2Terms(p, z) IN CRAdd(CRAdd(CRAbs(t[1]), CRAbs(t[2])), CRAbs(t[3]))

\* min of E^2 over 0 <= z <= zhi: a cubic f(u) = om u^3 + ok u^2 + ol in u = 1+z with f'(u) = u (3 om u + 2 ok);
\* at the stationary point us = -2 ok / (3 om) its value is ol + 4 ok^3 / (27 om^2)
CMinE2(p, zhi) ==
    LET e0 == CE2(p, CZero)  e1 == CE2(p, zhi)
        m  == CRMin2(e0, e1)
    IN IF p.om[1] > 0 /\ p.ok[1] < 0
       THEN LET zs == CRSub(CRDiv(CRMul(<<-2, 1>>, p.ok), CRMul(<<3, 1>>, p.om)), COne)
                es == CRAdd(p.ol, CRDiv(CRMul(<<4, 1>>, CCube(p.ok)), CRMul(<<27, 1>>, CRMul(p.om, p.om))))
            IN IF CRLt(CZero, zs) /\ CRLt(zs, zhi) THEN CRMin2(m, es) ELSE m
       ELSE m
\* the definitions exist on [0, zhi] only where E^2 > 0 (no bounce); nothing is demanded elsewhere
CPhysical(p, zhi) == CRLt(CZero, CMinE2(p, zhi))

\* Dl(0, b) > 0, so that the distance modulus has a real value: always when not closed; in a closed
\* universe as long as sqrt|ok| int_0^b dz/E < pi (sin still positive), for which
\* |ok| b^2 / min E^2 < 39/4 < pi^2 = 9.8696.. is sufficient (int dz/E <= b / sqrt(min E^2))
CDlPositive(p, b) ==
    p.flat \/ p.ok[1] >= 0 \/ CRLt(CRMul(CRAbs(p.ok), CRMul(b, b)), CRMul(<<39, 4>>, CMinE2(p, b)))

\* "concordance-like": where the statement quantifies the truncation error (1e-6 at z<=1, 1e-3 at z<=5)
CConcordance(p) ==
    /\ CRLe(<<1, 10>>, p.om) /\ CRLe(p.om, <<1, 2>>)
    /\ CRLe(<<-1, 10>>, p.ok) /\ CRLe(p.ok, <<1, 10>>)
    /\ CRLe(<<1, 2>>, p.ol) /\ CRLe(p.ol, COne)

\* ---------------------------------------------------------------------------------
\* 5. Einstein-de Sitter anchors: om = 1 flat, 1+z a rational square:
\*    int_0^z dz/E = 2 (1 - (1+z)^(-1/2)) is rational
CISqrt(n)    == CHOOSE s \in 0..n : s * s <= n /\ (s + 1) * (s + 1) > n
CIsSquare(n) == CISqrt(n) * CISqrt(n) = n
CEds(p, a, b) ==
    LET u == CRAdd(COne, b) IN
    IF p.flat /\ p.om = COne /\ a = CZero /\ b[1] > 0 /\ CRLe(b, <<3, 1>>) /\ CIsSquare(u[1]) /\ CIsSquare(u[2])
    THEN CRSub(<<2, 1>>, RNorm(2 * CISqrt(u[2]), CISqrt(u[1])))
    ELSE CNone

\* exact rationals the evaluator takes from the spec (leaves <<"d", name>>)
CDerived(p, a, b) ==
    [E2a |-> CE2(p, a), E2b |-> CE2(p, b), Sa |-> CE2Scale(p, a), Sb |-> CE2Scale(p, b), eds |-> CEds(p, a, b)]

\* ---------------------------------------------------------------------------------
\* 4. the identities, as expression trees
\*   <<"v", x>>      float observed on the object / call argument: "a" "b" "DH" "ok"
\*   <<"d", x>>      exact rational of CDerived          <<"n", p, q>>  the rational p/q
\*   <<"dec", s>>    decimal literal                     <<"pi">>
\*   <<"q1", f, x>>  obj.f(x)      <<"q2", f, x, y>>  obj.f(x, y)      (arguments are converted to float)
\*   <<"p", x>>      exact rational reported parameter of the lattice: "om" "ol" "ok" "DH"
\*   <<"gl", n, rule, var, body, x, y>>   sum_i w_i ((y-x)/2) body[var := x_i (y-x)/2 + (x+y)/2]  (mapping in binary64, as documented)
\*                   over the n-point Gauss-Legendre rule; rule "esutil": the public esutil.integrate.gauleg(-1, 1, n)
\*                   (the rule property C17 decides), rule "exact": an independently computed rule validated by exact moments
\*   <<"x", var>>    the bound quadrature node (a binary64 number, hence an exact rational)
\*   add sub mul div neg sq sqrt abs max sinh sin log10 : exact (or >= 40 digits) real arithmetic
XA == <<"v", "a">>
XB == <<"v", "b">>
XDH == <<"v", "DH">>
XOK == <<"v", "ok">>
X0 == <<"n", 0, 1>>
X1 == <<"n", 1, 1>>
XQ1(f, x)     == <<"q1", f, x>>
XQ2(f, x, y)  == <<"q2", f, x, y>>
XAdd(x, y) == <<"add", x, y>>
XSub(x, y) == <<"sub", x, y>>
XMul(x, y) == <<"mul", x, y>>
XDiv(x, y) == <<"div", x, y>>
XNeg(x)    == <<"neg", x>>
XSq(x)     == <<"sq", x>>
XSqrt(x)   == <<"sqrt", x>>
XAbs(x)    == <<"abs", x>>
XMax(x, y) == <<"max", x, y>>
XDefaultScale == <<"maxabs">>                  \* max(|lhs|, |rhs|)
XP(n)      == <<"p", n>>
XVar(v)    == <<"x", v>>
XGL(n, rule, var, body, lo, hi) == <<"gl", n, rule, var, body, lo, hi>>
\* the exact integrand 1/E(z) = (om (1+z)^3 + ok (1+z)^2 + ol)^(-1/2) as an expression of the reported (lattice) parameters
XU(z)      == XAdd(X1, z)
XCubeT(u)  == XMul(u, XSq(u))
XE2T(z)    == XAdd(XAdd(XMul(XP("om"), XCubeT(XU(z))), XMul(XP("ok"), XSq(XU(z)))), XP("ol"))
XEzX(z)    == XDiv(X1, XSqrt(XE2T(z)))
\* rounding of the float evaluation of E^2 is relative to its operand scale: amplification S / E^2 >= 1
XAmp(z)    == XDiv(XAdd(XAdd(XMul(XAbs(XP("om")), XCubeT(XU(z))), XMul(XAbs(XP("ok")), XSq(XU(z)))), XAbs(XP("ol"))), XE2T(z))
XIx(rule, var, lo, hi) == XGL(5, rule, var, XEzX(XVar(var)), lo, hi)
XIxScale(var, lo, hi)  == XGL(5, "exact", var, XMul(XAmp(XVar(var)), XEzX(XVar(var))), lo, hi)
XOwn(n, rule, f, lo, hi) == XGL(n, rule, "x", XQ1(f, XVar("x")), lo, hi)      \* the object's own f as integrand

\* 4 pi G / c^2 in pc^2 / Msun / Mpc as documented in cosmolib.h; physical constants
\* differ by a few 1e-4 between compilations, hence the ppb tolerance below
XK == <<"dec", "6.0150504541630152e-07">>
\* fixed reference pair for the "same constant for every pair" form of Sigma_crit^-1
XR1 == <<"n", 1, 4>>
XR2 == <<"n", 1, 1>>

XI(a, b)  == XQ2("Ezinv_integral", a, b)
XDc(a, b) == XQ2("Dc", a, b)
XDm(a, b) == XQ2("Dm", a, b)
XDa(a, b) == XQ2("Da", a, b)
XSc(a, b) == XQ2("sigmacritinv", a, b)
XCurvArg(k) == XDiv(XMul(XSqrt(k), XDc(XA, XB)), XDH)           \* sqrt|ok| Dc / DH
\* Hogg (1999) eq. 16-17 and the distance-addition formula below eq. 19
XHoggTerm(d1, d2) == XMul(d1, XSqrt(XAdd(X1, XDiv(XMul(XOK, XSq(d2)), XSq(XDH)))))

\* alt: name of an identity whose satisfaction (at the same tolerance) is accepted instead ("" = none)
CIdentA(name, entry, rel, unit, lhs, rhs, scale, alt) ==
    [name |-> name, entry |-> entry, rel |-> rel, unit |-> unit, lhs |-> lhs, rhs |-> rhs, scale |-> scale, alt |-> alt]
CIdent(name, entry, rel, unit, lhs, rhs, scale) == CIdentA(name, entry, rel, unit, lhs, rhs, scale, "")

X4Pi == XMul(<<"n", 4, 1>>, <<"pi">>)
\* the volume integrand from the exact 1/E alone: dV(y) = DH Dm(0,y)^2 / E(y), Dm by the curvature map of DH int_0^y dz/E (5-point sum)
XDcX(rule, y)     == XMul(XP("DH"), XIx(rule, "x", X0, y))
XDmXFlat(rule, y) == XDcX(rule, y)
XDmXCurv(rule, y, k, fn) == XMul(XDiv(XP("DH"), XSqrt(k)), <<fn, XMul(XSqrt(k), XIx(rule, "x", X0, y))>>)
XVx(dm(_)) == XMul(X4Pi, XGL(10, "esutil", "y", XMul(XMul(XP("DH"), XSq(dm(XVar("y")))), XEzX(XVar("y"))), XA, XB))

CCatalogue == <<
  CIdent("ezinv_a", "Ez_inverse", "eq", "ulp", XDiv(X1, XSq(XQ1("Ez_inverse", XA))), <<"d", "E2a">>, <<"d", "Sa">>),
  CIdent("ezinv_b", "Ez_inverse", "eq", "ulp", XDiv(X1, XSq(XQ1("Ez_inverse", XB))), <<"d", "E2b">>, <<"d", "Sb">>),
  \* the integral IS the documented 5-point sum of the exact integrand: to rounding with the rule esutil documents
  \* (or with the mathematically exact rule), and to C17's tolerance (1e-9) with the mathematically exact rule
  CIdentA("gl5", "Ezinv_integral", "eq", "ulp", XI(XA, XB), XIx("esutil", "x", XA, XB), XIxScale("x", XA, XB), "gl5_alt"),
  CIdent("gl5_alt", "Ezinv_integral", "eq", "ulp", XI(XA, XB), XIx("exact", "x", XA, XB), XIxScale("x", XA, XB)),
  CIdent("gl5_coarse", "Ezinv_integral", "eq", "ppb", XI(XA, XB), XIx("exact", "x", XA, XB), XDefaultScale),
  CIdent("dc", "Dc", "eq", "ulp", XDc(XA, XB), XMul(XDH, XI(XA, XB)), XDefaultScale),
  CIdent("dm_flat", "Dm", "eq", "ulp", XDm(XA, XB), XDc(XA, XB), XDefaultScale),
  CIdent("dm_open_gt_dc", "Dm", "gt", "ulp", XDm(XA, XB), XDc(XA, XB), XDefaultScale),
  CIdent("dm_closed_lt_dc", "Dm", "lt", "ulp", XDm(XA, XB), XDc(XA, XB), XDefaultScale),
  CIdent("dm_sinh", "Dm", "eq", "ulp", XDm(XA, XB),
         XMul(XDiv(XDH, XSqrt(XOK)), <<"sinh", XCurvArg(XOK)>>), XMax(XAbs(XDm(XA, XB)), XAbs(XDc(XA, XB)))),
  CIdent("dm_sin", "Dm", "eq", "ulp", XDm(XA, XB),
         XMul(XDiv(XDH, XSqrt(XNeg(XOK))), <<"sin", XCurvArg(XNeg(XOK))>>), XMax(XAbs(XDm(XA, XB)), XAbs(XDc(XA, XB)))),
  CIdent("hogg_add", "Dm", "eq", "ppb", XDm(X0, XB),
         XAdd(XHoggTerm(XDm(X0, XA), XDm(XA, XB)), XHoggTerm(XDm(XA, XB), XDm(X0, XA))), XDefaultScale),
  CIdent("da", "Da", "eq", "ulp", XDa(XA, XB), XDiv(XDm(XA, XB), XAdd(X1, XB)), XDefaultScale),
  CIdent("dl", "Dl", "eq", "ulp", XQ2("Dl", XA, XB), XMul(XDm(XA, XB), XAdd(X1, XB)), XDefaultScale),
  CIdent("antisym", "Dc", "eq", "ulp", XDc(XA, XB), XNeg(XDc(XB, XA)), XDefaultScale),
  CIdent("dv", "dV", "eq", "ulp", XQ1("dV", XB),
         XMul(XMul(XDH, XSq(XAdd(X1, XB))), XMul(XSq(XDa(X0, XB)), XQ1("Ez_inverse", XB))), XDefaultScale),
  \* V = 4 pi x the documented 10-point sum of the object's own volume element (dV itself is pinned by "dv") ...
  CIdentA("gl10", "V", "eq", "ulp", XQ2("V", XA, XB), XMul(X4Pi, XOwn(10, "esutil", "dV", XA, XB)), XDefaultScale, "gl10_alt"),
  CIdent("gl10_alt", "V", "eq", "ulp", XQ2("V", XA, XB), XMul(X4Pi, XOwn(10, "exact", "dV", XA, XB)), XDefaultScale),
  CIdent("gl10_coarse", "V", "eq", "ppb", XQ2("V", XA, XB), XMul(X4Pi, XOwn(10, "exact", "dV", XA, XB)), XDefaultScale),
  \* ... and of the volume element built from the exact 1/E alone (nested 5-point sums), per curvature class
  CIdent("gl10x_flat", "V", "eq", "ppb", XQ2("V", XA, XB), XVx(LAMBDA y : XDmXFlat("esutil", y)), XDefaultScale),
  CIdent("gl10x_open", "V", "eq", "ppb", XQ2("V", XA, XB), XVx(LAMBDA y : XDmXCurv("esutil", y, XP("ok"), "sinh")), XDefaultScale),
  CIdent("gl10x_closed", "V", "eq", "ppb", XQ2("V", XA, XB), XVx(LAMBDA y : XDmXCurv("esutil", y, XNeg(XP("ok")), "sin")), XDefaultScale),
  CIdent("scinv", "sigmacritinv", "eq", "ppb", XSc(XA, XB),
         XMul(XDiv(XMul(XDa(XA, XB), XDa(X0, XA)), XDa(X0, XB)), XK), XDefaultScale),
  CIdent("scinv_form", "sigmacritinv", "eq", "ulp",
         XMul(XMul(XSc(XA, XB), XDa(X0, XB)), XMul(XDa(XR1, XR2), XDa(X0, XR1))),
         XMul(XMul(XSc(XR1, XR2), XDa(X0, XR2)), XMul(XDa(XA, XB), XDa(X0, XA))), XDefaultScale),
  CIdent("scinv_zero", "sigmacritinv", "eq", "ulp", XSc(XA, XB), X0, XDefaultScale),
  CIdent("distmod", "distmod", "eq", "ulp", XQ1("distmod", XB),
         XMul(<<"n", 5, 1>>, <<"log10", XMul(XQ2("Dl", X0, XB), <<"n", 100000, 1>>)>>), XDefaultScale),
  CIdent("eds", "Ezinv_integral", "eq", "ppb", XI(X0, XB), <<"d", "eds">>, XDefaultScale)
>>

\* Applicability and tolerance of an identity for reported parameters p and the
\* redshift pair (a, b).  -1 = not demanded.  Units: see the catalogue (ulp | ppb).
\* "to rounding": 4 ulp per identity that is one floating-point operation; sums and
\* products of k operations get ~2k ulp; the n-point sum 4n ulp.
CNA == -1
CTol(name, p, a, b) ==
    LET le   == CRLe(a, b)
        lt   == CRLt(a, b)
        phys == CPhysical(p, CRMax2(a, b))
        fwd  == le /\ phys                     \* 0 <= zmin <= zmax <= 5 on a physical cosmology
        when(c, t) == IF c THEN t ELSE CNA
    IN CASE name = "ezinv_a"  -> when(CRLt(CZero, CE2(p, a)), 16)
         [] name = "ezinv_b"  -> when(CRLt(CZero, CE2(p, b)), 16)
         [] name = "gl5"      -> when(fwd, 24)
         [] name = "gl5_coarse" -> when(fwd, 1)
         [] name = "dc"       -> when(fwd, 4)
         [] name = "dm_flat"  -> when(fwd /\ p.flat, 4)
         [] name = "dm_open_gt_dc"   -> when(fwd /\ lt /\ ~p.flat /\ p.ok[1] > 0, 0)
         [] name = "dm_closed_lt_dc" -> when(fwd /\ lt /\ ~p.flat /\ p.ok[1] < 0, 0)
         [] name = "dm_sinh"  -> when(fwd /\ ~p.flat /\ p.ok[1] > 0, 32)
         [] name = "dm_sin"   -> when(fwd /\ ~p.flat /\ p.ok[1] < 0, 32)
         \* three distances, each within 1.5 x (1e-6 | 1e-3) of a triple that satisfies the formula exactly: 2 x 1.5 x eps
         \* of the larger side, plus the second-order curvature terms (< 10 % for |ok| <= 1/10)
         [] name = "hogg_add" -> when(fwd /\ CConcordance(p), IF CRLe(b, COne) THEN 3500 ELSE 3500000)
         [] name = "da"       -> when(fwd, 4)
         [] name = "dl"       -> when(fwd, 4)
         [] name = "antisym"  -> when(phys /\ a # b, 8)          \* both orders
         [] name = "dv"       -> when(fwd, 16)
         [] name = "gl10"     -> when(fwd, 48)
         [] name = "gl10_coarse" -> when(fwd, 1)
         [] name = "gl10x_flat"   -> when(fwd /\ p.flat, 10)
         [] name = "gl10x_open"   -> when(fwd /\ ~p.flat /\ p.ok[1] > 0, 10)
         [] name = "gl10x_closed" -> when(fwd /\ ~p.flat /\ p.ok[1] < 0 /\ CDlPositive(p, b), 10)
         [] name = "scinv"    -> when(fwd /\ lt, 500000)
         [] name = "scinv_form" -> when(fwd /\ lt /\ CPhysical(p, COne), 16)
         [] name = "scinv_zero" -> when(CRLe(b, a), 0)           \* source at or in front of the lens: exactly 0
         [] name = "distmod"  -> when(fwd /\ b[1] > 0 /\ CDlPositive(p, b), 16)
         [] name = "eds"      -> when(fwd /\ ~CIsNone(CEds(p, a, b)), IF CRLe(b, COne) THEN 1000 ELSE 1000000)
         [] OTHER -> CNA

CNames == [i \in 1..Len(CCatalogue) |-> CCatalogue[i].name]
CById(n) == CCatalogue[CHOOSE i \in 1..Len(CCatalogue) : CCatalogue[i].name = n]
\* what the harness has to evaluate: the demanded identities and their accepted alternatives
CNeeded(p, a, b) ==
    SelectSeq(CNames, LAMBDA n : CTol(n, p, a, b) >= 0 \/ \E i \in 1..Len(CCatalogue) : CCatalogue[i].alt = n /\ CTol(CCatalogue[i].name, p, a, b) >= 0)

\* one recorded residual o = <<units, sign>>; units = -1 when a side is not a finite number
CResidualOK(id, tol, o) ==
    IF id.rel = "eq" THEN o[1] >= 0 /\ o[1] <= tol
    ELSE IF id.rel = "lt" THEN o[1] >= 0 /\ o[2] = -1
    ELSE o[1] >= 0 /\ o[2] = 1

\* ---------------------------------------------------------------------------------
\* judging recorded observations.  Every operator returns the set of failing clauses.

\* reported parameters rep (projected on the lattice by the harness) against args
CParamFails(args, rep) ==
    LET outs == CNormalise(args)
        agree(f) == \E k \in DOMAIN outs : outs[k][f] = rep[f]
    IN IF \E k \in DOMAIN outs : outs[k] = rep THEN {}
       ELSE LET bad == (IF agree("H0") THEN {} ELSE {"norm_H0"}) \cup
                       (IF agree("DH") THEN {} ELSE {"norm_DH"}) \cup
                       (IF agree("flat") THEN {} ELSE {"norm_flat"}) \cup
                       (IF agree("om") THEN {} ELSE {"norm_omega_m"}) \cup
                       (IF agree("ol") THEN {} ELSE {"norm_omega_l"}) \cup
                       (IF agree("ok") THEN {} ELSE {"norm_omega_k"})
            IN IF bad = {} THEN {"norm_combination"} ELSE bad

CFailCtor(r) ==
    IF r.err # "none" THEN {"constructor_rejected"}
    ELSE CParamFails(r.args, r.rep) \cup (IF CNormInv(r.rep) THEN {} ELSE {"norm_invariant"})

\* r = [args, a, b, err, rep, k, der, res]
CFailScalar(r) ==
    IF r.err # "none" THEN {"constructor_rejected"}
    ELSE LET pf == CParamFails(r.args, r.rep) IN
    IF pf # {} THEN pf
    ELSE LET p == r.rep IN
         IF r.der # CDerived(p, r.a, r.b) THEN {"harness_derived_mismatch"}
         ELSE {CCatalogue[i].name : i \in {j \in 1..Len(CCatalogue) :
                  LET id == CCatalogue[j]  tol == CTol(id.name, p, r.a, r.b)
                      good(n) == n \in DOMAIN r.res /\ CResidualOK(CById(n), tol, r.res[n])
                  IN tol >= 0 /\ ~(good(id.name) \/ (id.alt # "" /\ good(id.alt)))}}

\* ---------------------------------------------------------------------------------
\* 6. argument-representation dispatch.  A redshift argument is a representation
\*      [cls, dt, lay, len]
\*    cls  "pyfloat" | "pyint" | "npscalar"            scalars (len 0)
\*         "list" | "tuple"                           python sequences, dt "float" | "int"
\*         "ndarray"                                  dt  f8 f4 i8 i4 >f8 >f4 >i8 (">" = not the machine's byte order)
\*                                                    lay contig | strided | reversed | zerod (0-d, one value, len 0)
\*                                                        | f2d (Fortran-ordered, shape (2, len))
\*         "absent"                                   second argument of a one-argument quantity
\*    The result pairs element i with <<index into the first argument's value table, index into the second's>>
\*    (0 = the scalar value).  A 2-d array is taken in C (row-major) order; its 2 len values cycle through the
\*    3-entry value table.  Where the statement is silent - whether a 0-d array counts as a scalar or as an array
\*    of length 1 - every reading is allowed: CDispatchSet is the SET of allowed outcomes.
CTwoArg == {"Dc", "Dm", "Da", "Dl", "sigmacritinv"}
COneArg == {"Ez_inverse", "dV", "distmod"}
CScalarCls == {"pyfloat", "pyint", "npscalar"}
CRep(cls, dt, lay, len) == [cls |-> cls, dt |-> dt, lay |-> lay, len |-> len]
CAbsent == CRep("absent", "na", "na", 0)
CIsScalarRep(s) == s.cls \in CScalarCls \cup {"absent"}
CIsZeroD(s) == s.cls = "ndarray" /\ s.lay = "zerod"
CIs2D(s)    == s.cls = "ndarray" /\ s.lay = "f2d"

\* effective lengths a representation may be given (0 = scalar)
CLenSet(s) == IF CIsScalarRep(s) THEN {0}
              ELSE IF CIsZeroD(s) THEN {0, 1}
              ELSE IF CIs2D(s) THEN {2 * s.len}
              ELSE {s.len}
\* index into the value table for result element i
CIdx(s, i) == IF CIsScalarRep(s) THEN 0
              ELSE IF CIsZeroD(s) THEN 1
              ELSE IF CIs2D(s) THEN ((i - 1) % 3) + 1
              ELSE i

COutcome(sa, sb, la, lb) ==
    IF la = 0 /\ lb = 0 THEN [kind |-> "scalar", pairs |-> << <<CIdx(sa, 1), CIdx(sb, 1)>> >>]
    ELSE IF la > 0 /\ lb > 0 /\ la # lb THEN [kind |-> "rejected", pairs |-> <<>>]       \* mismatched lengths
    ELSE [kind |-> "array", pairs |-> [i \in 1..VMax2(la, lb) |-> <<CIdx(sa, i), CIdx(sb, i)>>]]
CDispatchSet(sa, sb) == {COutcome(sa, sb, la, lb) : la \in CLenSet(sa), lb \in CLenSet(sb)}

\* r = [q, sa, sb, pairs (those the harness compared against), obs = [kind, len, eq : Seq(BOOLEAN)]]
\* eq[i]: result element i is bit-identical to the scalar call on the VALUES pairs[i] points at
CFailDispatch(r) ==
    LET A    == CDispatchSet(r.sa, r.sb)
        live == {e \in A : e.kind # "rejected"}
        fit  == {e \in live : e.kind = r.obs.kind /\ Len(e.pairs) = r.obs.len}
    IN IF r.obs.kind = "rejected" THEN (IF live # A THEN {} ELSE {"unexpected_rejection"})
       ELSE IF live = {} THEN {"mismatched_lengths_not_rejected"}
       ELSE IF ~\E e \in live : e.kind = r.obs.kind THEN {"result_kind"}
       ELSE IF fit = {} THEN {"result_length"}
       ELSE IF ~\E e \in fit : e.pairs = r.pairs THEN {"harness_pairs_mismatch"}
       ELSE IF Len(r.obs.eq) = r.obs.len /\ \A i \in DOMAIN r.obs.eq : r.obs.eq[i] THEN {} ELSE {"element_ne_scalar"}

\* ---------------------------------------------------------------------------------
\* 6b. scale.  The vectorised entry points are ELEMENTWISE: result element i depends on element i of the array
\*     argument(s) only.  Hence they commute with concatenation, F(a \o b) = F(a) \o F(b), and a result of any
\*     length is decided by results on small arrays: for an argument that tiles a 3-entry value table, the result
\*     tiles the result on the first 3 elements, block by block, and equals the concatenation of the results on
\*     any partition into parts.  (CosmoMC checks the law on the small scope: ScaleLaw.)
CTileIdx(i) == ((i - 1) % 3) + 1
CFormsOf(q) == IF q \in COneArg THEN {"vec"} ELSE {"vec1", "vec2", "2vec"}      \* which argument(s) are arrays
CScalePair(form, i) == <<IF form \in {"vec", "vec1", "2vec"} THEN CTileIdx(i) ELSE 0,
                         IF form \in {"vec2", "2vec"} THEN CTileIdx(i) ELSE 0>>
CScalePairs(form, off, n) == [i \in 1..n |-> CScalePair(form, off + i)]
CBlockCount(n, B) == (n + B - 1) \div B
CBlocks(n, B) == [k \in 1..CBlockCount(n, B) |-> <<(k - 1) * B, VMin2(B, n - (k - 1) * B)>>]      \* <<offset, length>>
\* positions compared with scalar calls: the first and the last element of every block
CScaleSamples(n, B) == {1, n} \cup {k * B : k \in 1..(n \div B)} \cup {k * B + 1 : k \in 1..((n - 1) \div B)}

\* r = [q, form, n, block, obs = [kind, len, blocks : Seq(<<offset, length, eq>>), parts_eq, samples : Seq(<<pos, ia, ib, eq>>)]]
\*   blocks[k].eq   block k of the result is bit-identical to the tiled result of the SAME call on the first 3 elements
\*   parts_eq       the result is bit-identical to the concatenation of the results of the same call on a partition
\*   samples[j].eq  the element is bit-identical to the scalar call on its VALUES
CFailScale(r) ==
    LET o == r.obs IN
    IF o.kind = "rejected" THEN {"unexpected_rejection"}
    ELSE IF o.kind # "array" THEN {"result_kind"}
    ELSE IF o.len # r.n THEN {"result_length"}
    ELSE IF Len(o.blocks) # CBlockCount(r.n, r.block)
            \/ \E k \in DOMAIN o.blocks : <<o.blocks[k][1], o.blocks[k][2]>> # CBlocks(r.n, r.block)[k]
         THEN {"harness_blocks_mismatch"}
    ELSE IF {o.samples[j][1] : j \in DOMAIN o.samples} # CScaleSamples(r.n, r.block)
            \/ \E j \in DOMAIN o.samples : <<o.samples[j][2], o.samples[j][3]>> # CScalePair(r.form, o.samples[j][1])
         THEN {"harness_samples_mismatch"}
    ELSE (IF \A k \in DOMAIN o.blocks : o.blocks[k][3] THEN {} ELSE {"scale_block_ne_tiled_small_result"}) \cup
         (IF o.parts_eq THEN {} ELSE {"scale_ne_concatenation_of_parts"}) \cup
         (IF \A j \in DOMAIN o.samples : o.samples[j][4] THEN {} ELSE {"element_ne_scalar"})

\* 6c. concurrency.  Calls on one shared object from several threads: each gets the sequential answer.
\* r = [q, form, nthreads, mism : Seq(Nat)]   mism[t] = number of rounds in which thread t's result was not
\* bit-identical to the result of the same call made alone
CFailThreads(r) ==
    IF Len(r.mism) # r.nthreads THEN {"harness_threads_mismatch"}
    ELSE IF \A t \in DOMAIN r.mism : r.mism[t] = 0 THEN {} ELSE {"concurrent_ne_sequential"}

\* ---------------------------------------------------------------------------------
\* 7. copies.  r = [args, chain : Seq(kind), err, rep0, steps : Seq([err, rep, same_params, same_dist])]
CCopyKinds == {"copy", "copy.copy", "deepcopy", "pickle"}
CFailCopy(r) ==
    IF r.err # "none" THEN {"constructor_rejected"}
    ELSE LET pf == CParamFails(r.args, r.rep0) IN
    IF pf # {} THEN pf
    ELSE IF Len(r.steps) # Len(r.chain) THEN {"harness_chain_mismatch"}
    ELSE UNION {LET s == r.steps[i] IN
                  IF s.err # "none" THEN {"copy_failed"}
                  ELSE (IF s.same_params /\ s.rep = r.rep0 THEN {} ELSE {"copy_params_differ"}) \cup
                       (IF s.same_dist THEN {} ELSE {"copy_distances_differ"})
                : i \in DOMAIN r.steps}
\* ---------------------------------------------------------------------------------
\* 8. world / process state and twin cosmologies (round 4).
\*    The outcome of a call depends on the parameters its object was built with (and on the call's arguments) only -
\*    never on which other Cosmo objects were built, copied, unpickled or dropped earlier in the same process.
\*    A TWIN of a lattice value v is v (1 + k 1e-9) for a small integer k (k = 0: v itself): twins agree to 6 significant
\*    digits and differ in the 7th-9th.  A session builds up to three objects from ONE argument record whose field f is
\*    replaced by twins, copies / drops / probes them in any order; a probe reads the parameter getters and runs a battery
\*    of calls.  Demanded of every probe: the getters return what was given (to rounding for the derived ones), getters and
\*    battery are bit-identical to those of the same object born in a FRESH world (a process that did nothing else), and
\*    between two twins Dc(a, b), a < b, is ordered as the definitions say: E^2(z) is strictly increasing in each of
\*    omega_m, omega_l, omega_k for z > 0 and DH = c / H0, so Dc is strictly DEcreasing in each of om, ol, ok, H0, h.
\*    step = [op, o, k, src, kind]:  "new" (slot o := twin k)   "copy" (slot o := kind-copy of slot src)   "drop" o   "probe" o
CTwinFields == {"om", "ol", "ok", "H0", "h"}
\* the field is given, non-zero and actually read under the (single) reading of the arguments
CTwinLive(a, f) == /\ f \in CTwinFields /\ ~CIsNone(a[f]) /\ a[f][1] # 0
                   /\ Len(CNormalise(a)) = 1
                   /\ (f \in {"ol", "ok"} => (~a.flat /\ ~COkZero(a)))
                   /\ (f = "H0" => CIsNone(a.h))
CTwinLt(v, k1, k2) == IF v[1] > 0 THEN k1 < k2 ELSE k2 < k1            \* order of the twins' VALUES
CTwinSign(v, k1, k2) == IF k1 = k2 THEN 0 ELSE IF CTwinLt(v, k1, k2) THEN 1 ELSE -1      \* sign(Dc of twin k1 - Dc of twin k2)

CWStep(op, o, k, src, kind) == [op |-> op, o |-> o, k |-> k, src |-> src, kind |-> kind]
CWCreates(s) == s.op \in {"new", "copy"}
CWNObj(steps, n) == Cardinality({i \in 1..n : CWCreates(steps[i])})          \* objects created by the first n steps
CWAlive(steps, n, o) == /\ \E i \in 1..n : CWCreates(steps[i]) /\ steps[i].o = o
                        /\ ~\E i \in 1..n : steps[i].op = "drop" /\ steps[i].o = o
\* well-formed session: slots are numbered in order of creation; copies, drops and probes refer to live objects
CWWellFormed(steps) ==
    \A i \in DOMAIN steps : LET s == steps[i] IN
        /\ s.op \in {"new", "copy", "drop", "probe"}
        /\ CWCreates(s) => s.o = CWNObj(steps, i - 1) + 1
        /\ s.op = "copy" => (CWAlive(steps, i - 1, s.src) /\ s.kind \in CCopyKinds)
        /\ s.op \in {"drop", "probe"} => CWAlive(steps, i - 1, s.o)
\* the twin an object IS (copies are the twin of their source): what a fresh world would make of it
RECURSIVE CWTwin(_, _)
CWTwin(steps, o) == LET i == CHOOSE j \in DOMAIN steps : CWCreates(steps[j]) /\ steps[j].o = o
                    IN IF steps[i].op = "new" THEN steps[i].k ELSE CWTwin(steps, steps[i].src)
CWProbed(steps) == {steps[i].o : i \in {j \in DOMAIN steps : steps[j].op = "probe"}}
CWPairs(steps) == {pr \in CWProbed(steps) \X CWProbed(steps) : pr[1] < pr[2]}

\* the identities of the catalogue that are evaluated on every probed twin with the twin's EXACT parameters (the binary64
\* numbers it was given, as rationals - the harness's evaluator is not bound to 32 bits): the exact oracle moved off the lattice
CWIdents == {"gl5", "gl5_coarse", "dc"}
\* r = [args, f, a, b, steps, obs : Seq([err, dev, same_params, same_calls, res]), signs : Seq(<<o1, o2, sign>>)]
\*   obs[i].res          probe: identity name -> <<units, sign>> residual (section 4), parameters = the twin's exact ones, evaluated
\*                       on the fresh-world object (once per twin) - the probe's battery contains the same calls and is bit-identical
\*                       to it when same_calls
\*   obs[i].dev          probe: largest deviation (ulp, rounded up) of a getter from the value given / derived from the given ones
\*   obs[i].same_params  probe: the getters are bit-identical to those of the same object born in a fresh world
\*   obs[i].same_calls   probe: so is the battery of calls
\*   signs               for every pair of probed objects: sign(Dc_o1(a, b) - Dc_o2(a, b)) at their last probes
CFailWorld(r) ==
    IF ~CTwinLive(r.args, r.f) THEN {"harness_world_field"}
    ELSE IF ~CWWellFormed(r.steps) \/ Len(r.obs) # Len(r.steps) THEN {"harness_world_steps"}
    ELSE IF {<<r.signs[j][1], r.signs[j][2]>> : j \in DOMAIN r.signs} # CWPairs(r.steps) THEN {"harness_world_pairs"}
    ELSE LET p == CNormalise(r.args)[1]
             ordered == CRLt(r.a, r.b) /\ CRLt(<<1, 100>>, CMinE2(p, r.b))       \* physical with a margin the twins cannot cross
         IN UNION {LET s == r.steps[i]  o == r.obs[i] IN
                     IF o.err # "none" THEN {IF CWCreates(s) THEN "world_constructor_rejected" ELSE "world_step_failed"}
                     ELSE IF s.op # "probe" THEN {}
                     ELSE (IF o.dev >= 0 /\ o.dev <= 4 THEN {} ELSE {"world_params_ne_given"}) \cup
                          (IF o.same_params THEN {} ELSE {"world_params_ne_fresh_world"}) \cup
                          (IF o.same_calls THEN {} ELSE {"world_call_ne_fresh_world"}) \cup
                          {"twin_" \o n : n \in {m \in CWIdents :
                              LET tol == CTol(m, p, r.a, r.b)  id == CById(m)
                                  good(x) == x \in DOMAIN o.res /\ CResidualOK(CById(x), tol, o.res[x])
                              IN tol >= 0 /\ ~(good(m) \/ (id.alt # "" /\ good(id.alt)))}}
                   : i \in DOMAIN r.steps}
            \cup (IF ordered /\ \E j \in DOMAIN r.signs :
                        r.signs[j][3] # CTwinSign(r.args[r.f], CWTwin(r.steps, r.signs[j][1]), CWTwin(r.steps, r.signs[j][2]))
                  THEN {"world_twin_order"} ELSE {})

=============================================================================
