------------------------------- MODULE CosmoMC -------------------------------
(* Bounded model of esutil.cosmology.Cosmo.  Four sub-machines share one Init:    *)
(*                                                                                *)
(*  NextCtor      ChooseOm, ChooseCurv, ChooseH: every constructor-argument       *)
(*                combination of the rational grid.  Invariant MechNormRefines:   *)
(*                cosmology.py's extract_parms (transcribed, MExtract) yields a   *)
(*                reported parameter set the property allows.                     *)
(*  NextScalar    ... then ChooseZ: every redshift pair (both orders).            *)
(*  NextCopy      ... then Construct and up to ChainLen copy actions (copy(),     *)
(*                copy.copy, copy.deepcopy, pickle round trip) on the object      *)
(*                graph; the mechanism re-runs the constructor on the *stored     *)
(*                inputs* (copy) or on the *reported parameters* (__reduce__).    *)
(*                Invariant MechCopyRefines: every object reports what the root   *)
(*                reports.                                                        *)
(*  NextDispatch  ChooseQ, ChooseSA, ChooseSB, then the code's dispatch as steps  *)
(*                Classify / Convert / Loop / Finish.  Invariant                  *)
(*                MechDispatchRefines: result = CDispatch.                        *)
(*                                                                                *)
(*  NextScale     ChooseLaw: the concatenation law of elementwise calls on small    *)
(*                lengths and block sizes (ScaleLaw); ChooseScaleQ / ChooseScaleN:   *)
(*                the scale cases (quantity, call form, length at / across 2^16).    *)
(*  NextThreads   NThreads threads on one shared object, one action per atomic step; *)
(*                invariant ThreadsSequential: every thread gets the sequential      *)
(*                answer (deviating variant: a memo on the shared struct).           *)
(*                                                                                *)
(* With DoExport the enumerated cases are printed as JSON; the harness executes   *)
(* every one of them against the real code and CosmoTrace.tla judges the records. *)
EXTENDS Cosmo, Json, IOUtils

CONSTANTS OmIdx,       \* subset of DOMAIN OmTab
          CurvIdx,     \* subset of DOMAIN CurvTab
          HIdx,        \* subset of DOMAIN HTab
          HMix,        \* TRUE: one H choice per (om, curv), picked round-robin from HIdx
          ZIdx,        \* subset of DOMAIN ZTab
          ChainLen,    \* copy chains of length 1..ChainLen
          Quants,      \* quantities of the dispatch machine (subset of CTwoArg \cup COneArg; shards the export)
          Dts,         \* ndarray element types (subset of the entries of DtAll)
          Lays,        \* ndarray layouts (subset of the entries of LayAll, plus "zerod")
          MaxLen,      \* array lengths 1..MaxLen
          Pairing,     \* "full": every pair of representations; "cover": the covering design below
          ScaleLens,   \* array lengths of the scale cases (at and across the 65536-element block boundaries)
          NThreads,    \* threads of the interleaving model
          DoExport,
          Deviate      \* TRUE: the mechanisms deviate (self-test of the refinement invariants)

VARIABLES phase, args, zp, objs, chain, dsp, mech
vars == <<phase, args, zp, objs, chain, dsp, mech>>

\* ---- the rational grid -----------------------------------------------------------
OmTab == << <<1, 10>>, <<3, 10>>, <<1, 1>>, <<3, 2>>, CNone >>          \* CNone: keyword not passed (0.3)

\* curvature specification: [flat, ok, lmode]; lmode "closure": ol = 1 - om - ok, "default": not passed (0.7),
\* "half": ol = 1/2 passed explicitly
CurvTab == <<
  [flat |-> TRUE,  ok |-> CNone,       lmode |-> "default"],     \*  1 flat, the documented default
  [flat |-> TRUE,  ok |-> CZero,       lmode |-> "default"],     \*  2 flat with omega_k = 0 spelled out
  [flat |-> FALSE, ok |-> <<-1, 2>>,   lmode |-> "closure"],     \*  3..6 curved, om + ok + ol = 1
  [flat |-> FALSE, ok |-> <<-1, 10>>,  lmode |-> "closure"],
  [flat |-> FALSE, ok |-> <<1, 10>>,   lmode |-> "closure"],
  [flat |-> FALSE, ok |-> <<1, 2>>,    lmode |-> "closure"],
  [flat |-> FALSE, ok |-> <<-1, 2>>,   lmode |-> "default"],     \*  7..10 curved, omega_l left at its default
  [flat |-> FALSE, ok |-> <<-1, 10>>,  lmode |-> "default"],
  [flat |-> FALSE, ok |-> <<1, 10>>,   lmode |-> "default"],
  [flat |-> FALSE, ok |-> <<1, 2>>,    lmode |-> "default"],
  [flat |-> TRUE,  ok |-> <<1, 10>>,   lmode |-> "closure"],     \* 11 flat=True with curvature: statement silent
  [flat |-> FALSE, ok |-> CNone,       lmode |-> "half"],        \* 12 flat=False without curvature: silent
  [flat |-> FALSE, ok |-> CZero,       lmode |-> "half"],        \* 13 flat=False with omega_k = 0: silent
  [flat |-> TRUE,  ok |-> CNone,       lmode |-> "half"],        \* 14 flat must override an explicit omega_l
  [flat |-> TRUE,  ok |-> <<-1, 2>>,   lmode |-> "default"]      \* 15 silent again, other sign
>>

HTab == << [H0 |-> CNone,      h |-> CNone],          \* 1 default H0 = 100
           [H0 |-> <<70, 1>>,  h |-> CNone],
           [H0 |-> <<30, 1>>,  h |-> CNone],
           [H0 |-> <<120, 1>>, h |-> CNone],
           [H0 |-> CNone,      h |-> <<7, 10>>],      \* 5 h alone
           [H0 |-> <<70, 1>>,  h |-> <<3, 10>>],      \* 6 h overrides H0
           [H0 |-> CNone,      h |-> <<18, 25>>],
           [H0 |-> <<30, 1>>,  h |-> <<6, 5>>],
           \* 57: binary64 round trips H0/100*100 and c/(c/H0) do not return H0 (copies that rebuild H0 by arithmetic show up)
           [H0 |-> <<57, 1>>,  h |-> CNone],
           [H0 |-> CNone,      h |-> <<57, 100>>] >>

\* redshifts: dyadic (exact in binary64) plus a few decimals; 9/16, 5/4, 33/16, 3 are EdS anchors
ZTab == << <<0, 1>>, <<1, 8>>, <<1, 4>>, <<1, 2>>, <<9, 16>>, <<3, 4>>, <<1, 1>>, <<5, 4>>, <<3, 2>>, <<2, 1>>,
           <<33, 16>>, <<3, 1>>, <<4, 1>>, <<5, 1>>, <<1, 10>>, <<7, 10>>, <<21, 10>> >>

NoArgs == [H0 |-> CNone, h |-> CNone, flat |-> TRUE, om |-> CNone, ol |-> CNone, ok |-> CNone]
NoShape == CAbsent
NoDsp == [q |-> "", sa |-> NoShape, sb |-> NoShape]
NoMech == [pc |-> "idle", branch |-> "", n |-> 0, i |-> 0, pairs |-> <<>>]

Init == /\ phase = "start" /\ args = NoArgs /\ zp = <<CZero, CZero>> /\ objs = <<>> /\ chain = <<>>
        /\ dsp = NoDsp /\ mech = NoMech

\* ---- constructor arguments (three levels, so that workers share the enumeration) ---
ChooseOm ==
    /\ phase = "start"
    /\ \E i \in OmIdx : args' = [args EXCEPT !.om = OmTab[i]] /\ mech' = [mech EXCEPT !.i = i]
    /\ phase' = "om" /\ UNCHANGED <<zp, objs, chain, dsp>>

ChooseCurv ==
    /\ phase = "om"
    /\ \E j \in CurvIdx :
         LET cv == CurvTab[j]
             om == COm(args)
             ol == IF cv.lmode = "default" THEN CNone
                   ELSE IF cv.lmode = "half" THEN <<1, 2>>
                   ELSE CRSub(CRSub(COne, om), IF CIsNone(cv.ok) THEN CZero ELSE cv.ok)
         IN /\ args' = [args EXCEPT !.flat = cv.flat, !.ok = cv.ok, !.ol = ol]
            /\ mech' = [mech EXCEPT !.n = j]
    /\ phase' = "curv" /\ UNCHANGED <<zp, objs, chain, dsp>>

HChoices(i, j) ==
    IF HMix THEN LET s == VSortSet(HIdx) IN {s[((3 * i + j) % Len(s)) + 1]} ELSE HIdx

ChooseH ==
    /\ phase = "curv"
    /\ \E k \in HChoices(mech.i, mech.n) : args' = [args EXCEPT !.H0 = HTab[k].H0, !.h = HTab[k].h]
    /\ phase' = "args" /\ mech' = NoMech /\ UNCHANGED <<zp, objs, chain, dsp>>

ChooseZ ==
    /\ phase = "args"
    /\ \E i \in ZIdx : \E j \in ZIdx : zp' = <<ZTab[i], ZTab[j]>>
    /\ phase' = "z" /\ UNCHANGED <<args, objs, chain, dsp, mech>>

\* ---- mechanism: cosmology.py __init__ / extract_parms, line by line -------------------
MExtract(a) ==
    LET okgiven == ~CIsNone(a.ok)
        flat1 == IF okgiven THEN a.ok[1] = 0 ELSE a.flat              \* "if omega_k is not None: flat = (omega_k == 0.0)"
        flat2 == IF ~okgiven THEN TRUE ELSE flat1                       \* "without omega_k set we default to flat"
        ok2   == IF ~okgiven THEN CZero ELSE IF flat1 THEN CZero ELSE a.ok
        ol2   == IF flat2 THEN CRSub(COne, COm(a)) ELSE COl(a)           \* "if flat: omega_l = 1.0 - omega_m"
    IN CParams(a, flat2, ol2, ok2)

\* an object: the inputs it stored (self._flat, _omega_m, _omega_l, _omega_k, _H0) and what it reports
MObject(a) == [inp |-> [flat |-> a.flat, om |-> COm(a), ol |-> COl(a), ok |-> a.ok], rep |-> MExtract(a)]

\* Cosmo.copy() / __copy__ / __deepcopy__: a new instance from the stored inputs and _H0
MCopyArgs(o)   == [H0 |-> o.rep.H0, h |-> CNone, flat |-> o.inp.flat, om |-> o.inp.om, ol |-> o.inp.ol, ok |-> o.inp.ok]
\* __reduce__: (H0(), None, bool(flat()), omega_m(), omega_l(), omega_k()) - the reported values
\* (deviating variant: a __reduce__ that forgets the curvature)
MPickleArgs(o) == [H0 |-> o.rep.H0, h |-> CNone, flat |-> o.rep.flat, om |-> o.rep.om, ol |-> o.rep.ol,
                   ok |-> IF Deviate THEN CNone ELSE o.rep.ok]

Construct ==
    /\ phase = "args"
    /\ objs' = <<MObject(args)>> /\ phase' = "obj"
    /\ UNCHANGED <<args, zp, chain, dsp, mech>>

CopyAct ==
    /\ phase = "obj" /\ Len(chain) < ChainLen
    /\ \E k \in CCopyKinds :
         LET o == objs[Len(objs)]
             a == IF k = "pickle" THEN MPickleArgs(o) ELSE MCopyArgs(o)
         IN objs' = Append(objs, MObject(a)) /\ chain' = Append(chain, k)
    /\ UNCHANGED <<phase, args, zp, dsp, mech>>

\* ---- dispatch machine ---------------------------------------------------------------
\* the representations, in a fixed order (the covering design cycles through them by index)
DtAll  == <<"f8", "f4", "i8", "i4", ">f8", ">f4", ">i8">>
LayAll == <<"contig", "strided", "reversed", "f2d">>
DtSeq  == SelectSeq(DtAll, LAMBDA d : d \in Dts)
LaySeq == SelectSeq(LayAll, LAMBDA l : l \in Lays)
ScalarReps == << CRep("pyfloat", "float", "na", 0), CRep("pyint", "int", "na", 0),
                 CRep("npscalar", "f8", "na", 0), CRep("npscalar", "f4", "na", 0), CRep("npscalar", "i8", "na", 0) >>
ZeroReps   == IF "zerod" \in Lays THEN [k \in 1..Len(DtSeq) |-> CRep("ndarray", DtSeq[k], "zerod", 0)] ELSE <<>>
SeqReps(n) == << CRep("list", "float", "na", n), CRep("list", "int", "na", n),
                 CRep("tuple", "float", "na", n), CRep("tuple", "int", "na", n) >>
NdReps(n, lays) == [k \in 1..(Len(DtSeq) * Len(lays)) |->
                       CRep("ndarray", DtSeq[((k - 1) % Len(DtSeq)) + 1], lays[((k - 1) \div Len(DtSeq)) + 1], n)]
Lay1D == SelectSeq(LaySeq, LAMBDA l : l # "f2d")
ArrReps1D(n) == SeqReps(n) \o NdReps(n, Lay1D)                            \* one-dimensional, length n
ArrReps(n)   == SeqReps(n) \o NdReps(n, LaySeq)
RECURSIVE ArrUpTo(_)
ArrUpTo(n) == IF n = 0 THEN <<>> ELSE ArrUpTo(n - 1) \o ArrReps(n)
RepSeq == ScalarReps \o ZeroReps \o ArrUpTo(MaxLen)
RepSet == VRange(RepSeq)

\* a 2-d argument is paired with a scalar, a 0-d array or a 2-d array of the same shape only (the property's
\* quantifier is over one-dimensional arguments; what a 2-d / 1-d mixture should do is not stated)
Compatible(sa, sb) ==
    /\ CIs2D(sa) => (CIsScalarRep(sb) \/ CIsZeroD(sb) \/ (CIs2D(sb) /\ sb.len = sa.len))
    /\ CIs2D(sb) => (CIsScalarRep(sa) \/ CIsZeroD(sa) \/ (CIs2D(sa) /\ sa.len = sb.len))

\* covering design: every (quantity, argument position, representation) meets a scalar partner, an array partner
\* of matching length and - every third time - an array partner of another length; the partners cycle through
\* all scalar / all one-dimensional representations with the index of the focus and of the quantity
QSeq == <<"Dc", "Dm", "Da", "Dl", "sigmacritinv", "Ez_inverse", "dV", "distmod">>
QIdx(q) == CHOOSE i \in 1..Len(QSeq) : QSeq[i] = q
Partners(k, qi) ==
    LET r  == RepSeq[k]
        n  == IF CIsScalarRep(r) \/ CIsZeroD(r) THEN ((k + qi) % MaxLen) + 1 ELSE r.len
        a1 == ArrReps1D(n)
        sc == ScalarReps[((k + qi) % Len(ScalarReps)) + 1]
        ar == IF CIs2D(r) THEN CRep("ndarray", DtSeq[((k + qi) % Len(DtSeq)) + 1], "f2d", r.len)
              ELSE a1[((3 * k + qi) % Len(a1)) + 1]
        mm == CRep("ndarray", "f8", "contig", (n % MaxLen) + 1)
    IN {sc, ar} \cup (IF ~CIsScalarRep(r) /\ ~CIsZeroD(r) /\ ~CIs2D(r) /\ MaxLen > 1 /\ (k + qi) % 3 = 0 THEN {mm} ELSE {})

ChooseQ ==
    /\ phase = "start"
    /\ \E q \in Quants : dsp' = [dsp EXCEPT !.q = q]
    /\ phase' = "q" /\ UNCHANGED <<args, zp, objs, chain, mech>>

\* first level: the focus representation (index k) and, for two-argument quantities, its position
ChooseSA ==
    /\ phase = "q"
    /\ \E k \in 1..Len(RepSeq) :
          \/ dsp' = [dsp EXCEPT !.sa = RepSeq[k]] /\ mech' = [mech EXCEPT !.i = k, !.n = 1]
          \/ Pairing = "cover" /\ dsp.q \in CTwoArg /\ dsp' = [dsp EXCEPT !.sb = RepSeq[k]] /\ mech' = [mech EXCEPT !.i = k, !.n = 2]
    /\ phase' = "sa" /\ UNCHANGED <<args, zp, objs, chain>>

ChooseSB ==
    /\ phase = "sa"
    /\ IF dsp.q \in COneArg THEN dsp' = dsp
       ELSE IF Pairing = "cover"
            THEN \E s \in Partners(mech.i, QIdx(dsp.q)) :
                    dsp' = IF mech.n = 1 THEN [dsp EXCEPT !.sb = s] ELSE [dsp EXCEPT !.sa = s]
            ELSE \E s \in RepSet : Compatible(dsp.sa, s) /\ dsp' = [dsp EXCEPT !.sb = s]
    /\ phase' = "shaped" /\ mech' = [NoMech EXCEPT !.pc = "classify"]
    /\ UNCHANGED <<args, zp, objs, chain>>

\* cosmology.py: the isscalar() ladder (numpy.isscalar is False for lists, tuples and every ndarray, 0-d included)
MIsArr(s) == ~CIsScalarRep(s)
\* _as_c_order = atleast_1d(asarray(f8, C order)): len() and PyArray_SIZE of the converted argument
MLen(s)  == IF CIsZeroD(s) THEN 1 ELSE IF CIs2D(s) THEN 2 ELSE s.len
MSize(s) == IF CIsZeroD(s) THEN 1 ELSE IF CIs2D(s) THEN 2 * s.len ELSE s.len
Classify ==
    /\ phase = "shaped" /\ mech.pc = "classify"
    /\ LET sa == MIsArr(dsp.sa)  sb == MIsArr(dsp.sb)
           br == IF dsp.q \in COneArg THEN (IF sa THEN "vec" ELSE "scalar")
                 ELSE IF ~sa /\ ~sb THEN "scalar" ELSE IF sa /\ ~sb THEN "vec1" ELSE IF ~sa /\ sb THEN "vec2" ELSE "2vec"
       IN mech' = [mech EXCEPT !.branch = br, !.pc = IF br = "scalar" THEN "call" ELSE "convert"]
    /\ UNCHANGED <<phase, args, zp, objs, chain, dsp>>

\* _as_c_order on the array argument(s); the length test exists on the 2vec branch only
Convert ==
    /\ mech.pc = "convert"
    /\ mech' = IF mech.branch = "2vec" /\ MLen(dsp.sa) # MLen(dsp.sb) /\ ~Deviate      \* (deviating variant: no length test)
               THEN [mech EXCEPT !.pc = "raised"]
               ELSE [mech EXCEPT !.pc = "loop", !.i = 1,
                                 !.n = IF mech.branch = "vec2" THEN MSize(dsp.sb) ELSE MSize(dsp.sa)]   \* PyArray_SIZE of the first array
    /\ UNCHANGED <<phase, args, zp, objs, chain, dsp>>

\* cosmolib_pywrap.c: for (i=0; i<n; i++) res[i] = f(zmin[i] | zmin, zmax[i] | zmax) on the C-ordered copies
Loop ==
    /\ mech.pc = "loop" /\ mech.i <= mech.n
    /\ LET ia == IF mech.branch \in {"vec", "vec1", "2vec"} THEN CIdx(dsp.sa, mech.i) ELSE 0
           ib == IF mech.branch \in {"vec2", "2vec"} THEN CIdx(dsp.sb, mech.i) ELSE 0
       IN mech' = [mech EXCEPT !.pairs = Append(@, <<ia, ib>>), !.i = @ + 1]
    /\ UNCHANGED <<phase, args, zp, objs, chain, dsp>>

Finish ==
    /\ \/ mech.pc = "loop" /\ mech.i > mech.n /\ mech' = [mech EXCEPT !.pc = "array"]
       \/ mech.pc = "call" /\ mech' = [mech EXCEPT !.pc = "scalar", !.pairs = <<<<0, 0>>>>]
    /\ UNCHANGED <<phase, args, zp, objs, chain, dsp>>

\* ---- scale: the concatenation law on the small scope, and the scale cases ------------------
ScaleBlock == 65536
ChooseLaw ==                       \* mech.n = n1, mech.i = n2, mech.pairs = <<B>> : small lengths and block sizes
    /\ phase = "start"
    /\ \E n1 \in 0..7, n2 \in 0..7, b \in 1..5, f \in {"vec", "vec1", "vec2", "2vec"} :
          mech' = [NoMech EXCEPT !.pc = "law", !.branch = f, !.n = n1, !.i = n2, !.pairs = <<b>>]
    /\ phase' = "law" /\ UNCHANGED <<args, zp, objs, chain, dsp>>
RECURSIVE ConcatBlocks(_, _, _)
ConcatBlocks(f, bl, k) == IF k > Len(bl) THEN <<>> ELSE CScalePairs(f, bl[k][1], bl[k][2]) \o ConcatBlocks(f, bl, k + 1)
ScaleLaw == phase = "law" =>
    LET f == mech.branch  n1 == mech.n  n2 == mech.i  b == mech.pairs[1]  n == n1 + n2
        rep == CRep("ndarray", "f8", "contig", n)
        sc  == CRep("pyfloat", "float", "na", 0)
        sa  == IF f = "vec2" THEN sc ELSE rep
        sb  == IF f = "vec" THEN CAbsent ELSE IF f = "vec1" THEN sc ELSE rep
    IN /\ CScalePairs(f, 0, n) = CScalePairs(f, 0, n1) \o CScalePairs(f, n1, n2)              \* F(a \o b) = F(a) \o F(b)
       /\ n >= 1 => ConcatBlocks(f, CBlocks(n, b), 1) = CScalePairs(f, 0, n)                  \* ... over any block partition
       /\ n >= 1 => (CScaleSamples(n, b) \subseteq 1..n /\ \A k \in DOMAIN CBlocks(n, b) :
                        {CBlocks(n, b)[k][1] + 1, CBlocks(n, b)[k][1] + CBlocks(n, b)[k][2]} \subseteq CScaleSamples(n, b))
       /\ (n \in 1..3) => CDispatchSet(sa, sb) = {[kind |-> "array", pairs |-> CScalePairs(f, 0, n)]}   \* the small scope of section 6
       /\ \A i \in 1..n : CScalePair(f, i) = CScalePair(f, i + 3)                               \* tiling with period 3

ChooseScaleQ ==
    /\ phase = "start"
    /\ \E q \in Quants : \E f \in CFormsOf(q) : dsp' = [dsp EXCEPT !.q = q] /\ mech' = [NoMech EXCEPT !.pc = "scale", !.branch = f]
    /\ phase' = "scq" /\ UNCHANGED <<args, zp, objs, chain>>
ChooseScaleN ==
    /\ phase = "scq"
    /\ \E n \in ScaleLens : mech' = [mech EXCEPT !.n = n]
    /\ phase' = "scale" /\ UNCHANGED <<args, zp, objs, chain, dsp>>
NextScale == ChooseLaw \/ ChooseScaleQ \/ ChooseScaleN
NextScaleExport == ChooseScaleQ \/ ChooseScaleN

\* ---- concurrency: NThreads threads call one shared object; one action per atomic step --------
\* Thread t evaluates NElem elements of a call whose scalar argument (the lens redshift) is its own, t.
\* Values are uninterpreted tokens.  The real routines only READ the shared struct (TElem).  The deviating
\* variant memoises the lens distance ON the shared struct in three unsynchronised steps.
NElem == 2
TDa(z)        == <<"Da", z>>
TElemVal(dl, t, i) == <<"scinv", dl, t, i>>
TSeq(t)       == [i \in 1..NElem |-> TElemVal(TDa(t), t, i)]               \* the sequential answer
ChooseThreadsQ ==
    /\ phase = "start"
    /\ \E q \in Quants : \E f \in CFormsOf(q) : dsp' = [dsp EXCEPT !.q = q]
          /\ mech' = [pc |-> "threads", branch |-> f, n |-> NElem, i |-> 0, pairs |-> <<>>,
                      th |-> [t \in 1..NThreads |-> [pc |-> "elem", i |-> 1, dl |-> TDa(0), out |-> <<>>]],
                      memo |-> [z |-> 0, da |-> TDa(0)]]
    /\ phase' = "thr" /\ UNCHANGED <<args, zp, objs, chain>>
TStep(t) ==
    /\ phase = "thr"
    /\ LET me == mech.th[t] IN
       \/ /\ ~Deviate /\ me.pc = "elem" /\ me.i <= NElem                       \* scinv(): reads parameters only
          /\ mech' = [mech EXCEPT !.th[t].out = Append(@, TElemVal(TDa(t), t, me.i)), !.th[t].i = @ + 1]
       \/ /\ Deviate /\ me.pc = "elem" /\ me.i <= NElem                        \* if (zl != c->lens_z)
          /\ mech' = [mech EXCEPT !.th[t].pc = IF mech.memo.z # t THEN "fill1" ELSE "use"]
       \/ /\ me.pc = "fill1" /\ mech' = [mech EXCEPT !.memo.da = TDa(t), !.th[t].pc = "fill2"]     \* c->lens_da = Da(0, zl)
       \/ /\ me.pc = "fill2" /\ mech' = [mech EXCEPT !.memo.z = t, !.th[t].pc = "use"]             \* c->lens_z = zl
       \/ /\ me.pc = "use"                                                                        \* dl = c->lens_da; ...
          /\ mech' = [mech EXCEPT !.th[t].out = Append(@, TElemVal(mech.memo.da, t, me.i)), !.th[t].i = @ + 1, !.th[t].pc = "elem"]
       \/ /\ me.pc = "elem" /\ me.i > NElem /\ mech' = [mech EXCEPT !.th[t].pc = "done"]
    /\ UNCHANGED <<phase, args, zp, objs, chain, dsp>>
TStepAny == \E t \in 1..NThreads : TStep(t)
NextThreads == ChooseThreadsQ \/ TStepAny
ThreadsSequential == phase = "thr" => \A t \in 1..NThreads : mech.th[t].pc = "done" => mech.th[t].out = TSeq(t)

\* ---- cases chosen outside the model (seeded sample): TLC derives their exact side ------
FileCases == ndJsonDeserialize(IOEnv.CASE_FILE)
FBlock == 128
ChooseFileBlock ==
    /\ phase = "start"
    /\ \E bk \in 1..((Len(FileCases) + FBlock - 1) \div FBlock) : mech' = [mech EXCEPT !.n = bk]
    /\ phase' = "fblock" /\ UNCHANGED <<args, zp, objs, chain, dsp>>
ChooseFileCase ==
    /\ phase = "fblock"
    /\ \E t \in ((mech.n - 1) * FBlock + 1)..VMin2(mech.n * FBlock, Len(FileCases)) :
          /\ args' = FileCases[t].args /\ zp' = <<FileCases[t].a, FileCases[t].b>> /\ mech' = [mech EXCEPT !.i = t]
    /\ phase' = "z" /\ UNCHANGED <<objs, chain, dsp>>
NextFile == ChooseFileBlock \/ ChooseFileCase

NextCtor     == ChooseOm \/ ChooseCurv \/ ChooseH
NextScalar   == NextCtor \/ ChooseZ
NextCopy     == NextCtor \/ Construct \/ CopyAct
NextDispatch == ChooseQ \/ ChooseSA \/ ChooseSB \/ Classify \/ Convert \/ Loop \/ Finish
NextDispatchExport == ChooseQ \/ ChooseSA \/ ChooseSB
Next == NextScalar \/ NextCopy \/ NextDispatch \/ NextThreads

\* ---- properties ----------------------------------------------------------------------
HaveArgs == phase \in {"args", "z", "obj"}

\* the property-level normalisation is well formed: every allowed outcome satisfies the invariant,
\* and the statement's two rules are visible in it
NormaliseSound == HaveArgs =>
    /\ \A k \in DOMAIN CNormalise(args) : CNormInv(CNormalise(args)[k])
    /\ (args.flat /\ COkZero(args)) => CNormalise(args) = <<CFlatOut(args)>>
    /\ \A k \in DOMAIN CNormalise(args) : CNormalise(args)[k].H0 = CH0(args)

\* the transcribed extract_parms refines the property
MechNormRefines == HaveArgs => \E k \in DOMAIN CNormalise(args) : CNormalise(args)[k] = MExtract(args)

\* copies: every object of the graph reports what the root reports
MechCopyRefines == phase = "obj" => \A i \in DOMAIN objs : objs[i].rep = objs[1].rep

\* dispatch: the code's ladder and loop produce an outcome the property allows
MechDispatchRefines ==
    LET A == CDispatchSet(dsp.sa, dsp.sb) IN
    /\ mech.pc \in {"array", "scalar"} => [kind |-> mech.pc, pairs |-> mech.pairs] \in A
    /\ mech.pc = "raised" => \E e \in A : e.kind = "rejected"
    /\ (phase = "shaped" /\ \A e \in A : e.kind = "rejected") => mech.pc \in {"classify", "convert", "raised"}
\* the enumeration is well formed (lattice sanity of the representation space)
RepsSound == phase = "shaped" =>
    /\ dsp.sa \in RepSet /\ (dsp.q \in CTwoArg => dsp.sb \in RepSet) /\ (dsp.q \in COneArg => dsp.sb = CAbsent)
    /\ Compatible(dsp.sa, dsp.sb) /\ CDispatchSet(dsp.sa, dsp.sb) # {}

\* every physical grid cosmology has a positive integrand at every grid redshift (lattice sanity)
E2Positive == phase = "z" =>
    \A k \in DOMAIN CNormalise(args) :
        LET p == CNormalise(args)[k]  zh == CRMax2(zp[1], zp[2])
        IN CPhysical(p, zh) => (CRLt(CZero, CE2(p, zp[1])) /\ CRLt(CZero, CE2(p, zp[2])))

\* ---- export ---------------------------------------------------------------------------
OutsFor(a, z1, z2) ==
    [k \in DOMAIN CNormalise(a) |->
        LET p == CNormalise(a)[k]
        IN [p |-> p, der |-> CDerived(p, z1, z2), need |-> CNeeded(p, z1, z2)]]

ExportCtor     == (DoExport /\ phase = "args") => PrintT(<<"CASE", ToJson([t |-> "ctor", args |-> args])>>)
ExportScalar   == /\ (DoExport /\ phase = "start") => PrintT(<<"IDENT", ToJson(CCatalogue)>>)
                  /\ (DoExport /\ phase = "z") =>
                        PrintT(<<"CASE", ToJson([t |-> "scalar", args |-> args, a |-> zp[1], b |-> zp[2],
                                                  outs |-> OutsFor(args, zp[1], zp[2])])>>)
ExportFile     == (DoExport /\ phase = "z") =>
                        PrintT(<<"CASE", ToJson([t |-> "scalar", args |-> args, a |-> zp[1], b |-> zp[2],
                                                  outs |-> OutsFor(args, zp[1], zp[2])])>>)
ExportIdent    == (DoExport /\ phase = "start") => PrintT(<<"IDENT", ToJson(CCatalogue)>>)
ExportCopy     == (DoExport /\ phase = "obj" /\ chain # <<>>) =>
                        PrintT(<<"CASE", ToJson([t |-> "copy", args |-> args, chain |-> chain])>>)
ExportDispatch == (DoExport /\ phase = "shaped") =>
                        PrintT(<<"CASE", ToJson([t |-> "dispatch", q |-> dsp.q, sa |-> dsp.sa, sb |-> dsp.sb,
                                                  allowed |-> CDispatchSet(dsp.sa, dsp.sb)])>>)
ExportScale    == (DoExport /\ phase = "scale") =>
                        PrintT(<<"CASE", ToJson([t |-> "scale", q |-> dsp.q, form |-> mech.branch, n |-> mech.n, block |-> ScaleBlock,
                                                  samples |-> LET ps == VSortSet(CScaleSamples(mech.n, ScaleBlock))
                                                              IN [j \in 1..Len(ps) |-> <<ps[j], CScalePair(mech.branch, ps[j])[1],
                                                                                          CScalePair(mech.branch, ps[j])[2]>>]])>>)
ExportThreads  == (DoExport /\ phase = "thr") =>
                        PrintT(<<"CASE", ToJson([t |-> "threads", q |-> dsp.q, form |-> mech.branch])>>)
=============================================================================
