------------------------------- MODULE CosmoMC -------------------------------
(* Bounded model of esutil.cosmology.Cosmo.  Four sub-machines share one Init:    *)
(*                                                                                *)
(*  NextCtor      ChooseOm, ChooseCurv, ChooseH: every constructor-argument       *)
(*                combination of the rational grid.  Invariant MechNormRefines:   *)
(*                cosmology.py's extract_parms (transcribed, MExtract) yields a   *)
(*                reported parameter set the property allows.                     *)
(*  NextScalar    ... then ChooseZ: every redshift pair (both orders).            *)
(*  NextCopy      ... then Construct and up to ChainLen copy actions (copy(),     *)
(*                copy.copy, copy.deepcopy, pickle round trip) on the object      *)
(*                graph; the mechanism re-runs the constructor on the *stored     *)
(*                inputs* (copy) or on the *reported parameters* (__reduce__).    *)
(*                Invariant MechCopyRefines: every object reports what the root   *)
(*                reports.                                                        *)
(*  NextDispatch  ChooseQ, ChooseSA, ChooseSB, then the code's dispatch as steps  *)
(*                Classify / Convert / Loop / Finish.  Invariant                  *)
(*                MechDispatchRefines: result = CDispatch.                        *)
(*                                                                                *)
(* With DoExport the enumerated cases are printed as JSON; the harness executes   *)
(* every one of them against the real code and CosmoTrace.tla judges the records. *)
EXTENDS Cosmo, Json, IOUtils

CONSTANTS OmIdx,       \* subset of DOMAIN OmTab
          CurvIdx,     \* subset of DOMAIN CurvTab
          HIdx,        \* subset of DOMAIN HTab
          HMix,        \* TRUE: one H choice per (om, curv), picked round-robin from HIdx
          ZIdx,        \* subset of DOMAIN ZTab
          ChainLen,    \* copy chains of length 1..ChainLen
          Kinds,       \* array-like kinds of the dispatch machine
          MaxLen,      \* array lengths 1..MaxLen
          DoExport,
          Deviate      \* TRUE: the mechanisms deviate (self-test of the refinement invariants)

VARIABLES phase, args, zp, objs, chain, dsp, mech
vars == <<phase, args, zp, objs, chain, dsp, mech>>

\* ---- the rational grid -----------------------------------------------------------
OmTab == << <<1, 10>>, <<3, 10>>, <<1, 1>>, <<3, 2>>, CNone >>          \* CNone: keyword not passed (0.3)

\* curvature specification: [flat, ok, lmode]; lmode "closure": ol = 1 - om - ok, "default": not passed (0.7),
\* "half": ol = 1/2 passed explicitly
CurvTab == <<
  [flat |-> TRUE,  ok |-> CNone,       lmode |-> "default"],     \*  1 flat, the documented default
  [flat |-> TRUE,  ok |-> CZero,       lmode |-> "default"],     \*  2 flat with omega_k = 0 spelled out
  [flat |-> FALSE, ok |-> <<-1, 2>>,   lmode |-> "closure"],     \*  3..6 curved, om + ok + ol = 1
  [flat |-> FALSE, ok |-> <<-1, 10>>,  lmode |-> "closure"],
  [flat |-> FALSE, ok |-> <<1, 10>>,   lmode |-> "closure"],
  [flat |-> FALSE, ok |-> <<1, 2>>,    lmode |-> "closure"],
  [flat |-> FALSE, ok |-> <<-1, 2>>,   lmode |-> "default"],     \*  7..10 curved, omega_l left at its default
  [flat |-> FALSE, ok |-> <<-1, 10>>,  lmode |-> "default"],
  [flat |-> FALSE, ok |-> <<1, 10>>,   lmode |-> "default"],
  [flat |-> FALSE, ok |-> <<1, 2>>,    lmode |-> "default"],
  [flat |-> TRUE,  ok |-> <<1, 10>>,   lmode |-> "closure"],     \* 11 flat=True with curvature: statement silent
  [flat |-> FALSE, ok |-> CNone,       lmode |-> "half"],        \* 12 flat=False without curvature: silent
  [flat |-> FALSE, ok |-> CZero,       lmode |-> "half"],        \* 13 flat=False with omega_k = 0: silent
  [flat |-> TRUE,  ok |-> CNone,       lmode |-> "half"],        \* 14 flat must override an explicit omega_l
  [flat |-> TRUE,  ok |-> <<-1, 2>>,   lmode |-> "default"]      \* 15 silent again, other sign
>>

HTab == << [H0 |-> CNone,      h |-> CNone],          \* 1 default H0 = 100
           [H0 |-> <<70, 1>>,  h |-> CNone],
           [H0 |-> <<30, 1>>,  h |-> CNone],
           [H0 |-> <<120, 1>>, h |-> CNone],
           [H0 |-> CNone,      h |-> <<7, 10>>],      \* 5 h alone
           [H0 |-> <<70, 1>>,  h |-> <<3, 10>>],      \* 6 h overrides H0
           [H0 |-> CNone,      h |-> <<18, 25>>],
           [H0 |-> <<30, 1>>,  h |-> <<6, 5>>],
           \* 57: binary64 round trips H0/100*100 and c/(c/H0) do not return H0 (copies that rebuild H0 by arithmetic show up)
           [H0 |-> <<57, 1>>,  h |-> CNone],
           [H0 |-> CNone,      h |-> <<57, 100>>] >>

\* redshifts: dyadic (exact in binary64) plus a few decimals; 9/16, 5/4, 33/16, 3 are EdS anchors
ZTab == << <<0, 1>>, <<1, 8>>, <<1, 4>>, <<1, 2>>, <<9, 16>>, <<3, 4>>, <<1, 1>>, <<5, 4>>, <<3, 2>>, <<2, 1>>,
           <<33, 16>>, <<3, 1>>, <<4, 1>>, <<5, 1>>, <<1, 10>>, <<7, 10>>, <<21, 10>> >>

NoArgs == [H0 |-> CNone, h |-> CNone, flat |-> TRUE, om |-> CNone, ol |-> CNone, ok |-> CNone]
NoShape == [kind |-> "absent", len |-> 0]
NoDsp == [q |-> "", sa |-> NoShape, sb |-> NoShape]
NoMech == [pc |-> "idle", branch |-> "", n |-> 0, i |-> 0, pairs |-> <<>>]

Init == /\ phase = "start" /\ args = NoArgs /\ zp = <<CZero, CZero>> /\ objs = <<>> /\ chain = <<>>
        /\ dsp = NoDsp /\ mech = NoMech

\* ---- constructor arguments (three levels, so that workers share the enumeration) ---
ChooseOm ==
    /\ phase = "start"
    /\ \E i \in OmIdx : args' = [args EXCEPT !.om = OmTab[i]] /\ mech' = [mech EXCEPT !.i = i]
    /\ phase' = "om" /\ UNCHANGED <<zp, objs, chain, dsp>>

ChooseCurv ==
    /\ phase = "om"
    /\ \E j \in CurvIdx :
         LET cv == CurvTab[j]
             om == COm(args)
             ol == IF cv.lmode = "default" THEN CNone
                   ELSE IF cv.lmode = "half" THEN <<1, 2>>
                   ELSE CRSub(CRSub(COne, om), IF CIsNone(cv.ok) THEN CZero ELSE cv.ok)
         IN /\ args' = [args EXCEPT !.flat = cv.flat, !.ok = cv.ok, !.ol = ol]
            /\ mech' = [mech EXCEPT !.n = j]
    /\ phase' = "curv" /\ UNCHANGED <<zp, objs, chain, dsp>>

HChoices(i, j) ==
    IF HMix THEN LET s == VSortSet(HIdx) IN {s[((3 * i + j) % Len(s)) + 1]} ELSE HIdx

ChooseH ==
    /\ phase = "curv"
    /\ \E k \in HChoices(mech.i, mech.n) : args' = [args EXCEPT !.H0 = HTab[k].H0, !.h = HTab[k].h]
    /\ phase' = "args" /\ mech' = NoMech /\ UNCHANGED <<zp, objs, chain, dsp>>

ChooseZ ==
    /\ phase = "args"
    /\ \E i \in ZIdx : \E j \in ZIdx : zp' = <<ZTab[i], ZTab[j]>>
    /\ phase' = "z" /\ UNCHANGED <<args, objs, chain, dsp, mech>>

\* ---- mechanism: cosmology.py __init__ / extract_parms, line by line -------------------
MExtract(a) ==
    LET okgiven == ~CIsNone(a.ok)
        flat1 == IF okgiven THEN a.ok[1] = 0 ELSE a.flat              \* "if omega_k is not None: flat = (omega_k == 0.0)"
        flat2 == IF ~okgiven THEN TRUE ELSE flat1                       \* "without omega_k set we default to flat"
        ok2   == IF ~okgiven THEN CZero ELSE IF flat1 THEN CZero ELSE a.ok
        ol2   == IF flat2 THEN CRSub(COne, COm(a)) ELSE COl(a)           \* "if flat: omega_l = 1.0 - omega_m"
    IN CParams(a, flat2, ol2, ok2)

\* an object: the inputs it stored (self._flat, _omega_m, _omega_l, _omega_k, _H0) and what it reports
MObject(a) == [inp |-> [flat |-> a.flat, om |-> COm(a), ol |-> COl(a), ok |-> a.ok], rep |-> MExtract(a)]

\* Cosmo.copy() / __copy__ / __deepcopy__: a new instance from the stored inputs and _H0
MCopyArgs(o)   == [H0 |-> o.rep.H0, h |-> CNone, flat |-> o.inp.flat, om |-> o.inp.om, ol |-> o.inp.ol, ok |-> o.inp.ok]
\* __reduce__: (H0(), None, bool(flat()), omega_m(), omega_l(), omega_k()) - the reported values
\* (deviating variant: a __reduce__ that forgets the curvature)
MPickleArgs(o) == [H0 |-> o.rep.H0, h |-> CNone, flat |-> o.rep.flat, om |-> o.rep.om, ol |-> o.rep.ol,
                   ok |-> IF Deviate THEN CNone ELSE o.rep.ok]

Construct ==
    /\ phase = "args"
    /\ objs' = <<MObject(args)>> /\ phase' = "obj"
    /\ UNCHANGED <<args, zp, chain, dsp, mech>>

CopyAct ==
    /\ phase = "obj" /\ Len(chain) < ChainLen
    /\ \E k \in CCopyKinds :
         LET o == objs[Len(objs)]
             a == IF k = "pickle" THEN MPickleArgs(o) ELSE MCopyArgs(o)
         IN objs' = Append(objs, MObject(a)) /\ chain' = Append(chain, k)
    /\ UNCHANGED <<phase, args, zp, dsp, mech>>

\* ---- dispatch machine ---------------------------------------------------------------
Shapes == {[kind |-> "scalar", len |-> 0]} \cup {[kind |-> k, len |-> n] : k \in Kinds, n \in 1..MaxLen}

ChooseQ ==
    /\ phase = "start"
    /\ \E q \in CTwoArg \cup COneArg : dsp' = [dsp EXCEPT !.q = q]
    /\ phase' = "q" /\ UNCHANGED <<args, zp, objs, chain, mech>>

ChooseSA ==
    /\ phase = "q"
    /\ \E s \in Shapes : dsp' = [dsp EXCEPT !.sa = s]
    /\ phase' = "sa" /\ UNCHANGED <<args, zp, objs, chain, mech>>

ChooseSB ==
    /\ phase = "sa"
    /\ IF dsp.q \in COneArg THEN dsp' = dsp ELSE \E s \in Shapes : dsp' = [dsp EXCEPT !.sb = s]
    /\ phase' = "shaped" /\ mech' = [NoMech EXCEPT !.pc = "classify"]
    /\ UNCHANGED <<args, zp, objs, chain>>

\* cosmology.py: the isscalar() ladder
Classify ==
    /\ phase = "shaped" /\ mech.pc = "classify"
    /\ LET sa == CIsArr(dsp.sa)  sb == CIsArr(dsp.sb)
           br == IF dsp.q \in COneArg THEN (IF sa THEN "vec" ELSE "scalar")
                 ELSE IF ~sa /\ ~sb THEN "scalar" ELSE IF sa /\ ~sb THEN "vec1" ELSE IF ~sa /\ sb THEN "vec2" ELSE "2vec"
       IN mech' = [mech EXCEPT !.branch = br, !.pc = IF br = "scalar" THEN "call" ELSE "convert"]
    /\ UNCHANGED <<phase, args, zp, objs, chain, dsp>>

\* _as_c_order on the array argument(s); the length test exists on the 2vec branch only
Convert ==
    /\ mech.pc = "convert"
    /\ mech' = IF mech.branch = "2vec" /\ dsp.sa.len # dsp.sb.len /\ ~Deviate      \* (deviating variant: no length test)
               THEN [mech EXCEPT !.pc = "raised"]
               ELSE [mech EXCEPT !.pc = "loop", !.i = 1,
                                 !.n = IF mech.branch = "vec2" THEN dsp.sb.len ELSE dsp.sa.len]   \* PyArray_SIZE of the first array
    /\ UNCHANGED <<phase, args, zp, objs, chain, dsp>>

\* cosmolib_pywrap.c: for (i=0; i<n; i++) res[i] = f(zmin[i] | zmin, zmax[i] | zmax)
Loop ==
    /\ mech.pc = "loop" /\ mech.i <= mech.n
    /\ LET ia == IF mech.branch \in {"vec", "vec1", "2vec"} THEN mech.i ELSE 0
           ib == IF mech.branch \in {"vec2", "2vec"} THEN mech.i ELSE 0
       IN mech' = [mech EXCEPT !.pairs = Append(@, <<ia, ib>>), !.i = @ + 1]
    /\ UNCHANGED <<phase, args, zp, objs, chain, dsp>>

Finish ==
    /\ \/ mech.pc = "loop" /\ mech.i > mech.n /\ mech' = [mech EXCEPT !.pc = "array"]
       \/ mech.pc = "call" /\ mech' = [mech EXCEPT !.pc = "scalar", !.pairs = <<<<0, 0>>>>]
    /\ UNCHANGED <<phase, args, zp, objs, chain, dsp>>

\* ---- cases chosen outside the model (seeded sample): TLC derives their exact side ------
FileCases == ndJsonDeserialize(IOEnv.CASE_FILE)
FBlock == 128
ChooseFileBlock ==
    /\ phase = "start"
    /\ \E bk \in 1..((Len(FileCases) + FBlock - 1) \div FBlock) : mech' = [mech EXCEPT !.n = bk]
    /\ phase' = "fblock" /\ UNCHANGED <<args, zp, objs, chain, dsp>>
ChooseFileCase ==
    /\ phase = "fblock"
    /\ \E t \in ((mech.n - 1) * FBlock + 1)..VMin2(mech.n * FBlock, Len(FileCases)) :
          /\ args' = FileCases[t].args /\ zp' = <<FileCases[t].a, FileCases[t].b>> /\ mech' = [mech EXCEPT !.i = t]
    /\ phase' = "z" /\ UNCHANGED <<objs, chain, dsp>>
NextFile == ChooseFileBlock \/ ChooseFileCase

NextCtor     == ChooseOm \/ ChooseCurv \/ ChooseH
NextScalar   == NextCtor \/ ChooseZ
NextCopy     == NextCtor \/ Construct \/ CopyAct
NextDispatch == ChooseQ \/ ChooseSA \/ ChooseSB \/ Classify \/ Convert \/ Loop \/ Finish
NextDispatchExport == ChooseQ \/ ChooseSA \/ ChooseSB
Next == NextScalar \/ NextCopy \/ NextDispatch

\* ---- properties ----------------------------------------------------------------------
HaveArgs == phase \in {"args", "z", "obj"}

\* the property-level normalisation is well formed: every allowed outcome satisfies the invariant,
\* and the statement's two rules are visible in it
NormaliseSound == HaveArgs =>
    /\ \A k \in DOMAIN CNormalise(args) : CNormInv(CNormalise(args)[k])
    /\ (args.flat /\ COkZero(args)) => CNormalise(args) = <<CFlatOut(args)>>
    /\ \A k \in DOMAIN CNormalise(args) : CNormalise(args)[k].H0 = CH0(args)

\* the transcribed extract_parms refines the property
MechNormRefines == HaveArgs => \E k \in DOMAIN CNormalise(args) : CNormalise(args)[k] = MExtract(args)

\* copies: every object of the graph reports what the root reports
MechCopyRefines == phase = "obj" => \A i \in DOMAIN objs : objs[i].rep = objs[1].rep

\* dispatch: the code's ladder and loop compute CDispatch
MechDispatchRefines ==
    /\ mech.pc \in {"array", "scalar"} => [kind |-> mech.pc, pairs |-> mech.pairs] = CDispatch(dsp.sa, dsp.sb)
    /\ mech.pc = "raised" => CDispatch(dsp.sa, dsp.sb).kind = "rejected"
    /\ (phase = "shaped" /\ CDispatch(dsp.sa, dsp.sb).kind = "rejected") => mech.pc \in {"classify", "convert", "raised"}

\* every physical grid cosmology has a positive integrand at every grid redshift (lattice sanity)
E2Positive == phase = "z" =>
    \A k \in DOMAIN CNormalise(args) :
        LET p == CNormalise(args)[k]  zh == CRMax2(zp[1], zp[2])
        IN CPhysical(p, zh) => (CRLt(CZero, CE2(p, zp[1])) /\ CRLt(CZero, CE2(p, zp[2])))

\* ---- export ---------------------------------------------------------------------------
OutsFor(a, z1, z2) ==
    [k \in DOMAIN CNormalise(a) |->
        LET p == CNormalise(a)[k]
        IN [p |-> p, der |-> CDerived(p, z1, z2), need |-> CNeeded(p, z1, z2)]]

ExportCtor     == (DoExport /\ phase = "args") => PrintT(<<"CASE", ToJson([t |-> "ctor", args |-> args])>>)
ExportScalar   == /\ (DoExport /\ phase = "start") => PrintT(<<"IDENT", ToJson(CCatalogue)>>)
                  /\ (DoExport /\ phase = "z") =>
                        PrintT(<<"CASE", ToJson([t |-> "scalar", args |-> args, a |-> zp[1], b |-> zp[2],
                                                  outs |-> OutsFor(args, zp[1], zp[2])])>>)
ExportFile     == (DoExport /\ phase = "z") =>
                        PrintT(<<"CASE", ToJson([t |-> "scalar", args |-> args, a |-> zp[1], b |-> zp[2],
                                                  outs |-> OutsFor(args, zp[1], zp[2])])>>)
ExportIdent    == (DoExport /\ phase = "start") => PrintT(<<"IDENT", ToJson(CCatalogue)>>)
ExportCopy     == (DoExport /\ phase = "obj" /\ chain # <<>>) =>
                        PrintT(<<"CASE", ToJson([t |-> "copy", args |-> args, chain |-> chain])>>)
ExportDispatch == (DoExport /\ phase = "shaped") =>
                        PrintT(<<"CASE", ToJson([t |-> "dispatch", q |-> dsp.q, sa |-> dsp.sa, sb |-> dsp.sb,
                                                  expect |-> CDispatch(dsp.sa, dsp.sb)])>>)
=============================================================================
