------------------------------- MODULE CosmoPure -------------------------------
(* Extension X05: the pure-python cosmology (esutil/cosmology_purepy.py: class Cosmo and the      *)
(* module-level convenience functions) and the small helpers of esutil/coords.py that no listed   *)
(* property covers (dec_parse, ra_parse, rect_area, atbound, atbound2, radec2aitoff).             *)
(*                                                                                                *)
(* THE CONTRACT (clauses taken from the documentation; [file: docstring line])                    *)
(*                                                                                                *)
(* A. cosmology_purepy.py                                                                         *)
(*  A1 [module] "This code follows the conventions of Hogg astro-ph/9905116."  "All distances     *)
(*     are in units of Mpc/h unless h is specified."  "DH: Hubble distance c/H."                  *)
(*     -> identity catalogue of Cosmo.tla wherever the API offers the quantity (PCatalogue):      *)
(*        DH = c/H0, Ez_inverse = 1/sqrt(om(1+z)^3 + ok(1+z)^2 + ol) [module: "Ez_inverse(z):     *)
(*        1/sqrt( omega_m*(1+z)**3 + omega_k*(1+z)**2 + omega_l)"], Dc = DH * integral,           *)
(*        Dm flat / sinh / sin, Hogg's addition formula, Da = Dm/(1+z2), Dl = Dm (1+z2),          *)
(*        dV = DH (1+z)^2 Da^2 / E, V = integral of dV, distmod = 5 log10(Dl/10pc),               *)
(*        sigmacritinv = Da(zl,zs) Da(0,zl) / Da(0,zs) * 4 pi G / c^2, 0 for zs <= zl.            *)
(*  A2 [Ezinv_integral] "Gauss-legendre integration. Default of npts=5"; [V] "vnpts: Number of    *)
(*     points in the volume integration. Default is 10"  -> the integral IS the npts-point        *)
(*     Gauss-Legendre sum of the exact integrand, the volume the vnpts-point sum of dV; npts and  *)
(*     vnpts are PARAMETERS of every identity (PCatalogue(n, vn)).                                *)
(*  A3 [functions] "If flat=True, then only omega_m is used, omega_l is set to 1.0 - omega_m,     *)
(*     and omega_k=0.0.   Defaults, 0.3, 0.7, 0.0"  "h: Hubble parameter. Default 1.0"            *)
(*     -> PNormalise for the functions is deterministic.  The class has no such sentence: its     *)
(*     normalisation is Cosmo.tla's CNormalise (flat=True with omega_k # 0 and flat=False         *)
(*     without curvature are silent: both readings allowed).                                      *)
(*  A4 [Dc, Dm, Da, Dl] "z1, z2: The redshifts.  These must either be 1) Two scalars 2) A scalar  *)
(*     and an array. 3) Two arrays of the same length."; [module] "All return values are arrays." *)
(*     -> PDispatchSet: element i of the result is the scalar result on (z1_i, z2_i); other       *)
(*     length combinations are rejected (ValueError); SILENT: whether two scalars give a scalar   *)
(*     or a one-element array (Dc returns a scalar although "all return values are arrays"),      *)
(*     whether a one-element array counts as a scalar, whether "array" includes python lists.     *)
(*     This differs from the C class (which distinguishes by isscalar and returns python floats)  *)
(*     and is modelled separately, not assumed equal.                                             *)
(*  A5 [distmod] "CALLING SEQUENCE: ... d=cosmo.Distmod(z)"  -> the capitalised alias exists.     *)
(*  A6 refinement: for every cosmology and redshift pair zmin <= zmax of the lattice the          *)
(*     pure-python result equals the result of the C-backed esutil.cosmology.Cosmo.  Both are     *)
(*     documented as the n-point Gauss-Legendre sum of the same integrand; the C class has        *)
(*     npts = 5, vnpts = 10 compiled in, so equality is demanded for npts = 5 (vnpts = 10) only,  *)
(*     to the tolerance that follows from clause A2 holding for both (each within 1e-9 of the     *)
(*     sum over the mathematically exact rule: 2 ppb), in units of the own Hubble distance.       *)
(*     C.V is documented as the full-sky volume; purepy's V docstring does not say: per           *)
(*     steradian and full sky are both accepted.  zmin > zmax: the C class is antisymmetric, the  *)
(*     pure-python code takes absolute values, the documentation is silent: nothing demanded.     *)
(*  A7 history independence: results depend on the arguments only, not on earlier calls (the      *)
(*     module keeps the quadrature rule in a global cache, objects keep their own) - PHist.       *)
(*                                                                                                *)
(* B. coords.py                                                                                   *)
(*  B1 [dec_parse] "parse a colon separated string representing declination into degrees.         *)
(*     DD:MM:SS.sss ... Only the degrees are required. ... (i.e. "12" or "12:34" or "12:34:56"    *)
(*     are all valid input strings)"; [ra_parse] "HH:MM:SS.sss if hours is True and DD:MM:SS.sss  *)
(*     if hours is False ... into decimal degrees"  -> PParseSpec (exact rationals).  SILENT: a   *)
(*     sign on an RA string, '+', fields >= 60, more than three fields, malformed numbers.        *)
(*  B2 [rect_area] "Calculate the area of a rectangle on the sphere ... in degrees"               *)
(*     -> (sin(lat_max) - sin(lat_min)) (lon_max - lon_min) 180/pi square degrees, exact where    *)
(*     the sines are rational.                                                                    *)
(*  B3 atbound / atbound2 have NO docstring.  What the names and the only callers (eq2sdss,       *)
(*     sdss2eq) say: atbound(longitude, minval, maxval) shifts the elements of the array IN PLACE *)
(*     by whole turns into [minval, maxval]; atbound2(theta, phi) normalises a (latitude,         *)
(*     longitude) pair IN PLACE to the same point of the sphere with theta in [-90, 90] and phi   *)
(*     in [0, 360].  Nothing else is demanded (which representative when the interval is wider    *)
(*     than a turn, what happens when it is narrower, the longitude at a pole, the return value). *)
(*  B4 [radec2aitoff] "Take the ra/dec into aitoff coords"  -> finite, |x| <= 180, |y| <= 90,     *)
(*     mirror symmetries in dec and about ra = 0 (shiftra: "wrapped to be [-180,180]").           *)
EXTENDS Cosmo

\* =====================================================================================
\* A. pure-python cosmology
\* =====================================================================================
PDefN  == 5          \* documented default npts
PDefVn == 10         \* documented default vnpts
PNpts(n)   == IF n = 0 THEN PDefN ELSE n          \* 0 = keyword not passed
PVnpts(vn) == IF vn = 0 THEN PDefVn ELSE vn

\* ---- A3. parameter normalisation ---------------------------------------------------------
\* args = [H0, h, ok, om, ol : rational | CNone (not passed), flat : BOOLEAN]; the functions take no H0
\* functions, flat = FALSE: the curvature that was passed (default 0.0); p.flat then only says "omega_k = 0"
\* (Hogg: Dm = Dc), omega_l stays what was passed - a parameter set the C class cannot represent
PFnCurvOut(a) == LET ok == IF CIsNone(a.ok) THEN CZero ELSE a.ok IN CParams(a, ok[1] = 0, COl(a), ok)
PNormalise(api, a) ==
    IF api = "class" THEN CNormalise(a)
    ELSE IF a.flat THEN <<CFlatOut(a)>> ELSE <<PFnCurvOut(a)>>

\* reported parameters against the arguments: rep = [H0, DH, flat, om, ol, ok] (class: attributes h, flat,
\* omega_m, omega_l, omega_k and DH(); functions: _extract_omegas; H0/DH are judged for the class only -
\* the functions' DH(h) is the identity "dh")
PNormName(f) == CASE f = "H0" -> "norm_H0" [] f = "flat" -> "norm_flat" [] f = "om" -> "norm_omega_m"
                  [] f = "ol" -> "norm_omega_l" [] f = "ok" -> "norm_omega_k"
PParamFails(api, a, rep) ==
    LET outs == PNormalise(api, a)
        F == IF api = "class" THEN {"H0", "flat", "om", "ol", "ok"} ELSE {"om", "ol", "ok"}
        same(o) == \A f \in F : o[f] = rep[f]
        agree(f) == \E k \in DOMAIN outs : outs[k][f] = rep[f]
    IN IF \E k \in DOMAIN outs : same(outs[k]) THEN {}
       ELSE LET bad == {PNormName(f) : f \in {g \in F : ~agree(g)}}
            IN IF bad = {} THEN {"norm_combination"} ELSE bad
\* the allowed reading the code took (index into PNormalise), 0 if none
PReading(api, a, rep) ==
    LET outs == PNormalise(api, a)
        F == IF api = "class" THEN {"H0", "flat", "om", "ol", "ok"} ELSE {"om", "ol", "ok"}
        fit == {k \in DOMAIN outs : \A f \in F : outs[k][f] = rep[f]}
    IN IF fit = {} THEN 0 ELSE CHOOSE k \in fit : \A j \in fit : k <= j

\* r = [api, args, n, vn, err, rep, attrs = [npts, vnpts, xn, vxn, alias]]
\*   attrs (class only): the attributes npts / vnpts, the lengths of the stored rules xxi / vxxi (-2: the object has no
\*   such attribute - they are not documented, so their absence is accepted, a wrong value is not), and whether the
\*   documented alias cosmo.Distmod exists and is the method distmod
PAttrOK(v, want) == v = want \/ v = -2
PFailCtor(r) ==
    IF r.err # "none" THEN {"constructor_rejected"}
    ELSE PParamFails(r.api, r.args, r.rep) \cup
         (IF r.api # "class" THEN {}
          ELSE (IF PAttrOK(r.attrs.npts, PNpts(r.n)) /\ PAttrOK(r.attrs.xn, PNpts(r.n)) THEN {} ELSE {"attr_npts"}) \cup
               (IF PAttrOK(r.attrs.vnpts, PVnpts(r.vn)) /\ PAttrOK(r.attrs.vxn, PVnpts(r.vn)) THEN {} ELSE {"attr_vnpts"}) \cup
               (IF r.attrs.alias THEN {} ELSE {"documented_alias_missing"}))

\* ---- A1/A2/A6. the identities ---------------------------------------------------------------
\* Expression trees as in Cosmo.tla (XQ1/XQ2 leaves are calls on the object under test: a pure-python Cosmo
\* object, or the module functions bound to the keywords of the case; names starting with "c_" are the same
\* call on the C-backed esutil.cosmology.Cosmo built from the reported parameters).  An identity carries
\*   alts : names of identities whose satisfaction is accepted instead (readings the documentation allows)
\*   deps : names of more basic identities; a failure is reported only if none of them fails (root cause)
PIdent(name, entry, rel, unit, lhs, rhs, scale, alts, deps) ==
    [name |-> name, entry |-> entry, rel |-> rel, unit |-> unit, lhs |-> lhs, rhs |-> rhs, scale |-> scale,
     alts |-> alts, deps |-> deps]
PFrom(n, deps) == LET c == CById(n) IN PIdent(c.name, c.entry, c.rel, c.unit, c.lhs, c.rhs, c.scale, <<>>, deps)
PNone == <<>>

XCDH == <<"v", "cDH">>                     \* Hubble distance reported by the C object
XKv  == <<"v", "K">>                       \* four_pi_G_over_c_squared("Mpc") as returned
XCube(x) == XMul(x, XSq(x))
\* the n-point sum of the exact integrand (mapping to the interval in binary64, as documented)
PIx(n, rule, var, lo, hi) == XAbs(XGL(n, rule, var, XEzX(XVar(var)), lo, hi))
PIxScale(n, var, lo, hi)  == XGL(n, "exact", var, XMul(XAmp(XVar(var)), XEzX(XVar(var))), lo, hi)
POwn(vn, rule) == XGL(vn, rule, "x", XQ1("dV", XVar("x")), XA, XB)         \* sum over the object's own dV
\* the volume integrand from the exact 1/E alone (observed DH: the Hubble distance is judged by "dh")
PDcX(n, y)  == XMul(XDH, PIx(n, "esutil", "x", X0, y))
PDmXCurv(n, y, k, fn) == XMul(XDiv(XDH, XSqrt(k)), <<fn, XMul(XSqrt(k), PIx(n, "esutil", "x", X0, y))>>)
PVx(vn, dm(_)) == XGL(vn, "esutil", "y", XMul(XMul(XDH, XSq(dm(XVar("y")))), XEzX(XVar("y"))), XA, XB)
PDimless(x, dh, k) == XDiv(x, IF k = 1 THEN dh ELSE XCube(dh))
\* scale of the curved distances: rounding is relative to max(|Dm|, |Dc|) (a closed universe's sine may be near a zero)
PDmScale(x, lo) == XMax(XAbs(PDimless(x, XDH, 1)), XAbs(PDimless(XDc(lo, XB), XDH, 1)))

\* Dm(0, b) - the distance dV, V, distmod are built on - against Hogg's eq. 16, whatever zmin of the case is
PCurvArg0(k) == XDiv(XMul(XSqrt(k), XDc(X0, XB)), XDH)
PDm0 == <<"dm0_flat", "dm0_sinh", "dm0_sin">>
PChain == <<"dm_flat", "dm_sinh", "dm_sin", "dc", "gl", "da", "dv", "ezinv_b">> \o PDm0
PCatalogue(n, vn) == <<
  PIdent("dh", "DH", "eq", "ulp", XDH, XP("DH"), XDefaultScale, PNone, PNone),
  PFrom("ezinv_a", PNone), PFrom("ezinv_b", PNone),
  \* A2: the integral IS the documented n-point sum of the exact integrand (rule esutil exposes, or the exact rule)
  PIdent("gl", "Ezinv_integral", "eq", "ulp", XI(XA, XB), PIx(n, "esutil", "x", XA, XB), PIxScale(n, "x", XA, XB), <<"gl_alt">>, PNone),
  PIdent("gl_alt", "Ezinv_integral", "eq", "ulp", XI(XA, XB), PIx(n, "exact", "x", XA, XB), PIxScale(n, "x", XA, XB), PNone, PNone),
  PIdent("gl_coarse", "Ezinv_integral", "eq", "ppb", XI(XA, XB), PIx(n, "exact", "x", XA, XB), XDefaultScale, PNone, <<"gl">>),
  PFrom("dc", PNone), PFrom("dm_flat", PNone), PFrom("dm_sinh", PNone), PFrom("dm_sin", PNone),
  PFrom("dm_open_gt_dc", <<"dm_sinh">>), PFrom("dm_closed_lt_dc", <<"dm_sin">>),
  PIdent("dm0_flat", "Dm", "eq", "ulp", XDm(X0, XB), XDc(X0, XB), XDefaultScale, PNone, PNone),
  PIdent("dm0_sinh", "Dm", "eq", "ulp", XDm(X0, XB), XMul(XDiv(XDH, XSqrt(XOK)), <<"sinh", PCurvArg0(XOK)>>),
         XMax(XAbs(XDm(X0, XB)), XAbs(XDc(X0, XB))), PNone, PNone),
  PIdent("dm0_sin", "Dm", "eq", "ulp", XDm(X0, XB), XMul(XDiv(XDH, XSqrt(XNeg(XOK))), <<"sin", PCurvArg0(XNeg(XOK))>>),
         XMax(XAbs(XDm(X0, XB)), XAbs(XDc(X0, XB))), PNone, PNone),
  PFrom("hogg_add", <<"dm_flat", "dm_sinh", "dm_sin">> \o PDm0),
  PFrom("da", PNone), PFrom("dl", <<"da">>), PFrom("dv", PNone),
  \* V = the vnpts-point sum of the object's own dV, per steradian or over the full sky
  PIdent("glv", "V", "eq", "ulp", XQ2("V", XA, XB), POwn(vn, "esutil"), XDefaultScale, <<"glv_4pi", "glv_alt", "glv_alt_4pi">>, PNone),
  PIdent("glv_4pi", "V", "eq", "ulp", XQ2("V", XA, XB), XMul(X4Pi, POwn(vn, "esutil")), XDefaultScale, PNone, PNone),
  PIdent("glv_alt", "V", "eq", "ulp", XQ2("V", XA, XB), POwn(vn, "exact"), XDefaultScale, PNone, PNone),
  PIdent("glv_alt_4pi", "V", "eq", "ulp", XQ2("V", XA, XB), XMul(X4Pi, POwn(vn, "exact")), XDefaultScale, PNone, PNone),
  PIdent("glv_coarse", "V", "eq", "ppb", XQ2("V", XA, XB), POwn(vn, "exact"), XDefaultScale, <<"glv_coarse_4pi">>, <<"glv">>),
  PIdent("glv_coarse_4pi", "V", "eq", "ppb", XQ2("V", XA, XB), XMul(X4Pi, POwn(vn, "exact")), XDefaultScale, PNone, PNone),
  \* ... and of the volume element rebuilt from the exact 1/E by nested sums, per curvature class
  PIdent("glvx_flat", "V", "eq", "ppb", XQ2("V", XA, XB), PVx(vn, LAMBDA y : PDcX(n, y)), XDefaultScale, <<"glvx_flat_4pi">>, PChain \o <<"glv">>),
  PIdent("glvx_flat_4pi", "V", "eq", "ppb", XQ2("V", XA, XB), XMul(X4Pi, PVx(vn, LAMBDA y : PDcX(n, y))), XDefaultScale, PNone, PNone),
  PIdent("glvx_open", "V", "eq", "ppb", XQ2("V", XA, XB), PVx(vn, LAMBDA y : PDmXCurv(n, y, XP("ok"), "sinh")), XDefaultScale, <<"glvx_open_4pi">>, PChain \o <<"glv">>),
  PIdent("glvx_open_4pi", "V", "eq", "ppb", XQ2("V", XA, XB), XMul(X4Pi, PVx(vn, LAMBDA y : PDmXCurv(n, y, XP("ok"), "sinh"))), XDefaultScale, PNone, PNone),
  PIdent("glvx_closed", "V", "eq", "ppb", XQ2("V", XA, XB), PVx(vn, LAMBDA y : PDmXCurv(n, y, XNeg(XP("ok")), "sin")), XDefaultScale, <<"glvx_closed_4pi">>, PChain \o <<"glv">>),
  PIdent("glvx_closed_4pi", "V", "eq", "ppb", XQ2("V", XA, XB), XMul(X4Pi, PVx(vn, LAMBDA y : PDmXCurv(n, y, XNeg(XP("ok")), "sin"))), XDefaultScale, PNone, PNone),
  PFrom("distmod", PNone), PFrom("eds", <<"gl">>),
  \* lensing (class only): the constant is the module's own four_pi_G_over_c_squared("Mpc")
  PIdent("scinv", "sigmacritinv", "eq", "ulp", XSc(XA, XB), XMul(XDiv(XMul(XDa(XA, XB), XDa(X0, XA)), XDa(X0, XB)), XKv), XDefaultScale, PNone, PNone),
  PFrom("scinv_zero", PNone),
  PIdent("kconst", "four_pi_G_over_c_squared", "eq", "ppb", XKv, XK, XDefaultScale, PNone, PNone),
  PIdent("k_kpc", "four_pi_G_over_c_squared", "eq", "ulp", XMul(<<"v", "K_kpc">>, <<"n", 1000, 1>>), XKv, XDefaultScale, PNone, PNone),
  PIdent("k_gpc", "four_pi_G_over_c_squared", "eq", "ulp", <<"v", "K_Gpc">>, XMul(XKv, <<"n", 1000, 1>>), XDefaultScale, PNone, PNone),
  \* A6: agreement with the C-backed class, in units of the own Hubble distance
  PIdent("x_dh", "DH", "eq", "ulp", XDH, XCDH, XDefaultScale, PNone, <<"dh">>),
  \* (as 1/Ez_inverse^2 = E^2 relative to the operand scale of E^2, like "ezinv_b": E^2 may be a small difference of large terms)
  PIdent("x_ezinv", "Ez_inverse", "eq", "ulp", XDiv(X1, XSq(XQ1("Ez_inverse", XB))), XDiv(X1, XSq(XQ1("c_Ez_inverse", XB))), <<"d", "Sb">>, PNone, <<"ezinv_b">>),
  PIdent("x_int", "Ezinv_integral", "eq", "ppb", XI(XA, XB), XQ2("c_Ezinv_integral", XA, XB), XDefaultScale, PNone, <<"gl">>),
  PIdent("x_int_n", "Ezinv_integral", "eq", "ppb", XI(XA, XB), XQ2("c_Ezinv_integral", XA, XB), XDefaultScale, PNone, <<"gl">>),
  PIdent("x_dc", "Dc", "eq", "ppb", PDimless(XDc(XA, XB), XDH, 1), PDimless(XQ2("c_Dc", XA, XB), XCDH, 1), XDefaultScale, PNone, <<"x_int", "dc">>),
  PIdent("x_dm", "Dm", "eq", "ppb", PDimless(XDm(XA, XB), XDH, 1), PDimless(XQ2("c_Dm", XA, XB), XCDH, 1), PDmScale(XDm(XA, XB), XA), PNone, <<"x_dc", "dm_flat", "dm_sinh", "dm_sin">>),
  PIdent("x_da", "Da", "eq", "ppb", PDimless(XDa(XA, XB), XDH, 1), PDimless(XQ2("c_Da", XA, XB), XCDH, 1), XDiv(PDmScale(XDm(XA, XB), XA), XAdd(X1, XB)), PNone, <<"x_dm", "da">>),
  PIdent("x_dl", "Dl", "eq", "ppb", PDimless(XQ2("Dl", XA, XB), XDH, 1), PDimless(XQ2("c_Dl", XA, XB), XCDH, 1), XMul(PDmScale(XDm(XA, XB), XA), XAdd(X1, XB)), PNone, <<"x_dm", "dl">>),
  PIdent("x_dm0", "Dm", "eq", "ppb", PDimless(XDm(X0, XB), XDH, 1), PDimless(XQ2("c_Dm", X0, XB), XCDH, 1), PDmScale(XDm(X0, XB), X0), PNone, <<"x_int", "dc">> \o PDm0),
  PIdent("x_dv", "dV", "eq", "ppb", PDimless(XQ1("dV", XB), XDH, 3), PDimless(XQ1("c_dV", XB), XCDH, 3), XDefaultScale, PNone, <<"x_dm0", "x_ezinv", "dv", "da">> \o PDm0),
  PIdent("x_v", "V", "eq", "ppb", PDimless(XQ2("V", XA, XB), XDH, 3), PDimless(XDiv(XQ2("c_V", XA, XB), X4Pi), XCDH, 3), XDefaultScale, <<"x_v_full">>, <<"x_dv", "x_dm0", "glv">> \o PDm0),
  PIdent("x_v_full", "V", "eq", "ppb", PDimless(XQ2("V", XA, XB), XDH, 3), PDimless(XQ2("c_V", XA, XB), XCDH, 3), XDefaultScale, PNone, PNone),
  PIdent("x_distmod", "distmod", "eq", "ppb", XQ1("distmod", XB), XQ1("c_distmod", XB), XDefaultScale, PNone, <<"x_dl", "x_dm0", "x_dh", "distmod">> \o PDm0),
  PIdent("x_scinv", "sigmacritinv", "eq", "ppb", XSc(XA, XB), XQ2("c_sigmacritinv", XA, XB), XDefaultScale, PNone, <<"x_da", "x_dh", "scinv", "kconst">>)
>>

\* Applicability and tolerance.  c = [api, p, a, b, n, vn] with n, vn the EFFECTIVE numbers of points.
\* Units as in the catalogue; -1 = not demanded.  "To rounding": 4 ulp per operation, 4n + 4 for an n-point sum.
\* everything about a case the tolerances depend on, computed once per case
PFlags(c) ==
    LET p == c.p  a == c.a  b == c.b
        phys == CPhysical(p, CRMax2(a, b))
        fwd  == CRLe(a, b) /\ phys
        ninv == CNormInv(p)
    IN [le |-> CRLe(a, b), lt |-> CRLt(a, b), fwd |-> fwd, cls |-> c.api = "class", ninv |-> ninv,
        \* the C class can hold this cosmology (flat => omega_l = 1 - omega_m) and has the same numbers of points
        cx |-> fwd /\ ninv /\ c.n = 5, cxv |-> fwd /\ ninv /\ c.n = 5 /\ c.vn = 10,
        e2a |-> CRLt(CZero, CE2(p, a)), e2b |-> CRLt(CZero, CE2(p, b)),
        conc |-> CConcordance(p), dlpos |-> CDlPositive(p, b), eds |-> ~CIsNone(CEds(p, a, b)), b1 |-> CRLe(b, COne)]
PTolF(name, c, fl) ==
    LET p == c.p  b == c.b
        le == fl.le  lt == fl.lt  fwd == fl.fwd  cls == fl.cls  cx == fl.cx  cxv == fl.cxv
        when(q, t) == IF q THEN t ELSE CNA
    IN CASE name = "dh"       -> 4
         [] name = "ezinv_a"  -> when(fl.e2a, 16)
         [] name = "ezinv_b"  -> when(fl.e2b, 16)
         [] name = "gl"       -> when(fwd, 4 * c.n + 4)
         [] name = "gl_coarse" -> when(fwd, 1)
         [] name = "dc"       -> when(fwd, 4)
         [] name = "dm_flat"  -> when(fwd /\ p.flat, 4)
         [] name = "dm_open_gt_dc"   -> when(fwd /\ lt /\ ~p.flat /\ p.ok[1] > 0, 0)
         [] name = "dm_closed_lt_dc" -> when(fwd /\ lt /\ ~p.flat /\ p.ok[1] < 0, 0)
         [] name = "dm_sinh"  -> when(fwd /\ ~p.flat /\ p.ok[1] > 0, 32)
         [] name = "dm_sin"   -> when(fwd /\ ~p.flat /\ p.ok[1] < 0, 32)
         [] name = "dm0_flat" -> when(fwd /\ p.flat, 4)
         [] name = "dm0_sinh" -> when(fwd /\ ~p.flat /\ p.ok[1] > 0, 32)
         [] name = "dm0_sin"  -> when(fwd /\ ~p.flat /\ p.ok[1] < 0, 32)
         \* the addition formula holds up to the truncation error of the rule: demanded for the documented default only
         [] name = "hogg_add" -> when(fwd /\ fl.conc /\ c.n = 5, IF fl.b1 THEN 3500 ELSE 3500000)
         [] name = "da"       -> when(fwd, 4)
         [] name = "dl"       -> when(fwd, 8)                    \* Da (1+z2)^2: one operation more than the C class
         [] name = "dv"       -> when(fwd, 16)
         [] name = "glv"      -> when(fwd, 4 * c.vn + 8)
         [] name = "glv_coarse" -> when(fwd, 1)
         [] name = "glvx_flat"   -> when(fwd /\ p.flat, 10)
         [] name = "glvx_open"   -> when(fwd /\ ~p.flat /\ p.ok[1] > 0, 10)
         [] name = "glvx_closed" -> when(fwd /\ ~p.flat /\ p.ok[1] < 0 /\ fl.dlpos, 10)
         [] name = "distmod"  -> when(fwd /\ b[1] > 0 /\ fl.dlpos, 16)
         \* (Einstein-de Sitter: flat with omega_l = 1 - omega_m = 0; the functions also accept omega_k = 0 with another omega_l)
         [] name = "eds"      -> when(fwd /\ c.n = 5 /\ fl.ninv /\ fl.eds, IF fl.b1 THEN 1000 ELSE 1000000)
         [] name = "scinv"    -> when(cls /\ fwd /\ lt, 16)
         [] name = "scinv_zero" -> when(cls /\ ~lt, 0)
         [] name = "kconst"   -> when(cls, 500000)
         [] name = "k_kpc"    -> when(cls, 4)
         [] name = "k_gpc"    -> when(cls, 4)
         [] name = "x_dh"     -> when(cls, 4)
         [] name = "x_ezinv"  -> when(fwd /\ fl.ninv /\ fl.e2b, 32)             \* each side within 16 of the exact E^2
         [] name = "x_int"    -> when(cx, 2)
         \* more points than the C class: both are within the documented accuracy of the default rule
         [] name = "x_int_n"  -> when(fwd /\ fl.ninv /\ c.n > 5 /\ fl.conc /\ fl.b1, 3500)
         [] name = "x_dc"     -> when(cx, 2)
         [] name = "x_dm"     -> when(cx, 4)
         [] name = "x_dm0"    -> when(cx, 4)
         [] name = "x_da"     -> when(cx, 4)
         [] name = "x_dl"     -> when(cx, 4)
         [] name = "x_dv"     -> when(cx, 8)
         [] name = "x_v"      -> when(cxv, 10)
         [] name = "x_distmod" -> when(cls /\ cx /\ b[1] > 0 /\ fl.dlpos, 4)
         [] name = "x_scinv"  -> when(cls /\ cx /\ lt, 10)
         [] OTHER -> CNA
PTol(name, c) == PTolF(name, c, PFlags(c))

\* names, relations, alternatives and prerequisites do not depend on the numbers of points
PCatSym == PCatalogue("npts", "vnpts")
PById(C, nm) == C[CHOOSE i \in 1..Len(C) : C[i].name = nm]
\* what the harness has to evaluate: the demanded identities and their accepted alternatives
PNeeded(c) ==
    LET C    == PCatSym
        fl   == PFlags(c)
        dem  == {i \in 1..Len(C) : PTolF(C[i].name, c, fl) >= 0}
        alts == UNION {VRange(C[i].alts) : i \in dem}
        idx  == VSortSet(dem \cup {i \in 1..Len(C) : C[i].name \in alts})
    IN [k \in 1..Len(idx) |-> C[idx[k]].name]

\* one recorded residual o = <<units, sign>>: units >= 0 a finite residual; -1 a side is not a finite number;
\* -2 not evaluated because a call of the real code raised (r.rejected says which)
PSat(C, c, fl, nm, res) ==
    LET id == PById(C, nm)  tol == PTolF(nm, c, fl)
        good(x) == x \in DOMAIN res /\ CResidualOK(PById(C, x), tol, res[x])
    IN good(nm) \/ \E x \in VRange(id.alts) : good(x)
PUnits(res, nm) == IF nm \in DOMAIN res THEN res[nm][1] ELSE -1
\* r = [api, args, n, vn, a, b, err, rep, der, res, rejected : Seq(entry names whose call raised)]
PFailScalar(r) ==
    IF r.err # "none" THEN {"constructor_rejected"}
    ELSE LET pf == PParamFails(r.api, r.args, r.rep) IN
    IF pf # {} THEN pf
    ELSE LET p == PNormalise(r.api, r.args)[PReading(r.api, r.args, r.rep)]
             c == [api |-> r.api, p |-> p, a |-> r.a, b |-> r.b, n |-> PNpts(r.n), vn |-> PVnpts(r.vn)]
             C == PCatSym
             fl == PFlags(c)
             dem  == {C[i].name : i \in {j \in 1..Len(C) : PTolF(C[j].name, c, fl) >= 0}}
             bad  == {nm \in dem : ~PSat(C, c, fl, nm, r.res)}
             \* a demanded identity that could not be evaluated
             rej  == {nm \in bad : PUnits(r.res, nm) = -2}
             nonf == {nm \in bad : PUnits(r.res, nm) = -1 /\ PById(C, nm).rel = "eq"}
             root == {nm \in bad \ (rej \cup nonf) : \A d \in VRange(PById(C, nm).deps) : d \notin bad}
         IN IF r.der # CDerived(p, r.a, r.b) THEN {"harness_derived_mismatch"}
            ELSE root \cup (IF rej # {} THEN {"unexpected_rejection"} ELSE {})
                      \cup (IF nonf # {} THEN {"nonfinite_result"} ELSE {})

\* ---- A4. argument handling of the vectorised entry points ------------------------------------
PTwoArg == {"Dc", "Dm", "Da", "Dl", "sigmacritinv"}
POneArg == {"Ez_inverse", "dV", "distmod"}
PSoft(s) == s.cls \in {"list", "tuple"}              \* "array": whether python sequences are arrays is not said
PIdxB(s, l, i) == IF l = 1 THEN CIdx(s, 1) ELSE CIdx(s, i)      \* a one-element array paired with a longer one
POutcomes(sa, sb, la, lb) ==
    IF la = 0 /\ lb = 0
    THEN {[kind |-> k, pairs |-> << <<CIdx(sa, 1), CIdx(sb, 1)>> >>] : k \in {"scalar", "array"}}
    ELSE IF la > 0 /\ lb > 0 /\ la # lb
    THEN {[kind |-> "rejected", pairs |-> <<>>]} \cup
         (IF la = 1 \/ lb = 1
          THEN {[kind |-> "array", pairs |-> [i \in 1..VMax2(la, lb) |-> <<PIdxB(sa, la, i), PIdxB(sb, lb, i)>>]]}
          ELSE {})
    ELSE {[kind |-> "array", pairs |-> [i \in 1..VMax2(la, lb) |-> <<CIdx(sa, i), CIdx(sb, i)>>]]}
PDispatchSet(sa, sb) ==
    UNION {POutcomes(sa, sb, la, lb) : la \in CLenSet(sa), lb \in CLenSet(sb)} \cup
    (IF PSoft(sa) \/ PSoft(sb) THEN {[kind |-> "rejected", pairs |-> <<>>]} ELSE {})

\* r = [api, q, sa, sb, pairs, obs = [kind, len, eq : Seq(BOOLEAN)]]
\* eq[i]: result element i equals the two-scalar call on the VALUES pairs[i] points at, to rounding (4 ulp; in the
\* precision of a float32 argument where there is one: the documentation does not promise double precision then)
PFailDispatch(r) ==
    LET A    == PDispatchSet(r.sa, r.sb)
        live == {e \in A : e.kind # "rejected"}
        fit  == {e \in live : e.kind = r.obs.kind /\ Len(e.pairs) = r.obs.len}
    IN IF r.obs.kind = "rejected" THEN (IF live # A THEN {} ELSE {"unexpected_rejection"})
       ELSE IF live = {} THEN {"mismatched_lengths_not_rejected"}
       ELSE IF ~\E e \in live : e.kind = r.obs.kind THEN {"result_kind"}
       ELSE IF fit = {} THEN {"result_length"}
       ELSE IF ~\E e \in fit : e.pairs = r.pairs THEN {"harness_pairs_mismatch"}
       ELSE IF Len(r.obs.eq) = r.obs.len /\ \A i \in DOMAIN r.obs.eq : r.obs.eq[i] THEN {} ELSE {"element_ne_scalar"}

\* ---- A7. histories: objects with their own rules, the functions' global rule cache ---------------
\* events  [op |-> "new",   id, n, vn]        obj_id = Cosmo(npts=n, vnpts=vn)       (0 = keyword not passed)
\*         [op |-> "set",   id, n]            obj_id.npts = n   (plain attribute assignment: the documentation does
\*                                            not say whether later calls use n points or the rule built at construction)
\*         [op |-> "call",  id, q]            obj_id.q(z1, z2)
\*         [op |-> "fcall", q, n, vn]         module function q(z1, z2, ..., npts=n[, vnpts=vn])
\*         [op |-> "get",   id]               obj_id.npts
\* The result of a call is the result of the same call in a fresh interpreter state with one of the allowed
\* (npts, vnpts); the harness records which fresh results it equals: obs[i].match = set of <<n, vn>>.
PHQuants == {"Ezinv_integral", "Dc", "V"}
PHNew(st, e) == Append(st, [npts |-> PNpts(e.n), ns |-> {PNpts(e.n)}, vn |-> PVnpts(e.vn)])
PHSet(st, e) == [st EXCEPT ![e.id] = [@ EXCEPT !.npts = e.n, !.ns = @ \cup {e.n}]]
PHAllowed(st, e) ==
    IF e.op = "call" THEN {<<k, st[e.id].vn>> : k \in st[e.id].ns}
    ELSE {<<PNpts(e.n), PVnpts(e.vn)>>}
RECURSIVE PHRun(_, _, _, _)
PHRun(st, evs, obs, i) ==            \* the set of failing clauses of events i..
    IF i > Len(evs) THEN {}
    ELSE LET e == evs[i]  o == obs[i] IN
         IF e.op = "new" THEN
              (IF e.id # Len(st) + 1 THEN {"harness_history_malformed"}
               ELSE (IF o.err = "none" THEN {} ELSE {"constructor_rejected"}) \cup PHRun(PHNew(st, e), evs, obs, i + 1))
         ELSE IF e.op \in {"set", "call", "get"} /\ e.id \notin DOMAIN st THEN {"harness_history_malformed"}
         ELSE IF e.op = "set" THEN PHRun(PHSet(st, e), evs, obs, i + 1)
         ELSE IF e.op = "get" THEN
              (IF o.err = "none" /\ o.val = st[e.id].npts THEN {} ELSE {"attr_npts"}) \cup PHRun(st, evs, obs, i + 1)
         ELSE (IF o.err # "none" THEN {"unexpected_rejection"}
               ELSE IF \E m \in VRange(o.match) : <<m[1], m[2]>> \in PHAllowed(st, e) THEN {}
               ELSE {"result_depends_on_history"}) \cup PHRun(st, evs, obs, i + 1)
\* r = [events, obs]
PFailHist(r) == IF Len(r.obs) # Len(r.events) THEN {"harness_history_malformed"} ELSE PHRun(<<>>, r.events, r.obs, 1)

\* =====================================================================================
\* B. coords helpers
\* =====================================================================================
\* ---- B1. sexagesimal strings (a string is a sequence of one-character strings) -------------------
PDigitSet == {"0", "1", "2", "3", "4", "5", "6", "7", "8", "9"}
PDigitVal(ch) == CASE ch = "0" -> 0 [] ch = "1" -> 1 [] ch = "2" -> 2 [] ch = "3" -> 3 [] ch = "4" -> 4
                   [] ch = "5" -> 5 [] ch = "6" -> 6 [] ch = "7" -> 7 [] ch = "8" -> 8 [] ch = "9" -> 9
RECURSIVE PSplitGo(_, _, _)
PSplitGo(s, cur, acc) == IF s = <<>> THEN Append(acc, cur)
                         ELSE IF Head(s) = ":" THEN PSplitGo(Tail(s), <<>>, Append(acc, cur))
                         ELSE PSplitGo(Tail(s), Append(cur, Head(s)), acc)
PSplit(s) == PSplitGo(s, <<>>, <<>>)
RECURSIVE PIntVal(_)
PIntVal(ds) == IF ds = <<>> THEN 0 ELSE 10 * PIntVal(SubSeq(ds, 1, Len(ds) - 1)) + PDigitVal(ds[Len(ds)])
RECURSIVE PPow10(_)
PPow10(k) == IF k = 0 THEN 1 ELSE 10 * PPow10(k - 1)
\* unsigned decimal number  digits+ [ "." digits+ ]  (at most 4 + 3 digits on this lattice)
PBadNum == [ok |-> FALSE, val |-> CZero]
PUnsigned(f) ==
    LET dots == {i \in DOMAIN f : f[i] = "."} IN
    IF f = <<>> \/ Cardinality(dots) > 1 \/ \E i \in DOMAIN f : f[i] \notin PDigitSet \cup {"."} THEN PBadNum
    ELSE LET k  == IF dots = {} THEN Len(f) + 1 ELSE CHOOSE i \in dots : TRUE
             ip == SubSeq(f, 1, k - 1)
             fp == IF dots = {} THEN <<>> ELSE SubSeq(f, k + 1, Len(f))
         IN IF ip = <<>> \/ (dots # {} /\ fp = <<>>) \/ Len(ip) > 4 \/ Len(fp) > 3 THEN PBadNum
            ELSE [ok |-> TRUE, val |-> CRAdd(<<PIntVal(ip), 1>>, RNorm(PIntVal(fp), PPow10(Len(fp))))]
PSixty == <<60, 1>>
\* c = [fn |-> "dec" | "ra", hours : BOOLEAN, chars]  ->  [cands : Seq(rational), scale, err_ok, any]
\*   cands  the values (degrees) the documentation allows;  err_ok  an exception is allowed as well;
\*   scale  the operand scale |D| + M/60 + S/3600 (x 15) rounding is relative to (a signed leading field may cancel);
\*   any    the string is outside the documented syntax: nothing is demanded
PParseSpec(c) ==
    LET fs   == PSplit(c.chars)
        f1   == fs[1]
        sg   == IF f1 # <<>> /\ f1[1] \in {"-", "+"} THEN f1[1] ELSE ""
        b1   == IF sg = "" THEN f1 ELSE Tail(f1)
        nums == [i \in 1..Len(fs) |-> PUnsigned(IF i = 1 THEN b1 ELSE fs[i])]
        wild == [cands |-> <<>>, scale |-> CZero, err_ok |-> TRUE, any |-> TRUE]
    IN IF Len(fs) > 3 \/ \E i \in DOMAIN nums : ~nums[i].ok THEN wild
       ELSE LET D == nums[1].val
                M == IF Len(fs) >= 2 THEN nums[2].val ELSE CZero
                S == IF Len(fs) >= 3 THEN nums[3].val ELSE CZero
                frac == CRAdd(CRDiv(M, PSixty), CRDiv(S, <<3600, 1>>))
                mag  == CRAdd(D, frac)
                k    == IF c.fn = "ra" /\ c.hours THEN <<15, 1>> ELSE COne
                soft == sg = "+" \/ ~CRLt(M, PSixty) \/ ~CRLt(S, PSixty)      \* silent: '+', minutes / seconds >= 60
            IN IF c.fn = "dec"
               THEN [cands |-> <<IF sg = "-" THEN CRNeg(mag) ELSE mag>>, scale |-> mag, err_ok |-> soft, any |-> FALSE]
               ELSE IF sg = "-"          \* a signed right ascension is not documented: the sign of the leading field
                                         \* only, the sign of the whole value, or a rejection
               THEN [cands |-> <<CRMul(k, CRAdd(CRNeg(D), frac)), CRMul(k, CRNeg(mag))>>, scale |-> CRMul(k, mag), err_ok |-> TRUE, any |-> FALSE]
               ELSE [cands |-> <<CRMul(k, mag)>>, scale |-> CRMul(k, mag), err_ok |-> soft, any |-> FALSE]
PParseTol == 8          \* ulp of the operand scale: two divisions, two additions, the sign / the factor 15
\* r = [c, cands, scale (as the harness used them), obs = [err, res : Seq(<<units, sign>>)]]  res[i]: residual against cands[i]
PFailParse(r) ==
    LET s == PParseSpec(r.c) IN
    IF s.any THEN {}
    ELSE IF r.cands # s.cands \/ r.scale # s.scale THEN {"harness_cands_mismatch"}
    ELSE IF r.obs.err # "none" THEN (IF s.err_ok THEN {} ELSE {"documented_string_rejected"})
    ELSE IF Len(r.obs.res) # Len(s.cands) THEN {"harness_cands_mismatch"}
    ELSE IF \E i \in DOMAIN r.obs.res : r.obs.res[i][1] >= 0 /\ r.obs.res[i][1] <= PParseTol THEN {} ELSE {"parsed_value"}

\* ---- B2. rect_area on latitudes with rational sines -------------------------------------------------
PLats == {-90, -30, 0, 30, 90}
PSinDeg(lat) == CASE lat = -90 -> <<-1, 1>> [] lat = -30 -> <<-1, 2>> [] lat = 0 -> CZero [] lat = 30 -> <<1, 2>> [] lat = 90 -> COne
\* area * pi / 180 (an exact rational); c = [lon1, lon2, lat1, lat2] integers (degrees)
PAreaQ(c) == CRAbs(CRMul(CRSub(PSinDeg(c.lat2), PSinDeg(c.lat1)), <<c.lon2 - c.lon1, 1>>))
PAreaScale(c) == CRMul(CRAdd(CRAbs(PSinDeg(c.lat1)), CRAbs(PSinDeg(c.lat2))), <<VAbs(c.lon2 - c.lon1), 1>>)
PAreaTol == 16
\* r = [c, exp, scale (as used by the harness), obs = [err, val : <<units, sign>> against exp * 180/pi (ulp of the operand scale
\*      (|sin lat1| + |sin lat2|) |lon2 - lon1| 180/pi; ulp of binary32 when the arguments are float32: numpy then computes in single precision), lon_add, lat_add, mirror, swap : residuals of the laws
\*      area(lon1..lon2) = area(lon1..m) + area(m..lon2), the same in latitude, area(-lat2..-lat1) = area, and
\*      area with min/max of the SAME axis exchanged (the docstring names them min and max: demanded for min <= max only)]]
PFailArea(r) ==
    LET ordered == r.c.lon1 <= r.c.lon2 /\ r.c.lat1 <= r.c.lat2
        ok(o) == o[1] >= 0 /\ o[1] <= PAreaTol
    IN IF ~ordered THEN {}
       ELSE IF r.exp # PAreaQ(r.c) \/ r.scale # PAreaScale(r.c) THEN {"harness_area_mismatch"}
       ELSE IF r.obs.err # "none" THEN {"unexpected_rejection"}
       ELSE (IF ok(r.obs.val) THEN {} ELSE {"area_value"}) \cup
            (IF ok(r.obs.lon_add) THEN {} ELSE {"area_additive_in_longitude"}) \cup
            (IF ok(r.obs.lat_add) THEN {} ELSE {"area_additive_in_latitude"}) \cup
            (IF ok(r.obs.mirror) THEN {} ELSE {"area_mirror_symmetry"})

\* ---- B3. atbound / atbound2 (angles are integers: degrees) ------------------------------------------
PMod360(x) == x % 360                               \* TLC: result in 0..359 for either sign
PCongr(x, y) == PMod360(x - y) = 0
\* atbound: every element congruent to its old value and inside [lo, hi]; demanded when the interval holds a
\* whole turn (hi - lo >= 360); otherwise congruence only
\* r = [c = [vals, lo, hi], obs = [err, out : Seq(Int), onlat : BOOLEAN (every output is an integer), inplace]]
PFailWrap(r) ==
    LET c == r.c  o == r.obs IN
    IF o.err # "none" THEN {"unexpected_rejection"}
    ELSE IF ~o.inplace THEN {"not_in_place"}
    ELSE IF ~o.onlat \/ Len(o.out) # Len(c.vals) THEN {"wrap_not_whole_turns"}
    ELSE (IF \A i \in DOMAIN c.vals : PCongr(o.out[i], c.vals[i]) THEN {} ELSE {"wrap_not_whole_turns"}) \cup
         (IF c.hi - c.lo >= 360 /\ \E i \in DOMAIN o.out : o.out[i] < c.lo \/ o.out[i] > c.hi THEN {"wrap_out_of_bounds"} ELSE {})
\* atbound2: the same point of the sphere, theta in [-90, 90], phi in [0, 360]
PSamePoint(t0, p0, t1, p1) ==
    \/ PCongr(t1, t0) /\ PCongr(p1, p0)
    \/ PCongr(t1, 180 - t0) /\ PCongr(p1, p0 + 180)
    \/ VAbs(t1) = 90 /\ (PCongr(t1, t0) \/ PCongr(t1, 180 - t0))           \* a pole: any longitude
\* r = [c = [theta, phi : Seq(Int)], obs = [err, theta, phi, onlat, inplace]]
PFailWrap2(r) ==
    LET c == r.c  o == r.obs IN
    IF o.err # "none" THEN {"unexpected_rejection"}
    ELSE IF ~o.inplace THEN {"not_in_place"}
    ELSE IF ~o.onlat \/ Len(o.theta) # Len(c.theta) \/ Len(o.phi) # Len(c.phi) THEN {"wrap2_moved_the_point"}
    ELSE (IF \A i \in DOMAIN c.theta : PSamePoint(c.theta[i], c.phi[i], o.theta[i], o.phi[i]) THEN {} ELSE {"wrap2_moved_the_point"}) \cup
         (IF \E i \in DOMAIN o.theta : VAbs(o.theta[i]) > 90 THEN {"wrap2_latitude_range"} ELSE {}) \cup
         (IF \E i \in DOMAIN o.phi : o.phi[i] < 0 \/ o.phi[i] > 360 THEN {"wrap2_longitude_range"} ELSE {})

\* ---- B4. radec2aitoff ----------------------------------------------------------------------------------
PAitTol == 16           \* ulp of 180 / 90 (a handful of sin / cos / sqrt evaluations)
\* r = [c = [ra, dec] (degrees, 0 <= ra <= 360, |dec| <= 90), obs = [err, finite, xover, yover, dec_x, dec_y, ra_x, ra_y]]
\*   xover / yover   how far |x| exceeds 180, |y| exceeds 90 (units of ulp of the bound, 0 if inside)
\*   dec_x, dec_y    residuals of x(ra, -dec) = x(ra, dec), y(ra, -dec) = -y(ra, dec)
\*   ra_x, ra_y      residuals of x(360 - ra, dec) = -x(ra, dec), y(360 - ra, dec) = y(ra, dec)   (ra # 180: the seam)
PFailAitoff(r) ==
    LET o == r.obs
        ok(v) == v[1] >= 0 /\ v[1] <= PAitTol
    IN IF o.err # "none" THEN {"unexpected_rejection"}
       ELSE IF ~o.finite THEN {"aitoff_not_finite"}
       ELSE (IF o.xover <= PAitTol /\ o.yover <= PAitTol THEN {} ELSE {"aitoff_range"}) \cup
            (IF ok(o.dec_x) /\ ok(o.dec_y) THEN {} ELSE {"aitoff_mirror_dec"}) \cup
            (IF r.c.ra = 180 \/ (ok(o.ra_x) /\ ok(o.ra_y)) THEN {} ELSE {"aitoff_mirror_ra"})
=============================================================================
