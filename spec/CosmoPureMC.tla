------------------------------- MODULE CosmoPureMC -------------------------------
(* Bounded model for extension X05 (CosmoPure.tla).  Sub-machines over one Init:                  *)
(*                                                                                                *)
(*  NextScalar    ChooseApi, ChooseOm, ChooseCurv, ChooseH, ChooseN, ChooseZ: API (class /        *)
(*                functions) x constructor / keyword arguments x (npts, vnpts) x redshift pairs.  *)
(*                Invariants: MechNormRefines (cosmology_purepy's extract_parms / _extract_omegas *)
(*                transcribed), MechChainRefines (the parameters and the curvature map the        *)
(*                module-level dV and Dm use, as found: FixedDv / FixedDm = FALSE).               *)
(*  NextDispatch  ChooseQ, ChooseSA, ChooseSB, then the code's argument handling as steps         *)
(*                Atleast1d / Ladder / LoopStep / Finish on the Dc ladder every entry point ends  *)
(*                in (FixedLoop = FALSE: the element assignment of numpy >= 2).  Invariant        *)
(*                MechDispatchRefines.                                                            *)
(*  NextHist      HNew / HSet / HCall / HFCall / HGet: histories of objects (own rules) and       *)
(*                module functions (global rule cache, as steps).  Invariant HistIndependent.     *)
(*  NextParse     ChooseFn, ChooseD, ChooseM, ChooseS: sexagesimal strings over a bounded         *)
(*                alphabet of fields.  Invariants ParseLaws, MechParseRefines.                    *)
(*  NextArea      rectangles on latitudes with rational sines.  Invariant AreaLaws.               *)
(*  NextWrap      atbound's two while loops and atbound2's steps as actions on integer degrees.   *)
(*                Invariant MechWrapRefines, WrapTerminates.                                      *)
(*  NextAitoff    the (ra, dec) lattice of radec2aitoff.                                          *)
(* With DoExport the enumerated cases are printed as JSON; the harness executes every one of them *)
(* against the real code and CosmoPureTrace.tla judges the records.                               *)
EXTENDS CosmoPure, Json, IOUtils

CONSTANTS Apis,        \* subset of {"class", "func"}
          OmIdx, CurvIdx, HIdx, ZIdx, NVIdx,       \* subsets of the domains of the tables below
          HMix,        \* TRUE: one H and one (npts, vnpts) choice per (om, curv), round-robin
          Quants,      \* quantities of the dispatch machine
          Dts, Lays,   \* ndarray element types / layouts
          MaxLen,      \* array lengths 1..MaxLen
          Pairing,     \* "full" | "cover"
          HLen,        \* history length
          HNs, HVns,   \* npts / vnpts values of the histories (0 = keyword not passed)
          WrapLen,     \* atbound: arrays of length 1..WrapLen
          DIdx, MIdx, SIdx, LonIdx,   \* subsets of the domains of the field tables / the longitude table
          DoExport,
          FixedLoop, FixedDv, FixedDm, FixedCache       \* FALSE: the mechanism as found / a deviating cache

VARIABLES phase, args, zp, dsp, mech, hist, cc
vars == <<phase, args, zp, dsp, mech, hist, cc>>

\* ---- the rational grid (as CosmoMC, plus API and numbers of points) --------------------------
OmTab == << <<1, 10>>, <<3, 10>>, <<1, 1>>, <<3, 2>>, CNone, <<1, 4>> >>
CurvTab == <<
  [flat |-> TRUE,  ok |-> CNone,       lmode |-> "default"],     \*  1 flat, the documented default
  [flat |-> TRUE,  ok |-> CZero,       lmode |-> "default"],     \*  2 flat with omega_k = 0 spelled out
  [flat |-> FALSE, ok |-> <<-1, 2>>,   lmode |-> "closure"],     \*  3..6 curved, om + ok + ol = 1
  [flat |-> FALSE, ok |-> <<-1, 10>>,  lmode |-> "closure"],
  [flat |-> FALSE, ok |-> <<1, 10>>,   lmode |-> "closure"],
  [flat |-> FALSE, ok |-> <<1, 2>>,    lmode |-> "closure"],
  [flat |-> FALSE, ok |-> <<-1, 10>>,  lmode |-> "default"],     \*  7..8 curved, omega_l left at its default
  [flat |-> FALSE, ok |-> <<1, 10>>,   lmode |-> "default"],
  [flat |-> TRUE,  ok |-> <<1, 10>>,   lmode |-> "closure"],     \*  9 flat=True with curvature (class: silent; functions: flat)
  [flat |-> FALSE, ok |-> CNone,       lmode |-> "half"],        \* 10 flat=False without curvature, omega_l = 1/2
  [flat |-> FALSE, ok |-> CZero,       lmode |-> "half"],        \* 11 flat=False with omega_k = 0
  [flat |-> TRUE,  ok |-> CNone,       lmode |-> "half"],        \* 12 flat must override an explicit omega_l
  [flat |-> TRUE,  ok |-> <<-1, 2>>,   lmode |-> "default"]      \* 13 flat=True with curvature, other sign
>>
\* the functions take h only
HTab == << [H0 |-> CNone,      h |-> CNone],
           [H0 |-> CNone,      h |-> <<7, 10>>],
           [H0 |-> CNone,      h |-> <<18, 25>>],
           [H0 |-> <<70, 1>>,  h |-> CNone],
           [H0 |-> <<70, 1>>,  h |-> <<3, 10>>],      \* h overrides H0
           [H0 |-> <<30, 1>>,  h |-> CNone] >>
\* (npts, vnpts): 0 = keyword not passed
NVTab == << <<0, 0>>, <<5, 10>>, <<3, 4>>, <<7, 0>>, <<0, 6>>, <<10, 10>> >>
ZTab == << <<0, 1>>, <<1, 8>>, <<1, 4>>, <<1, 2>>, <<9, 16>>, <<3, 4>>, <<1, 1>>, <<5, 4>>, <<3, 2>>, <<2, 1>>,
           <<3, 1>>, <<5, 1>>, <<1, 10>>, <<7, 10>> >>

NoArgs == [api |-> "class", H0 |-> CNone, h |-> CNone, flat |-> TRUE, om |-> CNone, ol |-> CNone, ok |-> CNone, n |-> 0, vn |-> 0]
NoDsp == [api |-> "", q |-> "", sa |-> CAbsent, sb |-> CAbsent]
NoMech == [pc |-> "idle", branch |-> "", n |-> 0, i |-> 0, pairs |-> <<>>, calls |-> <<>>]
NoCC == [kind |-> "none"]

Init == /\ phase = "start" /\ args = NoArgs /\ zp = <<CZero, CZero>> /\ dsp = NoDsp /\ mech = NoMech
        /\ hist = <<>> /\ cc = NoCC

\* ---- arguments ---------------------------------------------------------------------------------
ChooseApi ==
    /\ phase = "start"
    /\ \E a \in Apis : args' = [args EXCEPT !.api = a]
    /\ phase' = "api" /\ UNCHANGED <<zp, dsp, mech, hist, cc>>
ChooseOm ==
    /\ phase = "api"
    /\ \E i \in OmIdx : args' = [args EXCEPT !.om = OmTab[i]] /\ mech' = [mech EXCEPT !.i = i]
    /\ phase' = "om" /\ UNCHANGED <<zp, dsp, hist, cc>>
ChooseCurv ==
    /\ phase = "om"
    /\ \E j \in CurvIdx :
         LET cv == CurvTab[j]
             om == COm(args)
             ol == IF cv.lmode = "default" THEN CNone
                   ELSE IF cv.lmode = "half" THEN <<1, 2>>
                   ELSE CRSub(CRSub(COne, om), IF CIsNone(cv.ok) THEN CZero ELSE cv.ok)
         IN /\ args' = [args EXCEPT !.flat = cv.flat, !.ok = cv.ok, !.ol = ol]
            /\ mech' = [mech EXCEPT !.n = j]
    /\ phase' = "curv" /\ UNCHANGED <<zp, dsp, hist, cc>>
HAllowed == IF args.api = "func" THEN {k \in HIdx : CIsNone(HTab[k].H0)} ELSE HIdx
RoundRobin(S, k) == LET s == VSortSet(S) IN {s[(k % Len(s)) + 1]}
ChooseH ==
    /\ phase = "curv"
    /\ \E k \in (IF HMix THEN RoundRobin(HAllowed, 3 * mech.i + mech.n) ELSE HAllowed) :
          args' = [args EXCEPT !.H0 = HTab[k].H0, !.h = HTab[k].h]
    /\ phase' = "h" /\ UNCHANGED <<zp, dsp, mech, hist, cc>>
ChooseN ==
    /\ phase = "h"
    /\ \E k \in (IF HMix THEN RoundRobin(NVIdx, 2 * mech.i + mech.n) ELSE NVIdx) :
          args' = [args EXCEPT !.n = NVTab[k][1], !.vn = NVTab[k][2]]
    /\ phase' = "args" /\ mech' = NoMech /\ UNCHANGED <<zp, dsp, hist, cc>>
ChooseZ ==
    /\ phase = "args"
    /\ \E i \in ZIdx : \E j \in ZIdx : zp' = <<ZTab[i], ZTab[j]>>
    /\ phase' = "z" /\ UNCHANGED <<args, dsp, mech, hist, cc>>
NextCtor   == ChooseApi \/ ChooseOm \/ ChooseCurv \/ ChooseH \/ ChooseN
NextScalar == NextCtor \/ ChooseZ

\* ---- mechanism: parameter handling, line by line -------------------------------------------------
\* class Cosmo.extract_parms (omega_k defaults to 0.0, None is accepted as well)
MExtractClass(a) ==
    LET okgiven == ~CIsNone(a.ok)
        flat1 == IF okgiven THEN a.ok[1] = 0 ELSE a.flat              \* "if omega_k is not None: flat = (omega_k == 0.0)"
        flat2 == IF ~okgiven THEN TRUE ELSE flat1                       \* "without omega_k set we default to flat"
        ok2   == IF ~okgiven THEN CZero ELSE IF flat1 THEN CZero ELSE a.ok
        ol2   == IF flat2 THEN CRSub(COne, COm(a)) ELSE COl(a)           \* "if flat: omega_l = 1.0 - omega_m"
    IN CParams(a, flat2, ol2, ok2)
\* _extract_omegas: "if flat: omega_l = 1.0 - omega_m; omega_k = 0.0"
MExtractFn(a) ==
    LET ok == IF CIsNone(a.ok) THEN CZero ELSE a.ok IN
    IF a.flat THEN CParams(a, TRUE, CRSub(COne, COm(a)), CZero) ELSE CParams(a, ok[1] = 0, COl(a), ok)
MExtract(a) == IF a.api = "class" THEN MExtractClass(a) ELSE MExtractFn(a)
\* module-level dV: the parameters its E(z) is evaluated with (as found: the raw keywords)
MDvParams(a) ==
    IF a.api = "class" \/ FixedDv THEN MExtract(a)
    ELSE CParams(a, FALSE, COl(a), IF CIsNone(a.ok) THEN CZero ELSE a.ok)
\* module-level Dm: [pre, arg] = which parameter is under the square root of the prefactor / of the argument,
\* and whether its sign is flipped for a closed universe (as found: DH / sqrt(omega_l) * sin(sqrt(omega_k) ..))
MDmForm(a) ==
    LET p == MExtract(a) IN
    IF p.ok[1] = 0 THEN [pre |-> "none", neg |-> FALSE]
    ELSE IF a.api = "class" \/ FixedDm THEN [pre |-> "ok", neg |-> p.ok[1] < 0]
    ELSE [pre |-> "ol", neg |-> FALSE]
HaveArgs == phase \in {"args", "z"}
MechNormRefines == HaveArgs => \E k \in DOMAIN PNormalise(args.api, args) : PNormalise(args.api, args)[k] = MExtract(args)
MechChainRefines == HaveArgs =>
    /\ LET d == MDvParams(args)  p == MExtract(args) IN d.om = p.om /\ d.ol = p.ol /\ d.ok = p.ok       \* dV's E(z) is the cosmology's
    /\ LET f == MDmForm(args)  p == MExtract(args) IN                                                   \* Hogg eq. 16
          IF p.ok[1] = 0 THEN f.pre = "none" ELSE f.pre = "ok" /\ f.neg = (p.ok[1] < 0)
\* the property-level normalisation is well formed
NormaliseSound == HaveArgs =>
    /\ \A k \in DOMAIN PNormalise(args.api, args) : PNormalise(args.api, args)[k].H0 = CH0(args)
    /\ (args.api = "func" /\ args.flat) => PNormalise("func", args) = <<CFlatOut(args)>>
    /\ args.api = "class" => \A k \in DOMAIN PNormalise("class", args) : CNormInv(PNormalise("class", args)[k])
\* lattice sanity
E2Positive == phase = "z" =>
    \A k \in DOMAIN PNormalise(args.api, args) :
        LET p == PNormalise(args.api, args)[k]  zh == CRMax2(zp[1], zp[2])
        IN CPhysical(p, zh) => (CRLt(CZero, CE2(p, zp[1])) /\ CRLt(CZero, CE2(p, zp[2])))

\* ---- dispatch machine ---------------------------------------------------------------------------
DtAll  == <<"f8", "f4", "i8", "i4", ">f8", ">f4", ">i8">>
LayAll == <<"contig", "strided", "reversed">>
DtSeq  == SelectSeq(DtAll, LAMBDA d : d \in Dts)
LaySeq == SelectSeq(LayAll, LAMBDA l : l \in Lays)
ScalarReps == << CRep("pyfloat", "float", "na", 0), CRep("pyint", "int", "na", 0),
                 CRep("npscalar", "f8", "na", 0), CRep("npscalar", "f4", "na", 0), CRep("npscalar", "i8", "na", 0) >>
ZeroReps   == IF "zerod" \in Lays THEN [k \in 1..Len(DtSeq) |-> CRep("ndarray", DtSeq[k], "zerod", 0)] ELSE <<>>
SeqReps(n) == << CRep("list", "float", "na", n), CRep("list", "int", "na", n),
                 CRep("tuple", "float", "na", n), CRep("tuple", "int", "na", n) >>
NdReps(n) == [k \in 1..(Len(DtSeq) * Len(LaySeq)) |->
                 CRep("ndarray", DtSeq[((k - 1) % Len(DtSeq)) + 1], LaySeq[((k - 1) \div Len(DtSeq)) + 1], n)]
ArrReps(n) == SeqReps(n) \o NdReps(n)
RECURSIVE ArrUpTo(_)
ArrUpTo(n) == IF n = 0 THEN <<>> ELSE ArrUpTo(n - 1) \o ArrReps(n)
RepSeq == ScalarReps \o ZeroReps \o ArrUpTo(MaxLen)
RepSet == VRange(RepSeq)
QSeq == <<"Dc", "Dm", "Da", "Dl", "sigmacritinv", "Ez_inverse", "dV", "distmod">>
QIdx(q) == CHOOSE i \in 1..Len(QSeq) : QSeq[i] = q
\* covering design: every (api, quantity, argument position, representation) meets a scalar partner, a plain f8
\* array and a cycling array representation of the same length, a one-element array, and - every other time -
\* an array of another length
Partners(k, qi) ==
    LET r  == RepSeq[k]
        n  == IF CIsScalarRep(r) \/ CIsZeroD(r) THEN ((k + qi) % MaxLen) + 1 ELSE r.len
        a1 == ArrReps(n)
        sc == ScalarReps[((k + qi) % Len(ScalarReps)) + 1]
        ar == a1[((3 * k + qi) % Len(a1)) + 1]
        pl == CRep("ndarray", "f8", "contig", n)
        on == CRep("ndarray", "f8", "contig", 1)
        mm == CRep("ndarray", "f8", "contig", (n % MaxLen) + 1)
    IN {sc, ar, pl, on} \cup (IF ~CIsScalarRep(r) /\ ~CIsZeroD(r) /\ MaxLen > 1 /\ (k + qi) % 2 = 0 THEN {mm} ELSE {})

\* sigmacritinv exists on the class only
QAllowed(api) == IF api = "func" THEN Quants \ {"sigmacritinv"} ELSE Quants
ChooseQ ==
    /\ phase = "start"
    /\ \E a \in Apis : \E q \in QAllowed(a) : dsp' = [dsp EXCEPT !.api = a, !.q = q]
    /\ phase' = "q" /\ UNCHANGED <<args, zp, mech, hist, cc>>
ChooseSA ==
    /\ phase = "q"
    /\ \E k \in 1..Len(RepSeq) :
          \/ dsp' = [dsp EXCEPT !.sa = RepSeq[k]] /\ mech' = [mech EXCEPT !.i = k, !.n = 1]
          \/ Pairing = "cover" /\ dsp.q \in PTwoArg /\ dsp' = [dsp EXCEPT !.sb = RepSeq[k]] /\ mech' = [mech EXCEPT !.i = k, !.n = 2]
    /\ phase' = "sa" /\ UNCHANGED <<args, zp, hist, cc>>
ChooseSB ==
    /\ phase = "sa"
    /\ IF dsp.q \in POneArg THEN dsp' = dsp
       ELSE IF Pairing = "cover"
            THEN \E s \in Partners(mech.i, QIdx(dsp.q)) :
                    dsp' = IF mech.n = 1 THEN [dsp EXCEPT !.sb = s] ELSE [dsp EXCEPT !.sa = s]
            ELSE \E s \in RepSet : dsp' = [dsp EXCEPT !.sb = s]
    /\ phase' = "shaped" /\ mech' = [NoMech EXCEPT !.pc = "atleast1d"]
    /\ UNCHANGED <<args, zp, hist, cc>>

\* cosmology_purepy: numpy.atleast_1d on both redshift arguments; .size of the result
MSize(s) == IF CIsScalarRep(s) \/ CIsZeroD(s) THEN 1 ELSE s.len
\* the Dc-ladder calls an entry point makes, as <<size of z1, size of z2>> (0.0 is a scalar: size 1)
MCalls(q, sa, sb) ==
    IF q \in {"Dc", "Dm", "Da", "Dl"} THEN << <<MSize(sa), MSize(sb)>> >>
    ELSE IF q \in {"dV", "distmod"} THEN << <<1, MSize(sa)>> >>
    ELSE IF q = "sigmacritinv" THEN << <<1, MSize(sa)>>, <<1, MSize(sb)>>, <<MSize(sa), MSize(sb)>> >>
    ELSE <<>>                                           \* Ez_inverse: plain array arithmetic
Atleast1d ==
    /\ phase = "shaped" /\ mech.pc = "atleast1d"
    /\ LET precheck == dsp.q = "sigmacritinv" /\ MSize(dsp.sa) # 1 /\ MSize(dsp.sb) # 1 /\ MSize(dsp.sa) # MSize(dsp.sb)
       IN mech' = [mech EXCEPT !.calls = MCalls(dsp.q, dsp.sa, dsp.sb), !.pc = IF precheck THEN "raised" ELSE "ladder"]
    /\ UNCHANGED <<phase, args, zp, dsp, hist, cc>>
\* Dc: "if z1.size == z2.size: ... else: if z1.size == 1: ... elif z2.size == 1: ... else: raise ValueError"
Ladder ==
    /\ mech.pc = "ladder"
    /\ IF mech.calls = <<>> THEN mech' = [mech EXCEPT !.pc = "done"]
       ELSE LET la == Head(mech.calls)[1]  lb == Head(mech.calls)[2] IN
            IF la = lb THEN mech' = [mech EXCEPT !.calls = Tail(@)]                  \* one call / a loop over numpy scalars
            ELSE IF la = 1 \/ lb = 1 THEN mech' = [mech EXCEPT !.pc = "loop", !.i = 1, !.n = VMax2(la, lb)]
            ELSE mech' = [mech EXCEPT !.pc = "raised"]
    /\ UNCHANGED <<phase, args, zp, dsp, hist, cc>>
\* "dc[i] = dh * self.Ezinv_integral(z1, z2[i])": z1 is still the one-element ARRAY, so the value is a one-element
\* array; numpy >= 2 refuses to store it in an element ("setting an array element with a sequence")
LoopStep ==
    /\ mech.pc = "loop"
    /\ IF ~FixedLoop THEN mech' = [mech EXCEPT !.pc = "raised"]
       ELSE IF mech.i < mech.n THEN mech' = [mech EXCEPT !.i = @ + 1]
       ELSE mech' = [mech EXCEPT !.pc = "ladder", !.calls = Tail(@)]
    /\ UNCHANGED <<phase, args, zp, dsp, hist, cc>>
NextDispatch == ChooseQ \/ ChooseSA \/ ChooseSB \/ Atleast1d \/ Ladder \/ LoopStep
NextDispatchExport == ChooseQ \/ ChooseSA \/ ChooseSB
\* the code's argument handling produces an outcome the documentation allows
MechDispatchRefines ==
    LET A == PDispatchSet(dsp.sa, dsp.sb) IN
    /\ mech.pc = "raised" => \E e \in A : e.kind = "rejected"
    /\ mech.pc = "done" => \E e \in A : e.kind # "rejected"
RepsSound == phase = "shaped" =>
    /\ dsp.sa \in RepSet /\ (dsp.q \in PTwoArg => dsp.sb \in RepSet) /\ (dsp.q \in POneArg => dsp.sb = CAbsent)
    /\ PDispatchSet(dsp.sa, dsp.sb) # {}

\* ---- histories ----------------------------------------------------------------------------------------
\* hist = the events so far; mech.pairs = the spec state (objects); mech.calls = <<size of the global Ez rule, size of
\* the global volume rule>> (the module's cache), mech.branch = "ok" | "stale" (did some call use a stale rule)
HEv(op, id, q, n, vn) == [op |-> op, id |-> id, q |-> q, n |-> n, vn |-> vn]
HObjs == mech.pairs
HStart ==
    /\ phase = "start"
    /\ phase' = "hist" /\ mech' = [NoMech EXCEPT !.pc = "hist", !.branch = "ok", !.calls = <<0, 0>>]
    /\ UNCHANGED <<args, zp, dsp, hist, cc>>
HCan == phase = "hist" /\ Len(hist) < HLen
HNew == /\ HCan /\ Len(HObjs) < 2
        /\ \E n \in HNs, vn \in HVns :
              LET e == HEv("new", Len(HObjs) + 1, "", n, vn) IN
              hist' = Append(hist, e) /\ mech' = [mech EXCEPT !.pairs = PHNew(@, e)]
        /\ UNCHANGED <<phase, args, zp, dsp, cc>>
HSet == /\ HCan
        /\ \E id \in DOMAIN HObjs, n \in HNs \ {0} :
              LET e == HEv("set", id, "", n, 0) IN
              n # HObjs[id].npts /\ hist' = Append(hist, e) /\ mech' = [mech EXCEPT !.pairs = PHSet(@, e)]
        /\ UNCHANGED <<phase, args, zp, dsp, cc>>
HCall == /\ HCan
         /\ \E id \in DOMAIN HObjs, q \in {"Ezinv_integral", "V"} : hist' = Append(hist, HEv("call", id, q, 0, 0))
         /\ UNCHANGED <<phase, args, zp, dsp, mech, cc>>
HGet == /\ HCan /\ hist # <<>> /\ hist[Len(hist)].op = "set"                     \* reading the attribute back after a set
        /\ hist' = Append(hist, HEv("get", hist[Len(hist)].id, "", 0, 0))
        /\ UNCHANGED <<phase, args, zp, dsp, mech, cc>>
\* module function: "_ezi_run_gauleg(npts): if _EZI_XXi.size != npts: recompute" (deviating cache: only when empty)
HRefresh(cur, want) == IF FixedCache THEN want ELSE IF cur = 0 THEN want ELSE cur
HFCall == /\ HCan
          /\ \E q \in {"Ezinv_integral", "V"}, n \in HNs : \E vn \in (IF q = "V" THEN HVns ELSE {0}) :
                LET e  == HEv("fcall", 0, q, n, vn)
                    ez == HRefresh(mech.calls[1], PNpts(n))
                    vi == IF q = "V" THEN HRefresh(mech.calls[2], PVnpts(vn)) ELSE mech.calls[2]
                    good == ez = PNpts(n) /\ (q = "V" => vi = PVnpts(vn))
                IN hist' = Append(hist, e)
                   /\ mech' = [mech EXCEPT !.calls = <<ez, vi>>, !.branch = IF good THEN @ ELSE "stale"]
          /\ UNCHANGED <<phase, args, zp, dsp, cc>>
NextHist == HStart \/ HNew \/ HSet \/ HCall \/ HGet \/ HFCall
\* every call used the rule that was asked for
HistIndependent == phase = "hist" => mech.branch = "ok"
\* an honest observation of a history (every call matches exactly what the state allows first) is accepted
HHonest(evs) ==
    LET RECURSIVE go(_, _)
        go(st, i) == IF i > Len(evs) THEN <<>>
                     ELSE LET e == evs[i]
                              st2 == IF e.op = "new" THEN PHNew(st, e) ELSE IF e.op = "set" THEN PHSet(st, e) ELSE st
                              o == IF e.op = "get" THEN [err |-> "none", val |-> st[e.id].npts, match |-> <<>>]
                                   ELSE IF e.op \in {"call", "fcall"}
                                   THEN [err |-> "none", val |-> 0, match |-> <<CHOOSE m \in PHAllowed(st, e) : TRUE>>]
                                   ELSE [err |-> "none", val |-> 0, match |-> <<>>]
                          IN <<o>> \o go(st2, i + 1)
    IN go(<<>>, 1)
HistSpecSound == phase = "hist" => PFailHist([events |-> hist, obs |-> HHonest(hist)]) = {}

\* ---- sexagesimal strings ----------------------------------------------------------------------------
\* fields are written as sequences of characters
DTab == << <<"0">>, <<"0","0">>, <<"5">>, <<"0","5">>, <<"1","2">>, <<"8","9">>, <<"9","0">>, <<"2","3">>,
           <<"-","0">>, <<"-","0","0">>, <<"-","5">>, <<"-","1","2">>, <<"-","8","9">>, <<"+","1","2">>,
           <<"1","2",".","5">>, <<"-","1","2",".","2","5">>, <<"3","5","9">>, <<>>, <<"1","2",".">>, <<"1","e","1">> >>
MTab == << <<"0","0">>, <<"3","0">>, <<"5","9">>, <<"0","7">>, <<"7">>, <<"3","0",".","5">>, <<"6","0">>, <<"-","3","0">>, <<>> >>
STab == << <<"0","0">>, <<"3","0">>, <<"5","9",".","5">>, <<"0","7",".","2","5">>, <<"5","9",".","9","9","9">>,
           <<"1","2",".","3">>, <<"7","5">>, <<"0">> >>
Join(a, b) == a \o <<":">> \o b
ChooseFn ==
    /\ phase = "start"
    /\ \E fn \in {"dec", "ra"}, hrs \in BOOLEAN :
          (fn = "dec" => hrs) /\ cc' = [kind |-> "parse", fn |-> fn, hours |-> hrs, chars |-> <<>>, lvl |-> 0]
    /\ phase' = "parse" /\ UNCHANGED <<args, zp, dsp, mech, hist>>
ChooseD == /\ phase = "parse" /\ cc.lvl = 0
           /\ \E i \in DIdx : cc' = [cc EXCEPT !.chars = DTab[i], !.lvl = 1]
           /\ UNCHANGED <<phase, args, zp, dsp, mech, hist>>
ChooseM == /\ phase = "parse" /\ cc.lvl = 1
           /\ \E i \in MIdx : cc' = [cc EXCEPT !.chars = Join(@, MTab[i]), !.lvl = 2]
           /\ UNCHANGED <<phase, args, zp, dsp, mech, hist>>
ChooseS == /\ phase = "parse" /\ cc.lvl = 2
           /\ \E i \in SIdx : cc' = [cc EXCEPT !.chars = Join(@, STab[i]), !.lvl = 3]
           /\ UNCHANGED <<phase, args, zp, dsp, mech, hist>>
ChooseExtra == /\ phase = "parse" /\ cc.lvl = 3 /\ Len(cc.chars) <= 9                   \* a fourth field: silent
               /\ cc' = [cc EXCEPT !.chars = Join(@, <<"1">>), !.lvl = 4]
               /\ UNCHANGED <<phase, args, zp, dsp, mech, hist>>
NextParse == ChooseFn \/ ChooseD \/ ChooseM \/ ChooseS \/ ChooseExtra
ParseCase == [fn |-> cc.fn, hours |-> cc.hours, chars |-> cc.chars]
IsParse == phase = "parse" /\ cc.lvl >= 1
\* python's float() on a field of this alphabet: [sign] digits [. digits] (also "12." and ".5"; not "", "1e1" is 10)
MFloat(f) ==
    LET sg == IF f # <<>> /\ f[1] \in {"-", "+"} THEN f[1] ELSE ""
        b  == IF sg = "" THEN f ELSE Tail(f)
        u  == PUnsigned(IF b # <<>> /\ b[Len(b)] = "." /\ Len(b) > 1 THEN SubSeq(b, 1, Len(b) - 1) ELSE b)
    IN IF ~u.ok THEN [ok |-> FALSE, val |-> CZero] ELSE [ok |-> TRUE, val |-> IF sg = "-" THEN CRNeg(u.val) ELSE u.val]
\* coords.dec_parse / ra_parse, line by line: [err, val]
MParse(c) ==
    LET fs == PSplit(c.chars)
        fl == [i \in 1..Len(fs) |-> MFloat(fs[i])]
        used == 1..VMin2(3, Len(fs))
    IN IF \E i \in used : ~fl[i].ok THEN [err |-> "ValueError", val |-> CZero]
       ELSE LET d == fl[1].val
                m == IF Len(fs) >= 2 THEN fl[2].val ELSE CZero
                s == IF Len(fs) >= 3 THEN fl[3].val ELSE CZero
                tail == CRAdd(CRDiv(m, PSixty), CRDiv(s, <<3600, 1>>))
            IN IF c.fn = "dec"
               THEN LET neg == \E i \in DOMAIN c.chars : c.chars[i] = "-"                \* "if decstring.find('-') >= 0"
                        v == CRAdd(CRAbs(d), tail)
                    IN [err |-> "none", val |-> IF neg THEN CRNeg(v) ELSE v]
               ELSE [err |-> "none", val |-> CRMul(IF c.hours THEN <<15, 1>> ELSE COne, CRAdd(d, tail))]
MechParseRefines == IsParse =>
    LET s == PParseSpec(ParseCase)  m == MParse(ParseCase) IN
    s.any \/ (IF m.err # "none" THEN s.err_ok ELSE \E i \in DOMAIN s.cands : s.cands[i] = m.val)
\* the specification's own laws: a leading '-' negates a declination; hours = 15 x degrees
ParseLaws == (IsParse /\ ~PParseSpec(ParseCase).any) =>
    LET c == ParseCase  s == PParseSpec(c) IN
    /\ (c.fn = "dec" /\ c.chars[1] = "-") =>
          LET t == PParseSpec([c EXCEPT !.chars = Tail(c.chars)]) IN ~t.any /\ s.cands[1] = CRNeg(t.cands[1])
    /\ (c.fn = "ra" /\ c.hours) =>
          LET t == PParseSpec([c EXCEPT !.hours = FALSE]) IN
          Len(t.cands) = Len(s.cands) /\ \A i \in DOMAIN s.cands : s.cands[i] = CRMul(<<15, 1>>, t.cands[i])
    /\ Len(s.cands) >= 1

\* ---- rect_area ---------------------------------------------------------------------------------------
LonTab == <<0, 30, 45, 90, 180, 270, 360>>
LatSeq == <<-90, -30, 0, 30, 90>>
ChooseLon ==
    /\ phase = "start"
    /\ \E i \in LonIdx, j \in LonIdx, sh \in {0, 360} :
          cc' = [kind |-> "area", lon1 |-> LonTab[i] - sh, lon2 |-> LonTab[j] - sh, lat1 |-> 0, lat2 |-> 0]
    /\ phase' = "lon" /\ UNCHANGED <<args, zp, dsp, mech, hist>>
ChooseLat ==
    /\ phase = "lon"
    /\ \E i \in DOMAIN LatSeq, j \in DOMAIN LatSeq : cc' = [cc EXCEPT !.lat1 = LatSeq[i], !.lat2 = LatSeq[j]]
    /\ phase' = "area" /\ UNCHANGED <<args, zp, dsp, mech, hist>>
NextArea == ChooseLon \/ ChooseLat
AreaMid(c) == (c.lon1 + c.lon2) \div 2
AreaLatMid(c) == IF \E l \in PLats : c.lat1 < l /\ l < c.lat2 THEN CHOOSE l \in PLats : c.lat1 < l /\ l < c.lat2 ELSE c.lat1
AreaLaws == (phase = "area" /\ cc.lon1 <= cc.lon2 /\ cc.lat1 <= cc.lat2) =>
    LET m == AreaMid(cc)  l == AreaLatMid(cc) IN
    /\ (cc.lon1 + cc.lon2) % 2 = 0 => PAreaQ(cc) = CRAdd(PAreaQ([cc EXCEPT !.lon2 = m]), PAreaQ([cc EXCEPT !.lon1 = m]))
    /\ PAreaQ(cc) = CRAdd(PAreaQ([cc EXCEPT !.lat2 = l]), PAreaQ([cc EXCEPT !.lat1 = l]))
    /\ PAreaQ(cc) = PAreaQ([cc EXCEPT !.lat1 = -cc.lat2, !.lat2 = -cc.lat1])
    /\ (cc.lon1 = 0 /\ cc.lon2 = 360 /\ cc.lat1 = -90 /\ cc.lat2 = 90) => PAreaQ(cc) = <<720, 1>>      \* the sphere: 4 pi (180/pi)^2

\* ---- atbound / atbound2 -----------------------------------------------------------------------------
WVals == <<-720, -540, -450, -360, -270, -181, -180, -90, -1, 0, 45, 90, 179, 180, 181, 270, 359, 360, 361, 450, 540, 720, 1000>>
WBounds == << <<-180, 180>>, <<0, 360>>, <<-360, 360>>, <<0, 400>>, <<0, 180>>, <<90, 90>> >>
ChooseWrap ==
    /\ phase = "start"
    /\ \E b \in DOMAIN WBounds, i \in DOMAIN WVals :
          cc' = [kind |-> "wrap", lo |-> WBounds[b][1], hi |-> WBounds[b][2], vals |-> <<WVals[i]>>, cur |-> <<WVals[i]>>, pc |-> "more", steps |-> 0]
    /\ phase' = "wrap" /\ UNCHANGED <<args, zp, dsp, mech, hist>>
WrapMore ==
    /\ phase = "wrap" /\ cc.pc = "more"
    /\ \/ cc' = [cc EXCEPT !.pc = "raise"]
       \/ Len(cc.vals) < WrapLen /\ \E i \in DOMAIN WVals : (i + Len(cc.vals)) % 3 = 0 /\
             cc' = [cc EXCEPT !.vals = Append(@, WVals[i]), !.cur = Append(@, WVals[i])]
    /\ UNCHANGED <<phase, args, zp, dsp, mech, hist>>
\* "(w,) = where(longitude < minval); while w.size > 0: longitude[w] += 360.0; ..."
WRaise ==
    /\ phase = "wrap" /\ cc.pc = "raise"
    /\ IF \E i \in DOMAIN cc.cur : cc.cur[i] < cc.lo
       THEN cc' = [cc EXCEPT !.cur = [i \in DOMAIN cc.cur |-> IF cc.cur[i] < cc.lo THEN cc.cur[i] + 360 ELSE cc.cur[i]], !.steps = @ + 1]
       ELSE cc' = [cc EXCEPT !.pc = "lower"]
    /\ UNCHANGED <<phase, args, zp, dsp, mech, hist>>
WLower ==
    /\ phase = "wrap" /\ cc.pc = "lower"
    /\ IF \E i \in DOMAIN cc.cur : cc.cur[i] > cc.hi
       THEN cc' = [cc EXCEPT !.cur = [i \in DOMAIN cc.cur |-> IF cc.cur[i] > cc.hi THEN cc.cur[i] - 360 ELSE cc.cur[i]], !.steps = @ + 1]
       ELSE cc' = [cc EXCEPT !.pc = "done"]
    /\ UNCHANGED <<phase, args, zp, dsp, mech, hist>>
\* atbound2 on one (theta, phi): atbound(theta, -180, 180); fold; atbound(theta, -180, 180); atbound(phi, 0, 360); pole
W2Theta == <<-270, -180, -135, -91, -90, -45, 0, 30, 90, 91, 135, 180, 225, 270, 450, -450>>
W2Phi   == <<-180, -1, 0, 90, 180, 359, 360, 540>>
MWrap1(x, lo, hi) ==                       \* the two loops in closed form on one integer (checked against the actions below)
    LET RECURSIVE up(_)  up(v) == IF v < lo THEN up(v + 360) ELSE v
        RECURSIVE dn(_)  dn(v) == IF v > hi THEN dn(v - 360) ELSE v
    IN dn(up(x))
MWrap2(t, p) ==
    LET t1 == MWrap1(t, -180, 180)
        fold == VAbs(t1) > 90
        t2 == IF fold THEN 180 - t1 ELSE t1
        p2 == IF fold THEN p + 180 ELSE p
        t3 == MWrap1(t2, -180, 180)
        p3 == MWrap1(p2, 0, 360)
    IN <<t3, IF VAbs(t3) = 90 THEN 0 ELSE p3>>
ChooseWrap2 ==
    /\ phase = "start"
    /\ \E i \in DOMAIN W2Theta, j \in DOMAIN W2Phi : cc' = [kind |-> "wrap2", theta |-> <<W2Theta[i]>>, phi |-> <<W2Phi[j]>>]
    /\ phase' = "wrap2" /\ UNCHANGED <<args, zp, dsp, mech, hist>>
NextWrap == ChooseWrap \/ WrapMore \/ WRaise \/ WLower \/ ChooseWrap2
NextWrapExport == ChooseWrap \/ WrapMore \/ ChooseWrap2
WrapObs(out) == [err |-> "none", out |-> out, onlat |-> TRUE, inplace |-> TRUE]
MechWrapRefines ==
    /\ (phase = "wrap" /\ cc.pc = "done") =>
          /\ PFailWrap([c |-> [vals |-> cc.vals, lo |-> cc.lo, hi |-> cc.hi], obs |-> WrapObs(cc.cur)]) = {}
          /\ cc.cur = [i \in DOMAIN cc.vals |-> MWrap1(cc.vals[i], cc.lo, cc.hi)]
    /\ phase = "wrap2" =>
          LET o == MWrap2(cc.theta[1], cc.phi[1]) IN
          PFailWrap2([c |-> [theta |-> cc.theta, phi |-> cc.phi],
                      obs |-> [err |-> "none", theta |-> <<o[1]>>, phi |-> <<o[2]>>, onlat |-> TRUE, inplace |-> TRUE]]) = {}
WrapTerminates == phase = "wrap" => cc.steps <= 8

\* ---- radec2aitoff -------------------------------------------------------------------------------------
ChooseAitoff ==
    /\ phase = "start"
    /\ \E i \in 0..24, j \in 0..12 : cc' = [kind |-> "aitoff", ra |-> 15 * i, dec |-> 15 * j - 90]
    /\ phase' = "aitoff" /\ UNCHANGED <<args, zp, dsp, mech, hist>>

\* ---- cases chosen outside the model (seeded sample): TLC derives their exact side ------------------
FileCases == ndJsonDeserialize(IOEnv.CASE_FILE)
FBlock == 128
ChooseFileBlock ==
    /\ phase = "start"
    /\ \E bk \in 1..((Len(FileCases) + FBlock - 1) \div FBlock) : mech' = [mech EXCEPT !.n = bk]
    /\ phase' = "fblock" /\ UNCHANGED <<args, zp, dsp, hist, cc>>
ChooseFileCase ==
    /\ phase = "fblock"
    /\ \E t \in ((mech.n - 1) * FBlock + 1)..VMin2(mech.n * FBlock, Len(FileCases)) :
          LET f == FileCases[t] IN
          IF f.t = "pscalar"
          THEN args' = f.args /\ zp' = <<f.a, f.b>> /\ phase' = "z" /\ cc' = cc
          ELSE cc' = [kind |-> "parse", fn |-> f.c.fn, hours |-> f.c.hours, chars |-> f.c.chars, lvl |-> 1]
               /\ phase' = "parse" /\ args' = args /\ zp' = zp
    /\ mech' = [mech EXCEPT !.i = 0] /\ UNCHANGED <<dsp, hist>>
NextFile == ChooseFileBlock \/ ChooseFileCase

Next == NextScalar \/ NextDispatch \/ NextHist \/ NextParse \/ NextArea \/ NextWrap \/ ChooseAitoff
NextCoords == NextParse \/ NextArea \/ NextWrap \/ ChooseAitoff
NextCoordsExport == NextParse \/ NextArea \/ NextWrapExport \/ ChooseAitoff

\* ---- export ---------------------------------------------------------------------------------------------
CaseOf(a, z1, z2, k) ==
    LET p == PNormalise(a.api, a)[k] IN [api |-> a.api, p |-> p, a |-> z1, b |-> z2, n |-> PNpts(a.n), vn |-> PVnpts(a.vn)]
OutsFor(a, z1, z2) ==
    [k \in DOMAIN PNormalise(a.api, a) |->
        [p |-> PNormalise(a.api, a)[k], der |-> CDerived(PNormalise(a.api, a)[k], z1, z2), need |-> PNeeded(CaseOf(a, z1, z2, k))]]
\* one catalogue with the numbers of points left symbolic (they only occur as the first component of "gl" nodes)
ExportIdent == (DoExport /\ phase = "start") => PrintT(<<"IDENT", ToJson(PCatalogue("npts", "vnpts"))>>)
ExportCtor == (DoExport /\ phase = "args") =>
    PrintT(<<"CASE", ToJson([t |-> "pctor", api |-> args.api, args |-> args, n |-> args.n, vn |-> args.vn])>>)
ExportScalar ==
    /\ ExportIdent
    /\ (DoExport /\ phase = "z") =>
          PrintT(<<"CASE", ToJson([t |-> "pscalar", api |-> args.api, args |-> args, n |-> args.n, vn |-> args.vn,
                                    a |-> zp[1], b |-> zp[2], outs |-> OutsFor(args, zp[1], zp[2])])>>)
ExportDispatch == (DoExport /\ phase = "shaped") =>
    PrintT(<<"CASE", ToJson([t |-> "pdispatch", api |-> dsp.api, q |-> dsp.q, sa |-> dsp.sa, sb |-> dsp.sb,
                              allowed |-> PDispatchSet(dsp.sa, dsp.sb)])>>)
ExportHist == (DoExport /\ phase = "hist" /\ Len(hist) = HLen) =>
    PrintT(<<"CASE", ToJson([t |-> "phist", events |-> hist])>>)
ExportFile == ExportScalar /\ ((DoExport /\ IsParse) =>
          PrintT(<<"CASE", ToJson([t |-> "parse", c |-> ParseCase, spec |-> PParseSpec(ParseCase)])>>))
ExportCoords ==
    /\ (DoExport /\ IsParse) =>
          PrintT(<<"CASE", ToJson([t |-> "parse", c |-> ParseCase, spec |-> PParseSpec(ParseCase)])>>)
    /\ (DoExport /\ phase = "area") =>
          PrintT(<<"CASE", ToJson([t |-> "area", c |-> [lon1 |-> cc.lon1, lon2 |-> cc.lon2, lat1 |-> cc.lat1, lat2 |-> cc.lat2],
                                    exp |-> PAreaQ(cc), scale |-> PAreaScale(cc), mid |-> AreaMid(cc), latmid |-> AreaLatMid(cc)])>>)
    /\ (DoExport /\ phase = "wrap" /\ cc.pc = "raise") =>
          PrintT(<<"CASE", ToJson([t |-> "wrap", c |-> [vals |-> cc.vals, lo |-> cc.lo, hi |-> cc.hi]])>>)
    /\ (DoExport /\ phase = "wrap2") =>
          PrintT(<<"CASE", ToJson([t |-> "wrap2", c |-> [theta |-> cc.theta, phi |-> cc.phi]])>>)
    /\ (DoExport /\ phase = "aitoff") =>
          PrintT(<<"CASE", ToJson([t |-> "aitoff", c |-> [ra |-> cc.ra, dec |-> cc.dec]])>>)
=============================================================================
