------------------------------- MODULE CosmoPureTrace -------------------------------
(* Trace validation for extension X05: every record the harness wrote while executing the real   *)
(* code (esutil/cosmology_purepy.py, the helpers of esutil/coords.py) is judged by the            *)
(* property-level operators of CosmoPure.tla.  One ndjson line per record, discriminated by t:    *)
(*   pctor     {id, t, api, args, n, vn, err, rep, attrs}           reported parameters           *)
(*   pscalar   {id, t, api, args, n, vn, a, b, err, rep, der, res, rejected}  identity residuals  *)
(*   pdispatch {id, t, api, q, sa, sb, pairs, obs}                  argument handling             *)
(*   phist     {id, t, events, obs}                                 call histories                *)
(*   parse     {id, t, c, cands, obs}                               dec_parse / ra_parse          *)
(*   area      {id, t, c, exp, obs}                                 rect_area                     *)
(*   wrap      {id, t, c, obs}        wrap2  {id, t, c, obs}        atbound / atbound2            *)
(*   aitoff    {id, t, c, obs}                                      radec2aitoff                  *)
(* Rejected records are printed with the names of the failing clauses.                            *)
EXTENDS CosmoPure, Json, IOUtils

VARIABLES blk, tid
Traces == ndJsonDeserialize(IOEnv.TRACE_FILE)
NT == Len(Traces)
BlockSize == 256
NBlocks == (NT + BlockSize - 1) \div BlockSize

Init == blk = 0 /\ tid = 0
PickBlock == blk = 0 /\ tid = 0 /\ \E b \in 1..NBlocks : blk' = b /\ tid' = 0
PickTrace == blk > 0 /\ tid = 0
             /\ \E t \in ((blk - 1) * BlockSize + 1)..VMin2(blk * BlockSize, NT) : tid' = t /\ blk' = blk
Next == PickBlock \/ PickTrace

FailingRec(r) ==
    CASE r.t = "pctor"     -> PFailCtor(r)
      [] r.t = "pscalar"   -> PFailScalar(r)
      [] r.t = "pdispatch" -> PFailDispatch(r)
      [] r.t = "phist"     -> PFailHist(r)
      [] r.t = "parse"     -> PFailParse(r)
      [] r.t = "area"      -> PFailArea(r)
      [] r.t = "wrap"      -> PFailWrap(r)
      [] r.t = "wrap2"     -> PFailWrap2(r)
      [] r.t = "aitoff"    -> PFailAitoff(r)
      [] OTHER             -> {"harness_unknown_record_type"}

Check == tid > 0 =>
    LET r == Traces[tid]  f == FailingRec(r)
    IN f = {} \/ PrintT(<<"REJECT", ToJson([id |-> r.id, failing |-> f])>>)
=============================================================================
