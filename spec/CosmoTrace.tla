------------------------------- MODULE CosmoTrace -------------------------------
(* Trace validation for esutil.cosmology.Cosmo: every record the harness wrote     *)
(* while executing the real code is judged by the property-level operators of      *)
(* Cosmo.tla.  One ndjson line per record, discriminated by the field t:           *)
(*   ctor      {id, t, args, err, rep}                    reported parameters       *)
(*   scalar    {id, t, args, a, b, err, rep, der, res}    identity residuals        *)
(*   dispatch  {id, t, q, sa, sb, pairs, obs}             argument-shape dispatch   *)
(*   copy      {id, t, args, chain, err, rep0, steps}     copy / pickle chains      *)
(*   scale     {id, t, q, form, n, block, obs}            large arrays via the      *)
(*                                                        concatenation law         *)
(*   threads   {id, t, q, form, nthreads, mism}           concurrent = sequential   *)
(*   world     {id, t, args, f, a, b, steps, obs, signs}  sessions over twin objects *)
(*                                                        in one process = fresh    *)
(*                                                        world; twin order         *)
(* Rejected records are printed with the names of the failing clauses.             *)
EXTENDS Cosmo, Json, IOUtils

VARIABLES blk, tid
Traces == ndJsonDeserialize(IOEnv.TRACE_FILE)
NT == Len(Traces)
BlockSize == 256
NBlocks == (NT + BlockSize - 1) \div BlockSize

Init == blk = 0 /\ tid = 0
PickBlock == blk = 0 /\ tid = 0 /\ \E b \in 1..NBlocks : blk' = b /\ tid' = 0
PickTrace == blk > 0 /\ tid = 0
             /\ \E t \in ((blk - 1) * BlockSize + 1)..VMin2(blk * BlockSize, NT) : tid' = t /\ blk' = blk
Next == PickBlock \/ PickTrace

FailingRec(r) ==
    CASE r.t = "ctor"     -> CFailCtor(r)
      [] r.t = "scalar"   -> CFailScalar(r)
      [] r.t = "dispatch" -> CFailDispatch(r)
      [] r.t = "copy"     -> CFailCopy(r)
      [] r.t = "scale"    -> CFailScale(r)
      [] r.t = "threads"  -> CFailThreads(r)
      [] r.t = "world"    -> CFailWorld(r)
      [] OTHER            -> {"harness_unknown_record_type"}

Check == tid > 0 =>
    LET r == Traces[tid]  f == FailingRec(r)
    IN f = {} \/ PrintT(<<"REJECT", ToJson([id |-> r.id, failing |-> f])>>)
=============================================================================
