------------------------------- MODULE CosmoWorldMC -------------------------------
(* World machine for esutil.cosmology.Cosmo (property C11, round 4): a SESSION is a    *)
(* sequence of steps over up to MaxObj objects in one process - New(k) builds the twin  *)
(* k of one argument record (Cosmo.tla section 8), Copy makes a copy() / copy.copy /    *)
(* deepcopy / pickle round trip of a live object, Drop lets the garbage collector have  *)
(* one, Probe reads the getters and runs the battery of calls.                          *)
(*                                                                                      *)
(* Invariant WorldFresh: the struct every object computes with is the struct of its OWN *)
(* parameters, i.e. every probe's outcome is the outcome in a fresh world.  The         *)
(* faithful mechanism (cosmology.py: every __init__ builds its own _cosmolib.cosmo)     *)
(* satisfies it; the deviating mechanism (a module-level memo of structs keyed by the   *)
(* parameters printed with 6 significant digits, which survives the objects) does not.  *)
(*                                                                                      *)
(* With DoExport every complete session (MaxSteps steps, the last one a probe, at least *)
(* two objects) is printed together with the argument record and twin field it is to be *)
(* run on: all of WTab (Cover = FALSE) or one entry picked by a covering design.        *)
EXTENDS Cosmo, Json, IOUtils

CONSTANTS KIdx,        \* twin offsets: subset of DOMAIN KTab
          MaxObj, MaxSteps,
          Kinds,       \* copy kinds (subset of CCopyKinds)
          WIdx,        \* subset of DOMAIN WTab
          Cover, DoExport, Deviate

\* twin offsets k in units of 1e-9 relative: the lattice value, twins differing in the 9th, 8th and 7th digit
\* (0.3 -> 0.3000002), and one that differs in the 5th
KTab == <<0, 2, -30, 667, 20000, -700>>
KSet == {KTab[i] : i \in KIdx}

VARIABLES hist, objs, cache
vars == <<hist, objs, cache>>

\* ---- argument records x twin field ------------------------------------------------------
WArgs(H0, h, flat, om, ol, ok) == [H0 |-> H0, h |-> h, flat |-> flat, om |-> om, ol |-> ol, ok |-> ok]
WFlat70  == WArgs(<<70, 1>>, CNone, TRUE, <<3, 10>>, CNone, CNone)
WFlatH   == WArgs(CNone, <<7, 10>>, TRUE, <<3, 10>>, CNone, CNone)
WOpen    == WArgs(<<70, 1>>, CNone, FALSE, <<3, 10>>, <<3, 5>>, <<1, 10>>)
WClosed  == WArgs(CNone, <<18, 25>>, FALSE, <<3, 10>>, <<4, 5>>, <<-1, 10>>)
WEds     == WArgs(<<100, 1>>, CNone, TRUE, <<1, 1>>, CNone, CNone)
WQuarter == WArgs(<<70, 1>>, CNone, TRUE, <<1, 4>>, CNone, CNone)
WTab == << [args |-> WFlat70, f |-> "om"], [args |-> WFlat70, f |-> "H0"], [args |-> WFlatH, f |-> "h"],
           [args |-> WOpen, f |-> "om"], [args |-> WOpen, f |-> "ok"], [args |-> WOpen, f |-> "ol"],
           [args |-> WClosed, f |-> "ok"], [args |-> WClosed, f |-> "ol"], [args |-> WClosed, f |-> "h"],
           [args |-> WEds, f |-> "om"], [args |-> WQuarter, f |-> "H0"], [args |-> WOpen, f |-> "H0"] >>
WZa == <<1, 4>>
WZb == <<3, 2>>          \* the redshift pair of the twin-order clause (first entry of the harness's battery)

\* ---- mechanism -----------------------------------------------------------------------------
\* '%g' of a twin: twins within about 1e-6 relative print alike (the key of the deviating memo)
Coarse6(k) == (k + 2000) \div 4000
Struct(k) == IF Deviate /\ \E e \in cache : e[1] = Coarse6(k) THEN (CHOOSE e \in cache : e[1] = Coarse6(k))[2] ELSE k
CacheAfter(k) == IF Deviate /\ ~\E e \in cache : e[1] = Coarse6(k) THEN cache \cup {<<Coarse6(k), k>>} ELSE cache

Alive == {i \in DOMAIN objs : objs[i].alive}
Init == hist = <<>> /\ objs = <<>> /\ cache = {}

New == /\ Len(objs) < MaxObj /\ Len(hist) < MaxSteps - 1
       /\ \E k \in KSet : /\ objs' = Append(objs, [alive |-> TRUE, k |-> k, st |-> Struct(k)])
                          /\ cache' = CacheAfter(k)
                          /\ hist' = Append(hist, CWStep("new", Len(objs) + 1, k, 0, "na"))
\* copy() / __copy__ / __deepcopy__ re-run __init__ on the stored inputs, __reduce__ on the REPORTED parameters
Copy == /\ Len(objs) < MaxObj /\ Len(hist) < MaxSteps - 1
        /\ \E s \in Alive : \E kd \in Kinds :
             LET kk == IF kd = "pickle" THEN objs[s].st ELSE objs[s].k
             IN /\ objs' = Append(objs, [alive |-> TRUE, k |-> objs[s].k, st |-> Struct(kk)])
                /\ cache' = CacheAfter(kk)
                /\ hist' = Append(hist, CWStep("copy", Len(objs) + 1, 0, s, kd))
Drop == /\ Len(hist) < MaxSteps - 1
        /\ \E o \in Alive : objs' = [objs EXCEPT ![o].alive = FALSE] /\ hist' = Append(hist, CWStep("drop", o, 0, 0, "na"))
        /\ UNCHANGED cache                      \* the memo of the deviating variant survives its objects
Probe == /\ Len(hist) < MaxSteps
         /\ \E o \in Alive : /\ (hist = <<>> \/ hist[Len(hist)] # CWStep("probe", o, 0, 0, "na"))
                             /\ hist' = Append(hist, CWStep("probe", o, 0, 0, "na"))
         /\ UNCHANGED <<objs, cache>>
Next == New \/ Copy \/ Drop \/ Probe

\* ---- properties -------------------------------------------------------------------------------
\* every object computes with the struct of its own parameters: a probe's outcome is the fresh-world outcome
WorldFresh == \A o \in DOMAIN objs : objs[o].st = objs[o].k
\* the property-level reading of the step list (Cosmo.tla section 8) agrees with the machine
WorldFold == /\ CWWellFormed(hist)
             /\ \A o \in DOMAIN objs : CWTwin(hist, o) = objs[o].k /\ (CWAlive(hist, Len(hist), o) <=> objs[o].alive)
             /\ CWNObj(hist, Len(hist)) = Len(objs)
\* the twin-order law on the small scope: on the lattice, raising the twin field by 1/20 (H0: by 10) raises E^2 at every
\* z > 0 / lowers DH, whatever the other parameters; and the table is well formed
Bump(a, f) == [a EXCEPT ![f] = CRAdd(a[f], IF f = "H0" THEN <<10, 1>> ELSE <<1, 20>>)]
TwinLaw == \A w \in WIdx :
    LET a == WTab[w].args  f == WTab[w].f
        p == CNormalise(a)[1]  q == CNormalise(Bump(a, f))[1]
    IN /\ CTwinLive(a, f) /\ CTwinLive(Bump(a, f), f)
       /\ CRLt(<<1, 100>>, CMinE2(p, WZb))
       /\ IF f \in {"H0", "h"} THEN CRLt(q.DH, p.DH) /\ \A z \in {WZa, WZb, <<1, 8>>} : CE2(p, z) = CE2(q, z)
          ELSE p.DH = q.DH /\ \A z \in {WZa, WZb, <<1, 8>>, <<5, 1>>} : CRLt(CE2(p, z), CE2(q, z))
       /\ CTwinSign(a[f], 0, 1) = -CTwinSign(a[f], 1, 0) /\ CTwinSign(a[f], 3, 3) = 0
       /\ (a[f][1] > 0 => CTwinSign(a[f], 0, 1) = 1) /\ (a[f][1] < 0 => CTwinSign(a[f], 0, 1) = -1)

\* ---- export --------------------------------------------------------------------------------------
Complete == Len(hist) = MaxSteps /\ hist[Len(hist)].op = "probe" /\ Len(objs) >= 2
RECURSIVE Code(_, _)
Code(h, i) == IF i > Len(h) THEN 0
              ELSE LET s == h[i] IN (i * (3 * s.o + 5 * s.src + (IF s.k < 0 THEN 2 - s.k ELSE s.k) + (IF s.op = "drop" THEN 7 ELSE 0))) + Code(h, i + 1)
WSeq == VSortSet(WIdx)
Picks(h) == IF Cover THEN {WSeq[(Code(h, 1) % Len(WSeq)) + 1]} ELSE WIdx
ExportWorld == (DoExport /\ Complete) =>
    \A w \in Picks(hist) :
        PrintT(<<"CASE", ToJson([t |-> "world", w |-> w, args |-> WTab[w].args, f |-> WTab[w].f, a |-> WZa, b |-> WZb, steps |-> hist])>>)
=============================================================================
