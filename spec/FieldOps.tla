------------------------------- MODULE FieldOps -------------------------------
(* Property-level specification of the structured-array field operations of        *)
(* esutil.numpy_util (C07): extract_fields, remove_fields, add_fields,             *)
(* reorder_fields, combine_fields, copy_fields, copy_fields_by_name, split_fields, *)
(* and an implementation-shaped model of their descr-list mechanism.               *)
(*                                                                                *)
(* An array is  [shape : Seq(Nat), fields : Seq(Field)]                           *)
(* a field      [name, kind : STRING, sub : Seq(Nat), order : STRING,              *)
(*               inner : Seq(Field), tok : STRING]                                 *)
(*   kind  "i4" "f8" "S3" "U2" "b1" "c8" ... (base type and item size) or "struct": *)
(*   a field whose type is itself a structured dtype; `inner` is then its own field *)
(*   sequence (names - possibly equal to outer names -, kinds, sub-arrays, byte     *)
(*   orders, nested again; the tok of an inner field is "-": a nested field is ONE  *)
(*   field with one data token) and <<>> otherwise.  sub the sub-array              *)
(*   shape, order one of "<" ">" "|", tok the DATA TOKEN of the field: an opaque    *)
(*   name for its content ("A.a" = what field a of the initial array A held,        *)
(*   "zero" = zero filled, "d1" = filled with default value d1).  The harness maps  *)
(*   tokens to adversarial concrete data and reports, for every field of a real     *)
(*   array, which token's data it is element-wise equal to ("?" if none).           *)
(*                                                                                *)
(* An operation is a record (unused components empty)                              *)
(*   [op, names : Seq(STRING), strict : BOOLEAN, form : STRING,                    *)
(*    add : Seq(Field), vals : Seq(STRING), others : Seq(Array + id)]              *)
(*   op     extract remove reorder add combine copy copy_by_name split             *)
(*   form   how the names / descriptor are passed: list tuple ndarray scalar none  *)
(*          (add: descr | dtype)                                                   *)
(*   add    the fields to add (tok = "zero", or the default's token)               *)
(*   vals   copy_by_name: one value token per name                                 *)
(*   others combine: the list of arrays; copy: <<source, destination>>;            *)
(*          the current array is the entry with id = "cur"                         *)
(* An observation is                                                               *)
(*   [err : "none" | "rejected", arr : Array, views : Seq([shape, kind, order, inner, tok]),*)
(*    fresh : BOOLEAN (result shares no memory with an input),                     *)
(*    frame : BOOLEAN (inputs that must not change are bit-identical afterwards)]  *)
EXTENDS VU

FONoArr == [shape |-> <<>>, fields |-> <<>>]
FORej == [err |-> "rejected", arr |-> FONoArr, views |-> <<>>]
FOOk(a) == [err |-> "none", arr |-> a, views |-> <<>>]

FONames(a) == [i \in DOMAIN a.fields |-> a.fields[i].name]
FONameSet(a) == {a.fields[i].name : i \in DOMAIN a.fields}
FOField(a, n) == a.fields[CHOOSE i \in DOMAIN a.fields : a.fields[i].name = n]
FOArr(shape, fields) == [shape |-> shape, fields |-> fields]
FOStrip(x) == [shape |-> x.shape, fields |-> x.fields]          \* drop the id of an entry of op.others

RECURSIVE FOSize(_)
FOSize(shape) == IF shape = <<>> THEN 1 ELSE Head(shape) * FOSize(Tail(shape))

RECURSIVE FOConcat(_)
FOConcat(ss) == IF ss = <<>> THEN <<>> ELSE Head(ss) \o FOConcat(Tail(ss))

FOMissing(a, names) == \E k \in DOMAIN names : names[k] \notin FONameSet(a)
FOWithTok(f, t) == [f EXCEPT !.tok = t]

\* the arrays an operation works on, the current array substituted for its placeholder
FOOthers(pre, op) == [k \in DOMAIN op.others |-> IF op.others[k].id = "cur" THEN pre ELSE FOStrip(op.others[k])]

\* ---------------------------------------------------------------------------------
\* The documented result of every operation
\* ---------------------------------------------------------------------------------
\* "extraction and removal keep the original order"; "a missing field in strict mode" and
\* "would leave no field" are rejected
FOExtract(a, names, strict) ==
    IF strict /\ FOMissing(a, names) THEN FORej
    ELSE LET kept == SelectSeq(a.fields, LAMBDA f : f.name \in VRange(names))
         IN IF kept = <<>> THEN FORej ELSE FOOk(FOArr(a.shape, kept))

FORemove(a, names) ==
    LET kept == SelectSeq(a.fields, LAMBDA f : f.name \notin VRange(names))
    IN IF kept = <<>> THEN FORej ELSE FOOk(FOArr(a.shape, kept))

\* "reordering puts the named fields first in the order given and the rest after in original order"
FOReorder(a, names, strict) ==
    IF strict /\ FOMissing(a, names) THEN FORej
    ELSE LET present == SelectSeq(names, LAMBDA n : n \in FONameSet(a))
             front == [k \in DOMAIN present |-> FOField(a, present[k])]
             rest == SelectSeq(a.fields, LAMBDA f : f.name \notin VRange(names))
         IN FOOk(FOArr(a.shape, front \o rest))

\* "addition appends the new fields zero-filled or set to the supplied defaults"; "add an existing name" is rejected
FOAdd(a, newf) ==
    IF \E k \in DOMAIN newf : newf[k].name \in FONameSet(a) THEN FORej
    ELSE FOOk(FOArr(a.shape, a.fields \o newf))

\* "combination concatenates the field lists"; "arrays of different length or with a shared name" are rejected
FOSharedName(list) == \E i, j \in DOMAIN list : i < j /\ FONameSet(list[i]) \cap FONameSet(list[j]) # {}
FOCombine(list) ==
    IF \E i, j \in DOMAIN list : FOSize(list[i].shape) # FOSize(list[j].shape) THEN FORej
    ELSE IF FOSharedName(list) THEN FORej
    ELSE FOOk(FOArr(list[1].shape, FOConcat([k \in DOMAIN list |-> list[k].fields])))

\* "copying common fields between arrays ... obey the same per-field equality":
\* the destination keeps its own field list and types; common fields hold the source's data
FOCopy(src, dst) ==
    IF FOSize(src.shape) # FOSize(dst.shape) THEN FORej
    ELSE FOOk(FOArr(dst.shape, [k \in DOMAIN dst.fields |->
                  IF dst.fields[k].name \in FONameSet(src)
                  THEN FOWithTok(dst.fields[k], FOField(src, dst.fields[k].name).tok) ELSE dst.fields[k]]))

\* copy_fields_by_name: the named fields are set to the given values (later entries win)
FOCopyByName(a, names, vals) ==
    IF Len(names) # Len(vals) THEN FORej
    ELSE FOOk(FOArr(a.shape, [k \in DOMAIN a.fields |->
                  IF a.fields[k].name \in VRange(names)
                  THEN FOWithTok(a.fields[k], vals[VSetMax({m \in DOMAIN names : names[m] = a.fields[k].name})])
                  ELSE a.fields[k]]))

\* "splitting into per-field views": one view per requested field, in the requested order
FOView(a, f) == [shape |-> a.shape \o f.sub, kind |-> f.kind, order |-> f.order, inner |-> f.inner, tok |-> f.tok]
FOSplit(a, names, form) ==
    LET want == IF form = "none" THEN FONames(a) ELSE names
    IN IF FOMissing(a, want) THEN FORej
       ELSE [err |-> "none", arr |-> a, views |-> [k \in DOMAIN want |-> FOView(a, FOField(a, want[k]))]]

FOExpected(pre, op) ==
    CASE op.op = "extract"      -> FOExtract(pre, op.names, op.strict)
      [] op.op = "remove"       -> FORemove(pre, op.names)
      [] op.op = "reorder"      -> FOReorder(pre, op.names, op.strict)
      [] op.op = "add"          -> FOAdd(pre, op.add)
      [] op.op = "combine"      -> FOCombine(FOOthers(pre, op))
      [] op.op = "copy"         -> FOCopy(FOOthers(pre, op)[1], FOOthers(pre, op)[2])
      [] op.op = "copy_by_name" -> FOCopyByName(pre, op.names, op.vals)
      [] op.op = "split"        -> FOSplit(pre, op.names, op.form)

\* the array the next operation of a chain works on
FONextArr(pre, op) ==
    LET e == FOExpected(pre, op) IN IF e.err = "none" /\ op.op # "split" THEN e.arr ELSE pre

\* ---------------------------------------------------------------------------------
\* Freedom the statement leaves (DESIGN 4.3)
\* ---------------------------------------------------------------------------------
FOHasDup(s) == \E i, j \in DOMAIN s : i < j /\ s[i] = s[j]

\* a field type up to byte order (recursively through nested structured fields) and data
RECURSIVE FOEraseOrder(_)
FOEraseOrder(f) == [f EXCEPT !.order = "-", !.tok = "-", !.inner = [k \in DOMAIN f.inner |-> FOEraseOrder(f.inner[k])]]

\* nothing is demanded at all
FOUnconstrained(pre, op) ==
    \/ op.op = "combine" /\ LET l == FOOthers(pre, op)            \* same size, different shapes
                            IN /\ \A i, j \in DOMAIN l : FOSize(l[i].shape) = FOSize(l[j].shape)
                               /\ \E i, j \in DOMAIN l : l[i].shape # l[j].shape
    \/ op.op = "copy" /\ LET l == FOOthers(pre, op)               \* common field of a different type / different shapes
                         IN \/ (l[1].shape # l[2].shape /\ FOSize(l[1].shape) = FOSize(l[2].shape))
                            \/ \E n \in FONameSet(l[1]) \cap FONameSet(l[2]) :
                                  FOEraseOrder(FOField(l[1], n)) # FOEraseOrder(FOField(l[2], n))
    \/ op.op \in {"extract", "remove", "reorder", "copy_by_name", "split"} /\ FOHasDup(op.names)
    \/ op.op = "add" /\ FOHasDup([k \in DOMAIN op.add |-> op.add[k].name])

\* a rejection is accepted besides the documented result: the statement names no strict
\* mode for these, and is silent about names that do not exist
FORejectAlsoOK(pre, op) ==
    \/ op.op \in {"remove", "copy_by_name"} /\ FOMissing(pre, op.names)
    \/ op.op = "copy_by_name" /\ Len(op.names) # Len(op.vals)

\* (the other way round) skipping instead of rejecting is accepted
FOSkipAlsoOK(pre, op) == op.op = "split" /\ op.form # "none" /\ FOMissing(pre, op.names)
FOSkipResult(pre, op) == FOSplit(pre, SelectSeq(op.names, LAMBDA n : n \in FONameSet(pre)), "list")

\* must the result be a new array (and the inputs unchanged)?  "a new array" for a
\* one-element combination is read weakly (DESIGN section 7)
FOMustBeNew(pre, op) == \/ op.op \in {"extract", "remove", "reorder", "add"}
                        \/ op.op = "combine" /\ Len(op.others) > 1

\* forms of passing names the docstrings document (the others are observed, not gated)
FOGating(op) ==
    CASE op.op \in {"extract", "remove", "reorder"} -> op.form = "list"
      [] op.op = "add"          -> op.form \in {"descr", "dtype", "descr_np"}
      [] op.op = "combine"      -> op.form = "list"
      [] op.op = "copy"         -> TRUE
      [] op.op = "copy_by_name" -> op.form \in {"list", "scalar"}
      [] op.op = "split"        -> op.form \in {"list", "none"}

\* field types the quantifier of the statement does not name ("numeric, bytes and unicode fields", alone or
\* nested): dates, time spans and python objects are exercised and judged, but do not gate
FOOutsideKinds == {"M8[s]", "M8[ns]", "m8[ms]", "m8[us]", "O"}
RECURSIVE FOFieldOutside(_)
FOFieldOutside(f) == f.kind \in FOOutsideKinds \/ \E k \in DOMAIN f.inner : FOFieldOutside(f.inner[k])
FOArrOutside(a) == \E k \in DOMAIN a.fields : FOFieldOutside(a.fields[k])
FOInsideTypes(pre, op) ==
    /\ ~FOArrOutside(pre)
    /\ \A k \in DOMAIN op.others : ~FOArrOutside(op.others[k])
    /\ \A k \in DOMAIN op.add : ~FOFieldOutside(op.add[k])

\* ---------------------------------------------------------------------------------
\* Acceptance of an observation, clause by clause
\* ---------------------------------------------------------------------------------
FOTypeClass(f) == f.order \o f.kind \o (IF f.sub = <<>> THEN "" ELSE "[sub]")

FOFieldFailing(ef, of) ==
    (IF of.kind = ef.kind THEN {} ELSE {"field_type:" \o FOTypeClass(ef)}) \cup
    (IF of.sub = ef.sub THEN {} ELSE {"field_subshape:" \o FOTypeClass(ef)}) \cup
    (IF of.inner = ef.inner THEN {} ELSE {"field_substructure:" \o FOTypeClass(ef)}) \cup
    (IF of.order = ef.order THEN {} ELSE {"field_byteorder:" \o FOTypeClass(ef)}) \cup
    (IF of.tok = ef.tok THEN {} ELSE {"field_data:" \o FOTypeClass(ef)})

FOArrFailing(ea, oa) ==
    (IF oa.shape = ea.shape THEN {} ELSE {"shape"}) \cup
    (IF FONames(oa) = FONames(ea) THEN {}
     ELSE IF FONameSet(oa) = FONameSet(ea) /\ Len(oa.fields) = Len(ea.fields) THEN {"field_order"}
     ELSE {"field_list"}) \cup
    UNION {FOFieldFailing(ea.fields[i], oa.fields[j]) :
             <<i, j>> \in {p \in (DOMAIN ea.fields) \X (DOMAIN oa.fields) : ea.fields[p[1]].name = oa.fields[p[2]].name}}

FOViewsFailing(ev, ov) ==
    IF Len(ov) # Len(ev) THEN {"split_count"}
    ELSE UNION {(IF ov[k].shape = ev[k].shape THEN {} ELSE {"split_shape"}) \cup
                (IF ov[k].kind = ev[k].kind /\ ov[k].order = ev[k].order /\ ov[k].inner = ev[k].inner THEN {} ELSE {"split_type"}) \cup
                (IF ov[k].tok = ev[k].tok THEN {} ELSE {"split_data"}) : k \in DOMAIN ev}

FOResultFailing(pre, op, e, o) ==
    (IF op.op = "split" THEN FOViewsFailing(e.views, o.views) ELSE FOArrFailing(e.arr, o.arr)) \cup
    (IF FOMustBeNew(pre, op) /\ ~o.fresh THEN {"not_a_new_array"} ELSE {}) \cup
    (IF FOMustBeNew(pre, op) /\ ~o.frame THEN {"input_modified"} ELSE {})

FOFailing(pre, op, o) ==
    LET e == FOExpected(pre, op)
    IN IF FOUnconstrained(pre, op) THEN {}
       ELSE IF o.err # "none" THEN (IF e.err # "none" \/ FORejectAlsoOK(pre, op) THEN {} ELSE {"unexpected_error"})
       ELSE IF e.err # "none" THEN
              (IF FOSkipAlsoOK(pre, op) /\ FOResultFailing(pre, op, FOSkipResult(pre, op), o) = {} THEN {} ELSE {"not_rejected"})
       ELSE FOResultFailing(pre, op, e, o)

FOAccept(pre, op, o) == FOFailing(pre, op, o) = {}

\* =================================================================================
\* Implementation-shaped model: "descr-based construction of the new dtype", then
\* np.zeros(shape, dtype=new_descr), then the per-name copy of common fields.
\* =================================================================================
FOMZeros(shape, descr) == FOArr(shape, [k \in DOMAIN descr |-> FOWithTok(descr[k], "zero")])

\* copy_fields(arr1, arr2):  for name in names1: if name in names2: arr2[name] = arr1[name]
\* numpy assignment needs broadcastable shapes: equal, or a 0-d source
FOMCopyFields(src, dst) ==
    IF FOSize(src.shape) # FOSize(dst.shape) THEN FORej
    ELSE IF src.shape # dst.shape /\ src.shape # <<>> /\ FONameSet(src) \cap FONameSet(dst) # {} THEN FORej
    ELSE FOCopy(FOArr(dst.shape, src.fields), dst)

RECURSIVE FOMKeep(_, _, _)
\* for d in arr.dtype.descr: if (name in names) = want: new_descr.append(d)
FOMKeep(descr, names, want) ==
    IF descr = <<>> THEN <<>>
    ELSE (IF (Head(descr).name \in VRange(names)) = want THEN <<Head(descr)>> ELSE <<>>) \o FOMKeep(Tail(descr), names, want)

FOMThenCopy(pre, shape, descr) ==
    IF descr = <<>> THEN FORej ELSE FOMCopyFields(pre, FOMZeros(shape, descr))

FOMExtract(a, names, strict) ==
    IF strict /\ FOMissing(a, names) THEN FORej ELSE FOMThenCopy(a, a.shape, FOMKeep(a.fields, names, TRUE))
FOMRemove(a, names) == FOMThenCopy(a, a.shape, FOMKeep(a.fields, names, FALSE))

RECURSIVE FOMFront(_, _, _)
\* for name in ordered_names: w = where(original_names == name) ...
FOMFront(a, names, strict) ==
    IF names = <<>> THEN [err |-> "none", d |-> <<>>]
    ELSE LET r == FOMFront(a, Tail(names), strict)
         IN IF Head(names) \in FONameSet(a)
            THEN [err |-> r.err, d |-> <<FOField(a, Head(names))>> \o r.d]
            ELSE IF strict THEN [err |-> "rejected", d |-> <<>>] ELSE r
FOMReorder(a, names, strict) ==
    LET fr == FOMFront(a, names, strict)
    IN IF fr.err # "none" THEN FORej
       ELSE LET newnames == {fr.d[k].name : k \in DOMAIN fr.d}
            IN FOMThenCopy(a, a.shape, fr.d \o SelectSeq(a.fields, LAMBDA f : f.name \notin newnames))

FOMAdd(a, newf) ==
    IF \E k \in DOMAIN newf : newf[k].name \in FONameSet(a) THEN FORej
    ELSE LET z == FOMCopyFields(a, FOMZeros(a.shape, a.fields \o newf))
         IN IF z.err # "none" THEN z
            ELSE FOOk(FOArr(a.shape, [k \in DOMAIN z.arr.fields |->
                     IF k > Len(a.fields) THEN FOWithTok(z.arr.fields[k], newf[k - Len(a.fields)].tok) ELSE z.arr.fields[k]]))

\* combine_fields: FixedShape = TRUE: np.zeros(arrlist[0].shape) (repaired)
\*                 FixedShape = FALSE: np.zeros(num)              (pinned: a 1-d result)
RECURSIVE FOMCopyAll(_, _)
FOMCopyAll(list, dst) ==
    IF list = <<>> THEN FOOk(dst)
    ELSE LET r == FOMCopyFields(Head(list), dst) IN IF r.err # "none" THEN r ELSE FOMCopyAll(Tail(list), r.arr)
FOMCombine(list, FixedShape) ==
    IF Len(list) = 1 THEN FOOk(list[1])
    ELSE IF \E k \in DOMAIN list : FOSize(list[k].shape) # FOSize(list[1].shape) THEN FORej
    ELSE IF FOSharedName(list) THEN FORej                         \* np.zeros: "field occurs more than once"
    ELSE FOMCopyAll(list, FOMZeros(IF FixedShape THEN list[1].shape ELSE <<FOSize(list[1].shape)>>,
                                   FOConcat([k \in DOMAIN list |-> list[k].fields])))

FOMech(pre, op, FixedShape) ==
    CASE op.op = "extract"      -> FOMExtract(pre, op.names, op.strict)
      [] op.op = "remove"       -> FOMRemove(pre, op.names)
      [] op.op = "reorder"      -> FOMReorder(pre, op.names, op.strict)
      [] op.op = "add"          -> FOMAdd(pre, op.add)
      [] op.op = "combine"      -> FOMCombine(FOOthers(pre, op), FixedShape)
      [] op.op = "copy"         -> FOMCopyFields(FOOthers(pre, op)[1], FOOthers(pre, op)[2])
      [] op.op = "copy_by_name" -> FOCopyByName(pre, op.names, op.vals)
      [] op.op = "split"        -> FOSplit(pre, op.names, op.form)

FOMechObs(pre, op, FixedShape) ==
    LET m == FOMech(pre, op, FixedShape)
    IN [err |-> m.err, arr |-> m.arr, views |-> m.views, fresh |-> TRUE, frame |-> TRUE]
=============================================================================
