------------------------------- MODULE FieldOpsMC -------------------------------
(* Small-scope state machine for C07.  The state is the CURRENT ARRAY; every       *)
(* field operation is an action whose result is the input of the next one, so      *)
(* chains of operations are behaviours.  TLC enumerates every behaviour up to      *)
(* MaxDepth over the bounded alphabet; each behaviour (initial array + the         *)
(* operations, carried in `hist`) is exported and replayed into the real code.     *)
(* Checked on every transition: the laws of the statement (StepLaws), shape and    *)
(* name invariants, and that the implementation-shaped descr mechanism of          *)
(* FieldOps.tla refines the property (MechRefines).                                *)
EXTENDS FieldOps, Json

CONSTANTS Shapes,      \* subset of {0, 1, 2}: 0-d, (3,), (2,2)
          NFields,     \* numbers of fields of the initial array: 1..4 (named a b c d), or more - a WIDE table f1 .. fn
          Marks,       \* wide tables of more than 10 fields: the field positions (besides the last) the first operation may
                       \* name, in every order (up to 10 fields: every position)
          Rots,        \* type assignments: field k gets Types[(r + s*(k-1)) % 12 + 1], r = Rot % 12, s = 1 (Rot < 12) or 5
          NameStyles,  \* how the (symbolic) field names are spelt in the real arrays: 0 plain, 1 names that differ only in
                       \* case + long names, 2 non-ASCII names (the adapter owns the spelling table; the algebra is name-blind)
          NameCover,   \* TRUE: one style per scenario, (shape + #fields + rot) % 3 (a pairwise covering design); FALSE: all of them
          MaxDepth,    \* chain length
          Names1,      \* max length of a name selection in the first operation (all names of the array + a missing one)
          NamesN,      \* ... in later operations (first two names, last name, a missing one)
          Forms1,      \* ways of passing names tried in the first operation (later ones: "list")
          LeanFrom,    \* operations number LeanFrom+1, ... of a chain use the lean alphabet (MaxDepth: never)
          FixedShape,  \* mechanism: combine_fields keeps the input shape (TRUE, repaired) or builds a 1-d result (FALSE, pinned)
          DoExport

VARIABLES key, cur, prev, hist
vars == <<key, cur, prev, hist>>

T(kind, sub, order) == [kind |-> kind, sub |-> sub, order |-> order, inner |-> <<>>]
Fld(name, t, tok) == [name |-> name, kind |-> t.kind, sub |-> t.sub, order |-> t.order, inner |-> t.inner, tok |-> tok]
Struct(sub, inner) == [kind |-> "struct", sub |-> sub, order |-> "|", inner |-> inner]
In(name, t) == Fld(name, t, "-")
\* nested structured fields: inner names equal to outer names ("a", "b"), to the name no array has ("zz": a
\* request can list ALL inner names of ST1), to the name of an added field ("p") and of a field of another array
\* of a combination ("x") - none of them is a field name of the array -; inner sub-arrays, inner byte orders, a
\* second level, a sub-array of structures
ST1 == Struct(<<>>, <<In("a", T("f4", <<>>, ">")), In("zz", T("i2", <<2>>, "<"))>>)
ST2 == Struct(<<2>>, <<In("b", T("U2", <<>>, ">")),
                       In("m", Struct(<<>>, <<In("a", T("i4", <<>>, ">")), In("x", T("f8", <<>>, "<"))>>)),
                       In("p", T("S3", <<>>, "|"))>>)
Types == << T("i8", <<>>, "<"), ST1, T("f8", <<>>, ">"), T("S3", <<>>, "|"),
            T("i4", <<>>, ">"), T("U2", <<>>, "<"), T("i2", <<2>>, "<"), ST2,
            T("f8", <<>>, "<"), T("f4", <<2, 2>>, "<"), T("b1", <<16>>, "|"), T("c8", <<>>, ">") >>
NT == 12
ShapeOf(s) == CASE s = 0 -> <<>> [] s = 1 -> <<3>> [] s = 2 -> <<2, 2>>
OtherSize(s) == CASE s = 0 -> <<2>> [] s = 1 -> <<4>> [] s = 2 -> <<3>>     \* a shape of a different size
FieldNames == <<"a", "b", "c", "d">>
Missing == "zz"

TypeAt(r, k) == Types[(((r % NT) + (IF r < NT THEN 1 ELSE 5) * (k - 1)) % NT) + 1]
\* the algebra is independent of the number of fields (BlockLaw below): wide tables are instances like any other
FName(n, k) == IF n <= 4 THEN FieldNames[k] ELSE "f" \o ToString(k)
InitArr(s, n, r) == FOArr(ShapeOf(s), [k \in 1..n |-> Fld(FName(n, k), TypeAt(r, k), "A." \o FName(n, k))])
\* the same type in the other byte order (through every level of a nested field)
RECURSIVE Flip(_)
Flip(t) == [t EXCEPT !.order = IF @ = "<" THEN ">" ELSE IF @ = ">" THEN "<" ELSE @,
                     !.inner = [k \in DOMAIN t.inner |-> Flip(t.inner[k])]]

\* the other arrays of a scenario depend on the initial array only (exported once per scenario)
WithId(id, a) == [id |-> id, shape |-> a.shape, fields |-> a.fields]
Pool(s, n, r) ==
    LET sh == ShapeOf(s)  a == InitArr(s, n, r)
    IN [B |-> WithId("B", FOArr(sh, <<Fld("x", TypeAt(r, 4), "B.x"), Fld("y", TypeAt(r + 1, 7), "B.y")>>)),
        C |-> WithId("C", FOArr(sh, <<Fld("z", TypeAt(r, 6), "C.z")>>)),
        F |-> WithId("F", FOArr(sh, <<Fld("w", TypeAt(r, 2), "F.w")>>)),
        \* D shares the name of A's first field, E has a different size
        D |-> WithId("D", FOArr(sh, <<Fld("v", TypeAt(r, 3), "D.v"), Fld(FName(n, 1), TypeAt(r, 5), "D." \o FName(n, 1))>>)),
        E |-> WithId("E", FOArr(OtherSize(s), <<Fld("u", TypeAt(r, 1), "E.u")>>)),
        \* G has A's first and last field (same kind, the other byte order) and one of its own
        G |-> WithId("G", FOArr(sh, <<Fld("g", TypeAt(r, 8), "G.g"), Fld(a.fields[n].name, Flip(TypeAt(r, n)), "G." \o a.fields[n].name)>>
                                      \o (IF n > 1 THEN <<Fld(FName(n, 1), Flip(TypeAt(r, 1)), "G." \o FName(n, 1))>> ELSE <<>>)))]
Cur == [id |-> "cur", shape |-> <<>>, fields |-> <<>>]

Op(op, names, strict, form) == [op |-> op, names |-> names, strict |-> strict, form |-> form,
                                add |-> <<>>, vals |-> <<>>, others |-> <<>>]

\* ---- alphabets ----------------------------------------------------------------------
InjSeqs(S, m) == UNION {{q \in [1..n -> S] : \A i, j \in 1..n : i < j => q[i] # q[j]} : n \in 1..m}
First == hist = <<>>
Lean == Len(hist) >= LeanFrom                     \* a thinner alphabet for the late operations of a chain
Symbols == IF First THEN (IF Len(cur.fields) <= 4 THEN FONameSet(cur)
                         ELSE IF Len(cur.fields) <= 10 THEN FONameSet(cur)
                         ELSE {cur.fields[k].name : k \in (Marks \cap DOMAIN cur.fields) \cup {Len(cur.fields)}}) \cup {Missing}
           ELSE IF Lean THEN {cur.fields[1].name, cur.fields[Len(cur.fields)].name, Missing}
           ELSE {cur.fields[1].name, cur.fields[VMin2(2, Len(cur.fields))].name, cur.fields[Len(cur.fields)].name, Missing}
\* wide tables also get LONG requests: all names but one or two of the marked ones, in table order and reversed
Rev(q) == [k \in DOMAIN q |-> q[Len(q) + 1 - k]]
LongSeqs == IF First /\ Len(cur.fields) > 4
            THEN UNION {LET c == SelectSeq(FONames(cur), LAMBDA n : n \notin VRange(q)) IN {c, Rev(c)} :
                          q \in InjSeqs(Symbols \ {Missing}, 2)}
            ELSE {}
NameSeqs == InjSeqs(Symbols, IF First THEN Names1 ELSE NamesN) \cup LongSeqs
FormsFor(q) == IF First THEN {f \in Forms1 : f = "scalar" => Len(q) = 1} ELSE {"list"}
StrictFor(q) == IF Missing \in VRange(q) THEN {TRUE, FALSE} ELSE {TRUE}
PoolNow == Pool(key[1], key[2], key[3])

Step(op) ==
    /\ prev' = cur
    /\ cur' = FONextArr(cur, op)
    /\ hist' = hist \o <<op>>
    /\ UNCHANGED key

Start ==
    /\ key = <<>>
    /\ \E s \in Shapes : \E n \in NFields : \E r \in Rots : \E ns \in NameStyles :
          /\ NameCover => ns = (s + n + r) % 3
          /\ n > 4 => s = (n \div 3) % 3                   \* (a wide table comes in one shape)
          /\ key' = <<s, n, r, ns>>
          /\ cur' = InitArr(s, n, r) /\ prev' = InitArr(s, n, r) /\ hist' = <<>>

Running == key # <<>>
CanStep == key # <<>> /\ Len(hist) < MaxDepth       \* (first conjunct of every action: leaves are not expanded)

Extract == CanStep /\ \E q \in NameSeqs : \E st \in StrictFor(q) : \E f \in FormsFor(q) : Step(Op("extract", q, st, f))
Remove  == CanStep /\ \E q \in NameSeqs : \E f \in FormsFor(q) : Step(Op("remove", q, TRUE, f))
Reorder == CanStep /\ \E q \in NameSeqs : \E st \in StrictFor(q) : \E f \in FormsFor(q) : Step(Op("reorder", q, st, f))

\* defaults of DIFFERENT kinds side by side (each belongs to its own field: none may be converted through the type
\* of its neighbour): 64-bit integers at the ends of their range (d4, d5: no double holds them) next to floats,
\* bytes / unicode next to numbers, 0.1 in a float32 field next to an integer, a per-field ARRAY default (the data
\* token H.x: an array of the field's full shape) next to a scalar one, for a nested field too
MixedDefaults ==
    LET i8 == T("i8", <<>>, "<")  u8 == T("u8", <<>>, ">")  i4 == T("i4", <<>>, ">")  f8 == T("f8", <<>>, "<")
        f4 == T("f4", <<>>, ">")  s3 == T("S3", <<>>, "|")  u2 == T("U2", <<>>, "<")
    IN {<<Fld("p", i8, "d4"), Fld("q", f8, "d1")>>, <<Fld("q", f8, "d2"), Fld("p", u8, "d4")>>,
        <<Fld("p", i8, "d5"), Fld("q", f4, "d4")>>, <<Fld("p", s3, "d1"), Fld("q", i8, "d4")>>,
        <<Fld("p", u8, "d5"), Fld("q", u2, "d2")>>, <<Fld("p", s3, "d5"), Fld("q", u2, "d4")>>,
        <<Fld("p", i8, "H.p"), Fld("q", f8, "d1")>>, <<Fld("q", f8, "H.q"), Fld("p", u8, "d4")>>,
        <<Fld("s", ST1, "H.s")>>, <<Fld("p", i8, "d4")>>, <<Fld("q", f4, "d4"), Fld("s", ST1, "d5")>>,
        <<Fld("p", i4, "d4"), Fld("q", f8, "d5"), Fld("s", u8, "d4")>>}

\* ALIASING between the arguments of one call: the per-field array default of a new field IS a column of the table it is
\* added to (the new field has that column's type; documented result: a second field with the same data - the token of
\* the column), alone and next to a scalar default
AliasedDefaults ==
    LET c1 == cur.fields[1]  cn == cur.fields[Len(cur.fields)]
    IN {<<Fld("p", c1, c1.tok)>>, <<Fld("q", T("f8", <<>>, "<"), "d2"), Fld("p", cn, cn.tok)>>}

\* descriptors of <= 2 new fields, with and without defaults; one that names an existing field;
\* a new NESTED field (whose inner names exist at the top level: no clash, "a" inside "s" is not "a")
AddSets ==
    LET r == key[3]
        p0 == Fld("p", TypeAt(r + 2, 2), "zero")   p1 == Fld("p", TypeAt(r + 2, 2), "d1")
        q0 == Fld("q", TypeAt(r + 5, 3), "zero")   q2 == Fld("q", TypeAt(r + 5, 3), "d2")
        a0 == Fld(cur.fields[1].name, TypeAt(r, 1), "zero")
        s0 == Fld("s", ST1, "zero")                s2 == Fld("s", ST1, "d2")
    IN IF Lean THEN {<<p1>>, <<a0>>}
       ELSE {<<p0>>, <<p1>>, <<s0, p0>>, <<p1, q2>>, <<a0>>}
            \cup (IF First THEN {<<q2>>, <<p0, a0>>, <<q2, p1>>, <<s2>>} ELSE {})
            \cup (IF First /\ MaxDepth = 1 THEN {<<q0, p0>>, <<p1, s2>>, <<Fld("s", ST2, "zero")>>} \cup MixedDefaults \cup AliasedDefaults ELSE {})
\* the forms: a descr list / a dtype (one default: given bare) / a descr list with the defaults as numpy scalars
Add == CanStep /\ \E d \in AddSets : \E f \in (IF First THEN {"descr", "dtype"} \cup (IF MaxDepth = 1 THEN {"descr_np"} ELSE {}) ELSE {"descr"}) :
          Step([Op("add", <<>>, TRUE, f) EXCEPT !.add = d])

\* lists of 1..4 arrays; a shared name; a different size
CombineLists ==
    LET P == PoolNow
    IN IF Lean THEN {<<Cur, P.B>>, <<P.C, Cur, P.B, P.F>>, <<Cur, P.D>>}
       ELSE {<<Cur>>, <<Cur, P.B>>, <<P.B, Cur>>, <<Cur, P.B, P.C>>, <<P.C, Cur, P.B, P.F>>, <<Cur, P.D>>, <<Cur, P.E>>}
       \cup (IF First THEN {<<Cur, P.C, P.F>>, <<Cur, P.B, P.C, P.F>>, <<P.E, Cur>>, <<Cur, P.B, P.E>>, <<Cur, P.F, P.D>>,
                            <<Cur, Cur>>, <<P.B, Cur, P.B>>}                 \* the same array twice (every name is shared)
             ELSE {})
Combine == CanStep /\ \E l \in CombineLists : \E f \in (IF First THEN {"list", "tuple"} ELSE {"list"}) :
              Step([Op("combine", <<>>, TRUE, f) EXCEPT !.others = l])

\* copy_fields(source, destination): into the current array, out of it, and between unequal sizes
\* ... and of an array into itself (source and destination are the same object: nothing changes)
Copy == CanStep /\ \E l \in (IF Lean THEN {<<PoolNow.G, Cur>>} ELSE {<<PoolNow.G, Cur>>, <<Cur, PoolNow.G>>, <<PoolNow.E, Cur>>, <<Cur, Cur>>}) :
           Step([Op("copy", <<>>, TRUE, "list") EXCEPT !.others = l])

CopyByName == CanStep /\ \E q \in (IF Lean THEN {<<cur.fields[1].name>>} ELSE InjSeqs(Symbols, IF First THEN 2 ELSE 1)) : \E f \in FormsFor(q) :
                 \* (2: a range-end value next to a float / text; 3: a per-field array; 4: the value IS the column it is assigned to)
                 \E vp \in (IF First /\ MaxDepth = 1 THEN {1, 2, 3, 4} ELSE {1}) :
                 Step([Op("copy_by_name", q, TRUE, f) EXCEPT !.vals = [k \in DOMAIN q |->
                          CASE vp = 1 -> (IF k = 1 THEN "d1" ELSE "d3")
                            [] vp = 2 -> (IF k = 1 THEN "d4" ELSE "d2")
                            [] vp = 3 -> (IF k = 1 THEN "H.p" ELSE "d1")
                            [] vp = 4 -> (IF q[k] \in FONameSet(cur) THEN FOField(cur, q[k]).tok ELSE "d1")]])

Split == CanStep /\ \/ \E q \in (IF Lean THEN {<<cur.fields[Len(cur.fields)].name>>, <<Missing>>} ELSE NameSeqs) : \E f \in FormsFor(q) : Step(Op("split", q, TRUE, f))
                    \/ Step(Op("split", <<>>, TRUE, "none"))

Next == Start \/ Extract \/ Remove \/ Reorder \/ Add \/ Combine \/ Copy \/ CopyByName \/ Split
Init == key = <<>> /\ cur = FONoArr /\ prev = FONoArr /\ hist = <<>>
Spec == Init /\ [][Next]_vars

\* ---- properties ------------------------------------------------------------------------
Last == hist[Len(hist)]
Stepped == hist # <<>>

NamesDistinct == \A i, j \in DOMAIN cur.fields : i < j => cur.fields[i].name # cur.fields[j].name
\* "a new array of the same shape": no operation ever changes the shape; an array always has a field
ShapeInv == Running => cur.shape = ShapeOf(key[1]) /\ cur.fields # <<>>

IsSubSeq(s, t) ==          \* s is t with some entries left out
    LET RECURSIVE go(_, _)
        go(i, j) == IF i > Len(s) THEN TRUE ELSE IF j > Len(t) THEN FALSE
                    ELSE IF s[i] = t[j] THEN go(i + 1, j + 1) ELSE go(i, j + 1)
    IN go(1, 1)

\* the laws of the statement, stated independently of the constructive definitions
StepLaws == Stepped => LET E0 == FOExpected(prev, Last) IN (E0.err = "none" /\ ~FOUnconstrained(prev, Last)) =>
    LET op == Last  a == prev  b == E0.arr  nb == FONames(b)  na == FONames(a) IN
    /\ op.op \in {"extract", "remove", "reorder", "add", "combine"} =>
          \* every retained field has the same type, sub-array shape, byte order and data
          /\ \A n \in FONameSet(a) \cap FONameSet(b) : FOField(b, n) = FOField(a, n)
          /\ b.shape = a.shape
    /\ op.op = "extract" => /\ IsSubSeq(nb, na)
                            /\ VRange(nb) = FONameSet(a) \cap VRange(op.names)
    /\ op.op = "remove"  => /\ IsSubSeq(nb, na)
                            /\ VRange(nb) = FONameSet(a) \ VRange(op.names)
    /\ op.op = "reorder" => LET front == SelectSeq(op.names, LAMBDA n : n \in FONameSet(a))
                            IN /\ SubSeq(nb, 1, Len(front)) = front
                               /\ IsSubSeq(SubSeq(nb, Len(front) + 1, Len(nb)), na)
                               /\ VRange(nb) = FONameSet(a) /\ Len(nb) = Len(na)
    /\ op.op = "add"     => /\ SubSeq(b.fields, 1, Len(a.fields)) = a.fields
                            /\ SubSeq(b.fields, Len(a.fields) + 1, Len(b.fields)) = op.add
    /\ op.op = "combine" => nb = FOConcat([k \in DOMAIN op.others |-> FONames(FOOthers(a, op)[k])])
    /\ op.op \in {"copy", "copy_by_name"} =>
          LET dst == IF op.op = "copy" THEN FOOthers(a, op)[2] ELSE a IN
          /\ nb = FONames(dst)
          /\ \A k \in DOMAIN b.fields : [b.fields[k] EXCEPT !.tok = "-"] = [dst.fields[k] EXCEPT !.tok = "-"]
    /\ (op.op = "copy" /\ op.others[1].id = op.others[2].id) => b = a              \* a copy into itself changes nothing
    /\ op.op = "split" => \A k \in DOMAIN E0.views : E0.views[k].tok = FOField(a, (IF op.form = "none" THEN na ELSE op.names)[k]).tok

\* the documented rejections are rejections
RejectLaws == Stepped =>
    LET op == Last  E0 == FOExpected(prev, Last) IN
    /\ (op.op \in {"extract", "reorder"} /\ op.strict /\ Missing \in VRange(op.names)) => E0.err = "rejected"
    /\ (op.op = "extract" /\ VRange(op.names) \cap FONameSet(prev) = {}) => E0.err = "rejected"
    /\ (op.op = "remove" /\ FONameSet(prev) \subseteq VRange(op.names)) => E0.err = "rejected"
    /\ (op.op = "add" /\ \E k \in DOMAIN op.add : op.add[k].name \in FONameSet(prev)) => E0.err = "rejected"
    /\ (op.op = "combine" /\ \E k \in DOMAIN op.others : op.others[k].id = "E") => E0.err = "rejected"
    /\ (op.op = "combine" /\ \E i, j \in DOMAIN op.others : i < j /\ op.others[i].id = op.others[j].id) => E0.err = "rejected"

\* SIZE INDEPENDENCE (what lets wide tables be judged like small ones): cut the field sequence of the input anywhere
\* (tables of more than 10 fields: after the 1st, the 8th, the middle and the last but one field);
\* extraction and removal of the whole are the concatenation of those of the two blocks, a reordering puts the named
\* fields first and then the unnamed fields of the first block followed by those of the second, a split hands out the
\* views of the named fields whichever block they are in
BlockLaw == (Stepped /\ Last.op \in {"extract", "remove", "reorder"}) =>
    LET op == [Last EXCEPT !.strict = FALSE]  a == prev  E0 == FOExpected(a, op) IN
    (E0.err = "none" /\ ~FOUnconstrained(a, op)) =>
       \A k \in (IF Len(a.fields) <= 10 THEN 0..Len(a.fields) ELSE {1, 8, Len(a.fields) \div 2, Len(a.fields) - 1}) :
          LET L == FOArr(a.shape, SubSeq(a.fields, 1, k))
              R == FOArr(a.shape, SubSeq(a.fields, k + 1, Len(a.fields)))
              res(x) == IF x.fields = <<>> THEN <<>>
                        ELSE LET e == FOExpected(x, op) IN IF e.err = "none" THEN e.arr.fields ELSE <<>>
              nfront(x) == Len(SelectSeq(op.names, LAMBDA n : n \in FONameSet(x)))
              rest(x) == SubSeq(res(x), nfront(x) + 1, Len(res(x)))
          IN IF op.op = "reorder" THEN /\ rest(a) = rest(L) \o rest(R)
                                       /\ FONameSet(FOArr(a.shape, SubSeq(E0.arr.fields, 1, nfront(a)))) = VRange(op.names) \cap FONameSet(a)
             ELSE E0.arr.fields = res(L) \o res(R)

\* the implementation-shaped mechanism refines the property (documented forms of passing names)
MechRefines == (Stepped /\ FOGating(Last)) => FOAccept(prev, Last, FOMechObs(prev, Last, FixedShape))

\* the documented result is accepted, a corrupted one is not
RefAccepted == Stepped =>
    LET E0 == FOExpected(prev, Last)
        o == [err |-> E0.err, arr |-> E0.arr, views |-> E0.views, fresh |-> TRUE, frame |-> TRUE] IN
    /\ FOAccept(prev, Last, o)
    /\ (E0.err = "none" /\ Last.op # "split" /\ ~FOUnconstrained(prev, Last)) =>
          /\ ~FOAccept(prev, Last, [o EXCEPT !.arr.shape = <<7>>])
          /\ ~FOAccept(prev, Last, [o EXCEPT !.arr.fields[1].tok = "?"])
          /\ ~FOAccept(prev, Last, [o EXCEPT !.arr.fields[1].order = "!"])
          /\ Len(E0.arr.fields) > 1 => ~FOAccept(prev, Last, [o EXCEPT !.arr.fields = Tail(@)])
          /\ Len(E0.arr.fields) > 1 => ~FOAccept(prev, Last, [o EXCEPT !.arr.fields = Tail(@) \o <<Head(@)>>])

\* ---- export ----------------------------------------------------------------------------
\* one SCEN line per scenario (initial array + the other arrays), one CASE line per behaviour
\* (the operations; other arrays by id - the harness puts the scenario's arrays back)
Compact(op) == [op EXCEPT !.others = [k \in DOMAIN op.others |-> op.others[k].id]]
Export ==
    /\ (DoExport /\ Running /\ hist = <<>>) =>
          PrintT(<<"SCEN", ToJson([key |-> key, init |-> cur, pool |-> PoolNow])>>)
    /\ (DoExport /\ Len(hist) = MaxDepth) =>
          PrintT(<<"CASE", ToJson([key |-> key, ops |-> [k \in DOMAIN hist |-> Compact(hist[k])]])>>)

\* the invariants look at the last transition only: behaviours that differ in their earlier
\* history are identified while checking them (the export run keeps them apart)
LastView == <<key, cur, prev, Len(hist), IF hist = <<>> THEN <<>> ELSE <<Last>>>>
=============================================================================
