------------------------------- MODULE FieldOpsTrace -------------------------------
(* Trace validation for C07.  The harness steps the real esutil.numpy_util through   *)
(* chains of field operations (the behaviours exported from FieldOpsMC.tla, and      *)
(* longer seeded ones); before and after every call it projects the real arrays to   *)
(* [shape, fields : (name, kind, sub-shape, byte order, data token)].  One ndjson     *)
(* line per distinct step:                                                          *)
(*   {"id": k, "pre": <array>, "op": <operation>, "obs": <observation>}             *)
(* `pre` is the projection of the real array the call was made on (= the result of   *)
(* the previous call of the chain), so every step of every chain is judged by the    *)
(* property-level FOFailing of FieldOps.tla.  Failing clauses of a form of passing   *)
(* names that the docstrings do not document are marked "nongating/", those of steps *)
(* that involve a field type outside the quantifier (dates, time spans, python       *)
(* objects) "outside/".                                                              *)
EXTENDS FieldOps, Json, IOUtils

VARIABLES blk, tid
Traces == ndJsonDeserialize(IOEnv.TRACE_FILE)
NT == Len(Traces)
BlockSize == 256
NBlocks == (NT + BlockSize - 1) \div BlockSize

Init == blk = 0 /\ tid = 0
PickBlock == blk = 0 /\ tid = 0 /\ \E b \in 1..NBlocks : blk' = b /\ tid' = 0
PickTrace == blk > 0 /\ tid = 0
             /\ \E t \in ((blk - 1) * BlockSize + 1)..VMin2(blk * BlockSize, NT) : tid' = t /\ blk' = blk
Next == PickBlock \/ PickTrace

FailingRec(r) ==
    {(IF ~FOGating(r.op) THEN "nongating/" ELSE IF FOInsideTypes(r.pre, r.op) THEN "" ELSE "outside/") \o cl :
        cl \in FOFailing(r.pre, r.op, r.obs)}

Check == tid > 0 =>
    LET r == Traces[tid]  f == FailingRec(r)
    IN f = {} \/ PrintT(<<"REJECT", ToJson([id |-> r.id, failing |-> f])>>)
=============================================================================
