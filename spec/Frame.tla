------------------------------- MODULE Frame -------------------------------
(* The frame condition of esutil's non-in-place API:                                *)
(*   a call that is not documented as in-place leaves every array argument          *)
(*   bit-for-bit unchanged in data, dtype (byte order included) and flags.          *)
(*                                                                                  *)
(* FrCalls is the catalogue: one record per public array-taking entry point of the  *)
(* families the property names, with its array parameters and the option values     *)
(* that select a different internal conversion path.  A parameter is                *)
(*   [p : name, role : what its values mean (used by the harness to build valid     *)
(*    input), kinds : admissible element kinds, base : the kind of its base layout, *)
(*    mut : TRUE iff the documentation says the call writes into it].               *)
(* Layout lattice: [order : native | swapped, contig : c | strided | reversed,      *)
(* kind : f8 f4 i8 i4 u1 S tbl] per parameter and one dimensionality 0..2 per call, *)
(* filtered by what each parameter admits ("tbl" = structured table whose multi-    *)
(* byte fields all have the given order).                                           *)
(* Value lattice: every parameter also carries a VALUE CLASS (what its elements     *)
(* are, not how they are stored):                                                   *)
(*   ord   well-behaved values of its role          nan   some elements are NaN     *)
(*   inf   some elements are +inf / -inf            zero  some elements are 0       *)
(*   neg   some elements are negative               equal all elements are equal    *)
(*   dup   some elements are repeated               ext   extreme magnitudes of the *)
(*   empty no elements (1-d, where accepted)              element type / huge offset*)
(* The special elements sit at the SAME positions in every parameter of a call, so   *)
(* that a pair such as (data: nan, weights: zero) is "NaN in the data exactly where *)
(* the weight is zero".  vals = the classes the callee accepts for that role.       *)
(* A callee whose work depends on the data (clipping, masking, wrapping longitudes, *)
(* replacing sentinels, sorting, normalising weights) takes a different branch for  *)
(* a different class; the frame condition holds for every one of them.              *)
(* Exotic element kinds (EXO): element types whose VALUES are not exactly convertible*)
(* to the callee's working type float64 and back - longdouble holding non-double     *)
(* values ("g"), uint64 above 2^63 ("u8"), int64 above 2^53 ("I8"), float16 ("f2"),   *)
(* complex128 with imaginary parts ("c16"), object arrays of python numbers ("O").    *)
(* A callee may reject them; it may not write its converted values back.             *)
(* Size class per parameter: "small" (6 elements) or "large" (>= 2^25 bytes, 1-d):    *)
(* code may treat a big buffer differently (in-place shortcuts, chunking).           *)
(* Deliberate rejections: the catalogue names the option values (rejopts), value     *)
(* classes (rejvals) and size mismatches (samesize) on which a call is DOCUMENTED to  *)
(* raise; they are explored on purpose, also with large arguments: a rejected call   *)
(* is a stutter step on every argument, exactly like a call that returns.            *)
(* Option space: the keyword options of an entry point are independent axes          *)
(* (FrOptAxes); besides the named single settings (opts) every vector of a strength-2 *)
(* covering design over the axes is an option "ax:v1,v2,.." (axopts), explored in the  *)
(* base layout of every parameter and in one layout that forces a conversion.         *)
EXTENDS VU

FrOrders  == {"native", "swapped"}
FrContigs == {"c", "strided", "reversed"}
EXO == {"g", "u8", "I8", "f2", "c16", "O"}
FrKinds   == {"f8", "f4", "i8", "i4", "u1", "S", "tbl"} \cup EXO
FrSizes   == {"small", "large"}

NUM == {"f8", "f4", "i8", "i4", "u1"}
FLT == {"f8", "f4"}
ANY == NUM \cup {"S"}
TBL == {"tbl"}

\* ---- value classes -----------------------------------------------------------------
\* "short": one element fewer than the other arguments (1-d) - a size mismatch
FrVals == {"ord", "nan", "inf", "zero", "neg", "equal", "dup", "ext", "empty", "short"}
\* what a role admits: search radii / scale factors must be valid angles (a NaN, infinite or
\* astronomically large search radius is not an input of a pair search: it asks for the whole
\* mesh); ids derived by the harness and documented output targets are not varied; the small
\* matrices have a fixed shape
FrRoleVals(role) ==
    CASE role \in {"radius", "dz"} -> {"ord", "zero", "equal", "dup", "empty", "short"}
      [] role = "scale" -> {"ord", "equal", "dup", "empty", "short"}
      \* a difference of two right ascensions is wrapped 360 degrees at a time: 1e300 is not such a difference
      [] role = "dlon" -> FrVals \ {"ext"}
      [] role \in {"htmid2", "table_target"} -> {"ord"}
      [] role \in {"cov", "cor", "diagerr"} -> FrVals \ {"empty", "short"}
      [] OTHER -> FrVals

FrP(p, role, kinds, base) == [p |-> p, role |-> role, kinds |-> kinds, base |-> base, mut |-> FALSE, vals |-> FrRoleVals(role)]
FrMut(p, role, kinds, base) == [p |-> p, role |-> role, kinds |-> kinds, base |-> base, mut |-> TRUE, vals |-> FrRoleVals(role)]
\* ---- deliberate rejections and the size class (tables by entry-point name) -------------------
\* option values on which the call is documented to raise whatever the data
FrRejOpts == {
  <<"Recfile.write", "reject_closed">>, <<"SFile.write", "reject_closed">>,
  <<"numpy_util.extract_fields", "reject_missing">>, <<"numpy_util.reorder_fields", "reject_missing">>,
  <<"numpy_util.split_fields", "reject_missing">>, <<"sfile.split_fields", "reject_missing">>, <<"recfile.split_fields", "reject_missing">>,
  <<"stat.histogram", "reject_nodata">>, <<"stat.histogram+weights", "reject_nodata">>, <<"stat.Binner(x)", "reject_nodata">>,
  <<"stat.Binner(x,y,weights)", "reject_nodata">>, <<"stat.histogram2d", "reject_nodata">>, <<"stat.histogram2d+z+weights", "reject_nodata">>,
  <<"coords.euler", "reject_select7">> }
\* (parameter, value class) on which the call is documented to raise
FrRejVals == {
  <<"numpy_util.match", "arr1", "dup">>, <<"numpy_util.match", "arr1", "equal">>, <<"numpy_util.match", "arr1", "empty">>, <<"numpy_util.match", "arr2", "empty">>,
  <<"numpy_util.match_multi", "arr1", "dup">>, <<"numpy_util.match_multi", "arr1", "equal">>,
  <<"numpy_util.match_multi", "arr1", "empty">>, <<"numpy_util.match_multi", "arr2", "empty">> }
\* entry points that check that their array arguments have one size and raise otherwise
FrSameSize == {"stat.histogram+weights", "stat.Binner(x,y)", "stat.Binner(x,weights)", "stat.Binner(x,y,weights)", "stat.histogram2d",
               "stat.histogram2d+z+weights", "stat.wmom", "coords.eq2xyz", "coords.sphdist", "coords.gcirc", "coords.eq2sdss", "coords.sdss2eq",
               "coords.rotate", "coords.euler", "coords.eq2gal", "coords.gal2eq", "coords.eq2ec", "coords.ec2eq", "coords.ec2gal", "coords.gal2ec",
               "WCS.image2sky", "Cosmo.Dc", "Cosmo.Dm", "Cosmo.Da", "Cosmo.Dl", "Cosmo.V", "Cosmo.Ezinv_integral",
               "Cosmo.sigmacritinv", "HTM.lookup_id", "Matcher()", "numpy_util.combine_fields", "numpy_util.copy_fields"}
\* (entry point, option) cheap enough to be run on arguments of 2^25 bytes (vectorised numpy / one C loop; no python
\* loop over the elements, no root finding per element, no pair search)
FrBig == {
  <<"sfile.write", "binary">>, <<"Recfile.write", "binary">>, <<"Recfile.write", "reject_closed">>, <<"recfile.write", "binary">>,
  <<"numpy_util.extract_fields", "two">>, <<"numpy_util.extract_fields", "reject_missing">>, <<"numpy_util.remove_fields", "one">>,
  <<"numpy_util.add_fields", "descr">>, <<"numpy_util.reorder_fields", "front">>, <<"numpy_util.combine_fields", "two">>,
  <<"numpy_util.copy_fields", "default">>, <<"numpy_util.split_fields", "some">>, <<"numpy_util.split_fields", "reject_missing">>,
  <<"numpy_util.to_native", "keep_dtype_off">>, <<"numpy_util.to_big_endian", "keep_dtype_on">>, <<"numpy_util.to_little_endian", "keep_dtype_off">>,
  <<"numpy_util.byteswap", "keep_dtype_off">>,
  <<"numpy_util.match", "unsorted">>, <<"numpy_util.match", "presorted">>, <<"numpy_util.match_multi", "default">>,
  <<"stat.histogram", "nbin">>, <<"stat.histogram", "reject_nodata">>, <<"stat.histogram+weights", "nbin">>, <<"stat.Binner(x,y)", "nbin">>,
  <<"stat.histogram2d", "nx_ny">>, <<"stat.histogram2d", "reject_nodata">>,
  <<"stat.wmom", "sdev">>, <<"stat.sigma_clip", "default">>, <<"stat.sigma_clip+weights", "default">>, <<"stat.get_stats", "default">>,
  <<"stat.interplin", "default">>, <<"stat.boxcar_average", "n3">>,
  <<"coords.eq2gal", "j2000">>, <<"coords.euler", "select3">>, <<"coords.euler", "reject_select7">>, <<"coords.eq2xyz", "deg">>,
  <<"coords.xyz2eq", "deg">>, <<"coords.sphdist", "deg_deg">>,
  <<"coords.gcirc", "default">>, <<"coords.eq2sdss", "default">>, <<"coords.sdss2eq", "default">>, <<"coords.shiftlon", "shift_neg">>,
  <<"coords.shiftra", "wrap">>, <<"coords.radec2aitoff", "default">>, <<"coords.rotate", "default">>, <<"coords.rect_area", "default">>,
  <<"WCS.image2sky", "tpv">>, <<"WCS.sky2image", "tpv_nofind">>, <<"WCS.get_jacobian", "tan">>, <<"WCS.image2sph", "tan">>,
  <<"WCS.sph2image", "tan">>, <<"WCS.Rotate", "forward">>, <<"WCS.ApplyCDMatrix", "forward">>, <<"WCS.Distort", "sip">>,
  <<"wcsutil.wrap_ra_diff", "default">>,
  <<"Cosmo.Dc", "array_array">>, <<"Cosmo.Da", "array_scalar">>, <<"Cosmo.Ez_inverse", "flat">>, <<"Cosmo.distmod", "flat">>,
  <<"HTM.lookup_id", "depth4">> }

\* the part of FrBig explored in the quick tier: one or two of the cheapest per family
FrBigQuick == {
  <<"Recfile.write", "reject_closed">>, <<"recfile.write", "binary">>,
  <<"numpy_util.extract_fields", "reject_missing">>, <<"numpy_util.split_fields", "some">>,
  <<"numpy_util.to_native", "keep_dtype_off">>, <<"numpy_util.byteswap", "keep_dtype_off">>,
  <<"numpy_util.match", "unsorted">>,
  <<"stat.histogram", "reject_nodata">>, <<"stat.histogram+weights", "nbin">>,
  <<"stat.wmom", "sdev">>, <<"stat.sigma_clip+weights", "default">>,
  <<"coords.eq2gal", "j2000">>, <<"coords.euler", "reject_select7">>, <<"coords.shiftlon", "shift_neg">>, <<"coords.eq2xyz", "deg">>,
  <<"WCS.ApplyCDMatrix", "forward">>, <<"WCS.Rotate", "forward">>, <<"wcsutil.wrap_ra_diff", "default">>,
  <<"Cosmo.Dc", "array_array">>, <<"HTM.lookup_id", "depth4">> }
ASSUME FrBigQuick \subseteq FrBig

FrEulerNames == {"coords.eq2gal", "coords.gal2eq", "coords.eq2ec", "coords.ec2eq", "coords.ec2gal", "coords.gal2ec"}
FrCosmoTwo == {"Cosmo.Dc", "Cosmo.Dm", "Cosmo.Da", "Cosmo.Dl", "Cosmo.V", "Cosmo.Ezinv_integral", "Cosmo.sigmacritinv"}

\* ---- option axes: the option SPACE of an entry point ------------------------------------------------
\* opts (below) are single named option settings.  The keyword options of an entry point are independent AXES
\* (units x stomp x dtype; projection x distort x find; ...), each with a default (the first value).  A callee may
\* guard a private copy by one option and write in place under another: only a COMBINATION of non-default values
\* on the caller's own representation (base layout: nothing to convert, so nothing forces a copy) shows it.
\* FrAxVectors: a covering design of strength 2 over the axes - every vector that leaves the default in at most
\* two axes (hence every pair of values of every two axes; with three axes or fewer: the full product).  Each
\* vector is an option "ax:v1,v2,.." of the entry point, explored in the base layout of every parameter and in
\* one layout that forces a conversion (FrAxLayouts).
FrAx(a, vs) == [ax |-> a, vals |-> vs]
FrOnOff(a)  == FrAx(a, <<"off", "on">>)
FrAxProj    == FrAx("proj", <<"tan", "tpv", "sip">>)
FrAxDtype   == FrAx("dtype", <<"f8", "f4">>)
FrOptAxes(name) ==
    CASE name \in FrEulerNames     -> <<FrOnOff("b1950"), FrAxDtype>>
      [] name = "coords.euler"     -> <<FrAx("select", <<"1", "2", "3", "4", "5", "6">>), FrOnOff("b1950"), FrAxDtype>>
      [] name = "coords.eq2xyz"    -> <<FrAx("units", <<"deg", "rad">>), FrOnOff("stomp"), FrAxDtype>>
      [] name = "coords.xyz2eq"    -> <<FrAx("units", <<"deg", "rad">>), FrOnOff("stomp")>>
      [] name \in {"coords.shiftlon", "coords.shiftra"} -> <<FrAx("shift", <<"none", "pos", "neg">>), FrAx("wrap", <<"on", "off">>)>>
      [] name = "WCS.image2sky"    -> <<FrAxProj, FrAx("distort", <<"on", "off">>)>>
      [] name = "WCS.sky2image"    -> <<FrAxProj, FrAx("distort", <<"on", "off">>), FrAx("find", <<"on", "off">>)>>
      [] name = "WCS.get_jacobian" -> <<FrAxProj, FrAx("distort", <<"on", "off">>), FrAx("step", <<"1", "half">>)>>
      [] name = "WCS.Distort"      -> <<FrAxProj, FrOnOff("inverse")>>
      [] name = "WCS.Rotate"       -> <<FrOnOff("reverse"), FrOnOff("origin")>>
      [] name = "stat.wmom"        -> <<FrAx("inputmean", <<"none", "given">>), FrOnOff("calcerr"), FrOnOff("sdev")>>
      [] name \in {"stat.sigma_clip", "stat.sigma_clip+weights"} ->
             <<FrAx("nsig", <<"4", "1">>), FrAx("niter", <<"4", "1">>), FrOnOff("get_err"), FrOnOff("get_indices")>>
      [] name \in {"stat.get_stats", "stat.get_stats+weights"} -> <<FrAx("nsig", <<"none", "2">>), FrOnOff("doprint")>>
      [] name \in {"stat.histogram", "stat.histogram+weights"} ->
             <<FrAx("bins", <<"binsize", "nbin", "nperbin">>), FrAx("range", <<"data", "minmax">>), FrOnOff("rev"), FrOnOff("more")>>
      [] name \in FrCosmoTwo       -> <<FrAx("form", <<"aa", "as", "sa">>), FrAx("curv", <<"flat", "curved">>)>>
      [] name = "HTM.match"        -> <<FrAx("maxmatch", <<"1", "0", "2">>), FrOnOff("file"), FrAx("radius", <<"array", "scalar">>)>>
      [] name \in {"sfile.write", "io.write"} -> <<FrAx("delim", <<"binary", "csv", "tab", "space">>), FrOnOff("header"), FrOnOff("append")>>
      [] name = "recfile.write"    -> <<FrAx("delim", <<"binary", "csv", "tab", "space">>), FrOnOff("append")>>
      [] name = "Recfile.write"    -> <<FrAx("delim", <<"binary", "csv", "tab", "space">>), FrOnOff("bracket"), FrOnOff("padnull"), FrOnOff("ignorenull")>>
      [] name = "SFile.write"      -> <<FrAx("delim", <<"binary", "csv", "tab">>), FrAx("mode", <<"w", "rplus">>), FrOnOff("twice")>>
      [] name = "stat.histogram2d" -> <<FrAx("bins", <<"nx_ny", "xbin_ybin">>), FrOnOff("rev"), FrOnOff("more")>>
      [] name = "numpy_util.extract_fields" -> <<FrAx("names", <<"one", "two", "sub_array_field">>), FrAx("strict", <<"on", "off">>)>>
      [] name = "HTM.bincount"     -> <<FrAx("scale", <<"none", "scalar">>), FrAx("getbins", <<"on", "off">>)>>
      [] name = "Matcher.match"    -> <<FrAx("maxmatch", <<"1", "0", "2">>), FrOnOff("file")>>
      [] OTHER -> <<>>
FrAxOff(ax, v) == Cardinality({i \in DOMAIN ax : v[i] # ax[i].vals[1]})
FrAxVectors(ax) ==
    IF ax = <<>> THEN {}
    ELSE {v \in [DOMAIN ax -> UNION {VRange(ax[i].vals) : i \in DOMAIN ax}] :
            /\ \A i \in DOMAIN ax : v[i] \in VRange(ax[i].vals)
            /\ (Len(ax) <= 3 \/ FrAxOff(ax, v) <= 2)}
FrAxName(v) == "ax:" \o v[1] \o (IF Len(v) >= 2 THEN "," \o v[2] ELSE "") \o (IF Len(v) >= 3 THEN "," \o v[3] ELSE "")
                     \o (IF Len(v) >= 4 THEN "," \o v[4] ELSE "")
FrAxOpts(name) == {FrAxName(v) : v \in FrAxVectors(FrOptAxes(name))}

FrC(name, fam, path, params, ndims, opts, text) ==
    [name |-> name, fam |-> fam, path |-> path, params |-> params, ndims |-> ndims, opts |-> opts, text |-> text,
     rejopts |-> {o \in opts : <<name, o>> \in FrRejOpts},
     rejvals |-> {pv \in {"arr1", "arr2"} \X FrVals : <<name, pv[1], pv[2]>> \in FrRejVals},
     samesize |-> name \in FrSameSize,
     big |-> {o \in opts : <<name, o>> \in FrBig}, bigq |-> {o \in opts : <<name, o>> \in FrBigQuick},
     axes |-> FrOptAxes(name), axopts |-> FrAxOpts(name)]

Tbl(p)      == FrP(p, "table", TBL, "tbl")
Lon(p)      == FrP(p, "lon", NUM, "f8")
Lat(p)      == FrP(p, "lat", NUM, "f8")
Z(p, role)  == FrP(p, role, NUM, "f8")
Dat(p)      == FrP(p, "data", NUM, "f8")
Wt(p)       == FrP(p, "weight", NUM, "f8")

\* paths (how the code gets from the caller's array to the thing it works on; see the
\* mechanism model at the end): "copy" - explicit copy at entry or new-array construction;
\* "wrap" - values outside a range are replaced by assignment (data dependent);
\* "alias_read" - asarray/atleast_1d/astype(copy=False) then read-only use (C const
\* accessors); "view_native" - data.view(ndarray), converted to native order for text output
FrRecfile == {
  FrC("sfile.write",   "recfile", "view_native", <<Tbl("data")>>, {0, 1, 2},
      {"binary", "csv", "tab", "space", "colon", "binary_append", "csv_append", "csv_header"}, {"csv", "tab", "space", "colon", "csv_append", "csv_header"}),
  FrC("SFile.write",   "recfile", "view_native", <<Tbl("data")>>, {0, 1, 2},
      {"binary", "csv", "tab", "binary_twice", "csv_twice", "binary_rplus", "reject_closed"}, {"csv", "tab", "csv_twice"}),
  FrC("recfile.write", "recfile", "view_native", <<Tbl("data")>>, {0, 1, 2},
      {"binary", "csv", "tab", "space", "binary_append", "csv_append"}, {"csv", "tab", "space", "csv_append"}),
  FrC("Recfile.write", "recfile", "view_native", <<Tbl("data")>>, {0, 1, 2},
      {"binary", "csv", "tab", "space", "csv_bracket", "csv_padnull", "csv_ignorenull", "csv_twice", "binary_twice", "reject_closed"},
      {"csv", "tab", "space", "csv_bracket", "csv_padnull", "csv_ignorenull", "csv_twice"}),
  FrC("io.write",      "recfile", "view_native", <<Tbl("data")>>, {0, 1, 2},
      {"rec_binary", "rec_csv", "rec_tab", "rec_binary_append", "rec_csv_append"}, {"rec_csv", "rec_tab", "rec_csv_append"}),
  FrC("io.write_rec",  "recfile", "view_native", <<Tbl("data")>>, {0, 1, 2}, {"binary", "csv", "tab"}, {"csv", "tab"}) }

FrFields == {
  FrC("numpy_util.extract_fields",  "fields", "copy", <<Tbl("arr")>>, {0, 1, 2}, {"one", "two", "sub_array_field", "nonstrict", "reject_missing"}, {}),
  FrC("numpy_util.remove_fields",   "fields", "copy", <<Tbl("arr")>>, {0, 1, 2}, {"one", "two", "scalar_name"}, {}),
  FrC("numpy_util.add_fields",      "fields", "copy", <<Tbl("arr")>>, {0, 1, 2}, {"descr", "dtype", "defaults"}, {}),
  FrC("numpy_util.reorder_fields",  "fields", "copy", <<Tbl("arr")>>, {0, 1, 2}, {"front", "all", "nonstrict", "reject_missing"}, {}),
  FrC("numpy_util.combine_fields",  "fields", "copy", <<Tbl("arr1"), FrP("arr2", "table2", TBL, "tbl")>>, {0, 1, 2}, {"two", "single"}, {}),
  FrC("numpy_util.copy_fields",     "fields", "copy", <<Tbl("arr1"), FrMut("arr2", "table_target", TBL, "tbl")>>, {0, 1, 2}, {"default"}, {}),
  FrC("numpy_util.split_fields",    "fields", "alias_read", <<Tbl("data")>>, {0, 1, 2}, {"all", "some", "getnames", "reject_missing"}, {}),
  \* the same function exists three times (numpy_util, sfile, recfile.Util)
  FrC("sfile.split_fields",         "fields", "alias_read", <<Tbl("data")>>, {0, 1, 2}, {"all", "some", "getnames", "reject_missing"}, {}),
  FrC("recfile.split_fields",       "fields", "alias_read", <<Tbl("data")>>, {0, 1, 2}, {"all", "some", "getnames", "reject_missing"}, {}),
  \* documented as writing into arr; the value arrays it copies from are protected
  FrC("numpy_util.copy_fields_by_name", "fields", "copy", <<FrMut("arr", "table_target", TBL, "tbl"), Dat("vals")>>, {0, 1, 2}, {"one", "two"}, {}),
  FrC("numpy_util.combine_arrlist", "fields", "copy", <<Tbl("arr1"), FrP("arr2", "table", TBL, "tbl")>>, {1}, {"keep", "nokeep"}, {}) }

FrByteOrder == {
  FrC(n, "byteorder", "copy", <<FrP("array", "data", ANY \cup TBL, "f8")>>, {0, 1, 2}, {"keep_dtype_off", "keep_dtype_on"}, {})
  : n \in {"numpy_util.to_native", "numpy_util.to_big_endian", "numpy_util.to_little_endian", "numpy_util.byteswap"} }

FrMatch == {
  FrC("numpy_util.match",       "match", "alias_read", <<FrP("arr1", "ids", ANY, "i8"), FrP("arr2", "ids2", ANY, "i8")>>, {0, 1}, {"unsorted", "presorted"}, {}),
  FrC("numpy_util.match_multi", "match", "alias_read", <<FrP("arr1", "ids", ANY, "i8"), FrP("arr2", "ids2", ANY, "i8")>>, {1}, {"default"}, {}),
  FrC("numpy_util.unique",      "match", "alias_read", <<FrP("arr", "dups", ANY, "i8")>>, {1}, {"indices", "values"}, {}),
  FrC("numpy_util.rem_dup",     "match", "alias_read", <<FrP("arr", "dups", ANY, "i8"), FrP("flag", "flag", NUM, "i8")>>, {1}, {"indices", "values"}, {}),
  FrC("numpy_util.strmatch",    "match", "alias_read", <<FrP("arr", "ids", {"S"}, "S")>>, {0, 1, 2}, {"prefix", "all"}, {}) }

FrHist == {
  FrC("stat.histogram", "hist", "copy", <<Dat("data")>>, {0, 1, 2},
      {"binsize", "nbin", "nperbin", "binsize_rev", "nbin_minmax", "more", "reject_nodata"}, {}),
  FrC("stat.histogram+weights", "hist", "copy", <<Dat("data"), Wt("weights")>>, {0, 1, 2},
      {"binsize", "nbin", "nperbin", "more", "reject_nodata"}, {}),
  FrC("stat.Binner(x)", "hist", "copy", <<Dat("x")>>, {0, 1, 2}, {"binsize", "nbin", "nperbin", "binsize_rev", "reject_nodata"}, {}),
  FrC("stat.Binner(x,y)", "hist", "copy", <<Dat("x"), Dat("y")>>, {0, 1, 2}, {"binsize", "nbin", "nperbin"}, {}),
  FrC("stat.Binner(x,weights)", "hist", "copy", <<Dat("x"), Wt("weights")>>, {0, 1, 2}, {"binsize", "nbin", "nperbin"}, {}),
  FrC("stat.Binner(x,y,weights)", "hist", "copy", <<Dat("x"), Dat("y"), Wt("weights")>>, {0, 1, 2}, {"binsize", "nbin", "nperbin", "nperbin_nomerge", "reject_nodata"}, {}),
  FrC("stat.histogram2d", "hist", "copy", <<Dat("x"), Dat("y")>>, {1}, {"nx_ny", "xbin_ybin", "rev", "more", "reject_nodata"}, {}),
  FrC("stat.histogram2d+z+weights", "hist", "copy", <<Dat("x"), Dat("y"), Dat("z"), Wt("weights")>>, {1}, {"nx_ny", "more", "reject_nodata"}, {}) }

FrStats == {
  FrC("stat.wmom",       "stats", "copy", <<Dat("arr"), Wt("weights")>>, {1, 2}, {"default", "calcerr", "sdev", "inputmean"}, {}),
  FrC("stat.wmedian",    "stats", "alias_read", <<Dat("arr"), Wt("weights")>>, {0, 1}, {"default"}, {}),
  FrC("stat.sigma_clip", "stats", "copy", <<Dat("arr")>>, {1, 2}, {"default", "get_err", "get_indices", "tight"}, {}),
  FrC("stat.sigma_clip+weights", "stats", "copy", <<Dat("arr"), Wt("weights")>>, {1, 2}, {"default", "get_err", "tight"}, {}),
  FrC("stat.get_stats",  "stats", "copy", <<Dat("arr")>>, {0, 1, 2}, {"default", "nsig", "doprint"}, {}),
  FrC("stat.get_stats+weights", "stats", "copy", <<Dat("arr"), Wt("weights")>>, {1, 2}, {"default", "nsig", "doprint"}, {}),
  FrC("stat.print_stats", "stats", "copy", <<Dat("arr")>>, {0, 1, 2}, {"default", "nsig"}, {}),
  FrC("stat.print_stats+weights", "stats", "copy", <<Dat("arr"), Wt("weights")>>, {1, 2}, {"default", "nsig"}, {}),
  FrC("stat.interplin",  "stats", "alias_read", <<Dat("v"), FrP("x", "ascending", NUM, "f8"), FrP("u", "query", NUM, "f8")>>, {0, 1}, {"default"}, {}),
  FrC("stat.cov2cor",    "stats", "alias_read", <<FrP("cov", "cov", FLT \cup {"i8", "i4"}, "f8")>>, {2}, {"default"}, {}),
  FrC("stat.cor2cov",    "stats", "alias_read", <<FrP("cor", "cor", FLT, "f8"), FrP("diagerr", "diagerr", NUM, "f8")>>, {2}, {"default"}, {}),
  FrC("stat.boxcar_average", "stats", "alias_read", <<Dat("x")>>, {1}, {"n2", "n3"}, {}) }

FrCoords ==
  {FrC(n, "coords", "copy", <<Lon("lon"), Lat("lat")>>, {0, 1, 2}, {"j2000", "b1950", "dtype_f4"}, {}) : n \in FrEulerNames} \cup {
  FrC("coords.euler",   "coords", "copy", <<Lon("ai"), Lat("bi")>>, {0, 1, 2}, {"select1", "select2", "select3", "select4", "select5", "select6", "reject_select7"}, {}),
  FrC("coords.eq2xyz",  "coords", "copy", <<Lon("ra"), Lat("dec")>>, {0, 1, 2}, {"deg", "rad", "stomp"}, {}),
  FrC("coords.xyz2eq",  "coords", "alias_read", <<FrP("x", "unitx", FLT, "f8"), FrP("y", "unity", FLT, "f8"), FrP("z", "unitz", FLT, "f8")>>, {0, 1, 2}, {"deg", "rad", "stomp"}, {}),
  FrC("coords.sphdist", "coords", "copy", <<Lon("ra1"), Lat("dec1"), Lon("ra2"), Lat("dec2")>>, {0, 1, 2}, {"deg_deg", "rad_rad", "deg_rad", "rad_deg"}, {}),
  FrC("coords.gcirc",   "coords", "copy", <<Lon("ra1"), Lat("dec1"), Lon("ra2"), Lat("dec2")>>, {0, 1, 2}, {"default", "getangle"}, {}),
  FrC("coords.eq2sdss", "coords", "copy", <<Lon("ra"), Lat("dec")>>, {0, 1, 2}, {"default", "dtype_f4"}, {}),
  FrC("coords.sdss2eq", "coords", "copy", <<FrP("clambda", "clambda", NUM, "f8"), FrP("ceta", "ceta", NUM, "f8")>>, {0, 1, 2}, {"default", "dtype_f4"}, {}),
  FrC("coords.shiftlon", "coords", "copy", <<Lon("lon")>>, {0, 1, 2}, {"wrap", "nowrap", "shift_pos", "shift_neg"}, {}),
  FrC("coords.shiftra",  "coords", "copy", <<Lon("ra")>>, {0, 1, 2}, {"wrap", "shift_pos", "shift_neg"}, {}),
  FrC("coords.radec2aitoff", "coords", "copy", <<Lon("ra"), Lat("dec")>>, {0, 1, 2}, {"default"}, {}),
  FrC("coords.rotate",  "coords", "alias_read", <<Lon("ra"), Lat("dec")>>, {0, 1, 2}, {"default"}, {}),
  FrC("coords.rect_area", "coords", "alias_read", <<FrP("lon_min", "clambda", NUM, "f8"), Lon("lon_max"), FrP("lat_min", "ceta", NUM, "f8"), Lat("lat_max")>>,
      {0, 1, 2}, {"default"}, {}) }

FrWcs == {
  FrC("WCS.image2sky", "wcs", "copy", <<FrP("x", "pixx", NUM, "f8"), FrP("y", "pixy", NUM, "f8")>>, {0, 1, 2},
      {"tan", "tpv", "tpv_nodistort", "sip", "sip_nodistort"}, {}),
  FrC("WCS.sky2image", "wcs", "copy", <<FrP("longitude", "skylon", FLT, "f8"), FrP("latitude", "skylat", FLT, "f8")>>, {0, 1, 2},
      {"tan", "tpv_find", "tpv_nofind", "tpv_nodistort", "sip_find", "sip_nofind", "sip_nodistort"}, {}),
  FrC("WCS.get_jacobian", "wcs", "copy", <<FrP("x", "pixx", NUM, "f8"), FrP("y", "pixy", NUM, "f8")>>, {0, 1}, {"tan", "tpv", "tpv_nodistort"}, {}),
  \* the public steps image2sky / sky2image are made of, and the module-level RA-difference wrap
  FrC("WCS.image2sph", "wcs", "copy", <<FrP("x", "clambda", NUM, "f8"), FrP("y", "ceta", NUM, "f8")>>, {0, 1, 2}, {"tan", "sip"}, {}),
  FrC("WCS.sph2image", "wcs", "copy", <<FrP("longitude", "skylon", NUM, "f8"), FrP("latitude", "skylat", NUM, "f8")>>, {0, 1, 2}, {"tan", "sip"}, {}),
  FrC("WCS.Rotate", "wcs", "copy", <<Lon("lon"), Lat("lat")>>, {0, 1, 2}, {"forward", "reverse"}, {}),
  FrC("WCS.ApplyCDMatrix", "wcs", "copy", <<FrP("x", "pixx", NUM, "f8"), FrP("y", "pixy", NUM, "f8")>>, {0, 1, 2}, {"forward", "inverse"}, {}),
  FrC("WCS.Distort", "wcs", "copy", <<FrP("x", "pixx", NUM, "f8"), FrP("y", "pixy", NUM, "f8")>>, {0, 1, 2},
      {"tan", "tpv", "sip", "tpv_inverse", "sip_inverse"}, {}),
  FrC("wcsutil.wrap_ra_diff", "wcs", "wrap", <<FrP("dra", "dlon", NUM, "f8")>>, {0, 1, 2}, {"default"}, {}) }

FrCosmoOne == {"Cosmo.dV", "Cosmo.distmod", "Cosmo.Ez_inverse"}
FrCosmo ==
  {FrC(n, "cosmo", "alias_read", <<Z("zmin", "zlo"), Z("zmax", "zhi")>>, {0, 1, 2},
       {"array_array", "array_scalar", "scalar_array", "array_array_curved"}, {}) : n \in FrCosmoTwo} \cup
  {FrC(n, "cosmo", "alias_read", <<Z("z", "zhi")>>, {0, 1, 2}, {"flat", "curved"}, {}) : n \in FrCosmoOne}

FrHtm == {
  FrC("HTM.lookup_id", "htm", "copy", <<Lon("ra"), Lat("dec")>>, {0, 1, 2}, {"depth10", "depth4"}, {}),
  \* HTM.intersect takes python floats (documented "ra: float"; the SWIG wrapper refuses arrays) and
  \* HTM.match_prepare is a deprecated stub that always raises: neither has an array argument to protect
  FrC("HTM.match", "htm", "copy", <<Lon("ra1"), Lat("dec1"), Lon("ra2"), Lat("dec2"), FrP("radius", "radius", FLT, "f8")>>, {0, 1, 2},
      {"maxmatch1", "maxmatch0", "file", "radius_scalar"}, {}),
  FrC("Matcher()", "htm", "copy", <<Lon("ra"), Lat("dec")>>, {0, 1, 2}, {"depth10"}, {}),
  FrC("Matcher.match", "htm", "copy", <<Lon("ra"), Lat("dec"), FrP("radius", "radius", FLT, "f8")>>, {0, 1, 2}, {"maxmatch1", "maxmatch0", "file"}, {}),
  FrC("HTM.bincount", "htm", "copy", <<Lon("ra1"), Lat("dec1"), Lon("ra2"), Lat("dec2")>>, {0, 1, 2}, {"default", "scale_scalar", "nobins"}, {}),
  FrC("HTM.bincount+scale", "htm", "copy", <<Lon("ra1"), Lat("dec1"), Lon("ra2"), Lat("dec2"), FrP("scale", "scale", NUM, "f8")>>, {1}, {"default"}, {}),
  FrC("HTM.bincount+htmid2", "htm", "copy", <<Lon("ra1"), Lat("dec1"), Lon("ra2"), Lat("dec2"), FrP("htmid2", "htmid2", {"i8", "i4"}, "i8")>>, {1}, {"default"}, {}),
  FrC("HTM.cylmatch", "htm", "copy", <<Lon("ra1"), Lat("dec1"), Z("z1", "zlo"), Lon("ra2"), Lat("dec2"), Z("z2", "zlo"),
                                      FrP("radius", "radius", FLT, "f8"), FrP("dz", "dz", FLT, "f8")>>, {1}, {"default", "unique"}, {}) }

FrCalls == FrRecfile \cup FrFields \cup FrByteOrder \cup FrMatch \cup FrHist \cup FrStats \cup FrCoords \cup FrWcs \cup FrCosmo \cup FrHtm

FrCallNames == {c.name : c \in FrCalls}
FrCallNamed(n) == CHOOSE c \in FrCalls : c.name = n

\* ---- layouts ---------------------------------------------------------------------
FrHasOrder(k) == k \notin {"u1", "S", "O"}
\* the exotic kinds a parameter is offered in: all of them where it takes every numeric kind, the floating ones where it takes floats only
\* (the integers beyond 2^53 are of extreme magnitude: not offered to the role that does not admit "ext")
FrXKinds(p) == (IF NUM \subseteq p.kinds THEN EXO ELSE IF FLT \subseteq p.kinds /\ p.base \in FLT THEN {"g", "f2"} ELSE {})
               \ (IF "ext" \in p.vals THEN {} ELSE {"u8", "I8"})
FrKindsOf(p) == p.kinds \cup FrXKinds(p)
FrLayoutOK(l, nd) == (FrHasOrder(l.kind) \/ l.order = "native") /\ (nd # 0 \/ l.contig # "reversed")
FrLayoutsOf(p, nd) == {l \in [order : FrOrders, contig : FrContigs, kind : p.kinds] : FrLayoutOK(l, nd)}
FrBase(p) == [order |-> "native", contig |-> "c", kind |-> p.base]
FrAdapt(p, o, g) == [order |-> IF FrHasOrder(p.base) THEN o ELSE "native", contig |-> g, kind |-> p.base]

\* layout assignments explored for one call: every admissible layout of one parameter with the
\* others in their base layout; one order/contiguity for all parameters at once; and (Pairwise)
\* every order/contiguity pair for two parameters
FrOneOff(c, nd) == UNION {{[i \in DOMAIN c.params |-> IF i = q THEN l ELSE FrBase(c.params[i])]
                           : l \in FrLayoutsOf(c.params[q], nd)} : q \in DOMAIN c.params}
FrUniform(c, nd) == {[i \in DOMAIN c.params |-> FrAdapt(c.params[i], o, g)]
                     : o \in FrOrders, g \in {h \in FrContigs : nd # 0 \/ h # "reversed"}}
FrOG(nd) == {og \in FrOrders \X FrContigs : nd # 0 \/ og[2] # "reversed"}
FrTwoOff(c, nd) == UNION {{[i \in DOMAIN c.params |-> IF i = qr[1] THEN FrAdapt(c.params[i], a[1], a[2])
                                                      ELSE IF i = qr[2] THEN FrAdapt(c.params[i], b[1], b[2])
                                                      ELSE FrBase(c.params[i])]
                           : a \in FrOG(nd), b \in FrOG(nd)}
                          : qr \in {x \in (DOMAIN c.params) \X (DOMAIN c.params) : x[1] < x[2]}}
FrLayAssignments(c, nd, Pairwise) == FrOneOff(c, nd) \cup FrUniform(c, nd) \cup (IF Pairwise THEN FrTwoOff(c, nd) ELSE {})

\* ---- value classes of the arguments --------------------------------------------------
\* NaN / inf need a floating element type (or a table: its float fields), negative values a signed one;
\* "all equal", "duplicates" need more than one element; an empty argument is 1-d
\* the exotic kinds carry their own (inexact) ordinary values only
FrValKindOK(v, k) == (v \in {"nan", "inf"} => k \in FLT \cup TBL) /\ (v = "neg" => k \notin {"u1", "S"}) /\ (v # "ord" => k \notin EXO)
FrValNdOK(v, nd)  == (v \in {"empty", "short"} => nd = 1) /\ (v \in {"equal", "dup"} => nd # 0)
\* the element kind a class is shown in: the base kind of the parameter, or f8 where the base kind cannot hold it
FrValKind(p, v) == IF FrValKindOK(v, p.base) THEN p.base ELSE "f8"
FrValAdm(p, nd) == {v \in p.vals \ {"ord"} : FrValNdOK(v, nd) /\ FrValKind(p, v) \in p.kinds /\ FrValKindOK(v, FrValKind(p, v))}
FrValOK(p, l, v, nd) == v = "ord" \/ (v \in p.vals /\ FrValNdOK(v, nd) /\ FrValKindOK(v, l.kind))
FrAllSmall(c) == [i \in DOMAIN c.params |-> "small"]
FrValLay(p, v, o, g) == LET k == IF v = "ord" THEN p.base ELSE FrValKind(p, v)
                        IN [order |-> IF FrHasOrder(k) THEN o ELSE "native", contig |-> g, kind |-> k]
FrAllOrd(c) == [i \in DOMAIN c.params |-> "ord"]

\* an assignment = [lay : layout per parameter, val : value class per parameter].  Covering design:
\*   - every layout assignment above with ordinary values;
\*   - ValOneOff : every admissible class of one parameter, the others ordinary, in the order/contiguity
\*                 shapes OG (quick: the base layout - where a callee is most likely to work on the caller's
\*                 own buffer; thorough: every order x contiguity, and every element kind that can hold it);
\*   - ValUniform: the same class in every parameter that admits it;
\*   - ValCross  : for two parameters, the pairs of XP (quick: NaN/inf against zero/negative - "NaN in the
\*                 data exactly where the weight is zero" - and NaN against inf; thorough: all pairs).
FrValOneOff(c, nd, OG) ==
    UNION {UNION {{[lay |-> [i \in DOMAIN c.params |-> IF i = q THEN FrValLay(c.params[i], v, og[1], og[2]) ELSE FrBase(c.params[i])],
                    val |-> [i \in DOMAIN c.params |-> IF i = q THEN v ELSE "ord"], size |-> FrAllSmall(c)]
                   : og \in OG} : v \in FrValAdm(c.params[q], nd)} : q \in DOMAIN c.params}
FrValKinds(c, nd) ==
    UNION {UNION {{[lay |-> [i \in DOMAIN c.params |-> IF i = q THEN [order |-> "native", contig |-> "c", kind |-> k] ELSE FrBase(c.params[i])],
                    val |-> [i \in DOMAIN c.params |-> IF i = q THEN v ELSE "ord"], size |-> FrAllSmall(c)]
                   : k \in {kk \in c.params[q].kinds : FrValKindOK(v, kk)}} : v \in FrValAdm(c.params[q], nd)} : q \in DOMAIN c.params}
FrValSame(c, nd, v) == [i \in DOMAIN c.params |-> IF v \in FrValAdm(c.params[i], nd) THEN v ELSE "ord"]
FrValUniform(c, nd) ==
    {[lay |-> [i \in DOMAIN c.params |-> FrValLay(c.params[i], FrValSame(c, nd, v)[i], "native", "c")], val |-> FrValSame(c, nd, v), size |-> FrAllSmall(c)]
     : v \in {w \in FrVals \ {"ord"} : FrValSame(c, nd, w) # FrAllOrd(c)}}
FrCrossQuick == LET A == {"nan", "inf"}  B == {"zero", "neg"} IN (A \X B) \cup (B \X A) \cup {<<"nan", "inf">>, <<"inf", "nan">>}
FrCrossAll   == (FrVals \ {"ord"}) \X (FrVals \ {"ord"})
FrValCross(c, nd, XP) ==
    UNION {{[lay |-> [i \in DOMAIN c.params |-> IF i = qr[1] THEN FrValLay(c.params[i], x[1], "native", "c")
                                                ELSE IF i = qr[2] THEN FrValLay(c.params[i], x[2], "native", "c") ELSE FrBase(c.params[i])],
             val |-> [i \in DOMAIN c.params |-> IF i = qr[1] THEN x[1] ELSE IF i = qr[2] THEN x[2] ELSE "ord"], size |-> FrAllSmall(c)]
            : x \in {y \in XP : y[1] \in FrValAdm(c.params[qr[1]], nd) /\ y[2] \in FrValAdm(c.params[qr[2]], nd)}}
           : qr \in {x \in (DOMAIN c.params) \X (DOMAIN c.params) : x[1] < x[2]}}
FrValAssignments(c, nd, Pairwise) ==
    IF Pairwise THEN FrValOneOff(c, nd, FrOG(nd)) \cup FrValKinds(c, nd) \cup FrValUniform(c, nd) \cup FrValCross(c, nd, FrCrossAll)
    ELSE FrValOneOff(c, nd, {<<"native", "c">>}) \cup FrValUniform(c, nd) \cup FrValCross(c, nd, FrCrossQuick)
\* the value classes are explored in the dimensionalities ValNDims (all of the call's where it has none of them)
FrValNd(c, ValNDims) == IF c.ndims \cap ValNDims # {} THEN c.ndims \cap ValNDims ELSE c.ndims
\* ---- exotic element kinds: one parameter in an exotic kind (ordinary - inexact - values), the others in base layout;
\* quick: native contiguous (any exotic kind has to be converted by the callee), thorough: every order x contiguity
FrExoOneOff(c, nd, OG) ==
    UNION {UNION {{[lay |-> [i \in DOMAIN c.params |-> IF i = q THEN [order |-> IF FrHasOrder(k) THEN og[1] ELSE "native", contig |-> og[2], kind |-> k]
                                                       ELSE FrBase(c.params[i])],
                    val |-> FrAllOrd(c), size |-> FrAllSmall(c)]
                   : og \in OG} : k \in FrXKinds(c.params[q])} : q \in DOMAIN c.params}
FrExoAssignments(c, nd, Pairwise) ==
    FrExoOneOff(c, nd, IF Pairwise THEN FrOG(nd) ELSE {<<"native", "c">>})

\* ---- large arguments (1-d, options of c.big): all parameters large, or one large and the others small (for an entry point
\* that wants one size that is a deliberate rejection), in the order/contiguity shapes LG, with ordinary values and - all large -
\* with each value class on which the call is documented to raise
FrLargeVals(c, S) ==
    {FrAllOrd(c)} \cup
    (IF S = DOMAIN c.params
     THEN {[i \in DOMAIN c.params |-> IF i = qv[1] THEN qv[2] ELSE "ord"]
           : qv \in {x \in (DOMAIN c.params) \X FrVals : <<c.params[x[1]].p, x[2]>> \in c.rejvals /\ x[2] \in FrValAdm(c.params[x[1]], 1)}}
     ELSE {})
FrLargeFor(c, S, LG) ==
    UNION {{[lay |-> [i \in DOMAIN c.params |-> IF i \in S THEN FrAdapt(c.params[i], og[1], og[2]) ELSE FrBase(c.params[i])],
             val |-> v, size |-> [i \in DOMAIN c.params |-> IF i \in S THEN "large" ELSE "small"]]
            : v \in FrLargeVals(c, S)} : og \in LG}
FrLargeAssignments(c, nd, opt, Pairwise) ==
    IF nd # 1 \/ opt \notin (IF Pairwise THEN c.big ELSE c.bigq) THEN {}
    ELSE LET LG == IF Pairwise THEN {<<"native", "c">>, <<"swapped", "c">>, <<"swapped", "strided">>, <<"native", "strided">>}
                   ELSE {<<"swapped", "c">>}
         IN UNION {FrLargeFor(c, S, LG) : S \in {DOMAIN c.params} \cup {{q} : q \in DOMAIN c.params}}

\* is the invocation one of the DELIBERATE rejections (the callee is documented to raise)?
FrCount(v, z) == IF v = "empty" THEN "none" ELSE IF v = "short" THEN z \o "-1" ELSE z
FrExpectReject(c, opt, val, size) ==
    \/ opt \in c.rejopts
    \/ \E i \in DOMAIN c.params : <<c.params[i].p, val[i]>> \in c.rejvals
    \/ c.samesize /\ (c.fam = "cosmo" => opt \in {"array_array", "array_array_curved"}) /\ \E i, j \in DOMAIN c.params : FrCount(val[i], size[i]) # FrCount(val[j], size[j])

\* an option vector: every parameter in its base layout (the caller's own representation) and all of them in one
\* layout that forces a conversion; ordinary values
FrAxVec(c, opt) == CHOOSE v \in FrAxVectors(c.axes) : FrAxName(v) = opt
FrAllBase(c) == [i \in DOMAIN c.params |-> FrBase(c.params[i])]
FrAxLayouts(c, nd) == {FrAllBase(c), [i \in DOMAIN c.params |-> FrAdapt(c.params[i], "swapped", "strided")]}
FrAssignments(c, nd, opt, Pairwise, ValNDims) ==
    IF opt \in c.axopts THEN {[lay |-> l, val |-> FrAllOrd(c), size |-> FrAllSmall(c)] : l \in FrAxLayouts(c, nd)} ELSE
    \* (quick: an option that ends in a documented rejection whatever the data is run in the uniform layouts only)
    {[lay |-> l, val |-> FrAllOrd(c), size |-> FrAllSmall(c)]
     : l \in IF opt \in c.rejopts /\ ~Pairwise THEN FrUniform(c, nd) ELSE FrLayAssignments(c, nd, Pairwise)} \cup
    (IF nd \in FrValNd(c, ValNDims) THEN FrValAssignments(c, nd, Pairwise) \cup FrExoAssignments(c, nd, Pairwise) ELSE {}) \cup
    FrLargeAssignments(c, nd, opt, Pairwise)

\* ---- the frame condition on one observed invocation -----------------------------------
\* snap = Seq over parameters of [data, base, dtype, flags]: opaque tokens taken from the real
\* argument before and after the call (data = its bytes, base = the bytes of the whole buffer it
\* lives in, dtype = dtype incl. byte order, flags = flags + strides + shape)
FrFrameFailing(c, pre, post) ==
    UNION {IF c.params[i].mut THEN {}
           ELSE (IF post[i].data = pre[i].data /\ post[i].base = pre[i].base THEN {} ELSE {<<i, "data">>}) \cup
                (IF post[i].dtype = pre[i].dtype THEN {} ELSE {<<i, "dtype">>}) \cup
                (IF post[i].flags = pre[i].flags THEN {} ELSE {<<i, "flags">>})
           : i \in DOMAIN c.params}

\* ---- implementation-shaped model of the argument paths ---------------------------------
\* Does the code's path write through an alias of the caller's buffer?
\*   FixedTextWrite = FALSE : the pinned Recfile.write - view of the caller's data, converted to
\*                            native order IN PLACE before text output;
\*   FixedTextWrite = TRUE  : converted through astype(native, copy=False) (copy iff needed).
\*   path "wrap" (wcsutil.wrap_ra_diff): the differences outside [-180, 180] are wrapped by assignment
\*   FixedWrap = FALSE : ... into the array that was passed (the code as pinned);
\*   FixedWrap = TRUE  : ... into a copy made at entry.
\*   Whether there is anything to wrap depends on the VALUES: the differences of the harness (role "dlon",
\*   -360..360) contain one outside [-180, 180] in every class except "all equal" (10.5) and "empty".
\* text output: a named text option, or an option vector of a record-file writer whose first axis (the delimiter) is not "binary"
FrIsText(c, opt) == opt \in c.text \/ (opt \in c.axopts /\ c.fam = "recfile" /\ FrAxVec(c, opt)[1] # "binary")
FrNeedsNative(c, opt, l) == c.path = "view_native" /\ FrIsText(c, opt) /\ l.order = "swapped"
FrNeedsWrap(c, v) == c.path = "wrap" /\ v \notin {"equal", "empty"}
\*   path "copy" with option axes (coords.eq2xyz: units x stomp): the callee converts units in place under the
\*   default of its first axis and applies another in-place step under a non-default value of its second axis
\*   FixedOptCopy = TRUE  : the private copy is made whatever the options (the code as it is);
\*   FixedOptCopy = FALSE : the copy is made only where the first axis has its default ("that is where we write") -
\*                          the write under the second axis then lands in the caller's array when nothing had to be
\*                          converted (base layout): a violation that needs the PAIR of option values.
FrOptAliased(c, opt, l) == opt \in c.axopts /\ Len(c.axes) >= 2 /\ FrAxVec(c, opt)[1] # c.axes[1].vals[1]
                           /\ l = [order |-> "native", contig |-> "c", kind |-> "f8"]
FrAcquire(c, opt, l, FixedTextWrite, FixedWrap, FixedOptCopy) ==     \* "alias" or "copy": what the callee works on
    IF c.path = "copy" THEN (IF ~FixedOptCopy /\ FrOptAliased(c, opt, l) THEN "alias" ELSE "copy")
    ELSE IF c.path = "wrap" THEN (IF FixedWrap THEN "copy" ELSE "alias")
    ELSE IF c.path = "alias_read" THEN (IF l = [order |-> "native", contig |-> "c", kind |-> l.kind] THEN "alias" ELSE "copy")
    ELSE IF FixedTextWrite /\ FrNeedsNative(c, opt, l) THEN "copy" ELSE "alias"
FrWritesWork(c, opt, l, v) ==                          \* does the callee write into what it works on?
    IF c.path = "copy" THEN (IF opt \in c.axopts /\ Len(c.axes) >= 2  \* in-place unit conversion etc. on what it holds
                             THEN FrAxVec(c, opt)[1] = c.axes[1].vals[1] \/ FrAxVec(c, opt)[2] # c.axes[2].vals[1] ELSE TRUE)
    ELSE IF c.path = "wrap" THEN FrNeedsWrap(c, v)     \* data dependent
    ELSE IF c.path = "alias_read" THEN FALSE
    ELSE FrNeedsNative(c, opt, l)                      \* byteswap(True) + dtype flip
=============================================================================
