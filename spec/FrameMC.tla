------------------------------- MODULE FrameMC -------------------------------
(* Exhaustive enumeration of the frame-condition catalogue:                         *)
(*  - ChooseCall / ChooseLayouts enumerate catalogue x dimensionality x option x     *)
(*    (layout assignment, value-class assignment); every built invocation is exported*)
(*    and executed on the real function with arguments constructed in exactly that   *)
(*    layout and holding values of exactly that class; the assignments also cover     *)
(*    exotic element kinds, a size class per argument and the deliberate rejections  *)
(*    (FrExpectReject is exported with the case);                                    *)
(*  - Invoke is the property-level action: the call returns or is rejected and every  *)
(*    argument not documented as in-place is UNCHANGED;                              *)
(*  - MAcquire / MWork / MReturn are the implementation-shaped path (alias or copy,  *)
(*    then possibly an in-place conversion of what the callee works on - for some    *)
(*    paths only when the VALUES call for it); MechRefines says that path is a        *)
(*    refinement of Invoke.                                                          *)
EXTENDS Frame, Json

CONSTANTS Families,        \* families of the catalogue to enumerate
          NDims,           \* dimensionalities to enumerate (subset of 0..2)
          Pairwise,        \* TRUE: also vary two parameters at once (layouts and value classes)
          ValNDims,        \* dimensionalities in which the value classes are explored
          FixedTextWrite,  \* mechanism variant, see Frame.tla
          FixedWrap,       \* mechanism variant, see Frame.tla
          FixedOptCopy,    \* mechanism variant, see Frame.tla
          DoExport

VARIABLES phase, call, nd, opt, lay, val, size, args0, args, outcome, work, ver
vars == <<phase, call, nd, opt, lay, val, size, args0, args, outcome, work, ver>>

C == FrCallNamed(call)
NP == Len(C.params)

ASSUME Cardinality(FrCallNames) = Cardinality(FrCalls)          \* names identify calls

Init == /\ phase = "start" /\ call = "" /\ nd = 0 /\ opt = "" /\ lay = <<>> /\ val = <<>> /\ size = <<>>
        /\ args0 = <<>> /\ args = <<>> /\ outcome = "" /\ work = <<>> /\ ver = <<>>

ChooseCall ==
    /\ phase = "start"
    /\ \E c \in {x \in FrCalls : x.fam \in Families} : \E d \in c.ndims \cap NDims : \E o \in c.opts \cup c.axopts :
          call' = c.name /\ nd' = d /\ opt' = o
    /\ phase' = "call" /\ UNCHANGED <<lay, val, size, args0, args, outcome, work, ver>>

\* abstract snapshot of an argument built in layout l holding values of class v
Snap0(l, d, v) == [data |-> <<"d0", v>>, base |-> <<"b0", v>>, dtype |-> <<l.kind, l.order>>, flags |-> <<l.contig, d>>]

ChooseLayouts ==
    /\ phase = "call"
    /\ \E a \in FrAssignments(C, nd, opt, Pairwise, ValNDims) :
          /\ lay' = a.lay /\ val' = a.val /\ size' = a.size
          /\ args0' = [i \in 1..NP |-> Snap0(a.lay[i], nd, a.val[i])]
          /\ args' = [i \in 1..NP |-> Snap0(a.lay[i], nd, a.val[i])]
          /\ work' = [i \in 1..NP |-> "none"] /\ ver' = [i \in 1..NP |-> 0]
    /\ phase' = "built" /\ UNCHANGED <<call, nd, opt, outcome>>

\* ---- property level: the call, with its frame condition ------------------------------
Protected == {i \in 1..NP : ~C.params[i].mut}
\* the call returns, or it is rejected (deliberately - FrExpectReject - or not): the frame condition is the same
Invoke ==
    /\ phase = "built"
    /\ outcome' \in {"returned", "raised"}
    /\ \E W \in SUBSET ((1..NP) \ Protected) :          \* documented in-place arguments may be written
          args' = [i \in 1..NP |-> IF i \in W THEN [args[i] EXCEPT !.data = <<"d1", val[i]>>, !.base = <<"b1", val[i]>>] ELSE args[i]]
    /\ phase' = "returned"
    /\ UNCHANGED <<call, nd, opt, lay, val, size, args0, work, ver>>

\* ---- implementation-shaped path ------------------------------------------------------------
MAcquire ==
    /\ phase = "built"
    /\ work' = [i \in 1..NP |-> FrAcquire(C, opt, lay[i], FixedTextWrite, FixedWrap, FixedOptCopy)]
    /\ phase' = "m_acquired" /\ UNCHANGED <<call, nd, opt, lay, val, size, args0, args, outcome, ver>>

MWork ==
    /\ phase = "m_acquired"
    /\ ver' = [i \in 1..NP |-> IF work[i] = "alias" /\ FrWritesWork(C, opt, lay[i], val[i]) THEN ver[i] + 1 ELSE ver[i]]
    /\ phase' = "m_worked" /\ UNCHANGED <<call, nd, opt, lay, val, size, args0, args, outcome, work>>

MReturn ==
    /\ phase = "m_worked"
    /\ args' = [i \in 1..NP |-> IF ver[i] > 0 THEN [args[i] EXCEPT !.data = <<"d1", val[i]>>, !.base = <<"b1", val[i]>>] ELSE args[i]]
    /\ outcome' = "returned" /\ phase' = "m_returned"
    /\ UNCHANGED <<call, nd, opt, lay, val, size, args0, work, ver>>

\* the callee raises after it has worked (a rejection found late): what it wrote into an alias stays written
MReject ==
    /\ phase = "m_worked"
    /\ args' = [i \in 1..NP |-> IF ver[i] > 0 THEN [args[i] EXCEPT !.data = <<"d1", val[i]>>, !.base = <<"b1", val[i]>>] ELSE args[i]]
    /\ outcome' = "raised" /\ phase' = "m_returned"
    /\ UNCHANGED <<call, nd, opt, lay, val, size, args0, work, ver>>

Next == ChooseCall \/ ChooseLayouts \/ Invoke \/ MAcquire \/ MWork \/ MReturn \/ MReject
NextExport == ChooseCall \/ ChooseLayouts
Spec == Init /\ [][Next]_vars

\* ---- properties ------------------------------------------------------------------------------
FrameHolds  == phase = "returned"   => FrFrameFailing(C, args0, args) = {}
MechRefines == phase = "m_returned" => FrFrameFailing(C, args0, args) = {}

\* the action-level statement of the same thing
FrameAction == [][phase = "built" /\ phase' = "returned" =>
                    \A i \in Protected : args'[i] = args[i]]_vars

CatalogueOK == \A c \in FrCalls :
    /\ Len(c.params) >= 1 /\ c.ndims \subseteq 0..2 /\ c.ndims # {} /\ c.opts # {} /\ c.text \subseteq c.opts
    /\ \A i \in DOMAIN c.params : c.params[i].base \in c.params[i].kinds /\ c.params[i].kinds \subseteq FrKinds
                                    /\ "ord" \in c.params[i].vals /\ c.params[i].vals \subseteq FrVals
    /\ \E i \in DOMAIN c.params : ~c.params[i].mut
    /\ c.rejopts \subseteq c.opts /\ c.big \subseteq c.opts /\ (c.big # {} => 1 \in c.ndims)
    /\ \A i, j \in DOMAIN c.params : i # j => c.params[i].p # c.params[j].p
    \* option axes: two to four axes of at least two values; the vectors have distinct option names, none of them a named option;
    \* every pair of values of two axes occurs in a vector (strength 2)
    /\ (c.axes # <<>> => Len(c.axes) \in 2..4 /\ \A i \in DOMAIN c.axes : Len(c.axes[i].vals) >= 2)
    /\ Cardinality(c.axopts) = Cardinality(FrAxVectors(c.axes)) /\ c.axopts \cap c.opts = {}
    /\ \A i, j \in DOMAIN c.axes : i < j => \A a \in VRange(c.axes[i].vals), b \in VRange(c.axes[j].vals) :
           \E v \in FrAxVectors(c.axes) : v[i] = a /\ v[j] = b

LayoutsOK == phase \notin {"start", "call"} =>
    \A i \in 1..NP : /\ lay[i].kind \in FrKindsOf(C.params[i]) /\ FrLayoutOK(lay[i], nd) /\ FrValOK(C.params[i], lay[i], val[i], nd)
                     /\ size[i] \in FrSizes /\ (size[i] = "large" => nd = 1 /\ opt \in C.big)
                     /\ (opt \in C.axopts => val[i] = "ord" /\ size[i] = "small")

\* ---- export ----------------------------------------------------------------------------------
Export == (DoExport /\ phase = "built") =>
    PrintT(<<"CASE", ToJson([call |-> call, fam |-> C.fam, nd |-> nd, opt |-> opt,
                             params |-> [i \in 1..NP |-> [p |-> C.params[i].p, role |-> C.params[i].role,
                                                          mut |-> C.params[i].mut, lay |-> lay[i], val |-> val[i], size |-> size[i]]],
                             axn |-> [i \in DOMAIN C.axes |-> C.axes[i].ax],
                             expect |-> IF FrExpectReject(C, opt, val, size) THEN "reject" ELSE "any"])>>)
=============================================================================
