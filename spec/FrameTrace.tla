------------------------------- MODULE FrameTrace -------------------------------
(* Trace validation of the frame condition: every recorded invocation of a catalogue  *)
(* entry on real arguments must be an Invoke step of Frame / FrameMC - whatever the    *)
(* call returned or raised, the snapshot of every argument that is not documented as   *)
(* in-place is the same before and after.  One ndjson line per invocation:             *)
(*   {"id": k, "call": name, "opt": o, "nd": d, "lay": [{"order","contig","kind"}..],  *)
(*    "val": [value class ..], "size": ["small"|"large" ..],                            *)
(*    "outcome": "returned"|"raised", "pre": [snap..], "post": [snap..]}               *)
(*   snap = {"data","base","dtype","flags"} (opaque tokens of the real argument)       *)
(* Failing clauses are printed as "<parameter index>:<what changed>".                  *)
EXTENDS Frame, Json, IOUtils

VARIABLES blk, tid
Traces == ndJsonDeserialize(IOEnv.TRACE_FILE)
NT == Len(Traces)
BlockSize == 256
NBlocks == (NT + BlockSize - 1) \div BlockSize

Init == blk = 0 /\ tid = 0
PickBlock == blk = 0 /\ tid = 0 /\ \E b \in 1..NBlocks : blk' = b /\ tid' = 0
PickTrace == blk > 0 /\ tid = 0
             /\ \E t \in ((blk - 1) * BlockSize + 1)..VMin2(blk * BlockSize, NT) : tid' = t /\ blk' = blk
Next == PickBlock \/ PickTrace

\* the recorded invocation must be a point of the catalogue x layout space
InCatalogue(r) ==
    /\ r.call \in FrCallNames
    /\ LET c == FrCallNamed(r.call) IN
         /\ r.opt \in c.opts \cup c.axopts /\ r.nd \in c.ndims
         /\ Len(r.lay) = Len(c.params) /\ Len(r.pre) = Len(c.params) /\ Len(r.post) = Len(c.params) /\ Len(r.val) = Len(c.params)
         /\ Len(r.size) = Len(c.params)
         /\ \A i \in DOMAIN c.params : r.size[i] \in FrSizes /\ (r.size[i] = "large" => r.nd = 1 /\ r.opt \in c.big)
         /\ \A i \in DOMAIN c.params : r.lay[i].kind \in FrKindsOf(c.params[i]) /\ FrLayoutOK(r.lay[i], r.nd)
                                         /\ FrValOK(c.params[i], r.lay[i], r.val[i], r.nd)
    /\ r.outcome \in {"returned", "raised"}

FailingRec(r) ==
    IF ~InCatalogue(r) THEN {"0:not_in_catalogue"}
    ELSE {ToString(x[1]) \o ":" \o x[2] : x \in FrFrameFailing(FrCallNamed(r.call), r.pre, r.post)}

Check == tid > 0 =>
    LET r == Traces[tid]  f == FailingRec(r)
    IN f = {} \/ PrintT(<<"REJECT", ToJson([id |-> r.id, failing |-> f])>>)
=============================================================================
