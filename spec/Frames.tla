------------------------------- MODULE Frames -------------------------------
(* Celestial coordinate conversions of esutil.coords as an exact specification    *)
(* (property C09).  EXTENDS Sphere (lattices, SepGC, CosSep).                      *)
(*                                                                                *)
(*  A. the conversions as edges of a groupoid over the frames eq, gal, ec (per    *)
(*     epoch), sdss (survey lambda/eta) and xyz (unit vectors): selectors 1..6    *)
(*     are euler's, 7..10 the SDSS and unit-vector conversions (11 = rotate, not   *)
(*     an edge).  A path is a composable sequence of selectors; the property       *)
(*     asserts that every path equals its canonical form (identity for a loop -    *)
(*     "undone by its inverse" - the direct conversion otherwise - "chained =      *)
(*     direct").  The path equations are derived by enumeration in FramesMC and    *)
(*     replayed into the real code; FramesTrace judges what came back.             *)
(*  B. the documented pole and node constants as exact decimals and the anchor     *)
(*     facts they imply (pole -> latitude 90, node -> (omega, 0), source pole ->   *)
(*     (omega + 90, pole latitude), and the inverse facts); exact decimal sky      *)
(*     points (resolution 1e-12 degree) as the inputs of the path equations.       *)
(*  C. shiftlon / shiftra as exact arithmetic mod 360 on dyadic lattices           *)
(*     (eighths and 2^-20ths of a degree), with the stated result intervals, and   *)
(*     an implementation-shaped model of the code's add-then-fold steps.           *)
(*  D. rotate with Euler angles that are multiples of 90 degrees: the image of     *)
(*     the rational sphere is a proper signed coordinate permutation (one of the   *)
(*     24 rotations of the cube), the same one for every point; the Euler triples  *)
(*     that may be "its inverse".                                                  *)
(*  E. eq2xyz of a rational-sphere point is its (a,b,c)/d; unit length.            *)
EXTENDS Sphere

\* ==================================================================================
\* A. frames, selectors, paths
\* ==================================================================================
\* "eqr" is the equatorial frame with coordinates in RADIANS (units='rad' of eq2xyz / xyz2eq), "xyzs"
\* the unit vectors of the stomp convention (stomp=True: longitude counted from the SDSS node)
FrameNames == {"eq", "eqr", "gal", "ec", "sdss", "xyz", "xyzs"}
Selectors  == (1..10) \cup (12..17)
RotateSel  == 11                                   \* coords.rotate: judged like a conversion, not an edge
\* 9 / 10: eq2xyz / xyz2eq with the default options; 12..17: the other members of their option product
SelSrc(s) == CASE s = 1 -> "eq"  [] s = 2 -> "gal"  [] s = 3 -> "eq"   [] s = 4 -> "ec"  [] s = 5 -> "ec"
               [] s = 6 -> "gal" [] s = 7 -> "eq"   [] s = 8 -> "sdss" [] s = 9 -> "eq"  [] s = 10 -> "xyz"
               [] s = 11 -> "eq"
               [] s = 12 -> "eq"  [] s = 13 -> "xyzs" [] s = 14 -> "eqr" [] s = 15 -> "xyz"
               [] s = 16 -> "eqr" [] s = 17 -> "xyzs"
SelDst(s) == CASE s = 1 -> "gal" [] s = 2 -> "eq"   [] s = 3 -> "ec"   [] s = 4 -> "eq"  [] s = 5 -> "gal"
               [] s = 6 -> "ec"  [] s = 7 -> "sdss" [] s = 8 -> "eq"   [] s = 9 -> "xyz" [] s = 10 -> "eq"
               [] s = 11 -> "eq"
               [] s = 12 -> "xyzs" [] s = 13 -> "eq" [] s = 14 -> "xyz" [] s = 15 -> "eqr"
               [] s = 16 -> "xyzs" [] s = 17 -> "eqr"
\* the esutil.coords function of a selector and its units / stomp options
SelName(s) == CASE s = 1 -> "eq2gal" [] s = 2 -> "gal2eq" [] s = 3 -> "eq2ec" [] s = 4 -> "ec2eq" [] s = 5 -> "ec2gal"
               [] s = 6 -> "gal2ec" [] s = 7 -> "eq2sdss" [] s = 8 -> "sdss2eq" [] s = 11 -> "rotate"
               [] s \in {9, 12, 14, 16} -> "eq2xyz" [] s \in {10, 13, 15, 17} -> "xyz2eq"
SelUnits(s) == IF s \in 14..17 THEN "rad" ELSE "deg"
SelStomp(s) == s \in {12, 13, 16, 17}
IsEuler(s) == s <= 6
\* conversions that document a dtype= option (the type the caller wants the result in); the others
\* (xyz2eq, rotate) compute in the type of what they are given
HasDType(s) == s \in (1..9) \cup {12, 14, 16}
\* frames joined by a single documented conversion
HasDirect(a, b) == \E s \in Selectors : SelSrc(s) = a /\ SelDst(s) = b
Direct(a, b)    == CHOOSE s \in Selectors : SelSrc(s) = a /\ SelDst(s) = b
SelInverse(s)   == Direct(SelDst(s), SelSrc(s))

ValidPath(p) == /\ Len(p) >= 1 /\ \A k \in DOMAIN p : p[k] \in Selectors
                /\ \A k \in 1..(Len(p) - 1) : SelDst(p[k]) = SelSrc(p[k + 1])
PathSrc(p) == SelSrc(p[1])
PathDst(p) == SelDst(p[Len(p)])
\* the canonical form the property asserts every path equals
HasCanon(p) == PathSrc(p) = PathDst(p) \/ HasDirect(PathSrc(p), PathDst(p))
Canon(p)    == IF PathSrc(p) = PathDst(p) THEN <<>> ELSE <<Direct(PathSrc(p), PathDst(p))>>

\* rewriting with the two-step equations only (inverse pairs vanish, composable pairs with a
\* direct conversion contract): every path of the diagram reduces to its canonical form, i.e.
\* the length-2 equations generate all the others (checked in FramesMC)
RECURSIVE ReduceStack(_, _)
ReduceStack(stack, rest) ==
    IF rest = <<>> THEN stack
    ELSE LET t == Head(rest) IN
         IF stack = <<>> THEN ReduceStack(<<t>>, Tail(rest))
         ELSE LET s == stack[Len(stack)]  front == SubSeq(stack, 1, Len(stack) - 1) IN
              IF SelSrc(s) = SelDst(t) THEN ReduceStack(front, Tail(rest))
              ELSE IF HasDirect(SelSrc(s), SelDst(t))
                   THEN ReduceStack(front, <<Direct(SelSrc(s), SelDst(t))>> \o Tail(rest))
                   ELSE ReduceStack(stack \o <<t>>, Tail(rest))
Reduce(p) == ReduceStack(<<>>, p)

\* tolerance of a path equation in units of 1e-9 degree.  The statement gives a tolerance per
\* conversion pair: 1e-9 degree when only SDSS / unit-vector conversions are involved, else 1e-5
\* degree (the precision of the tabulated constants).  An equation between n conversions in
\* total is allowed (n - 1) times that (a round trip, two conversions: once; chained against
\* direct, three conversions: twice) - the weaker reading of "to the same tolerance".
EqnCount(p)  == Len(p) + Len(Canon(p))
EqnUnit9(p)  == IF \A k \in DOMAIN p : ~IsEuler(p[k]) THEN 1 ELSE 10000
EqnTol9(p)   == EqnUnit9(p) * VMax2(1, EqnCount(p) - 1)
EqnKind(p)   == IF PathSrc(p) = PathDst(p) THEN (IF Len(p) = 2 THEN "inverse" ELSE "loop") ELSE "chain"
\* ---- options: result type asked for (dtype=) and representation of the input arrays ------------------
DTypes == {"f8", "f4", "ld"}                       \* float64 (default), float32, numpy.longdouble
\* array = contiguous float64 array; scalar / n1 / npscalar = python float, length-1 array, numpy.float64, one
\* call per point; list = python list; f4 / int = float32 / int64 arrays (of points exactly representable
\* in them); swapped = non-native byte order; strided = every second element of a larger buffer
Reps == {"array", "scalar", "n1", "npscalar", "list", "f4", "int", "swapped", "strided"}
\* working precision of an equation: float32 when the caller asked for float32 results, or gave float32
\* arrays to a conversion that computes in the type of its input (the source frame is a vector frame:
\* every conversion leaving it is xyz2eq); otherwise at least float64
EqnPrec(p, dt, rep) == IF (dt = "f4" /\ \E k \in DOMAIN p : HasDType(p[k])) \/ (rep = "f4" /\ ~HasDType(p[1])) THEN "f4" ELSE "f8"
\* at float32 precision the statement's 1e-9 / 1e-5 degree cannot be demanded: 1e-3 degree per conversion
\* pair (a few float32 roundings of a longitude: eps32 * 360 = 4e-5 degree each)
F4Tol9 == 1000000
EqnTol9x(p, dt, rep) == IF EqnPrec(p, dt, rep) = "f4" THEN F4Tol9 * VMax2(1, EqnCount(p) - 1) ELSE EqnTol9(p)
\* a latitude may exceed +-90 by float32 rounding only (4 ulp of 90 = 3.1e-5 degree), never in float64
LatSlack9(prec) == IF prec = "f4" THEN 31000 ELSE 0
AnchorTol9x(dt) == IF dt = "f4" THEN F4Tol9 ELSE 10000
\* isometry tolerance of one conversion (11 = rotate)
IsoTol9(s)   == IF s \in (7..10) \cup (12..17) THEN 1 ELSE 10000
RotTol9      == 10000
\* rotate computes in the type of its input: float32 arrays are judged at float32 resolution
RotTol9x(rp) == IF rp = "f4" THEN F4Tol9 ELSE RotTol9
\* eq2xyz of a rational-sphere point, at the resolution asked for
XyzTol9(dt)  == IF dt = "f4" THEN F4Tol9 ELSE 1
\* |length - 1| of a unit vector, in units of 2^-52 ("to rounding" = 4 ulp)
UnitTol52    == 4

\* documented output ranges (degrees).  Latitudes are within [-90, 90] (eq2sdss docstring for
\* lambda; the meaning of a latitude for the others); longitude: eta of eq2sdss in [-180, 180]
\* (docstring); the longitude range of the other conversions is not documented and not judged.
HasLonRange(s) == s = 7
LonLo(s) == -180
LonHi(s) == 180

\* ---- scale: every conversion (and shiftlon) works element by element, so it commutes with concatenation ----
\* A call on a million points is decided from the call on a few hundred: the array is the small point list
\* repeated (TileSeq), and the law says the result is the small result repeated.  FramesMC checks the law on a
\* small scope for an uninterpreted elementwise function and for an implementation-shaped block loop.
TileSeq(s, n)    == [i \in 1..n |-> s[((i - 1) % Len(s)) + 1]]
MapSeq(F(_), s)  == [i \in DOMAIN s |-> F(s[i])]
\* the same map computed in blocks of B elements, each block written back at its own offset
BlockMap(F(_), s, B) ==
    LET nb == (Len(s) + B - 1) \div B
        blk(j) == SubSeq(s, (j - 1) * B + 1, VMin2(j * B, Len(s)))
        RECURSIVE cat(_)
        cat(j) == IF j > nb THEN <<>> ELSE MapSeq(F, blk(j)) \o cat(j + 1)
    IN cat(1)
\* a large result obeys the law when it has the right length and every element agrees with the small result
\* (conversions: on the sky to 1e-9 degree - vector lanes may differ in the last bit; shiftlon: bit for bit)
ScaleTol9 == 1

\* ==================================================================================
\* B. decimal angles, documented constants, anchors, input points
\*    A decimal angle is <<hi, lo>> = hi*1e-6 + lo*1e-12 degrees, 0 <= lo < 1e6
\* ==================================================================================
Mega == 1000000
DMk(hi, lo)  == <<hi + (lo \div Mega), lo % Mega>>
DAng(i, micro, pico) == <<i * Mega + micro, pico>>
DDeg(n)    == <<n * Mega, 0>>
DAdd(x, y) == DMk(x[1] + y[1], x[2] + y[2])
DSub(x, y) == DMk(x[1] - y[1], x[2] - y[2])
DNeg(x)    == DSub(<<0, 0>>, x)
DNorm360(x) == <<x[1] % (360 * Mega), x[2]>>
DLt(x, y)  == x[1] < y[1] \/ (x[1] = y[1] /\ x[2] < y[2])
DLe(x, y)  == x = y \/ DLt(x, y)
DWellFormed(x) == 0 <= x[2] /\ x[2] < Mega
\* the eps-angle <<a, b>> of Sphere.tla instantiated with eps = 1e-12, 1e-9, 1e-6, 1e-3 degree (e = 0..3)
EToD(x, e) == CASE e = 0 -> DMk(x[1] * Mega, x[2])
                [] e = 1 -> DMk(x[1] * Mega, 1000 * x[2])
                [] e = 2 -> <<x[1] * Mega + x[2], 0>>
                [] e = 3 -> <<x[1] * Mega + 1000 * x[2], 0>>
DEps(e) == EToD(<<0, 1>>, e)

\* J2000 constants documented in euler's source comment (Hipparcos explanatory supplement)
Obliq  == DAng(23, 439291, 111100)      \* eps    = 23.4392911111   obliquity of the ecliptic
AlphaG == DAng(192, 859480, 0)          \* alphaG = 192.85948       RA of the galactic north pole
DeltaG == DAng(27, 128250, 0)           \* deltaG = 27.12825        Dec of the galactic north pole
LOmega == DAng(32, 931920, 0)           \* lomega = 32.93192        galactic longitude of the celestial equator
AlphaE == DAng(180, 23220, 0)           \* alphaE = 180.02322       ecliptic longitude of the galactic north pole
DeltaE == DAng(29, 811438, 523000)      \* deltaE = 29.811438523    ecliptic latitude of the galactic north pole
EOmega == DAng(6, 383974, 300000)       \* Eomega = 6.3839743       galactic longitude of the ecliptic equator

\* a rotation of spherical systems A -> B is fixed by: the pole of B in A coordinates (pl, pb) and
\* the B-longitude om of the ascending node of B's equator on A's equator (at A-longitude pl + 90)
RotDef(s) == CASE s = 1 -> [pl |-> AlphaG, pb |-> DeltaG, om |-> LOmega]
               [] s = 3 -> [pl |-> DDeg(270), pb |-> DSub(DDeg(90), Obliq), om |-> DDeg(0)]
               [] s = 5 -> [pl |-> AlphaE, pb |-> DeltaE, om |-> EOmega]
IsForward(s) == s \in {1, 3, 5}

DPt(lon, lat) == [lon |-> DNorm360(lon), lat |-> lat]
\* anchor = [in |-> point, out |-> point, free |-> BOOLEAN]; free: the output is a pole, its longitude is arbitrary
Anchor(i, o, f) == [in |-> i, out |-> o, free |-> f]
ForwardAnchors(d, L) ==
    { Anchor(DPt(d.pl, d.pb), DPt(L, DDeg(90)), TRUE),                                  \* pole -> latitude 90
      Anchor(DPt(DAdd(d.pl, DDeg(180)), DNeg(d.pb)), DPt(L, DDeg(-90)), TRUE),          \* antipode -> -90
      Anchor(DPt(DAdd(d.pl, DDeg(90)), DDeg(0)), DPt(d.om, DDeg(0)), FALSE),            \* ascending node
      Anchor(DPt(DAdd(d.pl, DDeg(270)), DDeg(0)), DPt(DAdd(d.om, DDeg(180)), DDeg(0)), FALSE),
      Anchor(DPt(L, DDeg(90)), DPt(DAdd(d.om, DDeg(90)), d.pb), FALSE),                 \* source north pole
      Anchor(DPt(L, DDeg(-90)), DPt(DAdd(d.om, DDeg(270)), DNeg(d.pb)), FALSE) }
\* L ranges over a few longitudes used where a pole is given as input (its longitude must not matter)
AnchorLons == {DDeg(0), DAng(217, 500000, 0)}
DIsPole(pt) == pt.lat = DDeg(90) \/ pt.lat = DDeg(-90)
\* the inverse conversion maps every anchor back (its output is free when it is a pole)
Anchors(s) == IF IsForward(s) THEN UNION {ForwardAnchors(RotDef(s), L) : L \in AnchorLons}
              ELSE {Anchor(a.out, a.in, DIsPole(a.in))
                      : a \in UNION {ForwardAnchors(RotDef(SelInverse(s)), L) : L \in AnchorLons}}
AnchorTol9 == 10000          \* 1e-5 degree

\* exact separation of two decimal points where it is plain arithmetic: one of them a pole, or both on
\* the equator (used to check that the anchor facts of one conversion are mutually consistent with an
\* isometry: FramesMC.AnchorTheorems)
DCircSep(x, y) == LET d == DNorm360(DSub(y, x)) IN IF DLe(d, DDeg(180)) THEN d ELSE DSub(DDeg(360), d)
DSepDefined(p, q) == DIsPole(p) \/ DIsPole(q) \/ (p.lat = DDeg(0) /\ q.lat = DDeg(0))
DSep(p, q) == IF p.lat = DDeg(0) /\ q.lat = DDeg(0) THEN DCircSep(p.lon, q.lon)
              ELSE IF DIsPole(p) THEN (IF p.lat = DDeg(90) THEN DSub(DDeg(90), q.lat) ELSE DAdd(DDeg(90), q.lat))
              ELSE (IF q.lat = DDeg(90) THEN DSub(DDeg(90), p.lat) ELSE DAdd(DDeg(90), p.lat))

\* input points of the path equations.  k = "d": exact decimal coordinates (lon, lat) in the source frame
\* (for sdss: lon = eta, lat = lambda; for xyz / xyzs: the unit vector at (lon, lat); for eqr: the same
\* position given in radians); k = "r": the rational-
\* sphere point v (for the spherical frames: its longitude / latitude)
PtD(lon, lat) == [k |-> "d", lon |-> lon, lat |-> lat, v |-> <<0, 0, 0, 1>>]
PtR(v)        == [k |-> "r", lon |-> <<0, 0>>, lat |-> <<0, 0>>, v |-> v]
ValidIn(fr, pt) ==
    IF pt.k = "r" THEN SIsUnit(pt.v)
    ELSE /\ pt.k = "d" /\ DWellFormed(pt.lon) /\ DWellFormed(pt.lat)
         /\ DLe(DDeg(-90), pt.lat) /\ DLe(pt.lat, DDeg(90))
         /\ fr \in FrameNames
         /\ IF fr = "sdss" THEN DLe(DDeg(-180), pt.lon) /\ DLe(pt.lon, DDeg(180))
            ELSE DLe(DDeg(0), pt.lon) /\ DLe(pt.lon, DDeg(360))

\* ==================================================================================
\* C. longitude shifting on a dyadic lattice: angles in units of 1/U degree, F = 360*U units
\*    (exact in binary64 for U = 8 and U = 2^20)
\* ==================================================================================
ShiftModes == {"shift", "shift_nowrap", "wrap", "none"}
HasShift(mode) == mode \in {"shift", "shift_nowrap"}
\* shiftlon(lon, shift=s): lon - s folded into [0, 360)  (wrap is ignored when shift is sent)
ShiftSpec(lon, s, F) == (lon - s) % F
\* shiftlon(lon) with wrap=True: values above 180 are lowered by 360
WrapSpec(lon, F)     == IF lon > F \div 2 THEN lon - F ELSE lon
ShiftExpect(mode, lon, s, F) == IF HasShift(mode) THEN ShiftSpec(lon, s, F)
                                ELSE IF mode = "wrap" THEN WrapSpec(lon, F) ELSE lon
\* the statement's relation: result = input - shift + k*360
SameMod(v, w, F) == (v - w) % F = 0
\* stated intervals: [0, 360) with a shift; "[-180, 180]" when wrapping (both ends are accepted for an
\* input of exactly 180); none when neither is requested
ShiftInterval(mode, v, F) == IF HasShift(mode) THEN 0 <= v /\ v < F
                             ELSE IF mode = "wrap" THEN -(F \div 2) <= v /\ v <= F \div 2 ELSE TRUE
ShiftCongruent(mode, lon, s, v, F) == SameMod(v, lon - (IF HasShift(mode) THEN s ELSE 0), F)
ShiftAccept(mode, lon, s, v, F) == ShiftInterval(mode, v, F) /\ ShiftCongruent(mode, lon, s, v, F)

\* implementation-shaped model of the code's steps for lon in [0, 360):
\*   abs_shift = |s| % 360;  s < 0: lon += abs_shift, fold values  > 360 (pinned) / >= 360 (repaired) down once
\*                           s >= 0: lon -= abs_shift, fold values < 0 up once
ShiftMech(lon, s, F, FixedGE) ==
    LET a == VAbs(s) % F
    IN IF s < 0 THEN LET v == lon + a IN IF (IF FixedGE THEN v >= F ELSE v > F) THEN v - F ELSE v
       ELSE LET v == lon - a IN IF v < 0 THEN v + F ELSE v

\* ==================================================================================
\* D. the 24 rotations of the cube acting on the rational sphere
\* ==================================================================================
Perms3 == {<<1, 2, 3>>, <<1, 3, 2>>, <<2, 1, 3>>, <<2, 3, 1>>, <<3, 1, 2>>, <<3, 2, 1>>}
PermSign(p) == IF p \in {<<1, 2, 3>>, <<2, 3, 1>>, <<3, 1, 2>>} THEN 1 ELSE -1
\* a signed permutation [p, s]: image coordinate k = s[k] * v[p[k]]
SignedPerms == {[p |-> p, s |-> s] : p \in Perms3, s \in {-1, 1} \X {-1, 1} \X {-1, 1}}
SPDet(m)    == PermSign(m.p) * m.s[1] * m.s[2] * m.s[3]
Rot24       == {m \in SignedPerms : SPDet(m) = 1}
SPApply(m, v) == <<m.s[1] * v[m.p[1]], m.s[2] * v[m.p[2]], m.s[3] * v[m.p[3]], v[4]>>
\* quarter turns (active, counter-clockwise seen from the positive axis)
CubeRz(v, k) == LET q == k % 4 IN IF q = 0 THEN v ELSE IF q = 1 THEN <<-v[2], v[1], v[3], v[4]>>
                ELSE IF q = 2 THEN <<-v[1], -v[2], v[3], v[4]>> ELSE <<v[2], -v[1], v[3], v[4]>>
CubeRx(v, k) == LET q == k % 4 IN IF q = 0 THEN v ELSE IF q = 1 THEN <<v[1], -v[3], v[2], v[4]>>
                ELSE IF q = 2 THEN <<v[1], -v[2], -v[3], v[4]>> ELSE <<v[1], v[3], -v[2], v[4]>>
\* two zxz conventions (angles in quarter turns): the one coords.rotate implements,
\* Rz(-psi) Rx(theta) Rz(phi), and the textbook one, Rz(psi) Rx(theta) Rz(phi)
CubeRotate(phi, theta, psi, v)    == CubeRz(CubeRx(CubeRz(v, phi), theta), -psi)
CubeRotateStd(phi, theta, psi, v) == CubeRz(CubeRx(CubeRz(v, phi), theta), psi)
\* the property-level demand for rotate at right angles: SOME proper rotation of the cube maps every
\* given point to its recorded image (the convention is not part of the statement)
IsCubeRotation(pts, imgs) == /\ Len(imgs) = Len(pts)
                             /\ \E m \in Rot24 : \A k \in DOMAIN pts : imgs[k] = SPApply(m, pts[k])
\* "its inverse": the statement does not say which Euler triple undoes rotate(phi, theta, psi).  Candidate
\* k gives the new (phi, theta, psi) as signed old angles <<index, sign>>: (psi, -theta, phi) inverts the
\* implemented convention, (-psi, -theta, -phi) the textbook one (both checked in FramesMC.CubeTheorems);
\* a rotation is accepted as undone when either does it
InvCands == << << <<3, 1>>, <<2, -1>>, <<1, 1>> >>, << <<3, -1>>, <<2, -1>>, <<1, -1>> >> >>
ApplyCand(c, ang) == [k \in 1..3 |-> c[k][2] * ang[c[k][1]]]

\* ==================================================================================
\* F. world / process state: a SESSION of calls in one process
\* ==================================================================================
\* The statement makes every conversion a function of its arguments.  So what a call returns depends on its
\* arguments only: not on the calls made earlier in the same process (by the caller, by another entry point, or
\* by the function itself), nor on what the caller did to the arrays it was handed (results are the caller's).
\* A session is a sequence of steps; a step is a call, optionally followed by its undoing with each candidate
\* inverse (rotate), optionally followed by the caller overwriting the result arrays (Scribble).  The invariant
\* is: every call works with the parameters it was GIVEN, as it does in a fresh world (empty memo).
\* Mechanisms: "none" no state between calls; "exact" a memo keyed by the exact parameters; "g6" a memo keyed
\* by the six-significant-digit image of the Euler angles (a '%g' key): DEVIATES on twin angles that agree to six
\* digits; "alias" a memo with exact keys that hands out its own storage: DEVIATES once the caller scribbles.
\* World angles are integers in units of 1e-7 degree (nine significant digits of a degree-scale angle).
WUnit == 10000000
RECURSIVE WPow10(_)
WPow10(n) == IF n <= 0 THEN 1 ELSE 10 * WPow10(n - 1)
RECURSIVE WDigits(_)
WDigits(m) == IF m < 10 THEN 1 ELSE 1 + WDigits(m \div 10)
WSign(a) == IF a < 0 THEN -1 ELSE 1
\* the six-significant-digit image of an angle (half up)
G6(a) == LET m == VAbs(a)  nd == WDigits(m) IN
         IF nd <= 6 THEN a ELSE LET q == WPow10(nd - 6) IN WSign(a) * (((m + q \div 2) \div q) * q)
\* the twin of an angle: 4 units more (in magnitude) in its n-th significant digit
WTwin(a, n) == a + WSign(a) * 4 * WPow10(WDigits(VAbs(a)) - n)
TwinDigits == {7, 8, 9}
MemoKinds == {"none", "exact", "g6", "alias"}
\* a call = [fn, p]: p the Euler angles of rotate, or <<selector, epoch>> of a conversion
WorldKey(mk, c) == [fn |-> c.fn, p |-> IF mk = "g6" /\ c.fn = "rotate" THEN [k \in DOMAIN c.p |-> G6(c.p[k])] ELSE c.p]
WorldHit(mk, memo, c) == mk # "none" /\ WorldKey(mk, c) \in DOMAIN memo
\* does the call work with the parameters it was given?
WorldOk(mk, memo, c) == WorldHit(mk, memo, c) => (memo[WorldKey(mk, c)].p = c.p /\ memo[WorldKey(mk, c)].clean)
\* the memo a call leaves behind; scr: the caller then overwrites the result it was handed
WorldPut(mk, memo, c, scr) ==
    IF mk = "none" THEN memo
    ELSE LET key == WorldKey(mk, c)
             old == IF key \in DOMAIN memo THEN memo[key] ELSE [p |-> c.p, clean |-> TRUE]
             new == [p |-> old.p, clean |-> old.clean /\ ~(mk = "alias" /\ scr)]
         IN [k \in DOMAIN memo \cup {key} |-> IF k = key THEN new ELSE memo[k]]
\* the calls of one step: the call itself, then (undo) rotate with each candidate inverse.  "randcap" is ANOTHER public
\* entry point of the module (drawing points in a cap centred at p = <<ra, dec>> with dorot=True): it rotates the points
\* it drew by rotate(0, dec, 0) and rotate(ra - 90, 0, 0) - calls made inside the process like any other
StepCalls(st) == IF st.c.fn = "randcap"
                 THEN << [fn |-> "rotate", p |-> <<0, st.c.p[2], 0>>], [fn |-> "rotate", p |-> <<st.c.p[1] - 90 * WUnit, 0, 0>>] >>
                 ELSE IF st.undo THEN <<st.c>> \o [k \in DOMAIN InvCands |-> [fn |-> "rotate", p |-> ApplyCand(InvCands[k], st.c.p)]]
                 ELSE <<st.c>>
\* tolerance of "the same outcome as in a fresh world": on the sky, 1e-9 degree (vector lanes may differ in the last bit)
WorldTol9 == 1
=============================================================================
